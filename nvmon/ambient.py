"""Ambient workload: the repository's own test-suite executed in-process while the all-call monitors are installed.
It contributes the NURBS-Book fixtures and realistic API usage; the suite's own assertions are not our verdict (only counted)."""
import contextlib
import io
import os
import shutil
import tempfile

from . import core


def run_repo_suite(ctx, select=None):
    import pytest
    tests = os.path.join(core.REPO, 'tests')
    if not os.path.isdir(tests):
        ctx.count('ambient-suite-missing')
        return
    cwd = os.getcwd()
    d = tempfile.mkdtemp(prefix='nv_ambient_')
    os.chdir(d)          # the tests write and delete export files in the cwd; nothing may land in the repository
    args = ['-q', '-p', 'no:cacheprovider', '--continue-on-collection-errors', '--ignore=' + os.path.join(tests, 'test_visualization.py'),
            '-o', 'python_files=test_*.py', '--rootdir=' + d, tests]
    if select:
        args += ['-k', select]
    buf = io.StringIO()
    try:
        with contextlib.redirect_stdout(buf), contextlib.redirect_stderr(buf):
            rc = pytest.main(args)
    finally:
        os.chdir(cwd)
        shutil.rmtree(d, ignore_errors=True)
    ctx.count('ambient-suite-runs')
    ctx.count('ambient-suite-exit-%s' % int(rc))
    tail = buf.getvalue().strip().split('\n')[-1:]
    ctx.notes['ambient_suite_last_line'] = tail[0] if tail else ''
