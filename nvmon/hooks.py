"""Attach monitors to functions / methods of the imported geomdl from outside (no source edits).

* post-conditions run only when monitors are not suspended (an oracle may call geomdl without recursion);
* every hook keeps calls / evaluated / ignored counters; a deciding hook with 0 evaluations => inconclusive;
* aliases (`from m import f`, `utilities.generate_knot_vector = knotvector.generate`, default arguments such as
  find_spans(func=find_span_linear)) are swept and rebound so that calls cannot bypass the wrapper;
* a target that does not exist any more is skipped and reported, not fatal.
"""
import functools
import sys
import types

_state = {'suspended': 0, 'depth': 0}
HOOKS = {}


class Hook(object):
    def __init__(self, name):
        self.name = name
        self.calls = 0
        self.evaluated = 0
        self.ignored = 0
        self.missing = False
        self.rebound = 0


class suspended(object):
    def __enter__(self):
        _state['suspended'] += 1

    def __exit__(self, *a):
        _state['suspended'] -= 1


def is_suspended():
    return _state['suspended'] > 0


def _sweep(original, wrapper):
    """rebind every other reference to `original` in loaded geomdl modules / classes / default args"""
    n = 0
    for mname, m in list(sys.modules.items()):
        if m is None or not (mname == 'geomdl' or mname.startswith('geomdl.')):
            continue
        for attr, val in list(vars(m).items()):
            if val is original:
                setattr(m, attr, wrapper)
                n += 1
            elif isinstance(val, types.FunctionType) and val.__defaults__:
                if any(d is original for d in val.__defaults__):
                    val.__defaults__ = tuple(wrapper if d is original else d for d in val.__defaults__)
                    n += 1
            elif isinstance(val, type):
                for cattr, cval in list(vars(val).items()):
                    if cval is original:
                        setattr(val, cattr, wrapper)
                        n += 1
    return n


def wrap_function(module, name, post, pre=None, thin=None):
    """post(hook, args, kwargs, result, pre_value) -> True if evaluated, False if ignored (out of domain)."""
    hk = HOOKS.setdefault('%s.%s' % (module.__name__.split('.')[-1], name), Hook('%s.%s' % (module.__name__, name)))
    orig = getattr(module, name, None)
    if orig is None:
        hk.missing = True
        return hk
    if getattr(orig, '_nv_wrapped', False):
        return hk

    @functools.wraps(orig)
    def wrapper(*a, **k):
        hk.calls += 1
        if _state['suspended']:
            return orig(*a, **k)
        if thin is not None and not thin(hk):
            return orig(*a, **k)
        pv = None
        if pre is not None:
            _state['suspended'] += 1
            try:
                pv = pre(a, k)
            finally:
                _state['suspended'] -= 1
        res = orig(*a, **k)
        _state['suspended'] += 1
        try:
            if post(hk, a, k, res, pv):
                hk.evaluated += 1
            else:
                hk.ignored += 1
        finally:
            _state['suspended'] -= 1
        return res
    wrapper._nv_wrapped = True
    wrapper._nv_orig = orig
    setattr(module, name, wrapper)
    hk.rebound = _sweep(orig, wrapper)
    return hk


def wrap_method(cls, name, post, pre=None, hook_name=None):
    """post(hook, self, args, kwargs, result, pre_value)"""
    hname = hook_name or '%s.%s' % (cls.__name__, name)
    hk = HOOKS.setdefault(hname, Hook(hname))
    orig = cls.__dict__.get(name)
    if orig is None:
        hk.missing = True
        return hk
    if getattr(orig, '_nv_wrapped', False):
        return hk

    @functools.wraps(orig)
    def wrapper(self, *a, **k):
        hk.calls += 1
        if _state['suspended']:
            return orig(self, *a, **k)
        pv = None
        if pre is not None:
            _state['suspended'] += 1
            try:
                pv = pre(self, a, k)
            finally:
                _state['suspended'] -= 1
        res = orig(self, *a, **k)
        _state['suspended'] += 1
        try:
            if post(hk, self, a, k, res, pv):
                hk.evaluated += 1
            else:
                hk.ignored += 1
        finally:
            _state['suspended'] -= 1
        return res
    wrapper._nv_wrapped = True
    wrapper._nv_orig = orig
    setattr(cls, name, wrapper)
    return hk


def report():
    return {n: {'calls': h.calls, 'evaluated': h.evaluated, 'ignored_out_of_domain': h.ignored,
                'missing': h.missing, 'aliases_rebound': h.rebound} for n, h in sorted(HOOKS.items())}


def thin_default(limit=400):
    """evaluate the first `limit` calls, then every 2^k-th"""
    def f(hk):
        c = hk.calls
        return c <= limit or (c & (c - 1)) == 0 or c % 97 == 0
    return f
