"""Shared pieces of the shape-preservation monitors (C04, C05, C06, C07, C12): probe sets, snapshots, comparisons."""
import contextlib
import io
from collections import Counter
from fractions import Fraction as F

from . import gen as G, ref


def scale_of_defn(S):
    m = 1.0
    for idx in S.net:
        for c in S.cart(idx):
            a = abs(float(c))
            if a > m:
                m = a
    return m


def probe_params(rng, S, nrand=8, maxn=40):
    """corners, all knots, span midpoints (per direction, combined randomly), random tuples — as exact-float tuples"""
    per = []
    for p, U in zip(S.p, S.U):
        n = len(U) - p - 1
        a, b = float(U[p]), float(U[n])
        ks = sorted(set(float(k) for k in U[p:n + 1]))
        mids = [0.5 * (x + y) for x, y in zip(ks, ks[1:])]
        per.append((a, b, ks, mids))
    out = [tuple(x[0] for x in per), tuple(x[1] for x in per)]
    for _ in range(nrand):
        out.append(tuple(rng.uniform(a, b) for a, b, _, _ in per))
    for _ in range(nrand):
        out.append(tuple(rng.choice(ks + mids) for _, _, ks, mids in per))
    if S.pdim == 1:
        out += [(k,) for k in per[0][2]] + [(m,) for m in per[0][3]]
    # de-duplicate, cap
    seen, res = set(), []
    for q in out:
        if q not in seen:
            seen.add(q)
            res.append(q)
    return res[:maxn]


def clear_of_knots(S, q, eps=1e-9):
    """True when each coordinate of q is exactly a knot of S or at least eps*range away from every knot"""
    for d, x in enumerate(q):
        U = S.U[d]
        rng_ = float(U[-1] - U[0]) or 1.0
        for k in set(U):
            dist = abs(F(x) - k)
            if 0 < dist < F(eps) * F(rng_):
                return False
    return True


def compare_object(ctx, o, S0, probes, tol, key, msg, what, mapf=None):
    """library evaluation of the live object at probes vs reference definition S0 (optionally at mapped params)"""
    bad = 0
    for q in probes:
        q0 = mapf(q) if mapf else q
        got = G.evaluate_single(o, q)
        exact = S0.point(q0)
        if len(got) != len(exact) or any(not abs(g - float(e)) <= tol for g, e in zip(got, exact)):
            bad += 1
            if bad == 1:
                ctx.fail(key, msg + ' (at %r: got %r, original shape gives %r)' % (q, list(got), [float(e) for e in exact]))
        else:
            ctx.ok(what)
    return bad == 0


def compare_defns(ctx, S1, S0, probes, tol, key, msg, what, mapf=None):
    """reference evaluation of definition S1 vs S0 (both exact) — catches a compensating evaluator bug"""
    for q in probes:
        q0 = mapf(q) if mapf else q
        if not clear_of_knots(S1, q):
            continue
        a = S1.point(q)
        b = S0.point(q0)
        if len(a) != len(b) or any(abs(x - y) > F(tol) for x, y in zip(a, b)):
            ctx.fail(key, msg + ' (definition after the operation differs from the original at %r)' % (q,))
            return False
        ctx.ok(what)
    return True


def kv_multiset_equal(kv_post, expected, tol):
    if len(kv_post) != len(expected):
        return False
    if any(a > b for a, b in zip(kv_post, kv_post[1:])):
        return False
    return all(abs(a - b) <= tol for a, b in zip(kv_post, sorted(expected)))


def interior_distinct(p, U):
    n = len(U) - p - 1
    return sorted(set(k for k in U[p + 1:n] if U[p] < k < U[n]))


def multiplicity(U, u, tol=0.0):
    return sum(1 for k in U if abs(k - u) <= tol)


@contextlib.contextmanager
def quiet():
    """the method-level API reports rejected requests with print(); keep worker logs clean"""
    buf = io.StringIO()
    with contextlib.redirect_stdout(buf):
        yield buf


def same_snapshot(a, b):
    return a == b


def call_insert(o, d, u, r, via):
    """single-direction insertion through the chosen public route"""
    from geomdl import operations
    pdim = o.pdimension
    if via == 'operations':
        prm = [None] * pdim
        num = [0] * pdim
        prm[d], num[d] = u, r
        operations.insert_knot(o, prm, num)
    else:
        if pdim == 1:
            o.insert_knot(u, num=r)
        else:
            names = 'uvw'[:pdim]
            kw = {names[d]: u}
            for i, nm in enumerate(names):
                kw['num_' + nm] = r if i == d else 0
            o.insert_knot(**kw)


def call_remove(o, d, u, r, via):
    from geomdl import operations
    pdim = o.pdimension
    if via == 'operations':
        prm = [None] * pdim
        num = [0] * pdim
        prm[d], num[d] = u, r
        operations.remove_knot(o, prm, num)
    else:
        if pdim == 1:
            o.remove_knot(u, num=r)
        else:
            names = 'uvw'[:pdim]
            kw = {names[d]: u}
            for i, nm in enumerate(names):
                kw['num_' + nm] = r if i == d else 0
            o.remove_knot(**kw)


def pick_insertion(rng, o, d, prefer_knot=0.4, fine=False, mindist=1e-3, small=0.0):
    """(u, s, tag): insertion parameter in direction d: a stored interior knot with multiplicity < p, or a value at least
    1e-3*range away from every knot. Returns None if nothing admissible."""
    p = G.degrees_of(o)[d]
    U = G.kvs_of(o)[d]
    n = len(U) - p - 1
    a, b = U[p], U[n]
    cnt = Counter(U)
    knots = [k for k in interior_distinct(p, U) if cnt[k] < p]
    # the ends of an UNCLAMPED domain are knots of multiplicity < p + 1 as well: parameters of the domain like any other (inserting
    # there is how such a shape gets clamped)
    ends = [k for k in (a, b) if cnt[k] < p and a < b]
    if ends and rng.random() < 0.3:
        u = rng.choice(ends)
        return u, cnt[u], 'on-domain-end-m%d' % cnt[u]
    if knots and rng.random() < prefer_knot:
        u = rng.choice(knots)
        return u, cnt[u], 'on-knot-m%d' % cnt[u]
    # the parameter value 0.0 strictly inside an un-normalised domain is as admissible as any other
    if a < 0.0 < b and rng.random() < 0.35 and all(abs(k) >= mindist * (b - a) for k in set(U)):
        return 0.0, 0, 'in-span'
    # with probability `small`: a parameter 1.2e-3 .. 9.9e-3 of the range away from a domain end (still >= 1e-3 from every knot); decimal
    # round trips of such values at 18 places are not the identity, which is where tolerance/exact-comparison mismatches surface
    if small and rng.random() < small:
        for _ in range(20):
            h = (b - a) * rng.uniform(1.2e-3, 9.9e-3)
            u = a + h if rng.random() < 0.75 else b - h
            if a < u < b and all(abs(u - k) >= 1e-3 * (b - a) for k in set(U)):
                return u, 0, 'in-span'
    for _ in range(50):
        u = rng.uniform(a, b) if not fine else a + (b - a) * rng.choice([rng.uniform(0, 1e-4), rng.uniform(1e-4, 1e-2)])
        # (fine: clear of every knot by more than the library's knot-matching tolerance, 1e-7 of the whole knot range - for an unclamped
        # vector that is more than 1e-7 of the domain)
        if a < u < b and all(abs(u - k) >= (mindist * (b - a) if not fine else 2.5e-7 * max(b - a, U[-1] - U[0])) for k in set(U)):
            return u, 0, 'in-span'
    return None
