"""M-eval: post-condition on evaluators.*.evaluate(datadict, start=, stop=) — the single funnel through which
evaluate / evaluate_single / evaluate_list / evalpts / tessellation / split etc. all pass. Everything needed by the
oracle (degree, knot vectors, control points, sizes, sample sizes, rational flag) is in `datadict`."""
import math
from fractions import Fraction as F

from . import hooks, ref, gen as G
from .props import c03

_depth = [0]
LISTENERS = []          # callables (datadict, shape, params_list, points) -> None   (C18 subscribes)
STATE = {'ctx': None, 'calls': 0, 'max_points': 48, 'judge': True}


def shape_from_datadict(dd):
    pdim = dd['pdimension']
    degs = list(dd['degree'])
    kvs = [list(k) for k in dd['knotvector']]
    sizes = list(dd['size'])
    cp = [list(p) for p in dd['control_points']]
    idx = G.net_index(pdim, sizes)
    if len(cp) != len(idx):
        return None
    for p, U, n in zip(degs, kvs, sizes):
        if not c03.kv_ok(p, U, n):
            return None
    if dd['rational'] and any(not (pt[-1] > 0) for pt in cp):
        return None
    return ref.Shape(degs, kvs, sizes, {k: cp[f] for k, f in idx.items()}, dd['rational'])


def grid_params(start, stop, n):
    """exact images of linspace(start, stop, n) as the library documents it"""
    if start == stop:          # (an interval, however short, is sampled n times: only a single parameter gives a single point)
        return [F(start)]
    if n <= 1:
        return [F(start)]
    a, b = F(start), F(stop)
    return [a + (b - a) * i / (n - 1) for i in range(n)]


def post_evaluate(hk, self, a, k, res, pv):
    ctx = STATE['ctx']
    if not a:
        return False
    dd = a[0]
    try:
        pdim = dd['pdimension']
        shape = shape_from_datadict(dd)
    except Exception:
        return False
    if shape is None:
        return False
    ss = list(dd['sample_size'])
    doms = shape.domain()
    # an evaluator asked without a range samples the domain of the shape (C01: the grid starts and ends on the domain corners; the
    # library had defaulted to [0, 1] until N114 - a change that passes no range where the classes pass their domain is no alarm)
    if pdim == 1:
        start = [k.get('start', float(doms[0][0]))]
        stop = [k.get('stop', float(doms[0][1]))]
    else:
        start = list(k.get('start', [float(doms[d][0]) for d in range(pdim)]))
        stop = list(k.get('stop', [float(doms[d][1]) for d in range(pdim)]))
    for d in range(pdim):
        if not (doms[d][0] <= start[d] <= stop[d] <= doms[d][1]):
            return False
        if any(0 < abs(x - kk) < 1e-4 * float(doms[d][1] - doms[d][0]) for x in (start[d], stop[d]) for kk in set(shape.U[d])):
            return False
    per = [grid_params(start[d], stop[d], ss[d]) for d in range(pdim)]
    total = 1
    for pp in per:
        total *= len(pp)
    site = type(self).__name__
    if len(res) != total:
        if not STATE['judge']:
            return False
        ctx.fail('meval/grid-size/%s' % site, '%s.evaluate returned %d points for sample sizes %r (start=%r stop=%r)'
                 % (site, len(res), ss, start, stop))
        return True
    # choose which flat indices to judge
    STATE['calls'] += 1
    if total <= STATE['max_points']:
        idxs = range(total)
    else:
        step = max(1, total // STATE['max_points'])
        off = STATE['calls'] % step
        idxs = sorted(set([0, total - 1] + list(range(off, total, step))))
    S = None
    pts_out, prm_out = [], []
    for f in idxs:
        # u slowest ... last direction fastest
        rem = f
        ii = []
        for d in reversed(range(pdim)):
            ii.append(rem % len(per[d]))
            rem //= len(per[d])
        ii.reverse()
        prm = [per[d][ii[d]] for d in range(pdim)]
        # keep clear of knots unless exactly on one (float image of the rational parameter decides the span)
        fprm = [float(x) for x in prm]
        skip = False
        for d in range(pdim):
            rng_ = float(doms[d][1] - doms[d][0])
            for kk in set(shape.U[d]):
                if 0 < abs(prm[d] - kk) < F(1, 10 ** 9) * F(rng_):
                    skip = True
        if skip:
            continue
        if not STATE['judge']:
            pts_out.append(res[f])
            prm_out.append(prm)
            continue
        exact = shape.point(prm)
        if S is None:
            S = max(1.0, max(abs(float(c)) for P in shape.net.values() for c in (P[:-1] if shape.rational else P)) /
                    (min(float(P[-1]) for P in shape.net.values()) if shape.rational else 1.0))
            # conditioning: the grid parameters are floats (a few roundings in linspace, then its documented rounding to 18 decimals), so
            # the sampled point may be off by |dS/du| * du; sound bound of the derivative: degree * 2 max|P| / (shortest knot interval),
            # for rational shapes through the quotient rule. Negligible (<< 1e-9 S) unless knot intervals are ~1e10 ulps short.
            COND = 0.0
            coords = [abs(float(c)) for P in shape.net.values() for c in (P[:-1] if shape.rational else P)]
            pmax_ = max(coords) if coords else 0.0
            if shape.rational:
                ws_ = [float(P[-1]) for P in shape.net.values()]
                lip = 4.0 * max(ws_) * (pmax_ / min(ws_)) / min(ws_)
            else:
                lip = 2.0 * pmax_
            for d in range(pdim):
                ks_ = sorted(set(float(x) for x in shape.U[d]))
                hmin_ = min((y - x for x, y in zip(ks_, ks_[1:])), default=1.0)
                du_ = 4.0 * math.ulp(max(abs(float(start[d])), abs(float(stop[d])))) + 5e-19
                COND += shape.p[d] * lip / hmin_ * du_
        got = res[f]
        if len(got) != len(exact) or any(not abs(g - float(e)) <= 1e-9 * S + COND for g, e in zip(got, exact)):
            ctx.fail('meval/point/%s' % site, '%s.evaluate: point %d of %d (params %r) = %r; definition gives %r' %
                     (site, f, total, fprm, list(got), [float(e) for e in exact]),
                     degree=list(dd['degree']), size=list(dd['size']), sample_size=ss, start=start, stop=stop)
        else:
            ctx.ok('meval')
        pts_out.append(got)
        prm_out.append(prm)
    for fn in LISTENERS:
        fn(dd, shape, prm_out, pts_out)
    return True


def install(ctx, judge=True):
    from geomdl import evaluators
    STATE['ctx'] = ctx
    STATE['judge'] = judge

    def make_post():
        def post(hk, self, a, k, res, pv):
            return post_evaluate(hk, self, a, k, res, pv)
        return post
    for cname in ('CurveEvaluator', 'CurveEvaluatorRational', 'SurfaceEvaluator', 'SurfaceEvaluatorRational',
                  'VolumeEvaluator', 'VolumeEvaluatorRational', 'CurveEvaluator2', 'SurfaceEvaluator2'):
        cls = getattr(evaluators, cname, None)
        if cls is None or 'evaluate' not in cls.__dict__:
            continue
        _wrap_outermost(cls, 'evaluate', make_post(), 'meval:%s.evaluate' % cname)


def _wrap_outermost(cls, name, post, hook_name):
    """like hooks.wrap_method, but only the outermost evaluate() of a nested (rational -> base) call is judged"""
    import functools
    hk = hooks.HOOKS.setdefault(hook_name, hooks.Hook(hook_name))
    orig = cls.__dict__[name]
    if getattr(orig, '_nv_wrapped', False):
        return

    @functools.wraps(orig)
    def wrapper(self, *a, **k):
        hk.calls += 1
        if hooks.is_suspended() or _depth[0] > 0:
            _depth[0] += 1
            try:
                return orig(self, *a, **k)
            finally:
                _depth[0] -= 1
        _depth[0] += 1
        try:
            res = orig(self, *a, **k)
        finally:
            _depth[0] -= 1
        with hooks.suspended():
            if post(hk, self, a, k, res, None):
                hk.evaluated += 1
            else:
                hk.ignored += 1
        return res
    wrapper._nv_wrapped = True
    setattr(cls, name, wrapper)
