"""Seeded generators of shapes (as JSON-able dicts), knot vectors, parameters; builders geomdl <-> reference."""
import copy
from collections import Counter
from . import ref

KV_CLASSES = ('uniform', 'random', 'bezier', 'fullmult', 'unclamped', 'unclamped_rep', 'unclamped_endrep')


def interior_knots(rng, p, count, maxmult=None, fine=False):
    """sorted list of `count` interior knots in (0,1), multiplicities 1..maxmult, distinct values >= 1e-3 apart"""
    if count <= 0:
        return []
    maxmult = p if maxmult is None else max(1, min(p, maxmult))
    for _ in range(200):
        ks = []
        while len(ks) < count:
            k = round(rng.uniform(0.03, 0.97), 3) if not fine else rng.uniform(0.03, 0.97)
            m = rng.randint(1, maxmult)
            ks += [k] * min(m, count - len(ks))
        ks.sort()
        c = Counter(ks)
        if any(v > maxmult for v in c.values()):
            continue
        d = sorted(c)
        if all(b - a >= 2e-3 for a, b in zip(d, d[1:])):
            return ks
    # fall back to uniform
    return [float(i + 1) / (count + 1) for i in range(count)]


def knot_vector(rng, p, n, cls='random', lohi=(0.0, 1.0), fine=False):
    """n control points, degree p -> list of n+p+1 knots."""
    lo, hi = lohi
    m = n - p - 1  # interior count for clamped
    if cls == 'bezier':
        assert m == 0
        ks = []
    if cls in ('uniform', 'bezier'):
        ks = [float(i + 1) / (m + 1) for i in range(m)]
        base = [0.0] * (p + 1) + ks + [1.0] * (p + 1)
    elif cls == 'random':
        base = [0.0] * (p + 1) + interior_knots(rng, p, m, fine=fine) + [1.0] * (p + 1)
    elif cls == 'fullmult':
        # every interior knot with multiplicity p where room allows
        ks = []
        vals = sorted(set(round(rng.uniform(0.05, 0.95), 2) for _ in range(max(1, m // max(1, p) + 1))))
        vals = [v for i, v in enumerate(vals) if i == 0 or v - vals[i - 1] >= 0.02]
        for v in vals:
            ks += [v] * min(p, m - len(ks))
        while len(ks) < m:
            x = round(rng.uniform(0.05, 0.95), 3)
            if all(abs(x - k) >= 2e-3 for k in ks):
                ks.append(x)
        ks.sort()
        base = [0.0] * (p + 1) + ks + [1.0] * (p + 1)
    elif cls == 'jump':
        # clamped, one interior knot of multiplicity p + 1 (the shape is discontinuous there) when there is room, otherwise 'random'
        if m >= p + 1:
            v = round(rng.uniform(0.3, 0.7), 2)
            rest = interior_knots(rng, p, m - p - 1, fine=False) if m - p - 1 > 0 else []
            rest = [k for k in rest if abs(k - v) > 1e-3]
            while len(rest) < m - p - 1:
                x = round(rng.uniform(0.05, 0.95), 3)
                if abs(x - v) > 1e-3:
                    rest.append(x)
            base = [0.0] * (p + 1) + sorted(rest + [v] * (p + 1)) + [1.0] * (p + 1)
        else:
            base = [0.0] * (p + 1) + interior_knots(rng, p, m, fine=fine) + [1.0] * (p + 1)
    elif cls == 'unclamped':
        tot = n + p + 1
        base = [float(i) / (tot - 1) for i in range(tot)]
    elif cls == 'unclamped_rep':
        tot = n + p + 1
        # non-decreasing with some repeated interior knots (mult <= p), ends not clamped
        vals = []
        x = 0.0
        while len(vals) < tot:
            mlt = rng.randint(1, max(1, min(p, 2)))
            vals += [x] * min(mlt, tot - len(vals))
            x += rng.choice([0.5, 1.0, 1.5, 2.0])
        # keep the domain ends U[p], U[n] simple so that the last domain span is non-empty
        vals.sort()
        top = vals[-1] if vals[-1] > 0 else 1.0
        base = [v / top for v in vals]
        # enforce non-empty first and last domain spans
        if base[p] == base[p + 1] or base[n - 1] == base[n] or Counter(base).most_common(1)[0][1] > p:
            base = [float(i) / (tot - 1) for i in range(tot)]
    elif cls == 'unclamped_endrep':
        # unclamped, and the knot at the right (and sometimes left) domain end is repeated (multiplicity <= p):
        # the last domain span [U[n-1], U[n]] is empty and the end parameter belongs to the span before it
        tot = n + p + 1
        vals = [float(i) for i in range(tot)]
        r = rng.randint(1, min(p - 1, n - p - 1)) if min(p - 1, n - p - 1) >= 1 else 0
        for k in range(1, r + 1):
            vals[n - k] = vals[n]
        if rng.random() < 0.4:
            # ... and repeated beyond the domain end as well (up to multiplicity p + 1 in all: the basis functions jump there and the
            # closed last span means the left limit)
            for k in range(1, rng.randint(1, p - r) + 1):
                vals[n + k] = vals[n]
        if p > 1 and rng.random() < 0.4 and n - r > p + 2:
            vals[p + 1] = vals[p]
        vals.sort()
        base = [(v - vals[0]) / (vals[-1] - vals[0]) for v in vals]
    else:
        raise ValueError(cls)
    if (lo, hi) != (0.0, 1.0):
        base = [lo + (hi - lo) * k for k in base]
    return base


def rand_point(rng, dim, cls):
    if cls == 'lattice':
        return [float(rng.randint(-9, 9)) for _ in range(dim)]
    if cls == 'big':
        return [rng.uniform(-1e3, 1e3) for _ in range(dim)]
    return [rng.uniform(-10, 10) for _ in range(dim)]


def rand_weights(rng, n, cls):
    if cls == 'ones':
        return [1.0] * n
    if cls == 'const':
        c = rng.uniform(0.3, 4)
        return [c] * n
    if cls == 'twolevel':
        return [rng.choice([0.1, 10.0]) for _ in range(n)]
    if cls == 'arc':
        # the circle / revolved-shape pattern: the first weight is exactly 1.0, others sqrt(2)/2 or 1
        return [1.0 if i % 2 == 0 else 0.7071067811865476 for i in range(n)]
    return [rng.uniform(0.2, 5) for _ in range(n)]


def rand_shape(rng, pdim, rational=None, maxdeg=None, maxextra=None, dim=None, kvcls=None, normalize=True,
               lohi=None, span=None, wcls=None, pcls=None, distinct_sizes=True, fine=False, clamped_only=False,
               mindeg=1, large=False, square=None):
    """A JSON-able shape dict. Control points are in library order (v fastest, then u, then w).
    large: degrees and sizes beyond the usual small ones (degree up to 10, up to 40 control points per curve; surfaces whose sizes
    and degrees differ strongly), overriding maxdeg / maxextra / mindeg."""
    if rational is None:
        rational = rng.random() < 0.5
    if large:
        maxdeg = {1: 10, 2: 6, 3: 4}[pdim]
        maxextra = {1: 30, 2: 10, 3: 4}[pdim]
        mindeg = max(mindeg, 1)
    if maxdeg is None:
        maxdeg = {1: 7, 2: 4, 3: 3}[pdim]
    if maxextra is None:
        maxextra = {1: 8, 2: 5, 3: 3}[pdim]
    if dim is None:
        dim = rng.choice([2, 3, 3, 3]) if pdim < 3 else 3
    if square is None:
        # all directions alike in degree and size but NOT in their knot vectors (what distinguishes the directions is the knot vector only)
        square = pdim > 1 and not large and kvcls is None and rng.random() < 0.08
    for _ in range(100):
        degs = [rng.randint(mindeg, maxdeg) for _ in range(pdim)]
        sizes = [d + 1 + rng.randint(0, maxextra) for d in degs]
        if square:
            degs = [degs[0]] * pdim
            sizes = [max(sizes[0], degs[0] + 3)] * pdim
            break
        if large:
            # at least one direction is really large, the others anything
            k = rng.randrange(pdim)
            degs[k] = rng.randint(max(mindeg, {1: 6, 2: 4, 3: 3}[pdim]), maxdeg)
            sizes[k] = degs[k] + 1 + rng.randint(maxextra // 2, maxextra)
        if pdim == 1 or not distinct_sizes or len(set(sizes)) == pdim:
            break
    kvs = []
    classes = []
    if normalize:
        lohi_ = (0.0, 1.0)
    else:
        lohi_ = lohi if lohi is not None else rng.choice([(0.0, 1.0), (2.0, 5.0), (-3.0, 7.5), (10.0, 10.5), (-1.0, 1.0), (-2.0, 2.0), (-2.0, 0.0), (-0.5, 0.0)])
    mixed_ranges = (not normalize) and lohi is None and pdim > 1 and rng.random() < 0.4
    for p, n in zip(degs, sizes):
        c = kvcls
        if c is None and square:
            c = 'random'
        if c is None:
            opts = ['uniform', 'random', 'random', 'random', 'fullmult']
            if not clamped_only:
                opts += ['unclamped', 'unclamped_rep']
            c = rng.choice(opts)
        if n == p + 1 and c in ('uniform', 'random', 'fullmult'):
            c = 'bezier'
        if c == 'bezier' and n != p + 1:
            c = 'uniform'
        classes.append(c)
        lohi_d = lohi_
        if mixed_ranges:
            # un-normalised shapes whose directions live on different ranges, [0, 1] among them
            lohi_d = rng.choice([(0.0, 1.0), (0.0, 1.0), (2.0, 5.0), (-3.0, 7.5), (0.0, 2.0), (-1.0, 1.0)])
        kvs.append(knot_vector(rng, p, n, c, lohi_d, fine=fine))
    ntot = 1
    for s in sizes:
        ntot *= s
    pc = pcls or rng.choice(['uniform', 'uniform', 'lattice', 'big'])
    P = [rand_point(rng, dim, pc) for _ in range(ntot)]
    if rng.random() < 0.1 and ntot > 2:
        # degenerate: repeat a point
        P[rng.randrange(ntot)] = list(P[rng.randrange(ntot)])
    sd = {'pdim': pdim, 'rational': bool(rational), 'degrees': degs, 'sizes': sizes, 'kvs': kvs,
          'ctrlpts': P, 'normalize_kv': bool(normalize), 'kvcls': classes, 'pcls': pc}
    if large:
        sd['large'] = True
    if square and pdim > 1:
        sd['square'] = True
    if rational:
        wc = wcls or rng.choice(['uniform', 'uniform', 'ones', 'const', 'twolevel', 'arc'])
        sd['weights'] = rand_weights(rng, ntot, wc)
        sd['wcls'] = wc
    if span:
        sd['span'] = span
    return sd


def ctrlptsw_of(sd):
    if not sd['rational']:
        return [list(p) for p in sd['ctrlpts']]
    return [[c * w for c in p] + [w] for p, w in zip(sd['ctrlpts'], sd['weights'])]


def build(sd, **extra):
    """geomdl object from a shape dict."""
    from geomdl import BSpline, NURBS, helpers
    mod = NURBS if sd['rational'] else BSpline
    kw = {'normalize_kv': sd.get('normalize_kv', True)}
    if sd.get('span') == 'binary':
        kw['find_span_func'] = helpers.find_span_binsearch
    elif sd.get('span') == 'linear':
        kw['find_span_func'] = helpers.find_span_linear
    if sd.get('precision') is not None:
        kw['precision'] = sd['precision']
    kw.update(extra)
    cp = ctrlptsw_of(sd)
    pdim = sd['pdim']
    route = sd.get('route')
    if route == 'list' and pdim > 1:
        # the list-form ("expert") setters: degree = [..], sizes, control points, knotvector = [..]
        o = (mod.Surface if pdim == 2 else mod.Volume)(**kw)
        o.degree = list(sd['degrees'])
        o.set_ctrlpts(cp, *sd['sizes'])
        o.knotvector = [list(k) for k in sd['kvs']]
        return o
    if pdim == 1:
        o = mod.Curve(**kw)
        o.degree = sd['degrees'][0]
        o.set_ctrlpts(cp)
        o.knotvector = list(sd['kvs'][0])
    elif pdim == 2:
        o = mod.Surface(**kw)
        o.degree_u, o.degree_v = sd['degrees']
        o.set_ctrlpts(cp, *sd['sizes'])
        o.knotvector_u = list(sd['kvs'][0])
        o.knotvector_v = list(sd['kvs'][1])
    else:
        o = mod.Volume(**kw)
        o.degree_u, o.degree_v, o.degree_w = sd['degrees']
        o.set_ctrlpts(cp, *sd['sizes'])
        o.knotvector_u = list(sd['kvs'][0])
        o.knotvector_v = list(sd['kvs'][1])
        o.knotvector_w = list(sd['kvs'][2])
    return o


def degrees_of(o):
    return [o.degree] if o.pdimension == 1 else list(o.degree)


def kvs_of(o):
    return [list(o.knotvector)] if o.pdimension == 1 else [list(k) for k in o.knotvector]


def sizes_of(o):
    if o.pdimension == 1:
        return [o.ctrlpts_size]
    if o.pdimension == 2:
        return [o.ctrlpts_size_u, o.ctrlpts_size_v]
    return [o.ctrlpts_size_u, o.ctrlpts_size_v, o.ctrlpts_size_w]


def domains_of(o):
    return [tuple(o.domain)] if o.pdimension == 1 else [tuple(d) for d in o.domain]


def hom_pts_of(o):
    return [list(p) for p in (o.ctrlptsw if o.rational else o.ctrlpts)]


def net_index(pdim, sizes):
    """flat index -> index tuple under the documented convention (v fastest, then u, then w)."""
    if pdim == 1:
        return {(i,): i for i in range(sizes[0])}
    if pdim == 2:
        nu, nv = sizes
        return {(i, j): j + nv * i for i in range(nu) for j in range(nv)}
    nu, nv, nw = sizes
    return {(i, j, k): j + nv * (i + nu * k) for i in range(nu) for j in range(nv) for k in range(nw)}


def defn_of(o):
    """Reference definition read through the object's public primary attributes."""
    cp = hom_pts_of(o)
    sizes = sizes_of(o)
    idx = net_index(o.pdimension, sizes)
    if len(cp) != len(idx):
        raise ValueError("control net size mismatch: %d points for sizes %r" % (len(cp), sizes))
    return ref.Shape(degrees_of(o), kvs_of(o), sizes, {k: cp[f] for k, f in idx.items()}, o.rational)


def defn_of_sd(sd, kvs=None):
    """Reference definition straight from a shape dict (knot vectors as given unless `kvs` supplied)."""
    cp = ctrlptsw_of(sd)
    idx = net_index(sd['pdim'], sd['sizes'])
    return ref.Shape(sd['degrees'], kvs or sd['kvs'], sd['sizes'], {k: cp[f] for k, f in idx.items()},
                     sd['rational'])


def snapshot(o):
    """JSON-able primary definition of a live object."""
    d = {'pdim': o.pdimension, 'rational': bool(o.rational), 'degrees': degrees_of(o), 'sizes': sizes_of(o),
         'kvs': kvs_of(o), 'hom': hom_pts_of(o)}
    return d


def defn_of_snapshot(s):
    idx = net_index(s['pdim'], s['sizes'])
    return ref.Shape(s['degrees'], s['kvs'], s['sizes'], {k: s['hom'][f] for k, f in idx.items()}, s['rational'])


def param_classes(rng, p, U, nrand=4, near_start=False, ulp=False):
    """list of (tag, u) over the domain of (p, U): both ends, every distinct interior knot, span midpoints,
    randoms. U as stored by the object."""
    n = len(U) - p - 1
    a, b = U[p], U[n]
    out = [('start', a), ('end', b)]
    inner = sorted(set(k for k in U[p + 1:n] if a < k < b))
    cnt = Counter(U)
    for k in inner:
        out.append(('knot_m%d' % min(cnt[k], p), k))
    d = sorted(set([a, b] + inner))
    for x, y in zip(d, d[1:]):
        out.append(('mid', 0.5 * (x + y)))
    for _ in range(nrand):
        u = rng.uniform(a, b)
        if all(abs(u - k) >= 1e-3 * (b - a) or u == k for k in d):
            out.append(('rand', u))
    if ulp:
        # one ulp either side of every interior knot (still inside the domain): the span decision must be exact there
        import math as _m
        for k in inner:
            for nb in (_m.nextafter(k, -_m.inf), _m.nextafter(k, _m.inf)):
                if a < nb < b:
                    out.append(('knot_ulp', nb))
            # ... and a little further away (1e-9 .. 5e-6 of the range): well inside the neighbouring span, nothing to be lenient about
            for sgn in (-1.0, 1.0):
                nb = k + sgn * rng.choice([1e-9, 1e-7, 1e-6, 5e-6]) * (b - a)
                prev_ = max(x for x in d if x < k)
                next_ = min(x for x in d if x > k)
                if nb != k and prev_ < nb < next_ and abs(nb - prev_) > 1e-9 * (b - a) and abs(next_ - nb) > 1e-9 * (b - a):
                    out.append(('knot_near', nb))
    if ulp:
        # a hair inside both domain ends (1e-9 .. 3e-8 of the range): ordinary parameters of the first / last span
        for e_, sg_ in ((a, 1.0), (b, -1.0)):
            nb = e_ + sg_ * rng.choice([1e-9, 1e-8, 3e-8]) * (b - a)
            if a < nb < b and all(abs(nb - k2) > 1e-10 * (b - a) for k2 in d[1:-1]):
                out.append(('end_near', nb))
    if near_start:
        for lo_, hi_ in ((0, 1e-4), (1e-4, 1e-2)):
            u = a + (b - a) * rng.uniform(lo_, hi_)
            if a < u < b and all(abs(u - k) >= 1e-7 * (b - a) for k in d[1:]):
                out.append(('nearstart', u))
    return out


def param_tuples(rng, o, count=8, mode='mixed', ulp=False):
    """list of (tags, param tuple) for an object with pdim directions."""
    degs = degrees_of(o)
    kvs = kvs_of(o)
    per = [param_classes(rng, p, U, ulp=ulp) for p, U in zip(degs, kvs)]
    out = []
    # corners
    out.append((('start',) * len(per), tuple(pc[0][1] for pc in per)))
    out.append((('end',) * len(per), tuple(pc[1][1] for pc in per)))
    for _ in range(count):
        pick = [rng.choice(pc) for pc in per]
        out.append((tuple(t for t, _ in pick), tuple(u for _, u in pick)))
    doms = domains_of(o)
    if len(per) > 1 and all(dm == doms[0] for dm in doms):
        # the same parameter value in every direction (the diagonal): a parameter of ANY direction's list
        for _ in range(3):
            t, u = rng.choice(rng.choice(per))
            out.append((('diag:' + t,) * len(per), (u,) * len(per)))
    return out


def evaluate_single(o, prm):
    return o.evaluate_single(prm[0] if o.pdimension == 1 else tuple(prm))


def scale_of(pts):
    m = 1.0
    for p in pts:
        for c in p:
            a = abs(c)
            if a > m:
                m = a
    return m


def deep(x):
    return copy.deepcopy(x)
