"""Monitor context, case runner, verdicts, evidence and replay files."""
import collections
import hashlib
import json
import os
import signal
import sys
import time
import traceback

VERIF_DIR = os.path.dirname(os.path.dirname(os.path.abspath(__file__)))
REPO = os.environ.get('NV_REPO', '/repo')
CASE_TIMEOUT_S = int(os.environ.get('NV_CASE_TIMEOUT', '180'))


class CaseTimeout(Exception):
    pass


class Reject(Exception):
    """raised by a checker to say: this generated case is outside the property's domain (counted, not judged)"""


def canon(obj):
    return json.dumps(obj, sort_keys=True, separators=(',', ':'), default=repr)


def case_hash(case):
    return hashlib.sha1(canon(case).encode()).hexdigest()[:14]


def geomdl_site(tb):
    """innermost frame inside the code under test -> 'module.function' (mechanism key component)"""
    site = None
    for fs in traceback.extract_tb(tb):
        fn = fs.filename.replace('\\', '/')
        if '/geomdl/' in fn:
            site = os.path.splitext(os.path.basename(fn))[0] + '.' + fs.name
    return site


class Ctx(object):
    """What a checker talks to. One per worker process."""

    def __init__(self, prop, tier, seed, shard=0):
        self.prop = prop
        self.tier = tier
        self.seed = seed
        self.shard = shard
        self.counters = collections.Counter()
        self.tags = collections.Counter()
        self.evaluations = 0
        self.cases = 0
        self.rejected = 0
        self.nontrivial = set()
        self.violations = []
        self.samples = []
        self.notes = {}
        self._case = None
        self._case_failed = False
        self._case_nontrivial = False
        self.max_violations = 40

    # -- per-case protocol ---------------------------------------------------------------------------------
    def begin(self, case):
        self._case = case
        self._case_failed = False
        self._case_nontrivial = False
        self.cases += 1

    def end(self):
        if self._case_nontrivial:
            self.nontrivial.add(case_hash(self._case))
        if len(self.samples) < 3 and self._case_nontrivial:
            self.samples.append(_shorten(self._case))
        self._case = None

    def nontriv(self, flag=True):
        if flag:
            self._case_nontrivial = True

    def tag(self, *tags):
        for t in tags:
            self.tags[t] += 1

    def ok(self, what, n=1):
        """n oracle evaluations of kind `what` passed"""
        self.evaluations += n
        self.counters[what] += n

    def count(self, what, n=1):
        self.counters[what] += n

    def fail(self, key, msg, **detail):
        """an oracle refuted the property on the current case; key = mechanism (no random values)"""
        self.evaluations += 1
        self.counters['violations'] += 1
        self._case_failed = True
        if len(self.violations) < self.max_violations or not any(v['key'] == key for v in self.violations):
            self.violations.append({'key': key, 'msg': msg, 'detail': _jsonable(detail), 'case': self._case,
                                    'hash': case_hash(self._case) if self._case is not None else None})

    def check(self, cond, key, msg, what=None, **detail):
        if cond:
            self.ok(what or key)
        else:
            self.fail(key, msg, **detail)
        return cond

    def near(self, got, exact, tol, key, msg, what=None, **detail):
        """|got - exact| <= tol componentwise (exact may be Fractions)"""
        try:
            bad = len(got) != len(exact) or any(not (abs(float(g) - float(e)) <= tol) for g, e in zip(got, exact))
        except TypeError:
            bad = True
        if bad:
            self.fail(key, msg, got=_fl(got), expected=_fl(exact), tol=tol, **detail)
        else:
            self.ok(what or key)
        return not bad


def _fl(v):
    try:
        return [float(x) for x in v]
    except Exception:
        return repr(v)


def _jsonable(o):
    try:
        json.dumps(o)
        return o
    except Exception:
        return json.loads(json.dumps(o, default=repr))


def _shorten(case, limit=1500):
    s = canon(case)
    if len(s) <= limit:
        return case
    return {'truncated_case_json': s[:limit] + '...', 'hash': case_hash(case)}


def _alarm(signum, frame):
    raise CaseTimeout()


def run_case(mod, case, ctx):
    """Run one case under the watchdog; any exception escaping the checker is a finding about the code under
    test (classified by the innermost geomdl frame), never silently dropped."""
    ctx.begin(case)
    old = signal.signal(signal.SIGALRM, _alarm)
    signal.alarm(CASE_TIMEOUT_S)
    try:
        mod.check(case, ctx)
    except Reject:
        ctx.rejected += 1
    except CaseTimeout:
        ctx.fail('timeout', 'case exceeded %d s' % CASE_TIMEOUT_S)
    except Exception as e:  # noqa
        site = geomdl_site(sys.exc_info()[2])
        tb = traceback.format_exc()
        if site:
            ctx.fail('exception/%s/%s' % (type(e).__name__, site), '%s: %s' % (type(e).__name__, e), traceback=tb)
        else:
            ctx.fail('exception-in-harness/%s' % type(e).__name__, '%s: %s' % (type(e).__name__, e), traceback=tb)
    finally:
        signal.alarm(0)
        signal.signal(signal.SIGALRM, old)
        ctx.end()


def call(fn, *a, **k):
    return fn(*a, **k)


# -- known findings ------------------------------------------------------------------------------------------
def load_known():
    path = os.path.join(VERIF_DIR, 'known_findings.json')
    try:
        with open(path) as f:
            data = json.load(f)
    except FileNotFoundError:
        return []
    return data.get('findings', [])


def classify(prop, key, known):
    import fnmatch
    for k in known:
        if k.get('status') != 'known' or k.get('property') != prop:
            continue
        if fnmatch.fnmatchcase(key, k['key']):
            return k
    return None


# -- result merging / evidence -------------------------------------------------------------------------------
def worker_result(ctx, wall, extra=None):
    return {'prop': ctx.prop, 'tier': ctx.tier, 'seed': ctx.seed, 'shard': ctx.shard, 'cases': ctx.cases,
            'rejected': ctx.rejected, 'evaluations': ctx.evaluations, 'counters': dict(ctx.counters),
            'tags': dict(ctx.tags), 'nontrivial': sorted(ctx.nontrivial), 'violations': ctx.violations,
            'samples': ctx.samples, 'notes': ctx.notes, 'wall_s': wall, 'extra': extra or {}}


def merge(results):
    out = {'cases': 0, 'rejected': 0, 'evaluations': 0, 'counters': collections.Counter(),
           'tags': collections.Counter(), 'nontrivial': set(), 'violations': [], 'samples': [], 'notes': {},
           'shards': len(results)}
    for r in results:
        out['cases'] += r['cases']
        out['rejected'] += r['rejected']
        out['evaluations'] += r['evaluations']
        out['counters'].update(r['counters'])
        out['tags'].update(r['tags'])
        out['nontrivial'].update(r['nontrivial'])
        out['violations'] += r['violations']
        if len(out['samples']) < 4:
            out['samples'] += r['samples'][:2]
        for k, v in r.get('notes', {}).items():
            if k == 'pool_schedules' and k in out['notes']:
                a = out['notes'][k]
                a['pool_runs'] += v['pool_runs']
                a['runs_with_more_than_one_worker'] += v['runs_with_more_than_one_worker']
                a['distinct_task_to_worker_assignments'] += v['distinct_task_to_worker_assignments']
                a['distinct_worker_set_sizes'] = sorted(set(a['distinct_worker_set_sizes']) | set(v['distinct_worker_set_sizes']))
            elif k in ('worst_error_over_tolerance', 'max_conditioning_factor_applied', 'repeated_call_pairs_compared',
                       'distinct_logged_calls') and k in out['notes']:
                out['notes'][k] = max(out['notes'][k], v) if k.startswith(('worst', 'max')) else out['notes'][k] + v
            elif k == 'hooks' and k in out['notes']:
                for hn, hv in v.items():
                    o = out['notes'][k].setdefault(hn, dict(hv, calls=0, evaluated=0, ignored_out_of_domain=0))
                    for f in ('calls', 'evaluated', 'ignored_out_of_domain'):
                        o[f] += hv[f]
            else:
                out['notes'].setdefault(k, v)
    return out


def write_evidence(prop, tier, seed, merged, wall, rule, assumptions, verdict, extra=None, known_hits=None):
    os.makedirs(os.path.join(VERIF_DIR, 'evidence'), exist_ok=True)
    cov = {
        'evaluations': int(merged['evaluations']),
        'distinct_nontrivial': len(merged['nontrivial']),
        'rule': rule,
        'samples': merged['samples'][:4] or [{'note': 'no non-trivial case was generated'}],
        'cases_run': merged['cases'],
        'cases_rejected_out_of_domain': merged['rejected'],
        'oracle_evaluations_by_kind': dict(sorted(merged['counters'].items())),
        'case_class_tags': dict(sorted(merged['tags'].items())),
        'shards': merged['shards'],
        'verdict': verdict,
        'known_finding_hits': known_hits or {},
    }
    if merged.get('notes'):
        cov['notes'] = merged['notes']
    if extra:
        cov.update(extra)
    ev = {'property_id': prop, 'tier': tier, 'seed': int(seed), 'level': 'exploration', 'coverage': cov,
          'assumptions': assumptions, 'wall_s': round(wall, 2),
          'violations': sum(1 for v in merged['violations'] if not v.get('known'))}
    # runs against a scratch copy of the repository (NV_REPO=..., used by the mutant / equivalence tools) must not overwrite the
    # evidence of the real tree
    sub = 'evidence' if os.path.realpath(REPO) == os.path.realpath('/repo') else 'evidence-scratch'
    os.makedirs(os.path.join(VERIF_DIR, sub), exist_ok=True)
    path = os.path.join(VERIF_DIR, sub, '%s.json' % prop)
    tmp = path + '.%d.tmp' % os.getpid()
    with open(tmp, 'w') as f:
        json.dump(ev, f, indent=1, sort_keys=True, default=repr)
    os.replace(tmp, path)
    return path


def write_replay(prop, v):
    d = os.path.join(VERIF_DIR, 'replays', prop)
    os.makedirs(d, exist_ok=True)
    path = os.path.join(d, '%s.json' % (v.get('hash') or 'nocase'))
    with open(path, 'w') as f:
        json.dump({'property': prop, 'key': v['key'], 'msg': v['msg'], 'detail': v.get('detail'),
                   'case': v.get('case')}, f, indent=1, default=repr)
    return path
