"""C11 — fitted curves and surfaces meet interpolation and least-squares conditions."""
import math
import random
from fractions import Fraction as F

from .. import gen as G, hooks, ref, shapeops as so
from ..core import Reject

ID = 'C11'
SHARDS = {'quick': 4, 'thorough': 16}
BUDGET = {'quick': 200, 'thorough': 1800}
RULE = ("cases: data sets with distinct consecutive points (random walks with steps in [0.1, 2], noisy grids), 3..40 points per "
        "direction (surfaces: 3..9 quick, ..16 thorough), 2-D/3-D, every admissible degree 1..min(5, n-1), chord-length and "
        "centripetal parametrisation, every admissible control point count degree+2..n-1 for approximation; judged: the harness "
        "recomputes the parameters independently, the returned definition (degree as requested, clamped knot vector, requested "
        "size) evaluated with the exact reference passes through every data point at its parameter (interpolation), interpolates "
        "the end / corner data (approximation) and satisfies the normal equations sum_k N_j(u_k)(C(u_k)-Q_k)=0 for every interior "
        "control point plus a perturbation probe (curve approximation). Non-trivial: >= 4 data points per direction; distinct = case hash.")
ASSUMPTIONS = ["nvmon.ref exact reference evaluation of the returned definition", "tolerance 1e-7*scale for interpolation (collocation "
               "systems of the generated data are well conditioned: steps in [0.1,2]); 1e-6*scale*m for the normal equations",
               "minimality: the library's exact objective must not exceed (1+1e-6) x the exact objective of a candidate computed by numpy.linalg.lstsq "
               "(orthogonal factorisation) - a worse library result is refuted exactly by that witness; results with cond(N^T N) > 1e12 (float "
               "estimate) are keyed .../near-interpolation-normal-equations"]
FLOORS = {'quick': {'interp-curve-point': 1500, 'interp-surface-point': 1000, 'approx-curve-normal-eq': 300, 'approx-ends': 150,
                    'approx-surface-corner': 100, 'params': 200},
          'thorough': {'interp-curve-point': 15000, 'interp-surface-point': 10000, 'approx-curve-normal-eq': 3000}}
MANDATORY_TAGS = ['interp-curve', 'interp-surface', 'approx-curve', 'approx-surface', 'centripetal', 'chord', 'dim2', 'dim3', 'n>=30',
                  'deg1', 'deg5', 'min-ctrlpts', 'max-ctrlpts', 'approx:near-interpolation']
TECHNIQUE = ("runtime monitoring: definitional oracle on every fitting call (independently recomputed parameters, exact reference "
             "evaluation of the returned definition at them, exact-basis normal equations and a perturbation probe)")
LEVEL_TEXT = ("Every fit the workload requests is judged against the interpolation / least-squares conditions computed from the "
              "returned definition with an exact basis; holds on the calls observed.")


def gen(rng, tier, shard, nshards):
    n = 60 if tier == 'quick' else 500
    smax = 9 if tier == 'quick' else 16
    for i in range(n):
        npts = rng.choice([3, 4, 5, 8, 12, 20, 30, 40, rng.randint(3, 40)])
        yield {'kind': 'interp-curve', 'n': npts, 'dim': rng.choice([2, 3]), 'degree': rng.randint(1, min(5, npts - 1)),
               'centripetal': rng.random() < 0.5, 'seed': rng.randrange(1 << 30)}
        npts = rng.choice([5, 6, 8, 12, 20, 30, 40, rng.randint(5, 40)])
        deg = rng.randint(1, min(5, npts - 3))
        # deg + 1 control points: a Bezier result (first and last basis functions overlap); with degree 1 nothing is left to fit
        cs = rng.choice([deg + 1 if deg >= 2 else deg + 2, deg + 2, npts - 1, rng.randint(deg + 2, npts - 1)])
        yield {'kind': 'approx-curve', 'n': npts, 'dim': rng.choice([2, 3]), 'degree': deg, 'ctrlpts_size': cs,
               'centripetal': rng.random() < 0.5, 'seed': rng.randrange(1 << 30)}
        if i % 6 == 0:
            # nearly as many control points as data points, higher degrees: the normal equations are close to singular
            npts = rng.randint(30, 40)
            yield {'kind': 'approx-curve', 'n': npts, 'dim': rng.choice([2, 3]), 'degree': rng.randint(3, 10), 'ctrlpts_size': npts - rng.randint(1, 3),
                   'centripetal': rng.random() < 0.5, 'seed': rng.randrange(1 << 30)}
        if i % 2 == 0:
            su, sv = rng.randint(3, smax), rng.randint(3, smax)
            yield {'kind': 'interp-surface', 'su': su, 'sv': sv, 'du': rng.randint(1, min(4, su - 1)), 'dv': rng.randint(1, min(4, sv - 1)),
                   'centripetal': rng.random() < 0.5, 'seed': rng.randrange(1 << 30)}
        if i % 3 == 0:
            su, sv = rng.randint(5, smax), rng.randint(5, smax)
            du, dv = rng.randint(1, min(3, su - 3)), rng.randint(1, min(3, sv - 3))
            yield {'kind': 'approx-surface', 'su': su, 'sv': sv, 'du': du, 'dv': dv, 'cu': rng.randint(du + 2, su - 1),
                   'cv': rng.randint(dv + 2, sv - 1), 'centripetal': rng.random() < 0.5, 'seed': rng.randrange(1 << 30)}


def walk(rng, n, dim):
    pts = [[rng.uniform(-5, 5) for _ in range(dim)]]
    for _ in range(n - 1):
        step = [rng.gauss(0, 1) for _ in range(dim)]
        nrm = math.sqrt(sum(s * s for s in step)) or 1.0
        L = rng.uniform(0.1, 2.0)
        pts.append([a + L * s / nrm for a, s in zip(pts[-1], step)])
    return pts


def grid_data(rng, su, sv):
    fx, fy = rng.uniform(0.3, 1.2), rng.uniform(0.3, 1.2)
    return [[u + rng.uniform(-.2, .2), v + rng.uniform(-.2, .2), math.sin(fx * u) * math.cos(fy * v) + rng.uniform(-.1, .1)]
            for u in range(su) for v in range(sv)]


def params_curve(pts, centripetal):
    d = [math.sqrt(sum((a - b) ** 2 for a, b in zip(p, q))) for p, q in zip(pts, pts[1:])]
    if centripetal:
        d = [math.sqrt(x) for x in d]
    tot = sum(d)
    uk = [0.0]
    for x in d:
        uk.append(uk[-1] + x / tot)
    uk[-1] = 1.0
    return uk


def params_surface(pts, su, sv, centripetal):
    uk = [0.0] * su
    for v in range(sv):
        col = params_curve([pts[v + sv * u] for u in range(su)], centripetal)
        uk = [a + b / sv for a, b in zip(uk, col)]
    vl = [0.0] * sv
    for u in range(su):
        row = params_curve([pts[v + sv * u] for v in range(sv)], centripetal)
        vl = [a + b / su for a, b in zip(vl, row)]
    return uk, vl


def clamped(kv, p):
    return len(set(kv[:p + 1])) == 1 and len(set(kv[-p - 1:])) == 1 and all(a <= b for a, b in zip(kv, kv[1:]))


def check(case, ctx):
    return {'interp-curve': ic, 'approx-curve': ac, 'interp-surface': isf, 'approx-surface': asf}[case['kind']](case, ctx)


def scale_pts(pts):
    return max(1.0, max(abs(c) for p in pts for c in p))


def common_tags(ctx, case, kind):
    ctx.tag(kind, 'centripetal' if case['centripetal'] else 'chord')


def ic(case, ctx):
    from geomdl import fitting
    rng = random.Random(case['seed'])
    n, dim, p, cen = case['n'], case['dim'], case['degree'], case['centripetal']
    common_tags(ctx, case, 'interp-curve')
    ctx.tag('dim%d' % dim, 'deg%d' % p)
    if n >= 30:
        ctx.tag('n>=30')
    ctx.nontriv(n >= 4)
    pts = walk(rng, n, dim)
    sc = scale_pts(pts)
    c = fitting.interpolate_curve([list(q) for q in pts], p, centripetal=cen)
    ok = c.degree == p and c.ctrlpts_size == n and clamped(list(c.knotvector), p) and len(c.knotvector) == n + p + 1
    if not ctx.check(ok, 'interp-curve/structure', 'interpolate_curve(n=%d, degree=%d): degree %r, %d control points, knot vector %r'
                     % (n, p, c.degree, c.ctrlpts_size, list(c.knotvector)), what='structure'):
        return
    uk = params_curve(pts, cen)
    lib_uk = fitting.compute_params_curve([list(q) for q in pts], cen)
    ctx.check(len(lib_uk) == n and all(abs(a - b) <= 1e-12 for a, b in zip(uk, lib_uk)), 'params/curve',
              'compute_params_curve is not the %s parametrisation' % ('centripetal' if cen else 'chord-length'), what='params')
    S = G.defn_of(c)
    for k in range(n):
        u = min(max(uk[k], 0.0), 1.0)
        if not ctx.near([float(x) for x in S.point((u,))], pts[k], 1e-7 * sc, 'interp-curve/misses-data-point',
                        'interpolate_curve(n=%d, degree=%d, centripetal=%s): curve at parameter %r misses data point %d' % (n, p, cen, u, k),
                        what='interp-curve-point'):
            return
    # the library's own evaluation agrees (end points exactly on the data)
    ctx.near(c.evaluate_single(0.0), pts[0], 1e-9 * sc, 'interp-curve/misses-data-point', 'curve start is not the first data point',
             what='interp-curve-point')
    ctx.near(c.evaluate_single(1.0), pts[-1], 1e-9 * sc, 'interp-curve/misses-data-point', 'curve end is not the last data point',
             what='interp-curve-point')


def ac(case, ctx):
    from geomdl import fitting
    rng = random.Random(case['seed'])
    n, dim, p, cen, nc = case['n'], case['dim'], case['degree'], case['centripetal'], case['ctrlpts_size']
    common_tags(ctx, case, 'approx-curve')
    ctx.tag('dim%d' % dim, 'deg%d' % p)
    if nc == p + 2:
        ctx.tag('min-ctrlpts')
    if nc == n - 1:
        ctx.tag('max-ctrlpts')
    ctx.nontriv(True)
    pts = walk(rng, n, dim)
    sc = scale_pts(pts)
    try:
        c = fitting.approximate_curve([list(q) for q in pts], p, centripetal=cen, ctrlpts_size=nc)
    except ZeroDivisionError:
        if n >= 24 and nc >= n - 5:
            ctx.tag('approx:near-interpolation')
            ctx.fail('approx-curve/raises/near-interpolation-normal-equations', 'approximate_curve(n=%d, degree=%d, ctrlpts_size=%d) raised '
                     'ZeroDivisionError (numerically singular normal equations N^T N factorised without pivoting)' % (n, p, nc))
            return
        raise
    ok = c.degree == p and c.ctrlpts_size == nc and clamped(list(c.knotvector), p) and len(c.knotvector) == nc + p + 1
    if not ctx.check(ok, 'approx-curve/structure', 'approximate_curve(n=%d, degree=%d, ctrlpts_size=%d): degree %r, %d control points'
                     % (n, p, nc, c.degree, c.ctrlpts_size), what='structure'):
        return
    S = G.defn_of(c)
    ctx.near([float(x) for x in S.point((0.0,))], pts[0], 1e-9 * sc, 'approx-curve/end-not-interpolated', 'first data point not interpolated',
             what='approx-ends')
    ctx.near([float(x) for x in S.point((1.0,))], pts[-1], 1e-9 * sc, 'approx-curve/end-not-interpolated', 'last data point not interpolated',
             what='approx-ends')
    uk = params_curve(pts, cen)
    U = [F(k) for k in c.knotvector]
    # residuals at the interior data points, exact basis
    bas = []
    res = []
    for k in range(1, n - 1):
        u = F(uk[k])
        sp = ref.find_span(p, U, u)
        b = ref.basis_span(p, U, sp, u)
        bas.append(b)
        pt = S.point((u,))
        res.append([x - F(q) for x, q in zip(pt, pts[k])])
    worst = 0.0
    for j in range(1, nc - 1):
        for d in range(dim):
            g = sum(b.get(j, 0) * r[d] for b, r in zip(bas, res))
            worst = max(worst, abs(float(g)))
    if not ctx.check(worst <= 1e-6 * sc * n, 'approx-curve/normal-equations', 'approximate_curve(n=%d, degree=%d, ctrlpts_size=%d, '
                     'centripetal=%s): normal equations violated, max |sum_k N_j(u_k)(C(u_k)-Q_k)| = %r' % (n, p, nc, cen, worst),
                     what='approx-curve-normal-eq'):
        return
    # the objective itself against the exact minimum over the interior control points (same knot vector, same parameters, same end points):
    # small normal-equation residuals do not imply a near-minimal objective when N^T N is ill conditioned
    if nc - 2 >= 1:
        P = {t[0]: [F(x) for x in v] for t, v in S.net.items()}
        rows = []                                  # N restricted to the interior data points / interior control points
        rhs = []
        for k_, b in zip(range(1, n - 1), bas):
            rows.append([b.get(j, F(0)) for j in range(1, nc - 1)])
            rhs.append([F(q) - b.get(0, F(0)) * P[0][d_] - b.get(nc - 1, F(0)) * P[nc - 1][d_] for d_, q in enumerate(pts[k_])])
        m_ = nc - 2
        X = None
        cond = None
        try:
            import numpy as np
            Nf = np.array([[float(x) for x in r] for r in rows])
            Rf = np.array([[float(x) for x in r] for r in rhs])
            Xf = np.linalg.lstsq(Nf, Rf, rcond=None)[0]        # orthogonal-factorisation least squares: a CANDIDATE minimiser
            X = [[F(float(x)) for x in r] for r in Xf]
            cond = float(np.linalg.cond(Nf.T @ Nf))
        except ImportError:
            if m_ <= 20:
                NtN = [[sum(r[i_] * r[j_] for r in rows) for j_ in range(m_)] for i_ in range(m_)]
                NtR = [[sum(r[i_] * q[d_] for r, q in zip(rows, rhs)) for d_ in range(dim)] for i_ in range(m_)]
                try:
                    X = ref.solve(NtN, NtR)
                except ZeroDivisionError:
                    X = None
        if X is not None:
            # exact objective of the candidate: an upper bound of the minimum; a library result that is worse than it is refuted exactly
            obj_min = sum(sum((sum(r[i_] * X[i_][d_] for i_ in range(m_) if r[i_]) - q[d_]) ** 2 for d_ in range(dim)) for r, q in zip(rows, rhs))
            obj_lib = sum(sum(x ** 2 for x in r) for r in res)
            # mechanism class: the normal equations N^T N the library forms are numerically singular (cond * eps >~ 1e-4)
            illc = (cond is not None and cond > 1e12) or (cond is None and n >= 24 and nc >= n - 5)
            key = 'approx-curve/not-minimal' + ('/near-interpolation-normal-equations' if illc else '')
            if illc:
                ctx.tag('approx:near-interpolation')
                ctx.notes['max_cond_normal_equations'] = max(ctx.notes.get('max_cond_normal_equations', 0.0), cond or 0.0)
            ctx.check(obj_lib <= obj_min * (1 + F(1, 10 ** 6)) + F(1e-12 * sc * sc), key, 'approximate_curve(n=%d, degree=%d, ctrlpts_size=%d, '
                      'centripetal=%s): summed squared distance %.6g, but the interior control points found by an orthogonal-factorisation least '
                      'squares solve give %.6g (ratio %.4g; cond(N^T N) = %s); largest control point coordinate %.3g'
                      % (n, p, nc, cen, float(obj_lib), float(obj_min), float(obj_lib / obj_min) if obj_min else float('inf'),
                         '%.3g' % cond if cond else 'n/a', max(abs(float(x)) for v in P.values() for x in v)), what='approx-curve-minimum')
    # perturbation probe: moving an interior control point must not decrease the objective
    obj0 = sum(sum(float(x) ** 2 for x in r) for r in res)
    j = rng.randint(1, nc - 2)
    d = rng.randrange(dim)
    for delta in (1e-3 * sc, -1e-3 * sc):
        obj = 0.0
        for b, r in zip(bas, res):
            rr = [float(x) for x in r]
            rr[d] += float(b.get(j, 0)) * delta
            obj += sum(x * x for x in rr)
        ctx.check(obj >= obj0 - 1e-12 * max(1.0, obj0), 'approx-curve/not-a-minimum', 'moving control point %d by %r lowers the summed '
                  'squared distance from %r to %r' % (j, delta, obj0, obj), what='approx-curve-normal-eq')


def isf(case, ctx):
    from geomdl import fitting
    rng = random.Random(case['seed'])
    su, sv, du, dv, cen = case['su'], case['sv'], case['du'], case['dv'], case['centripetal']
    common_tags(ctx, case, 'interp-surface')
    ctx.nontriv(su >= 4 and sv >= 4)
    pts = grid_data(rng, su, sv)
    sc = scale_pts(pts)
    s = fitting.interpolate_surface([list(q) for q in pts], su, sv, du, dv, centripetal=cen)
    ok = G.degrees_of(s) == [du, dv] and G.sizes_of(s) == [su, sv] and clamped(list(s.knotvector_u), du) and clamped(list(s.knotvector_v), dv)
    if not ctx.check(ok, 'interp-surface/structure', 'interpolate_surface(%dx%d, degrees %d,%d): degrees %r sizes %r'
                     % (su, sv, du, dv, G.degrees_of(s), G.sizes_of(s)), what='structure'):
        return
    uk, vl = params_surface(pts, su, sv, cen)
    luk, lvl = fitting.compute_params_surface([list(q) for q in pts], su, sv, cen)
    ctx.check(all(abs(a - b) <= 1e-12 for a, b in zip(list(uk) + list(vl), list(luk) + list(lvl))), 'params/surface',
              'compute_params_surface is not the averaged %s parametrisation' % ('centripetal' if cen else 'chord-length'), what='params')
    S = G.defn_of(s)
    idx = [(i, j) for i in range(su) for j in range(sv)]
    if len(idx) > 40:
        idx = [(0, 0), (su - 1, sv - 1), (0, sv - 1), (su - 1, 0)] + rng.sample(idx, 36)
    for i, j in idx:
        u, v = min(max(uk[i], 0.0), 1.0), min(max(vl[j], 0.0), 1.0)
        if not ctx.near([float(x) for x in S.point((u, v))], pts[j + sv * i], 1e-7 * sc, 'interp-surface/misses-data-point',
                        'interpolate_surface(%dx%d, degrees %d,%d, centripetal=%s): surface at (%r,%r) misses data point (%d,%d)'
                        % (su, sv, du, dv, cen, u, v, i, j), what='interp-surface-point'):
            return


def asf(case, ctx):
    from geomdl import fitting
    rng = random.Random(case['seed'])
    su, sv, du, dv, cu, cv, cen = case['su'], case['sv'], case['du'], case['dv'], case['cu'], case['cv'], case['centripetal']
    common_tags(ctx, case, 'approx-surface')
    ctx.nontriv(True)
    pts = grid_data(rng, su, sv)
    sc = scale_pts(pts)
    s = fitting.approximate_surface([list(q) for q in pts], su, sv, du, dv, ctrlpts_size_u=cu, ctrlpts_size_v=cv, centripetal=cen)
    ok = G.degrees_of(s) == [du, dv] and G.sizes_of(s) == [cu, cv] and clamped(list(s.knotvector_u), du) and clamped(list(s.knotvector_v), dv)
    if not ctx.check(ok, 'approx-surface/structure', 'approximate_surface: degrees %r sizes %r, requested %r %r'
                     % (G.degrees_of(s), G.sizes_of(s), [du, dv], [cu, cv]), what='structure'):
        return
    S = G.defn_of(s)
    for prm, k in (((0.0, 0.0), 0), ((0.0, 1.0), sv - 1), ((1.0, 0.0), sv * (su - 1)), ((1.0, 1.0), su * sv - 1)):
        ctx.near([float(x) for x in S.point(prm)], pts[k], 1e-8 * sc, 'approx-surface/corner-not-interpolated',
                 'approximate_surface: corner %r does not interpolate its data point' % (prm,), what='approx-surface-corner')
