"""C05 — knot refinement never changes the shape."""
import copy
import random
from collections import Counter
from fractions import Fraction as F

from .. import gen as G, hooks, ref, shapeops as so
from ..core import Reject

ID = 'C05'
SHARDS = {'quick': 4, 'thorough': 16}
BUDGET = {'quick': 150, 'thorough': 1500}
RULE = ("cases: random clamped shapes (curve/surface/volume, rational or not, normalised or in a non-[0,1] range) refined through "
        "operations.refine_knotvector with every non-empty subset of directions and densities 1..3 (size-bounded), and "
        "helper-level helpers.knot_refinement calls with default, explicit knot_list and add_knot_list; judged: live object "
        "and new definition equal the exact reference of the original at knots/midpoints/random parameters; every original "
        "interior interval bisected d times, every interior knot of multiplicity = degree, unselected directions "
        "bit-identical. Non-trivial: the refined direction had an interior knot or density >= 2; distinct = distinct case hash.")
ASSUMPTIONS = ["nvmon.ref exact reference model", "explored domain of DESIGN.md section 3; tolerance 1e-9*scale"]
FLOORS = {'quick': {'refine': 150, 'probe-lib': 2000, 'probe-defn': 2000, 'structure': 150, 'untouched': 60, 'helper': 60},
          'thorough': {'refine': 2000, 'probe-lib': 30000}}
MANDATORY_TAGS = ['helper:add-knot-0.0', 'helper:listed-knot-twice-one-ulp-apart', 'large', 'pdim1', 'pdim2', 'pdim3', 'rational', 'density2', 'density3', 'dirs:partial', 'dirs:all', 'helper:knot_list',
                  'helper:add_knot_list', 'unnormalized', 'helper:single-knot-list', 'helper:knot_list+add_knot_list', 'helper:tuple-kv', 'unclamped', 'short-knot-range']
TECHNIQUE = ("runtime monitoring: exact reference-model oracle + structural knot-vector oracle after every refine_knotvector / "
             "knot_refinement call of a seeded workload")
LEVEL_TEXT = ("Each refinement is followed by exact comparison with the original shape and by the dyadic-knot / multiplicity / "
              "untouched-direction checks; holds on the calls observed.")


def gen(rng, tier, shard, nshards):
    n = 60 if tier == 'quick' else 550
    forced = [dict(pdim=3, rational=True), dict(pdim=3, rational=False), dict(pdim=2, normalize=False, lohi=(2.0, 5.0)),
              dict(pdim=1, kvcls='fullmult'), dict(pdim=2, rational=True)]
    for i in range(n):
        if shard == 0 and i < len(forced):
            kw = dict(forced[i])
        else:
            kw = dict(pdim=rng.choice([1, 1, 2, 2, 3]), normalize=rng.random() < 0.7)
        pd = kw.pop('pdim')
        kw.setdefault('maxextra', {1: 5, 2: 3, 3: 2}[pd])
        kw.setdefault('maxdeg', {1: 5, 2: 3, 3: 2}[pd])
        if 'lohi' not in kw and rng.random() < 0.12:
            a_ = rng.choice([0.0, 5.0, -2.0 ** -21])
            kw.update(normalize=False, lohi=(a_, a_ + rng.choice([2.0 ** -20, 2.0 ** -17, 2.0 ** 12])))
        if 'lohi' not in kw and 'kvcls' not in kw and not (shard == 0 and i < len(forced)) and rng.random() < 0.06:
            kw['large'] = True         # degree up to 10 / 40 control points; one long, high-degree direction for surfaces and volumes
        unclamped = 'kvcls' not in kw and rng.random() < 0.25
        sd = G.rand_shape(rng, pd, clamped_only=not unclamped, **(dict(kw, kvcls=rng.choice(['unclamped', 'unclamped_rep'])) if unclamped else kw))
        yield {'kind': 'refine', 'sd': sd, 'seed': rng.randrange(1 << 30)}
        if i % 2 == 0:
            yield {'kind': 'helper', 'seed': rng.randrange(1 << 30)}


def expected_knots(p, U, density, knot_list=None):
    """(distinct values that must end with multiplicity p if strictly interior)"""
    n = len(U) - p - 1
    ks = sorted(set(knot_list if knot_list is not None else U[p:n + 1]))
    ks = [F(k) for k in ks]
    for _ in range(density):
        out = []
        for x, y in zip(ks, ks[1:]):
            out += [x, x + (y - x) / 2]
        out.append(ks[-1])
        ks = out
    return ks


def structure_dir(p, U_pre, U_post, density, knot_list=None):
    n = len(U_pre) - p - 1
    a, b = F(U_pre[p]), F(U_pre[n])
    exp = expected_knots(p, U_pre, density, knot_list)
    rng_ = float(b - a)
    tol = F(1e-12) * F(max(1.0, rng_))
    post = [F(k) for k in U_post]
    if any(x > y for x, y in zip(post, post[1:])):
        return 'post knot vector not sorted'

    def mult(z):
        return sum(1 for k in post if abs(k - z) <= tol)
    for z in exp:
        if a < z < b and mult(z) != p:
            return 'knot %s has multiplicity %d, expected degree %d' % (float(z), mult(z), p)
    # every original knot keeps at least its multiplicity; nothing else appears
    pre_cnt = Counter(U_pre)
    total = 0
    for z, c in pre_cnt.items():
        m = mult(F(z))
        in_exp = any(abs(F(z) - e) <= tol for e in exp) and a < F(z) < b
        at_end = F(z) == a or F(z) == b
        # the ends of an unclamped domain are not interior knots: the property leaves their multiplicity open (the library raises it to
        # at most the degree, which clamps the refined shape there; the shape oracle decides whether that was done correctly)
        if at_end and c <= m <= max(c, p):
            continue
        if (in_exp and m != p) or (not in_exp and m != c):
            return 'original knot %r: multiplicity %d -> %d' % (z, c, m)
    for k in post:
        if not any(abs(k - e) <= tol for e in exp) and not any(abs(k - F(z)) <= tol for z in pre_cnt):
            return 'unexpected new knot %s' % float(k)
    return None


def check(case, ctx):
    if case['kind'] == 'helper':
        return check_helper(case, ctx)
    from geomdl import operations
    sd = case['sd']
    rng = random.Random(case['seed'])
    pdim = sd['pdim']
    o = G.build(sd)
    S0 = G.defn_of(o)
    sc = so.scale_of_defn(S0)
    tol = 1e-9 * sc
    probes = so.probe_params(rng, S0, nrand=6, maxn=26 if pdim < 3 else 12)
    if any(kv[0] != kv[p_] or kv[-1] != kv[-p_ - 1] for kv, p_ in zip(sd['kvs'], sd['degrees'])):
        ctx.tag('unclamped')
    if any(abs(kv[-1] - kv[0]) < 1e-4 for kv in sd['kvs']):
        ctx.tag('short-knot-range')
    if sd.get('large'):
        ctx.tag('large')
    ctx.tag('pdim%d' % pdim, 'rational' if sd['rational'] else 'nonrational',
            'normalized' if sd['normalize_kv'] else 'unnormalized')
    rounds = rng.randint(1, 2)
    nontriv = False
    for rnd in range(rounds):
        pre = G.snapshot(o)
        # choose densities, bounded so that the net stays small
        for _ in range(30):
            param = [rng.choice([0, 0, 1, 1, 2, 3]) for _ in range(pdim)]
            if not any(param):
                continue
            est = 1
            for d in range(pdim):
                p, U = pre['degrees'][d], pre['kvs'][d]
                iv = len(set(U)) - 1
                est *= (pre['sizes'][d] if param[d] == 0 else (iv * 2 ** param[d] - 1) * p + p + 1)
            if est <= (700 if pdim > 1 else 160):
                break
        else:
            return
        ctx.tag('dirs:all' if all(param) else 'dirs:partial')
        for x in param:
            if x:
                ctx.tag('density%d' % x)
        operations.refine_knotvector(o, param)
        ctx.ok('refine')
        post = G.snapshot(o)
        for d in range(pdim):
            if param[d] == 0:
                same = post['degrees'][d] == pre['degrees'][d] and post['sizes'][d] == pre['sizes'][d] and \
                    post['kvs'][d] == pre['kvs'][d]
                ctx.check(same, 'untouched-direction-changed', 'direction %d was not selected (param=%r) but degree/size/knot '
                          'vector changed' % (d, param), what='untouched')
            else:
                err = structure_dir(pre['degrees'][d], pre['kvs'][d], post['kvs'][d], param[d])
                ok = err is None and post['degrees'][d] == pre['degrees'][d] and \
                    post['sizes'][d] == len(post['kvs'][d]) - post['degrees'][d] - 1
                ctx.check(ok, 'structure', 'refine density %d in direction %d: %s' % (param[d], d, err or 'size/degree mismatch'),
                          what='structure')
                if len(pre['kvs'][d]) > 2 * (pre['degrees'][d] + 1) or param[d] >= 2:
                    nontriv = True
        n = 1
        for s in post['sizes']:
            n *= s
        ctx.check(len(post['hom']) == n, 'structure', 'net has %d points for sizes %r' % (len(post['hom']), post['sizes']),
                  what='structure')
        S1 = G.defn_of_snapshot(post)
        good = [q for q in probes if so.clear_of_knots(S1, q)]
        if not so.compare_object(ctx, o, S0, good, tol, 'shape-changed/library-eval',
                                 'the object evaluates differently after refine_knotvector(%r)' % (param,), 'probe-lib'):
            return
        if not so.compare_defns(ctx, S1, S0, good, tol, 'shape-changed/definition',
                                'refine_knotvector(%r) produced a definition of a different shape' % (param,), 'probe-defn'):
            return
        if max(post['sizes']) > 40:
            break
    ctx.nontriv(nontriv)


def check_helper(case, ctx):
    from geomdl import helpers
    rng = random.Random(case['seed'])
    p = rng.randint(1, 5)
    n = p + 1 + rng.randint(0, 5)
    U = G.knot_vector(rng, p, n, 'bezier' if n == p + 1 else rng.choice(['uniform', 'random', 'fullmult']),
                      rng.choice([(0.0, 1.0), (0.0, 1.0), (2.0, 5.0), (-1.0, 1.0)]))
    dim = rng.choice([2, 3, 4])
    rows = rng.random() < 0.3
    if rows:
        P = [[[rng.uniform(-10, 10) for _ in range(dim)] for _ in range(3)] for _ in range(n)]
    else:
        P = [[rng.uniform(-10, 10) for _ in range(dim)] for _ in range(n)]
    mode = rng.choice(['default', 'knot_list', 'add_knot_list'])
    if U[0] < 0.0 and rng.random() < 0.7:
        mode = 'add_knot_list'
    density = rng.choice([1, 1, 2])
    a, b = U[p], U[n]
    kw = {'density': density}
    knot_list = None
    if mode == 'knot_list':
        vals = sorted(set([round(a + (b - a) * rng.uniform(0.05, 0.95), 2) for _ in range(rng.randint(2, 3))]))
        vals = [v for v in vals if all(abs(v - k) >= 4e-3 * (b - a) or v == k for k in U)]
        if len(vals) < 2 or min(y - x for x, y in zip(vals, vals[1:])) < 0.02 * (b - a):
            raise Reject()
        kw['knot_list'] = list(vals)
        knot_list = list(vals)
    elif mode == 'add_knot_list':
        base = list(U[p:-p])
        extra = [round(a + (b - a) * rng.uniform(0.05, 0.95), 2) for _ in range(rng.randint(1, 2))]
        extra = [v for v in extra if all(abs(v - k) >= 0.02 * (b - a) for k in U)]
        if not extra or (len(extra) == 2 and abs(extra[0] - extra[1]) < 0.02 * (b - a)):
            raise Reject()
        kw['add_knot_list'] = list(extra)
        knot_list = sorted(set(base + extra))
    ctx.tag('helper:' + mode, 'density%d' % density)
    import math as _m
    midpoint_case = False
    single_ = False
    inner_ = sorted(set(k for k in U[p + 1:n] if a < k < b))
    if mode == 'add_knot_list' and inner_ and rng.random() < 0.3:
        # the caller's own arithmetic for an existing knot (0.1 + 0.2 for the knot 0.3): one ulp beside it - it IS that knot
        k_ = rng.choice(inner_)
        kw['add_knot_list'] = list(kw['add_knot_list']) + [_m.nextafter(k_, rng.choice([-_m.inf, _m.inf]))]
        ctx.tag('helper:knot-value-one-ulp-off')
    elif mode == 'knot_list' and len(inner_) >= 3 and rng.random() < 0.25:
        # an explicit list of two existing knots whose midpoint is (up to rounding) a third existing knot that is not listed
        i_ = rng.randrange(len(inner_) - 2)
        lo_, mid_, hi_ = inner_[i_], inner_[i_ + 1], inner_[i_ + 2]
        if abs((lo_ + (hi_ - lo_) / 2.0) - mid_) <= 4 * _m.ulp(mid_) and density == 1:
            kw['knot_list'] = [lo_, hi_]
            knot_list = [lo_, hi_]
            midpoint_case = True
            ctx.tag('helper:midpoint-on-existing-knot')
    if mode == 'knot_list' and rng.random() < 0.3 and not midpoint_case:
        # an explicit list naming ONE knot (possibly twice): that knot is raised to multiplicity p, nothing is bisected
        v = rng.choice(kw['knot_list'])
        kw['knot_list'] = [v] * rng.randint(1, 2)
        knot_list = [v]
        single_ = True
        ctx.tag('helper:single-knot-list')
    if mode == 'add_knot_list' and a < 0.0 < b and all(abs(k) >= 0.02 * (b - a) for k in U) and rng.random() < 0.6:
        # (fifth hunt) the additional knot is 0.0, handed over as a list, a tuple or a one-element numpy array (whose truth value is False)
        try:
            import numpy as _np
            form = rng.choice([list, tuple, _np.array, _np.array])
        except ImportError:
            form = rng.choice([list, tuple])
        kw['add_knot_list'] = form([0.0])
        knot_list = sorted(set(base + [0.0]))
        ctx.tag('helper:add-knot-0.0', 'helper:add-knot-0.0:' + form.__name__)
    elif mode in ('add_knot_list', 'knot_list') and not midpoint_case and not single_ and rng.random() < 0.25:
        # (fifth hunt) a NEW knot listed twice, the second time as the caller's arithmetic gives it (one ulp beside): it is one knot
        key_ = 'add_knot_list' if mode == 'add_knot_list' else 'knot_list'
        v_ = rng.choice([x for x in kw[key_] if all(abs(x - k) >= 4e-3 * (b - a) for k in U)] or [None])
        if v_ is not None:
            twin = _m.nextafter(v_, rng.choice([-_m.inf, _m.inf]))
            kw[key_] = list(kw[key_]) + [twin] if rng.random() < 0.5 else [twin] + list(kw[key_])
            ctx.tag('helper:listed-knot-twice-one-ulp-apart')
    if mode == 'add_knot_list' and rng.random() < 0.4:
        # base list given explicitly (as list or tuple) together with additional knots
        kw['knot_list'] = rng.choice([list, tuple])(base)
        ctx.tag('helper:knot_list+add_knot_list')
    if rng.random() < 0.3:
        U = tuple(U)          # documented: list or tuple
        ctx.tag('helper:tuple-kv')
    ctx.nontriv(True)
    P0 = copy.deepcopy(P)
    U0 = list(U)
    kw0 = copy.deepcopy(kw)
    from geomdl.exceptions import GeomdlException
    try:
        newP, newU = helpers.knot_refinement(p, U, P, **kw)
    except GeomdlException:
        # nothing to insert (every listed knot already has multiplicity p and there is no midpoint): refusing is legitimate
        if 'knot_list' in kw and len(set(kw['knot_list'])) == 1 and 'add_knot_list' not in kw and \
                sum(1 for k in U0 if k == kw['knot_list'][0]) >= p:
            ctx.ok('helper')
            return
        exp_ = expected_knots(p, U0, density, knot_list)
        if all(sum(1 for k in U0 if abs(F(k) - z) <= F(1e-9) * F(b - a)) >= p for z in exp_ if F(a) < z < F(b)):
            ctx.ok('helper')       # every knot the refinement asks for is there already, p times
            return
        raise
    # the caller's arguments still describe what they described before the call (the original shape and the requested knots)
    ctx.check(P == P0 and list(U) == U0, 'helper/input-modified', 'knot_refinement(%s, density=%d, %s layout) modified the control points / knot '
              'vector it was given: the original shape held by the caller changed' % (mode, density, 'rows-of-points' if rows else 'flat'),
              what='helper')
    ctx.check(all(list(kw[k]) == list(kw0[k]) for k in kw if k != 'density'), 'helper/input-modified', 'knot_refinement(%s) modified the knot_list / '
              'add_knot_list argument it was given' % mode, what='helper')
    err = structure_dir(p, U0, list(newU), density, knot_list)
    ctx.check(err is None and len(newP) == len(newU) - p - 1, 'helper/structure', 'knot_refinement(%s, density=%d): %s'
              % (mode, density, err or 'len(ctrlpts) %d != len(kv)-p-1 = %d' % (len(newP), len(newU) - p - 1)), what='helper',
              kv=U0, new_kv=list(newU), knot_list=knot_list)
    # a refined knot is ONE value: no pair of distinct knots a rounding error apart that the input did not have
    dpost = sorted(set(newU))
    near = [(x, y) for x, y in zip(dpost, dpost[1:]) if y - x <= 1e-9 * (b - a) and not (x in U0 and y in U0)]
    ctx.check(not near, 'helper/near-duplicate-knots', 'knot_refinement(%s, density=%d) returns the distinct knot values %r: one knot of the '
              'refined vector is split over two floats a rounding error apart (a knot interval of that length, multiplicities counted per '
              'value are wrong)' % (mode, density, near[:2]), what='helper', kv=U0, new_kv=list(newU))
    from .c04 import flat
    A = [flat(pt) for pt in P0]
    B = [flat(pt) for pt in newP]
    if len(B) != len(newU) - p - 1:
        return
    S0 = ref.Shape((p,), (U0,), (len(A),), {(i,): A[i] for i in range(len(A))}, False)
    S1 = ref.Shape((p,), (list(newU),), (len(B),), {(i,): B[i] for i in range(len(B))}, False)
    for q in so.probe_params(rng, S0, nrand=4, maxn=14):
        if not so.clear_of_knots(S1, q):
            continue
        x, y = S0.point(q), S1.point(q)
        if any(abs(g - e) > F(1e-9 * 10) for g, e in zip(x, y)):
            ctx.fail('helper/shape-changed', 'knot_refinement(%s, density=%d) changed the curve at %r' % (mode, density, q), kv=U0)
            return
        ctx.ok('helper')
