"""C08 — degree elevation preserves a Bezier shape and degree reduction inverts it."""
import copy
import random
from fractions import Fraction as F

from .. import gen as G, ref
from ..core import Reject

ID = 'C08'
SHARDS = {'quick': 2, 'thorough': 8}
BUDGET = {'quick': 120, 'thorough': 900}
RULE = ("cases: every (degree 1..8, elevation count 1..4) pair x polygon class {Cartesian 2-D/3-D, homogeneous with positive "
        "weights, integer lattice, large coordinates, rows of points}; judged by exact de Casteljau evaluation of both "
        "polygons at 2(p+t)+3 parameters (a polynomial identity of degree p+t is decided by p+t+1 points, so each case is "
        "decided completely), unchanged end points, reduction(elevation) == original (single and multi-step), and rejection "
        "of non-Bezier input / non-positive counts / degree < 2. Non-trivial: degree >= 2 or elevation count >= 2; distinct = "
        "distinct case hash.")
ASSUMPTIONS = ["exact de Casteljau in Fractions (nvmon.ref.bernstein_point)", "coordinates |x| <= 1e3, weights in [0.2,5]"]
FLOORS = {'quick': {'elev-identity': 3000, 'endpoints': 300, 'reduce-inverts': 200, 'multi-step': 100, 'reject': 60},
          'thorough': {'elev-identity': 30000, 'reduce-inverts': 2000}}
MANDATORY_TAGS = ['deg8', 'deg1', 'num4', 'cls:homogeneous', 'cls:rows', 'cls:cartesian', 'cls:curve-level', 'cls:nonbezier-interior', 'cls:nonbezier-unclamped', 'cls:surface-level']
TECHNIQUE = ("runtime monitoring: exact polynomial-identity oracle (de Casteljau in rational arithmetic) on every "
             "degree_elevation / degree_reduction call made by an enumerating workload")
LEVEL_TEXT = ("Each call is decided completely for its input (identity of two polynomials checked at more points than their "
              "degree); all (degree, count) pairs 1..8 x 1..4 are enumerated with several polygons each; holds on the calls observed.")


def gen(rng, tier, shard, nshards):
    reps = 3 if tier == 'quick' else 20
    i = 0
    for rep in range(reps):
        for p in range(1, 9):
            for t in range(1, 5):
                for cls in ('cartesian', 'homogeneous', 'lattice', 'big', 'rows'):
                    i += 1
                    if i % nshards != shard:
                        continue
                    yield {'kind': 'elev', 'p': p, 't': t, 'cls': cls, 'dim': rng.choice([2, 3]),
                           'seed': rng.randrange(1 << 30)}
    for p in range(0, 9):
        yield {'kind': 'reject', 'p': p, 'seed': rng.randrange(1 << 30)}
    for rep in range(reps * 16):
        if rep % nshards == shard:
            yield {'kind': 'curve', 'p': rng.randint(1, 6), 't': rng.randint(1, 3), 'rational': rng.random() < 0.5,
                   'dim': rng.choice([2, 3]), 'seed': rng.randrange(1 << 30)}
            if rep % 3 != 2:
                yield {'kind': 'nonbezier', 'p': rng.randint(1, 4), 't': rng.randint(1, 2), 'rational': rng.random() < 0.5,
                       'cls': rng.choice(['interior', 'unclamped']), 'seed': rng.randrange(1 << 30)}
            if rep % 2 == 1:
                yield {'kind': 'surface-ops', 't': rng.randint(1, 2), 'rational': rng.random() < 0.5, 'seed': rng.randrange(1 << 30)}


def polygon(rng, p, cls, dim):
    if cls == 'lattice':
        return [[float(rng.randint(-9, 9)) for _ in range(dim)] for _ in range(p + 1)]
    if cls == 'big':
        return [[rng.uniform(-1e3, 1e3) for _ in range(dim)] for _ in range(p + 1)]
    P = [[rng.uniform(-10, 10) for _ in range(dim)] for _ in range(p + 1)]
    if cls == 'homogeneous':
        W = [rng.uniform(0.2, 5) for _ in range(p + 1)]
        return [[c * w for c in pt] + [w] for pt, w in zip(P, W)]
    return P


def scale(P):
    return max(1.0, max(abs(c) for pt in P for c in pt))


def same_curve(ctx, P, Q, what, key, msg):
    n = 2 * (len(Q) - 1) + 3
    S = scale(P)
    for k in range(n):
        t = F(k, n - 1)
        a = ref.bernstein_point(P, t)
        b = ref.bernstein_point(Q, t)
        if len(a) != len(b) or any(abs(x - y) > F(1e-9) * F(S) for x, y in zip(a, b)):
            ctx.fail(key, msg + ' (curves differ at t=%s)' % t, P=P, Q=Q)
            return False
        ctx.ok(what)
    return True


def check_nonbezier(case, ctx, rng):
    """operations.degree_operations on a curve that is NOT a Bezier curve (interior knots, or a single span with unclamped ends): the
    property allows two outcomes - the request is rejected, or the result is the same curve (a general B-spline elevation)."""
    from geomdl import operations
    from geomdl.exceptions import GeomdlException
    from .. import shapeops as so
    p, t = case['p'], case['t']
    cls = case['cls']
    if cls == 'interior':
        for _ in range(20):
            sd = G.rand_shape(rng, 1, rational=case['rational'], clamped_only=True, kvcls='random', mindeg=p, maxdeg=p, maxextra=3)
            if sd['sizes'][0] > p + 1:
                break
        else:
            raise Reject()
    else:
        sd = G.rand_shape(rng, 1, rational=case['rational'], kvcls='unclamped', mindeg=p, maxdeg=p, maxextra=0, normalize=False)
        if len(set(sd['kvs'][0][:p + 1])) == 1 and len(set(sd['kvs'][0][-p - 1:])) == 1:
            raise Reject()
    o = G.build(sd)
    S0 = G.defn_of(o)
    pre = G.snapshot(o)
    ctx.tag('cls:nonbezier-' + cls)
    ctx.nontriv(True)
    try:
        with so.quiet():
            operations.degree_operations(o, [t])
    except GeomdlException:
        ctx.ok('nonbezier')
        ctx.check(G.snapshot(o) == pre, 'operations/nonbezier-rejected-but-modified', 'degree_operations rejected a non-Bezier curve but modified it',
                  what='nonbezier')
        return
    post = G.snapshot(o)
    S1 = G.defn_of_snapshot(post)
    dom0, dom1 = S0.domain()[0], S1.domain()[0]
    same_dom = abs(float(dom0[0]) - float(dom1[0])) <= 1e-12 and abs(float(dom0[1]) - float(dom1[1])) <= 1e-12
    ok = same_dom and post['degrees'][0] == p + t
    if ok:
        sc = so.scale_of_defn(S0)
        for q in so.probe_params(rng, S0, nrand=5, maxn=14):
            a, b = S0.point(q), S1.point(q)
            if any(abs(x - y) > F(1e-9 * sc) for x, y in zip(a, b)):
                ok = False
                break
    ctx.check(ok, 'operations/non-bezier-curve-accepted-and-changed', 'degree_operations(curve, [%d]) on a non-Bezier curve (degree %d, %s) neither '
              'rejected it nor preserved it: degree %d -> %d, domain %r -> %r' % (t, p, 'interior knots' if cls == 'interior' else 'single span, '
              'unclamped ends', p, post['degrees'][0], tuple(map(float, dom0)), tuple(map(float, dom1))), what='nonbezier')


def check_surface_ops(case, ctx, rng):
    """operations.degree_operations on a Bezier surface (rows of points at object level): elevated to the requested degrees with the same
    points, or rejected - not a silent no-op"""
    from geomdl import operations
    from geomdl.exceptions import GeomdlException
    from .. import shapeops as so
    sd = G.rand_shape(rng, 2, rational=case['rational'], kvcls='bezier', maxdeg=3, maxextra=0)
    o = G.build(sd)
    S0 = G.defn_of(o)
    pre = G.snapshot(o)
    prm = [case['t'], rng.choice([0, 1, 2])]
    rng.shuffle(prm)
    ctx.tag('cls:surface-level')
    ctx.nontriv(True)
    try:
        with so.quiet():
            operations.degree_operations(o, prm)
    except GeomdlException:
        ctx.ok('surface-level')
        return
    post = G.snapshot(o)
    want = [p + t for p, t in zip(pre['degrees'], prm)]
    if not ctx.check(post['degrees'] == want, 'operations/surface-silent-noop', 'degree_operations(surface, %r) returned without an error but the degrees '
                     'are %r (were %r)' % (prm, post['degrees'], pre['degrees']), what='surface-level'):
        return
    S1 = G.defn_of_snapshot(post)
    sc = so.scale_of_defn(S0)
    for q in so.probe_params(rng, S0, nrand=5, maxn=12):
        ctx.near([float(x) for x in S1.point(q)], S0.point(q), 1e-9 * sc, 'operations/surface-changed', 'degree_operations moved the surface at %r' % (q,),
                 what='surface-level')


def check(case, ctx):
    from geomdl import helpers
    rng = random.Random(case['seed'])
    if case['kind'] == 'nonbezier':
        return check_nonbezier(case, ctx, random.Random(case['seed']))
    if case['kind'] == 'surface-ops':
        return check_surface_ops(case, ctx, random.Random(case['seed']))
    if case['kind'] == 'reject':
        return check_reject(case, ctx, rng)
    if case['kind'] == 'curve':
        return check_curve(case, ctx, rng)
    p, t, cls, dim = case['p'], case['t'], case['cls'], case['dim']
    ctx.tag('deg%d' % p, 'num%d' % t, 'cls:' + ('cartesian' if cls in ('lattice', 'big') else cls))
    ctx.nontriv(p >= 2 or t >= 2)
    if cls == 'rows':
        return check_rows(case, ctx, rng)
    P = polygon(rng, p, cls, dim)
    P0 = copy.deepcopy(P)
    S = scale(P)
    Q = helpers.degree_elevation(p, P, num=t)
    ctx.check(P == P0, 'input-modified', 'degree_elevation modified its input', what='intact')
    if not ctx.check(len(Q) == p + 1 + t and all(len(q) == len(P[0]) for q in Q), 'elev/size',
                     'degree_elevation(p=%d, num=%d) returned %d points' % (p, t, len(Q)), what='size'):
        return
    same_curve(ctx, P, Q, 'elev-identity', 'elev/curve-changed', 'degree_elevation(p=%d, num=%d) changed the curve' % (p, t))
    ctx.check(all(abs(a - b) <= 1e-12 * S for a, b in zip(Q[0], P[0])) and all(abs(a - b) <= 1e-12 * S for a, b in zip(Q[-1], P[-1])),
              'elev/endpoints', 'degree_elevation moved an end point', what='endpoints')
    # reduction inverts a single elevation, for every degree
    Q1 = helpers.degree_elevation(p, P, num=1)
    Q1c = copy.deepcopy(Q1)
    R = helpers.degree_reduction(p + 1, Q1)
    ctx.check(Q1 == Q1c, 'input-modified', 'degree_reduction modified its input', what='intact')
    # the two polygons are two objects: editing the reduced polygon afterwards does not move the polygon it was computed from (nor does
    # editing the elevated polygon move the one returned by degree_elevation's input)
    shared = [i_ for i_, r_ in enumerate(R) if any(r_ is q_ for q_ in Q1)] + [i_ for i_, q_ in enumerate(Q) if any(q_ is p_ for p_ in P)]
    ctx.check(not shared, 'result-aliases-input', 'degree_reduction / degree_elevation return a polygon that shares point objects (indices %r) '
              'with the polygon it was given: editing one edits the other' % shared, what='intact')
    ok = len(R) == p + 1 and all(abs(a - b) <= 1e-9 * S for r, q in zip(R, P) for a, b in zip(r, q))
    ctx.check(ok, 'reduce/not-inverse', 'degree_reduction(degree_elevation(P)) != P for degree %d -> %d -> %d: max err %s'
              % (p, p + 1, p, max([abs(a - b) for r, q in zip(R, P) for a, b in zip(r, q)] or [None])
                 if len(R) == p + 1 else 'size %d' % len(R)), what='reduce-inverts', P=P, R=R)
    # multi-step: elevate t (at once), reduce t times
    cur = Q
    d = p + t
    for _ in range(t):
        cur = helpers.degree_reduction(d, cur)
        d -= 1
    ok = len(cur) == p + 1 and all(abs(a - b) <= 1e-7 * S for r, q in zip(cur, P) for a, b in zip(r, q))
    ctx.check(ok, 'reduce/not-inverse', 'elevating degree %d by %d and reducing %d times does not return the original polygon'
              % (p, t, t), what='multi-step', P=P, R=cur)
    # elevating in steps equals elevating at once (same curve)
    step = P
    for k in range(t):
        step = helpers.degree_elevation(p + k, step, num=1)
    same_curve(ctx, P, step, 'elev-identity', 'elev/curve-changed', 'repeated single elevations changed the curve')


def check_rows(case, ctx, rng):
    """polygon whose control 'points' are rows of points (a surface's control net elevated in one direction)"""
    from geomdl import helpers
    p, t, dim = case['p'], case['t'], case['dim']
    ncol = rng.randint(2, 4)
    cols = [polygon(rng, p, 'cartesian', dim) for _ in range(ncol)]
    rows = [[cols[c][i] for c in range(ncol)] for i in range(p + 1)]
    try:
        Q = helpers.degree_elevation(p, copy.deepcopy(rows), num=t)
    except Exception as e:
        ctx.fail('rows-of-points/unsupported', 'degree_elevation on a polygon of rows of points raised %s: %s'
                 % (type(e).__name__, e))
        return
    if not ctx.check(len(Q) == p + 1 + t and all(len(r) == ncol for r in Q), 'rows-of-points/size', 'wrong size', what='size'):
        return
    for c in range(ncol):
        same_curve(ctx, cols[c], [Q[i][c] for i in range(p + 1 + t)], 'elev-identity', 'rows-of-points/curve-changed',
                   'degree_elevation on rows of points changed column %d' % c)
    try:
        Q1 = helpers.degree_elevation(p, copy.deepcopy(rows), num=1)
        R = helpers.degree_reduction(p + 1, Q1)
    except Exception as e:
        ctx.fail('rows-of-points/unsupported', 'degree_reduction on a polygon of rows of points raised %s' % type(e).__name__)
        return
    S = max(scale(c) for c in cols)
    ok = len(R) == p + 1 and all(abs(a - b) <= 1e-9 * S for rr, qq in zip(R, rows) for r, q in zip(rr, qq) for a, b in zip(r, q))
    ctx.check(ok, 'rows-of-points/reduce-not-inverse', 'reduction of elevated rows != original', what='reduce-inverts')
    # the input is left as it was and the results share no point objects with it (as for flat polygons)
    rows_in = copy.deepcopy(rows)
    Q2 = helpers.degree_elevation(p, rows_in, num=t)
    R2 = helpers.degree_reduction(p + t, Q2) if p + t >= 2 else []
    ctx.check(rows_in == rows, 'input-modified', 'degree_elevation modified a polygon of rows of points', what='intact')
    ids_in = set(id(pt) for row in rows_in for pt in row)
    ids_q = set(id(pt) for row in Q2 for pt in row)
    shared = [1 for row in Q2 for pt in row if id(pt) in ids_in] + [1 for row in R2 for pt in row if id(pt) in ids_q]
    ctx.check(not shared, 'result-aliases-input', 'degree_elevation / degree_reduction on rows of points return %d point objects of their input'
              % len(shared), what='intact')
    # rows of rows of points (the control net of a volume in one direction): every point column is a polygon of its own
    if rng.random() < 0.4:
        ctx.tag('cls:rows-of-rows')
        nlay = rng.randint(2, 3)
        grid = [[[polygon(rng, p, 'cartesian', dim) for _ in range(nlay)] for _ in range(ncol)]]  # grid[0][c][l] = polygon
        net = [[[grid[0][c][l][i] for l in range(nlay)] for c in range(ncol)] for i in range(p + 1)]
        try:
            Q3 = helpers.degree_elevation(p, copy.deepcopy(net), num=t)
        except Exception as e:
            ctx.fail('rows-of-points/unsupported', 'degree_elevation on rows of rows of points raised %s: %s' % (type(e).__name__, e))
            return
        if ctx.check(len(Q3) == p + 1 + t and all(len(r) == ncol and all(len(x) == nlay for x in r) for r in Q3), 'rows-of-points/size',
                     'wrong size for rows of rows', what='size'):
            for c in range(ncol):
                for l in range(nlay):
                    same_curve(ctx, grid[0][c][l], [Q3[i][c][l] for i in range(p + 1 + t)], 'elev-identity', 'rows-of-points/curve-changed',
                               'degree_elevation on rows of rows of points changed column (%d, %d)' % (c, l))


def check_reject(case, ctx, rng):
    from geomdl import helpers
    p = case['p']
    ctx.nontriv(True)

    def must_raise(fn, key, msg):
        try:
            fn()
        except Exception:
            ctx.ok('reject')
            return
        ctx.fail(key, msg)
    if p >= 1:
        P = polygon(rng, p, 'cartesian', 3)
        must_raise(lambda: helpers.degree_elevation(p, P + [P[-1]], num=1), 'reject/non-bezier-accepted',
                   'degree_elevation accepted %d points for degree %d' % (p + 2, p))
        if p >= 2:
            must_raise(lambda: helpers.degree_elevation(p, P[:-1], num=1), 'reject/non-bezier-accepted',
                       'degree_elevation accepted %d points for degree %d' % (p, p))
        for bad in (0, -1, -3):
            must_raise(lambda: helpers.degree_elevation(p, P, num=bad), 'reject/non-positive-count-accepted',
                       'degree_elevation accepted num=%d' % bad)
        if p >= 2:
            must_raise(lambda: helpers.degree_reduction(p, P + [P[-1]]), 'reject/non-bezier-accepted',
                       'degree_reduction accepted %d points for degree %d' % (p + 2, p))
            for k_ in (1, 2):
                if p + 1 - k_ >= 1:
                    must_raise(lambda: helpers.degree_reduction(p, P[:p + 1 - k_]), 'reject/non-bezier-accepted',
                               'degree_reduction accepted %d points for degree %d' % (p + 1 - k_, p))
            must_raise(lambda: helpers.degree_elevation(p, P + [P[-1], P[0]], num=2), 'reject/non-bezier-accepted',
                       'degree_elevation accepted %d points for degree %d' % (p + 3, p))
    for q in (0, 1):
        Pq = polygon(rng, q, 'cartesian', 2)
        must_raise(lambda: helpers.degree_reduction(q, Pq), 'reject/degree<2-accepted', 'degree_reduction accepted degree %d' % q)


def check_curve(case, ctx, rng):
    """the same Bezier polygons (Cartesian / homogeneous) pushed through the curve-level route operations.degree_operations"""
    from geomdl import operations
    from .. import gen as G
    p, t = case['p'], case['t']
    ctx.tag('deg%d' % p, 'num%d' % t, 'cls:curve-level')
    ctx.nontriv(True)
    sd = G.rand_shape(rng, 1, rational=case['rational'], mindeg=p, maxdeg=p, maxextra=0, clamped_only=True, dim=case['dim'],
                      pcls='uniform', wcls='uniform')
    c = G.build(sd)
    P0 = G.hom_pts_of(c)
    S = scale(P0)
    if rng.random() < 0.6:
        c.ctrlpts          # a caller that looked at the polygon before elevating it
        if case['rational'] and rng.random() < 0.5:
            c.weights

    def views_ok(stage):
        # the polygon as reported through ctrlpts (and weights) is the polygon of the curve as it is now
        pw = G.hom_pts_of(c)
        cp = [list(p) for p in c.ctrlpts]
        ok = len(cp) == len(pw)
        if ok and case['rational']:
            ok = all(abs(x * h[-1] - y) <= 1e-9 * max(1.0, abs(y)) for q, h in zip(cp, pw) for x, y in zip(q, h[:-1]))
        elif ok:
            ok = all(abs(x - y) <= 1e-12 * max(1.0, abs(y)) for q, h in zip(cp, pw) for x, y in zip(q, h))
        return ctx.check(ok, 'curve-level/stale-polygon-view', '%s: ctrlpts reports %d points / other values than the curve\'s control polygon '
                         '(%d points)' % (stage, len(cp), len(pw)), what='size')
    operations.degree_operations(c, [t])
    P1 = G.hom_pts_of(c)
    if not views_ok('after degree_operations(+%d)' % t):
        return
    if not ctx.check(c.degree == p + t and len(P1) == p + t + 1, 'curve-level/elev-size', 'degree_operations(+%d) on a degree-%d Bezier curve: '
                     'degree %r, %d control points' % (t, p, c.degree, len(P1)), what='size'):
        return
    if not same_curve(ctx, P0, P1, 'elev-identity', 'curve-level/elev-curve-changed', 'degree_operations(+%d) changed a %s Bezier curve'
                      % (t, 'rational' if case['rational'] else 'non-rational')):
        return
    for _ in range(t):
        operations.degree_operations(c, [-1])
        if not views_ok('after reducing'):
            return
    P2 = G.hom_pts_of(c)
    ok = c.degree == p and len(P2) == len(P0) and all(len(a) == len(b) and all(abs(x - y) <= 1e-7 * S for x, y in zip(a, b)) for a, b in zip(P2, P0))
    ctx.check(ok, 'curve-level/reduce-not-inverse', 'elevating a %s degree-%d Bezier curve by %d and reducing %d times through '
              'degree_operations does not return the original (homogeneous) control points' % ('rational' if case['rational'] else 'non-rational', p, t, t),
              what='reduce-inverts', P0=P0, P2=P2)
