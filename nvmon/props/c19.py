"""C19 — equality of shapes is an equivalence relation that tracks the definition."""
import copy
import random

from .. import gen as G
from ..core import Reject

ID = 'C19'
SHARDS = {'quick': 2, 'thorough': 8}
BUDGET = {'quick': 120, 'thorough': 900}
RULE = ("cases: a random shape (curve/surface/volume, rational or not) and a partner built independently that differs in "
        "exactly one component by >= 1e-6*scale (one control coordinate, one weight, one interior knot, a whole knot vector rescaled or shifted, degree, size, "
        "rationality, parametric dimension) or in nothing; judged: reflexive, symmetric, != is the negation, deepcopy "
        "equals source, unequal iff a component differs. Non-trivial: every case (each has a differing or an identical "
        "partner and >= 6 comparisons); distinct = distinct case hash.")
ASSUMPTIONS = ["differences below 1e-12 are never generated, so the unspecified size of the comparison tolerance cannot matter"]
FLOORS = {'quick': {'reflexive': 300, 'symmetric': 300, 'copy-equal': 300, 'rebuilt-equal': 300, 'differs': 250,
                    'ne-consistent': 600},
          'thorough': {'differs': 2500}}
MANDATORY_TAGS = ['mut:coord', 'mut:weight', 'mut:knot', 'mut:degree', 'mut:size', 'mut:rational', 'mut:pdim', 'mut:none', 'mut:hom_w', 'mut:knot-vector-rescaled', 'via-copy', 'mixed-precision',
                  'pdim1', 'pdim2', 'pdim3', 'emptied:reset']
TECHNIQUE = "runtime monitoring: metamorphic oracle on == / != of live shape objects over generated one-component mutations"
LEVEL_TEXT = ("Each generated pair is compared in both directions with == and != and against the known difference between the "
              "two definitions; holds on the pairs observed.")

MUTS = ['coord', 'weight', 'knot', 'degree', 'size', 'rational', 'pdim', 'none', 'none', 'coord', 'knot_unnorm', 'coord_last',
        'hom_w', 'knot_dir0', 'knot_affine']


def gen(rng, tier, shard, nshards):
    n = 260 if tier == 'quick' else 1500
    for i in range(n):
        pdim = rng.choice([1, 1, 2, 2, 3])
        mut = MUTS[i % len(MUTS)]
        rational = True if mut in ('weight', 'hom_w') else None
        sd = G.rand_shape(rng, pdim, rational=rational, clamped_only=True, normalize=(mut not in ('knot_unnorm', 'knot_affine')),
                          maxextra=4)
        yield {'kind': 'pair', 'sd': sd, 'mut': mut, 'seed': rng.randrange(1 << 30)}
        if i % 4 == 2:
            yield {'kind': 'emptied', 'sd': G.rand_shape(rng, pdim, clamped_only=True, maxextra=3), 'seed': rng.randrange(1 << 30)}
        if i % 4 == 0:
            # un-normalised so that the knots are stored as given whatever the precision
            sd2 = G.rand_shape(rng, pdim, clamped_only=True, normalize=False, maxextra=4)
            yield {'kind': 'mixed-precision', 'sd': sd2, 'seed': rng.randrange(1 << 30)}


def mutate(sd, mut, rng):
    """returns (partner shape dict or None, partner object builder)"""
    b = copy.deepcopy(sd)
    S = max(1.0, max(abs(c) for p in sd['ctrlpts'] for c in p))
    if mut in ('coord', 'coord_last'):
        i = rng.randrange(len(b['ctrlpts'])) if mut == 'coord' else len(b['ctrlpts']) - 1
        j = rng.randrange(len(b['ctrlpts'][i])) if mut == 'coord' else len(b['ctrlpts'][i]) - 1
        b['ctrlpts'][i][j] += rng.choice([1e-6 * S, 1e-3 * S, 1.0, -2.5])
    elif mut == 'weight':
        i = rng.randrange(len(b['weights']))
        b['weights'][i] *= rng.choice([1.001, 2.0, 0.5])
        # keep the Cartesian point: homogeneous coordinates change with the weight
    elif mut in ('knot', 'knot_unnorm', 'knot_dir0'):
        cands = [(d, i) for d, (kv, p) in enumerate(zip(b['kvs'], b['degrees'])) for i in range(p + 1, len(kv) - p - 1)
                 if mut != 'knot_dir0' or d == 0]
        if not cands:
            raise Reject()
        d, i = rng.choice(cands)
        kv = b['kvs'][d]
        lo, hi = kv[i - 1], kv[i + 1]
        new = kv[i] + rng.choice([-1, 1]) * 0.4 * min(max(kv[i] - lo, 1e-3), max(hi - kv[i], 1e-3))
        new = min(max(new, lo), hi)
        if abs(new - kv[i]) < 1e-4 * (kv[-1] - kv[0]):
            raise Reject()
        kv[i] = new
    elif mut == 'knot_affine':
        # shapes which keep their knot vectors as given: the whole knot vector of one direction scaled and/or shifted is another
        # parametrisation (every knot but possibly one differs), whichever of the two is the raw one
        d = rng.randrange(b['pdim'])
        kv = b['kvs'][d]
        sc, sh = rng.choice([(2.0, 0.0), (1.0, 1.0), (0.5, -0.25), (10.0, 0.0), (1.0, -(kv[-1] - kv[0]))])
        b['kvs'][d] = [sc * k + sh * (kv[-1] - kv[0]) for k in kv]
        if rng.random() < 0.3:
            b['normalize_kv'] = True
            b['kvs'][d] = [(k - kv[0]) / (kv[-1] - kv[0]) * 1.0 for k in kv]
            if max(abs(x - y) for x, y in zip(b['kvs'][d], kv)) < 1e-4:
                b['normalize_kv'] = False
                b['kvs'][d] = [2.0 * k for k in kv] if kv[-1] != 0.0 else [2.0 * k - 1.0 for k in kv]
    elif mut == 'degree':
        d = rng.randrange(b['pdim'])
        p, n = b['degrees'][d], b['sizes'][d]
        if p + 1 <= n - 1:
            newp = p + 1
        elif p > 1:
            newp = p - 1
        else:
            raise Reject()
        b['degrees'][d] = newp
        b['kvs'][d] = G.knot_vector(rng, newp, n, 'uniform')
    elif mut == 'size':
        d = rng.randrange(b['pdim'])
        b['sizes'][d] += 1
        ntot = 1
        for s in b['sizes']:
            ntot *= s
        dim = len(b['ctrlpts'][0])
        b['ctrlpts'] = [G.rand_point(rng, dim, 'uniform') for _ in range(ntot)]
        if b['rational']:
            b['weights'] = G.rand_weights(rng, ntot, 'uniform')
        b['kvs'][d] = G.knot_vector(rng, b['degrees'][d], b['sizes'][d], 'uniform')
    elif mut == 'rational':
        if b['rational']:
            b['rational'] = False
            b.pop('weights')
        else:
            b['rational'] = True
            b['weights'] = [1.0] * len(b['ctrlpts'])
    elif mut == 'pdim':
        newp = rng.choice([x for x in (1, 2, 3) if x != b['pdim']])
        b = G.rand_shape(rng, newp, rational=sd['rational'], clamped_only=True, maxextra=3)
    elif mut == 'none':
        pass
    return b


def check_mixed_precision(case, ctx):
    """two shapes created with different precision= (library routines create their results with the default, so such pairs arise
    unasked) whose data differ by an amount between the two tolerances: == must still be symmetric"""
    rng = random.Random(case['seed'])
    sd = case['sd']
    pa, pb = rng.sample([5, 8, 12, 18], 2)
    lo, hi = min(pa, pb), max(pa, pb)
    delta = 10.0 ** (-rng.uniform(lo + 0.5, min(hi, 15) - 0.5)) if min(hi, 15) - lo >= 1.5 else 10.0 ** (-(lo + 0.7))
    sd = copy.deepcopy(sd)
    if rng.random() < 0.5:
        # large coordinates (offsets of 1e3 / 1e6): the comparison tolerance is an absolute number of decimals, not relative to them
        off = rng.choice([1e3, 1e6])
        sd['ctrlpts'] = [[c + off for c in pt] for pt in sd['ctrlpts']]
        delta = max(delta, 4e-10 * off)          # (keep the difference representable next to the offset)
        ctx.tag('precision:large-coordinates')
        if delta >= 10.0 ** (-lo - 0.2):
            raise Reject()
    bsd = copy.deepcopy(sd)
    what = rng.choice(['coord', 'coord', 'knot']) if any(len(kv) > 2 * (p + 1) for kv, p in zip(sd['kvs'], sd['degrees'])) else 'coord'
    if what == 'coord':
        i = rng.randrange(len(bsd['ctrlpts']))
        j = rng.randrange(len(bsd['ctrlpts'][i]))
        bsd['ctrlpts'][i][j] += delta
    else:
        d = rng.choice([d for d, (kv, p) in enumerate(zip(sd['kvs'], sd['degrees'])) if len(kv) > 2 * (p + 1)])
        i = rng.randrange(sd['degrees'][d] + 1, len(sd['kvs'][d]) - sd['degrees'][d] - 1)
        bsd['kvs'][d][i] += delta
        if not bsd['kvs'][d][i - 1] <= bsd['kvs'][d][i] <= bsd['kvs'][d][i + 1]:
            raise Reject()
    a = G.build(sd, precision=pa)
    b = G.build(bsd, precision=pb)
    ctx.nontriv(True)
    ctx.tag('mixed-precision', 'pdim%d' % sd['pdim'])
    ab, ba = (a == b), (b == a)
    # two shapes of the SAME (coarse) precision that differ by 30x its tolerance are not equal, whatever the size of the coordinates
    c1, c2 = G.build(sd, precision=lo), None
    bsd2 = copy.deepcopy(sd)
    i2 = rng.randrange(len(bsd2['ctrlpts']))
    bsd2['ctrlpts'][i2][0] += 30.0 * 10.0 ** (-lo)
    c2 = G.build(bsd2, precision=lo)
    if not sd['rational']:
        ctx.check((c1 == c2) is False and (c2 == c1) is False, 'unequal-not-detected/precision', 'two precision=%d shapes whose control point differs by '
                  '%.3g (30x the tolerance) compare equal' % (lo, 30.0 * 10.0 ** (-lo)), what='unequal-detected')
    ctx.check(ab == ba, 'symmetric/mixed-precision', '(a == b) = %r but (b == a) = %r for shapes created with precision=%d and precision=%d '
              'whose %s differs by %.3g' % (ab, ba, pa, pb, what, delta), what='symmetric')
    ctx.check((a != b) == (not ab) and (b != a) == (not ba), 'ne-consistent', '!= is not the negation of == (mixed precision)',
              what='ne-consistent')
    ctx.check((a == a) is True and (b == b) is True, 'reflexive', 'a == a is not True (precision=%d/%d)' % (pa, pb), what='reflexive')
    ac, bc = copy.deepcopy(a), copy.deepcopy(b)
    ctx.check((ac == a) is True and (a == ac) is True and (bc == b) is True, 'copy-equal', 'deepcopy(a) == a is not True (precision=%d/%d)'
              % (pa, pb), what='copy-equal')


def check_emptied(case, ctx):
    """one shape of the pair has lost (or never consistently received) its control points through public calls: they hold different
    numbers of control points, so they are not equal"""
    from geomdl.exceptions import GeomdlException
    rng = random.Random(case['seed'])
    sd = case['sd']
    a = G.build(sd)
    b = copy.deepcopy(a)
    how = rng.choice(['reset', 'rejected-assignment', 'too-many-points'])
    ctx.nontriv(True)
    ctx.tag('emptied:' + how, 'pdim%d' % sd['pdim'])
    if how == 'reset':
        b.reset(ctrlpts=True)                       # documented: "resets control points"
    elif how == 'rejected-assignment':
        bad = [list(p) for p in b.ctrlptsw] if sd['rational'] else [list(p) for p in b.ctrlpts]
        bad[-1] = bad[-1][:-1]                      # one point of another dimension: the assignment is refused
        try:
            if sd['pdim'] == 1:
                b.set_ctrlpts(bad)
            else:
                b.set_ctrlpts(bad, *sd['sizes'])
            ctx.count('malformed-net-accepted')
            return
        except (ValueError, GeomdlException, IndexError):
            pass
    else:
        if sd['pdim'] == 1:
            raise Reject()
        pts = [list(p) for p in (b.ctrlptsw if sd['rational'] else b.ctrlpts)]
        more = pts + [[c + 1.0 for c in pts[0]]] * rng.randint(1, 3)
        try:
            b.set_ctrlpts(more, *sd['sizes'])       # more points than size_u * size_v (* size_w)
        except (ValueError, GeomdlException, IndexError):
            ctx.ok('inconsistent-net-refused')
            return
    na, nb = len(a.ctrlpts), len(b.ctrlpts)
    if na == nb:
        raise Reject()
    ab, ba = (a == b), (b == a)
    ctx.check(ab is False and ba is False, 'equal-with-different-point-counts', 'shapes holding %d and %d control points (%s) compare '
              'a == b: %r, b == a: %r' % (na, nb, how, ab, ba), what='unequal-detected')
    ctx.check((a != b) == (not ab) and (b != a) == (not ba), 'ne-consistent', '!= is not the negation of ==', what='ne-consistent')


def check(case, ctx):
    if case.get('kind') == 'mixed-precision':
        return check_mixed_precision(case, ctx)
    if case.get('kind') == 'emptied':
        return check_emptied(case, ctx)
    rng = random.Random(case['seed'])
    sd, mut = case['sd'], case['mut']
    bsd = mutate(sd, mut, rng)
    a = G.build(sd)
    b = G.build(bsd)
    if mut == 'hom_w':
        # only the homogeneous weight coordinate of one control point differs (x*w, y*w, z*w stay put)
        pw = [list(p) for p in b.ctrlptsw]
        i = rng.randrange(len(pw))
        pw[i][-1] = pw[i][-1] * rng.choice([1.001, 2.0, 0.5]) + rng.choice([0.0, 1e-3])
        if sd['pdim'] == 1:
            b.set_ctrlpts(pw)
        else:
            b.set_ctrlpts(pw, *sd['sizes'])
    ctx.nontriv(True)
    ctx.tag('mut:' + {'knot_unnorm': 'knot', 'knot_dir0': 'knot', 'knot_affine': 'knot', 'coord_last': 'coord', 'hom_w': 'weight'}.get(mut, mut), 'pdim%d' % sd['pdim'])
    if mut == 'hom_w':
        ctx.tag('mut:hom_w')
    if mut == 'knot_affine':
        ctx.tag('mut:knot-vector-rescaled')
    # reflexive, copy
    ctx.check((a == a) is True and (b == b) is True, 'reflexive', 'a == a is not True', what='reflexive')
    ac = copy.deepcopy(a)
    ctx.check((ac == a) is True and (a == ac) is True, 'copy-equal', 'deepcopy(a) == a is not True', what='copy-equal')
    a2 = G.build(sd)
    ctx.check((a2 == a) is True and (a == a2) is True, 'rebuilt-equal', 'an independently rebuilt identical shape compares unequal',
              what='rebuilt-equal')
    # the pair
    ab, ba = (a == b), (b == a)
    ctx.check(ab is ba or ab == ba, 'symmetric', '(a == b) = %r but (b == a) = %r [%s]' % (ab, ba, mut), what='symmetric')
    ctx.check((a != b) == (not ab) and (b != a) == (not ba) and (a != a) is False, 'ne-consistent',
              '!= is not the negation of == [%s]' % mut, what='ne-consistent')
    ctx.count('ne-consistent')
    if mut == 'none':
        ctx.check(ab is True, 'equal-rejected', 'identical definitions compare unequal', what='rebuilt-equal')
    else:
        ctx.check(ab is False and ba is False, 'differs/%s' % {'knot_unnorm': 'knot', 'knot_dir0': 'knot', 'knot_affine': 'knot', 'coord_last': 'coord', 'hom_w': 'weight'}.get(mut, mut),
                  'shapes differing in one %s compare equal' % mut, what='differs')
    # ---- the same difference produced by editing a DEEP COPY through the public setters (copy, edit, compare) -------------------
    if mut in ('coord', 'coord_last', 'weight', 'degree', 'knot', 'knot_unnorm', 'knot_dir0', 'knot_affine') and bsd.get('normalize_kv', True) == sd.get('normalize_kv', True) and bsd['pdim'] == sd['pdim'] and \
            bsd['sizes'] == sd['sizes']:
        ctx.tag('via-copy')
        c = copy.deepcopy(a)
        pdim = sd['pdim']
        if mut == 'degree':
            if pdim == 1:
                c.degree = bsd['degrees'][0]
            else:
                for d_, nm in enumerate(('degree_u', 'degree_v', 'degree_w')[:pdim]):
                    if bsd['degrees'][d_] != sd['degrees'][d_]:
                        setattr(c, nm, bsd['degrees'][d_])
            cpw = G.ctrlptsw_of(bsd)
            if pdim == 1:
                c.set_ctrlpts(cpw)
                c.knotvector = list(bsd['kvs'][0])
            else:
                c.set_ctrlpts(cpw, *bsd['sizes'])
                for d_, nm in enumerate(('knotvector_u', 'knotvector_v', 'knotvector_w')[:pdim]):
                    setattr(c, nm, list(bsd['kvs'][d_]))
        elif mut.startswith('knot'):
            for d_, nm in enumerate(('knotvector_u', 'knotvector_v', 'knotvector_w')[:pdim]):
                if bsd['kvs'][d_] != sd['kvs'][d_]:
                    setattr(c, 'knotvector' if pdim == 1 else nm, list(bsd['kvs'][d_]))
        elif sd['rational'] and mut == 'weight' and rng.random() < 0.5:
            # the read-modify-write idiom on the list handed out by the getter
            w_ = c.weights
            for i_, (x_, y_) in enumerate(zip(bsd['weights'], sd['weights'])):
                if x_ != y_:
                    w_[i_] = x_
            c.weights = w_
            ctx.tag('via-copy:read-modify-write')
        elif sd['rational']:
            # populated rational shape: unweighted points first, then the weights (two public setters in a row)
            c.ctrlpts
            c.ctrlpts = [list(p) for p in bsd['ctrlpts']]
            c.weights = list(bsd['weights'])
        else:
            c.ctrlpts = [list(p) for p in bsd['ctrlpts']]
        ca, ac = (c == a), (a == c)
        ctx.check(ca is False and ac is False, 'differs-after-editing-copy/%s' % {'knot_unnorm': 'knot', 'knot_dir0': 'knot', 'knot_affine': 'knot', 'coord_last': 'coord'}.get(mut, mut),
                  'a deep copy edited through the public setters (%s) still compares equal to its source' % mut, what='differs')
        # (rational shapes: P*w/w*w' differs from P*w' by an ulp and the comparison tolerance is 1e-18, so only exact paths are judged)
        if not sd['rational'] or mut in ('degree',) or mut.startswith('knot'):
            ctx.check((c == b) is True, 'edited-copy-not-equal-to-rebuilt/%s' % mut, 'a deep copy edited to the partner definition does not equal the '
                      'independently built partner', what='rebuilt-equal')
        ctx.check((a == G.build(sd)) is True, 'source-changed-by-editing-copy', 'editing a deep copy changed what its source compares equal to',
                  what='rebuilt-equal')
    # ---- volumes defined through the list-form setters: same data => equal, one w-knot different => unequal ---------------------------
    if sd['pdim'] == 3 and mut in ('knot', 'none', 'coord'):
        ctx.tag('list-form-volume')
        p_, n_ = sd['degrees'][1], sd['sizes'][1]
        vsd = dict(sd, degrees=[sd['degrees'][0], p_, p_], sizes=[sd['sizes'][0], n_, n_])
        ntot = vsd['sizes'][0] * n_ * n_
        vsd['ctrlpts'] = [G.rand_point(rng, 3, 'uniform') for _ in range(ntot)]
        if vsd['rational']:
            vsd['weights'] = G.rand_weights(rng, ntot, 'uniform')
        kvv = G.knot_vector(rng, p_, n_ + 0, 'bezier' if n_ == p_ + 1 else 'uniform')
        kvw = list(kvv)
        if n_ > p_ + 1:
            kvw[p_ + 1] = 0.5 * (kvv[p_] + kvv[p_ + 1])          # w differs from v in one interior knot
        vsd['kvs'] = [sd['kvs'][0], kvv, kvw]
        v_dir = G.build(vsd)
        v_list = G.build(dict(vsd, route='list'))
        ctx.check((v_dir == v_list) is True and (v_list == v_dir) is True, 'list-form/not-equal-to-per-direction',
                  'a volume defined with degree = [...], knotvector = [...] does not equal the same volume defined per direction', what='rebuilt-equal')
        if n_ > p_ + 1:
            v_other = G.build(dict(vsd, route='list', kvs=[sd['kvs'][0], kvv, kvv]))
            ctx.check((v_other == v_list) is False, 'differs/knot', 'volumes defined through knotvector = [u, v, w] that differ in one w knot '
                      'compare equal', what='differs')
    # evaluation state must not influence equality
    a3 = G.build(sd)
    a3.sample_size = 3
    a3.evalpts
    ctx.check((a3 == a) is True, 'state-dependent', 'equality changed after evaluating one of the shapes', what='rebuilt-equal')
    # foreign objects
    for other in (5, 'x', None, [1, 2], object()):
        r = (a == other)
        ctx.check(r is False and (a != other) is True, 'foreign', 'comparison with %r returned %r' % (other, r), what='foreign')
