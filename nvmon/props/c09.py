"""C09 — weights, weighted and unweighted control points stay mutually consistent."""
import copy
import random
from fractions import Fraction as F

from .. import gen as G, hooks, ref, shapeops as so
from ..core import Reject

ID = 'C09'
SHARDS = {'quick': 2, 'thorough': 16}
BUDGET = {'quick': 150, 'thorough': 1500}
RULE = ("cases: (a) histories of 2..10 steps on a rational curve/surface/volume drawn from {set ctrlpts, set weights, set ctrlptsw, "
        "set_ctrlpts, scale all weights by c>0, read any view} in random order, checked against a shadow (P, W) after every "
        "step (reads happen before and after each write, so a stale cached view is observable); (b) helper pairs "
        "combine/separate, generate_ctrlptsw/generate_ctrlpts_weights (1-D and 2-D) as mutual inverses with exact products; "
        "(c) bspline_to_nurbs / nurbs_to_bspline evaluation identity vs the exact reference; (d) CPGen.GridWeighted weight "
        "indexing and re-weighting. Non-trivial: weights not all equal and >= 2 writes in the history (a), or non-constant "
        "weights (b-d); distinct = distinct case hash.")
ASSUMPTIONS = ["exact products in Fractions; single multiplications/divisions compared with 1e-12 relative tolerance",
               "weights in [0.1,10]"]
FLOORS = {'quick': {'view-ctrlpts': 800, 'view-weights': 800, 'view-ctrlptsw': 800, 'scale-invariance': 100, 'helper-inverse': 300,
                    'convert': 100, 'grid-weight': 150},
          'thorough': {'view-ctrlpts': 8000, 'view-ctrlptsw': 8000, 'convert': 1000}}
MANDATORY_TAGS = ['pdim1', 'pdim2', 'pdim3', 'op:restructure', 'op:ctrlpts', 'op:weights', 'op:ctrlptsw', 'op:set_ctrlpts', 'op:scaleW',
                  'read-then-write', 'grid', 'convert', 'files:non-square', 'write-back-kept-weights', 'write-back-kept-ctrlpts', 'convert:unnormalized', 'grid:bumps-after-read', 'resize:ctrlpts-other-size', 'resize:weights-wrong-length', 'read-modify-in-place-write:weights', 'read-modify-write:weights', 'read-modify-write:ctrlpts']
TECHNIQUE = ("runtime monitoring: shadow-model oracle (P, W) compared with all three views after every step of seeded "
             "setter/getter histories; exact-product oracles on the helper conversions; reference-model evaluation for "
             "conversions and weight scaling")
LEVEL_TEXT = ("Every step of every generated history is followed by reading ctrlpts, weights and ctrlptsw and comparing them with "
              "the shadow model; conversions are judged by exact evaluation; holds on the histories observed.")


def gen(rng, tier, shard, nshards):
    n = 150 if tier == 'quick' else 900
    for i in range(n):
        pdim = rng.choice([1, 1, 2, 2, 3])
        sd = G.rand_shape(rng, pdim, rational=True, clamped_only=True, maxextra=3, maxdeg=3,
                          wcls=rng.choice(['uniform', 'uniform', 'twolevel', 'const']))
        yield {'kind': 'history', 'sd': sd, 'seed': rng.randrange(1 << 30), 'steps': rng.randint(2, 10)}
        if i % 3 == 0:
            yield {'kind': 'helpers', 'seed': rng.randrange(1 << 30)}
        if i % 3 == 1:
            yield {'kind': 'convert', 'sd': G.rand_shape(rng, rng.choice([1, 2, 3]), rational=False, maxextra=3, maxdeg=3,
                                                         normalize=rng.random() < 0.6),
                   'seed': rng.randrange(1 << 30)}
        if i % 3 == 2:
            yield {'kind': 'grid', 'seed': rng.randrange(1 << 30)}
        if i % 6 == 4:
            yield {'kind': 'files', 'seed': rng.randrange(1 << 30)}


def close(a, b, tol=1e-12):
    if isinstance(a, (list, tuple)):
        return isinstance(b, (list, tuple)) and len(a) == len(b) and all(close(x, y, tol) for x, y in zip(a, b))
    return abs(a - b) <= tol * max(1.0, abs(a), abs(b))


def check(case, ctx):
    return {'history': check_history, 'helpers': check_helpers, 'convert': check_convert, 'grid': check_grid,
            'files': check_files}[case['kind']](case, ctx)


def views_ok(ctx, o, P, W, after):
    exp_w = [[float(F(c) * F(w)) for c in p] + [w] for p, w in zip(P, W)]
    a = ctx.check(close([list(p) for p in o.ctrlpts], P), 'view/ctrlpts', 'after %s: ctrlpts differs from the unweighted points '
                  'last written' % after, what='view-ctrlpts')
    b = ctx.check(close(list(o.weights), W), 'view/weights', 'after %s: weights differs from the weights last written' % after,
                  what='view-weights')
    c = ctx.check(close([list(p) for p in o.ctrlptsw], exp_w), 'view/ctrlptsw', 'after %s: ctrlptsw[i] != (w_i*P_i, w_i)' % after,
                  what='view-ctrlptsw')
    return a and b and c


def check_history(case, ctx):
    sd = case['sd']
    rng = random.Random(case['seed'])
    pdim = sd['pdim']
    o = G.build(sd)
    n = len(sd['ctrlpts'])
    dim = len(sd['ctrlpts'][0])
    P = [list(p) for p in sd['ctrlpts']]
    W = list(sd['weights'])
    ctx.tag('pdim%d' % pdim)
    writes = 0
    kept = {}
    if rng.random() < 0.5:
        views_ok(ctx, o, P, W, 'construction')
    last_read = False
    for step in range(case['steps']):
        op = rng.choice(['ctrlpts', 'weights', 'ctrlptsw', 'set_ctrlpts', 'scaleW', 'read', 'read', 'restructure', 'resize', 'rmw'])
        ctx.tag('op:' + op)
        if op == 'rmw':
            # read - modify in place - write, with nothing in between: w = shape.weights; w[k] = x; shape.weights = w (the list written is
            # the very list the getter handed out, possibly the shape's own cached view)
            last_read = False
            which = rng.choice(['weights', 'weights', 'ctrlpts'])
            lst = getattr(o, which)
            if len(lst) != n:
                continue
            kk = rng.randrange(n)
            if which == 'weights':
                lst[kk] = rng.uniform(0.2, 5)
                W = list(lst)
            else:
                lst[kk] = [rng.uniform(-10, 10) for _ in range(dim)]
                P = [list(q_) for q_ in lst]
            setattr(o, which, lst)
            ctx.tag('read-modify-write:' + which)
            kept.clear()
            writes += 1
            if not views_ok(ctx, o, P, W, 'step %d (read %s, modify entry %d in place, write the same list back)' % (step, which, kk)):
                return
            continue
        if op == 'resize':
            if pdim == 3:
                continue
            last_read = False
            from geomdl import knotvector as KV
            from geomdl.exceptions import GeomdlException
            if rng.random() < 0.35:
                # a weights vector of the wrong length cannot be applied: it must be refused (or at least must not drop control points)
                m = rng.choice([k for k in (n - 2, n - 1, n + 1, n + 2) if k >= 1])
                ctx.tag('resize:weights-wrong-length')
                try:
                    o.weights = [rng.uniform(0.2, 5) for _ in range(m)]
                except (ValueError, GeomdlException):
                    pass
                if not ctx.check(len(o.ctrlptsw) == n, 'resize/weights-dropped-points', 'assigning %d weights to a shape with %d control '
                                 'points left it with %d' % (m, n, len(o.ctrlptsw)), what='resize'):
                    return
                if not views_ok(ctx, o, P, W, 'step %d (refused weights vector of length %d)' % (step, m)):
                    return
                continue
            # a control net of a different size assigned through the unweighted view (sizes first for surfaces, knot vectors after)
            degs = G.degrees_of(o)
            sizes2 = [max(p_ + 1, s_ + rng.choice([-1, 1, 2])) for p_, s_ in zip(degs, G.sizes_of(o))]
            if sizes2 == G.sizes_of(o):
                continue
            m = 1
            for s_ in sizes2:
                m *= s_
            P2 = [[rng.uniform(-10, 10) for _ in range(dim)] for _ in range(m)]
            ctx.tag('resize:ctrlpts-other-size')
            refused = False
            try:
                if pdim == 2:
                    o.ctrlpts_size_u, o.ctrlpts_size_v = sizes2
                o.ctrlpts = [list(p) for p in P2]
            except (ValueError, GeomdlException):
                refused = True
            if refused:
                # an explicit refusal is acceptable; the history ends here (the object may be half-resized for surfaces)
                ctx.ok('resize')
                return
            got = [list(p) for p in o.ctrlpts]
            if not ctx.check(len(got) == m and close(got, P2), 'resize/ctrlpts-truncated', 'assigned %d unweighted control points to a rational '
                             'shape that had %d; reading ctrlpts back gives %d points' % (m, n, len(got)), what='resize'):
                return
            W = list(o.weights)
            P, n = P2, m
            if not ctx.check(len(W) == m and all(w > 0 for w in W), 'resize/weights-length', 'after the resize weights has %d entries for %d points'
                             % (len(W), m), what='resize'):
                return
            kept.clear()
            sd = dict(sd, sizes=sizes2)
            for d_, (p_, s_) in enumerate(zip(degs, sizes2)):
                kv = KV.generate(p_, s_)
                if pdim == 1:
                    o.knotvector = kv
                else:
                    setattr(o, 'knotvector_' + 'uv'[d_], kv)
            writes += 1
            if not views_ok(ctx, o, P, W, 'step %d (resize to %r)' % (step, sizes2)):
                return
            continue
        if op != 'read' and last_read:
            ctx.tag('read-then-write')
        if op == 'read':
            # partial reads populate the caches in different orders
            which = rng.choice(['ctrlpts', 'weights', 'ctrlptsw'])
            got = getattr(o, which)
            if which != 'ctrlptsw' and rng.random() < 0.5:
                # the caller keeps the list it was handed (no copy) and writes it back later, after other edits
                kept[which] = (got, [x if which == 'weights' else list(x) for x in got])
            last_read = True
            continue
        last_read = False
        if op == 'restructure':
            # operations that rewrite the homogeneous points themselves: afterwards the three views must still be related by
            # multiplication with the weight (checked on the object's own views; P and W are re-read from it)
            from geomdl import operations
            which = rng.choice(['reverse', 'insert', 'translate', 'flip', 'transpose', 'refine'])
            with so.quiet():
                if which == 'reverse' and pdim == 1:
                    o.reverse()
                elif which == 'insert':
                    d = rng.randrange(pdim)
                    pick = so.pick_insertion(rng, o, d, prefer_knot=0.2)
                    if pick is None or max(G.sizes_of(o)) > 10:
                        continue
                    so.call_insert(o, d, pick[0], 1, rng.choice(['operations', 'method']))
                elif which == 'translate':
                    operations.translate(o, [rng.uniform(-2, 2) for _ in range(dim)], inplace=True)
                elif which == 'flip' and pdim == 2:
                    operations.flip(o, inplace=True)
                elif which == 'transpose' and pdim == 2:
                    operations.transpose(o, inplace=True)
                elif which == 'refine' and max(G.sizes_of(o)) <= 6:
                    prm_ = [0] * pdim
                    prm_[rng.randrange(pdim)] = 1
                    operations.refine_knotvector(o, prm_)
                else:
                    continue
            ctx.tag('op:restructure')
            pw_now = [list(p) for p in o.ctrlptsw]
            P = [[c / p[-1] for c in p[:-1]] for p in pw_now]
            W = [p[-1] for p in pw_now]
            n = len(pw_now)
            kept.clear()
            sd = dict(sd, sizes=G.sizes_of(o), degrees=G.degrees_of(o))
            writes += 1
            if not views_ok(ctx, o, P, W, 'step %d (%s)' % (step, which)):
                return
            continue
        if op in kept and len(kept[op][1]) == n and writes >= 1 and rng.random() < 0.6:
            # write back the very list object read earlier (its content as it was when read is what the caller means)
            obj, snap = kept.pop(op)
            ctx.tag('write-back-kept-' + op)
            if op == 'ctrlpts':
                P = [list(p) for p in snap]
            else:
                W = list(snap)
            ok = len(obj) == len(snap)
            if ok and op == 'weights' and rng.random() < 0.6:
                # read - modify in place - write: w = shape.weights; w[k] = x; shape.weights = w
                kk = rng.randrange(len(obj))
                obj[kk] = rng.uniform(0.2, 5)
                W = list(obj)
                ctx.tag('read-modify-in-place-write:weights')
            if not ctx.check(ok, 'kept-view-emptied', 'the %s list handed out earlier now has %d entries (had %d): a later edit emptied the '
                             "caller's list, so writing it back cannot round-trip" % (op, len(obj), len(snap)), what='kept-view'):
                return
            setattr(o, op, obj)
        elif op == 'ctrlpts':
            P = [[rng.uniform(-10, 10) for _ in range(dim)] for _ in range(n)]
            o.ctrlpts = [list(p) for p in P]
        elif op == 'weights':
            W = [rng.uniform(0.2, 5) for _ in range(n)]
            o.weights = list(W)
        elif op in ('ctrlptsw', 'set_ctrlpts'):
            P = [[rng.uniform(-10, 10) for _ in range(dim)] for _ in range(n)]
            W = [rng.uniform(0.2, 5) for _ in range(n)]
            pw = [[c * w for c in p] + [w] for p, w in zip(P, W)]
            # the shadow keeps what multiplication then division yields, up to tolerance
            if op == 'ctrlptsw':
                o.ctrlptsw = pw
            elif pdim == 1:
                o.set_ctrlpts(pw)
            else:
                o.set_ctrlpts(pw, *sd['sizes'])
        elif op == 'scaleW':
            S = G.defn_of(o)
            prs = so.probe_params(rng, S, nrand=3, maxn=6)
            before = [S.point(q) for q in prs]
            c = rng.choice([0.25, 3.0, rng.uniform(0.3, 3)])
            W = [w * c for w in W]
            o.weights = list(W)
            sc = so.scale_of_defn(S)
            for q, b in zip(prs, before):
                ctx.near(G.evaluate_single(o, q), b, 1e-9 * sc, 'weights-scaled-point-moved',
                         'multiplying all weights by %r moved the point at %r' % (c, q), what='scale-invariance')
        writes += 1
        if not views_ok(ctx, o, P, W, 'step %d (%s)' % (step, op)):
            return
        # the evaluated shape follows the views
        if rng.random() < 0.3:
            S = ref.Shape(sd['degrees'], G.kvs_of(o), sd['sizes'],
                          {k: [c * W[f] for c in P[f]] + [W[f]] for k, f in G.net_index(pdim, sd['sizes']).items()}, True)
            q = so.probe_params(rng, S, nrand=1, maxn=3)[-1]
            ctx.near(G.evaluate_single(o, q), S.point(q), 1e-9 * so.scale_of_defn(S), 'evaluation-ignores-setter',
                     'evaluation after %s does not use the values written' % op, what='eval-after-write')
    ctx.nontriv(writes >= 2 and len(set(sd['weights'])) > 1)


def check_helpers(case, ctx):
    from geomdl import compatibility
    rng = random.Random(case['seed'])
    n = rng.randint(1, 9)
    dim = rng.choice([2, 3, 4])
    P = [[rng.uniform(-10, 10) for _ in range(dim)] for _ in range(n)]
    W = [rng.uniform(0.1, 10) for _ in range(n)]
    ctx.nontriv(len(set(W)) > 1)
    pw = compatibility.combine_ctrlpts_weights(copy.deepcopy(P), list(W))
    ok = len(pw) == n
    if ok:
        for r_, p_, w_ in zip(pw, P, W):
            if len(r_) != dim + 1 or r_[-1] != w_:
                ok = False
                break
            for x_, c_ in zip(r_, p_):
                if abs(F(x_) - F(c_) * F(w_)) > abs(F(c_) * F(w_)) * F(1, 10 ** 15):
                    ok = False
    ctx.check(ok, 'helper/combine', 'combine_ctrlpts_weights is not (w*P, w)', what='helper-inverse')
    p2, w2 = compatibility.separate_ctrlpts_weights(pw)
    ctx.check(close(p2, P) and close(list(w2), W), 'helper/separate-not-inverse', 'separate(combine(P,W)) != (P,W)',
              what='helper-inverse')
    pw2 = compatibility.combine_ctrlpts_weights(p2, w2)
    ctx.check(close(pw2, pw), 'helper/combine-not-inverse', 'combine(separate(Pw)) != Pw', what='helper-inverse')
    # (fifth hunt) a weight vector of another length than the points: whatever comes back is separated into what went in - or nothing comes back
    if n >= 2:
        ctx.tag('helper:combine-lengths-differ')
        for Pm, Wm in ((P, W[:-1]), (P[:-1], W)):
            try:
                pwm = compatibility.combine_ctrlpts_weights(copy.deepcopy(Pm), list(Wm))
            except Exception:
                ctx.ok('helper-inverse')
                continue
            pm2, wm2 = compatibility.separate_ctrlpts_weights(pwm)
            ctx.check(len(pm2) == len(Pm) and len(wm2) == len(Wm), 'helper/combine-truncates', 'combine_ctrlpts_weights(%d points, %d weights) returns '
                      '%d weighted points without an error: separate(combine(P, W)) != (P, W)' % (len(Pm), len(Wm), len(pwm)), what='helper-inverse')
    ones = compatibility.combine_ctrlpts_weights(copy.deepcopy(P))
    ctx.check(close(ones, [p + [1.0] for p in P]), 'helper/combine-default', 'combine_ctrlpts_weights(P) must append unit weights',
              what='helper-inverse')
    xyzw = [p + [w] for p, w in zip(P, W)]
    g = compatibility.generate_ctrlptsw(copy.deepcopy(xyzw))
    ctx.check(close(g, pw), 'helper/generate_ctrlptsw', 'generate_ctrlptsw((x,y,z,w)) != (x*w,y*w,z*w,w)', what='helper-inverse')
    back = compatibility.generate_ctrlpts_weights(g)
    ctx.check(close(back, xyzw), 'helper/generate-not-inverse', 'generate_ctrlpts_weights(generate_ctrlptsw(X)) != X',
              what='helper-inverse')
    # 2-D variants
    nu, nv = rng.randint(1, 4), rng.randint(1, 4)
    grid = [[[rng.uniform(-5, 5) for _ in range(3)] + [rng.uniform(0.2, 5)] for _ in range(nv)] for _ in range(nu)]
    g2 = compatibility.generate_ctrlptsw2d(copy.deepcopy(grid))
    ok = all(close(g2[i][j], [grid[i][j][k] * grid[i][j][3] for k in range(3)] + [grid[i][j][3]]) for i in range(nu) for j in range(nv))
    ctx.check(ok and len(g2) == nu and all(len(r) == nv for r in g2), 'helper/generate_ctrlptsw2d', '2-D weighting wrong',
              what='helper-inverse')
    b2 = compatibility.generate_ctrlpts2d_weights(g2)
    ctx.check(close(b2, grid), 'helper/generate2d-not-inverse', 'generate_ctrlpts2d_weights(generate_ctrlptsw2d(X)) != X',
              what='helper-inverse')


def check_convert(case, ctx):
    from geomdl import convert
    sd = case['sd']
    rng = random.Random(case['seed'])
    o = G.build(sd)
    S = G.defn_of(o)
    sc = so.scale_of_defn(S)
    ctx.tag('convert', 'convert:normalized' if sd['normalize_kv'] else 'convert:unnormalized')
    ctx.nontriv(True)
    prs = so.probe_params(rng, S, nrand=4, maxn=8)
    r = convert.bspline_to_nurbs(o)
    ctx.check(r.rational is True and close(list(r.weights), [1.0] * len(sd['ctrlpts'])), 'convert/b2n-not-unit-rational',
              'bspline_to_nurbs result is not rational with unit weights', what='convert')
    ctx.check(G.degrees_of(r) == G.degrees_of(o) and G.sizes_of(r) == G.sizes_of(o) and close(G.kvs_of(r), G.kvs_of(o)),
              'convert/b2n-structure', 'bspline_to_nurbs changed degrees / sizes / knot vectors', what='convert')
    for q in prs:
        ctx.near(G.evaluate_single(r, q), S.point(q), 1e-9 * sc, 'convert/b2n-moved', 'bspline_to_nurbs moved the point at %r' % (q,),
                 what='convert')
    b = convert.nurbs_to_bspline(r)
    ctx.check(b.rational is False, 'convert/n2b-still-rational', 'nurbs_to_bspline of a unit-weight shape is still rational',
              what='convert')
    for q in prs:
        ctx.near(G.evaluate_single(b, q), S.point(q), 1e-9 * sc, 'convert/n2b-moved', 'nurbs_to_bspline moved the point at %r' % (q,),
                 what='convert')
    ctx.check(close([list(p) for p in b.ctrlpts], [list(p) for p in o.ctrlpts]), 'convert/roundtrip-ctrlpts',
              'B-spline -> NURBS -> B-spline changed control points', what='convert')
    # the wrong converter on a genuinely rational shape: refused (as documented: TypeError), or an identically evaluating shape - never the
    # same control points with the weights thrown away
    rr = convert.bspline_to_nurbs(o)
    Wr = [rng.uniform(0.3, 3.0) for _ in sd['ctrlpts']]
    rr.weights = list(Wr)
    Sr = G.defn_of(rr)
    ctx.tag('convert:rational-into-b2n')
    try:
        r3 = convert.bspline_to_nurbs(rr)
    except TypeError:
        ctx.ok('convert')
    else:
        for q in prs:
            ctx.near(G.evaluate_single(r3, q), Sr.point(q), 1e-9 * so.scale_of_defn(Sr), 'convert/b2n-drops-weights', 'bspline_to_nurbs given a rational '
                     'shape returned a shape with weights %r... (input %r...): it evaluates differently at %r' % (list(r3.weights)[:3], Wr[:3], q),
                     what='convert')
    # a genuinely rational shape cannot be turned into a non-rational one: whatever nurbs_to_bspline returns must evaluate identically
    for wcls in ('below-one', 'above-one', 'mixed', 'near-one-coarse-precision'):
        r2 = convert.bspline_to_nurbs(o)
        n = len(sd['ctrlpts'])
        if wcls == 'near-one-coarse-precision':
            # weights within 1e-2 .. 1e-5 of 1 on a shape created with a coarse precision=: still a rational shape (the weights move points
            # by up to scale * 1e-2), whatever number of decimals its knots are printed with
            if sd['normalize_kv']:
                continue
            r2 = convert.bspline_to_nurbs(G.build(dict(sd, precision=rng.choice([1, 2, 3]))))
            W = [1.0 + rng.choice([-1, 1]) * 10.0 ** -rng.uniform(2, 4) for _ in range(n)]
            r2.weights = list(W)
            S2 = G.defn_of(r2)
            with so.quiet():
                back = convert.nurbs_to_bspline(r2)
            ctx.tag('convert:near-one-weights-coarse-precision')
            for q in prs[:5]:
                ctx.near(G.evaluate_single(back, q), S2.point(q), 1e-9 * so.scale_of_defn(S2), 'convert/n2b-dropped-weights',
                         'nurbs_to_bspline of a precision=%d shape with weights within 1e-2 of 1 returns a shape that evaluates differently' % r2._precision,
                         what='convert')
            continue
        if wcls == 'below-one':
            W = [rng.choice([1.0, 1.0, 0.5, 0.7071067811865476, rng.uniform(0.2, 0.99)]) for _ in range(n)]
            W[rng.randrange(n)] = 0.6
        elif wcls == 'above-one':
            W = [rng.choice([1.0, 2.0, rng.uniform(1.01, 4)]) for _ in range(n)]
            W[rng.randrange(n)] = 1.5
        else:
            W = [rng.uniform(0.3, 3) for _ in range(n)]
        r2.weights = list(W)
        S2 = G.defn_of(r2)
        with so.quiet():
            back = convert.nurbs_to_bspline(r2)
        for q in prs[:5]:
            ctx.near(G.evaluate_single(back, q), S2.point(q), 1e-9 * so.scale_of_defn(S2), 'convert/n2b-dropped-weights',
                     'nurbs_to_bspline of a shape with non-unit weights (%s) returns a shape that evaluates differently' % wcls,
                     what='convert')


def check_grid(case, ctx):
    from geomdl import CPGen
    rng = random.Random(case['seed'])
    nu, nv = rng.randint(1, 6), rng.randint(1, 6)
    if nu == nv:
        nv = nu + 1
    ctx.tag('grid')
    g = CPGen.GridWeighted(rng.uniform(1, 5), rng.uniform(1, 5), z_value=rng.uniform(-2, 2))
    g.generate(nu, nv)
    plain = CPGen.Grid(1, 1)
    base = [[list(p) for p in row] for row in CPGen.Grid.grid.fget(g)]
    rows, cols = len(base), len(base[0])
    npts = rows * cols
    ctx.check(len(g) == npts, 'grid/len', 'len(grid) = %d for a %dx%d point grid' % (len(g), rows, cols), what='grid-weight')
    if rng.random() < 0.5:
        w_first = None
        if rng.random() < 0.6:
            # reading is not editing: the weight view read BEFORE the grid is the one read after it (order of reads)
            ctx.tag('grid:weight-read-first')
            w_first = list(g.weight)
        gr0 = g.grid       # read before setting weights: default unit weights
        if w_first is not None:
            w_after = list(g.weight)
            ctx.check(w_first == w_after, 'grid/weight-view-changed-by-read', 'GridWeighted.weight was %r before the grid was read and '
                      'is %r... afterwards: nothing was edited in between' % (w_first[:3], w_after[:3]), what='grid-weight')
        ctx.check(all(close(gr0[i][j], base[i][j] + [1.0]) for i in range(rows) for j in range(cols)), 'grid/default-weights',
                  'default weighted grid is not (P, 1)', what='grid-weight')
    W = [rng.uniform(0.2, 5) for _ in range(npts)]
    ctx.nontriv(True)
    g.weight = list(W)
    gr = g.grid
    bad = None
    for i in range(rows):
        for j in range(cols):
            w = W[j + i * cols]
            if not close(gr[i][j], [c * w for c in base[i][j]] + [w]):
                bad = (i, j)
    ctx.check(bad is None, 'grid/weight-index', 'GridWeighted.grid[%s] does not carry that grid point\'s own weight '
              '(flat index j + i*cols of the weight vector)' % (bad,), what='grid-weight')
    W2 = [rng.uniform(0.2, 5) for _ in range(npts)]
    gr_kept = [[list(p) for p in row] for row in gr]
    g.weight = list(W2)
    gr2 = g.grid
    # the grid handed out for the first weights is the caller's: it still carries THOSE weights (not emptied, not refilled in place)
    ctx.check(len(gr) == len(gr_kept) and all(len(a) == len(b) and all(close(x, y) for x, y in zip(a, b)) for a, b in zip(gr, gr_kept)),
              'grid/kept-result-rewritten', 'the weighted grid returned earlier was emptied / refilled in place by a later weight '
              'assignment (it no longer carries the weights it was generated with)', what='grid-weight')
    ok = all(close(gr2[i][j], [c * W2[j + i * cols] for c in base[i][j]] + [W2[j + i * cols]]) for i in range(rows) for j in range(cols))
    ctx.check(ok, 'grid/stale-after-reweight', 'grid read after a second weight assignment still shows the old weights',
              what='grid-weight')
    if rows >= 4 and cols >= 4 and rng.random() < 0.7:
        # the unweighted grid changes under the weighted one (bumps edits z-values): the weighted view must follow
        ctx.tag('grid:bumps-after-read')
        g.bumps(1, bump_height=rng.choice([3.0, -2.0]), base_extent=1)
        base = [[list(p) for p in row] for row in CPGen.Grid.grid.fget(g)]
        grb = g.grid
        ok = all(close(grb[i][j], [c * W2[j + i * cols] for c in base[i][j]] + [W2[j + i * cols]]) for i in range(rows) for j in range(cols))
        ctx.check(ok, 'grid/stale-after-bumps', 'GridWeighted.grid read after bumps() still shows the grid points as they were before',
                  what='grid-weight')
    g.weight = 2.5
    gr3 = g.grid
    ctx.check(all(close(gr3[i][j], [c * 2.5 for c in base[i][j]] + [2.5]) for i in range(rows) for j in range(cols)),
              'grid/scalar-weight', 'scalar weight not applied to every point', what='grid-weight')


def check_files(case, ctx):
    """the file-based variants of the 2-D helper conversions (documented layout: one line per u, ';' between the v entries)"""
    import os
    import shutil
    import tempfile
    from geomdl import compatibility
    rng = random.Random(case['seed'])
    nu, nv = rng.randint(1, 6), rng.randint(1, 6)
    ctx.tag('files', 'files:square' if nu == nv else 'files:non-square')
    ctx.nontriv(True)
    grid = [[[float(rng.randint(-9, 9)), rng.uniform(-5, 5), rng.uniform(-5, 5), rng.choice([1.0, 0.5, 2.0, rng.uniform(0.2, 4)])]
             for _ in range(nv)] for _ in range(nu)]
    d = tempfile.mkdtemp(prefix='nv_c09_')
    try:
        def write(path, g):
            with open(path, 'w') as f:
                for row in g:
                    f.write(';'.join(','.join(repr(c) for c in pt) for pt in row) + '\n')

        def read(path):
            with open(path) as f:
                return [[[float(c) for c in cell.split(',')] for cell in line.strip().split(';')] for line in f.read().strip().split('\n')]
        fin, fw, fback, fflip = (os.path.join(d, n) for n in ('in.txt', 'w.txt', 'back.txt', 'flip.txt'))
        write(fin, grid)
        compatibility.generate_ctrlptsw2d_file(fin, fw)
        try:
            gw = read(fw)
        except ValueError:
            gw = None
        exp = [[[pt[k] * pt[3] for k in range(3)] + [pt[3]] for pt in row] for row in grid]
        ctx.check(gw is not None and close(gw, exp), 'files/generate_ctrlptsw2d_file', 'generate_ctrlptsw2d_file on a %dx%d grid does not write '
                  '(x*w, y*w, z*w, w) in the one-line-per-u layout' % (nu, nv), what='helper-inverse')
        write(fw, exp)
        compatibility.generate_ctrlpts2d_weights_file(fw, fback)
        try:
            gb = read(fback)
        except ValueError:
            gb = None
        ctx.check(gb is not None and close(gb, grid), 'files/generate_ctrlpts2d_weights_file', 'generate_ctrlpts2d_weights_file is not the inverse '
                  'of generate_ctrlptsw2d_file on a %dx%d grid' % (nu, nv), what='helper-inverse')
        compatibility.flip_ctrlpts2d_file(fin, fflip)
        try:
            gf = read(fflip)
        except ValueError:
            gf = None
        expf = [[grid[i][j] for i in range(nu)] for j in range(nv)]
        ctx.check(gf is not None and close(gf, expf), 'files/flip_ctrlpts2d_file', 'flip_ctrlpts2d_file on a %dx%d grid does not write the '
                  '[v][u] transposition' % (nu, nv), what='helper-inverse')
    finally:
        shutil.rmtree(d, ignore_errors=True)
