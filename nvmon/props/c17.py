"""C17 — results do not depend on configuration choices (span search, evaluator, knot range, worker count, cache size)."""
import copy
import json
import os
import random
import subprocess
import sys
import tempfile
import time
from fractions import Fraction as F

from .. import gen as G, hooks, ref, shapeops as so, core
from ..core import Reject

ID = 'C17'
SHARDS = {'quick': 4, 'thorough': 16}
BUDGET = {'quick': 300, 'thorough': 2400}
RULE = ("cases: (a) a random shape built once per configuration from the same seed - baseline {linear span search, default "
        "evaluator, normalize_kv=True} vs {binary span search (constructor and find_span_func kwargs of operations)}, "
        "{CurveEvaluator2/SurfaceEvaluator2 for non-rational shapes}, {normalize_kv=False with knot ranges [0,1], [2,5], [-3,7.5], "
        "[10,10.5]; parameters mapped affinely, derivatives compared after the chain-rule factor (b-a)^-k} - queried identically: "
        "evaluate_single on corners/knots/midpoints/random, evalpts with equal sample sizes, derivatives, bbox, insert_knot, "
        "refine_knotvector, split/decompose, tessellation, find_ctrlpts; digests must agree within 1e-9*scale and no variant may raise "
        "where the baseline succeeded; (b) SurfaceContainer.tessellate and voxelize.voxelize with num_procs in {1,2,4,8}: results "
        "bit-equal to num_procs=1; pool workers log (pid, task, t_start, t_end) with seeded 0-5 ms sleeps between tasks and the "
        "schedule checker reports the distinct worker sets / task assignments observed; (c) a fixed scenario script executed in "
        "separate interpreters with GEOMDL_CACHE_SIZE in {unset, 1, 16, 1024}: identical step-by-step results, no failing import. "
        "Non-trivial: shape with an interior knot or non-constant weights (a), >= 2 tasks (b), every scenario run (c); distinct = case hash.")
ASSUMPTIONS = ["differential oracle: the baseline configuration itself is judged by C01/C02/C04/C05/C07/C15", "tolerance 1e-9*scale "
               "(bit-equality for num_procs and cache size, where the arithmetic is identical)",
               "multiprocessing start method fork (Linux); schedule diversity is reported, a single-worker observation for num_procs > 1 "
               "makes the schedule part inconclusive"]
FLOORS = {'quick': {'span-func': 1500, 'evaluator2': 400, 'unnormalized': 1500, 'num_procs': 40, 'cache-size': 12, 'ops-kwargs': 100},
          'thorough': {'span-func': 15000, 'unnormalized': 15000, 'num_procs': 300, 'cache-size': 60}}
MANDATORY_TAGS = ['voxelize:small-model', 'voxelize:far-corner-on-shape', 'trim-twin:aligned', 'trim-twin:generic', 'trim-twin:sense-detected', 'trim-twin:range-short', 'trim-twin:range-long', 'span:binary', 'evaluator2', 'range:per-direction', 'range:[2.0, 5.0]', 'range:[-3.0, 7.5]', 'procs:2', 'procs:4', 'procs:8', 'voxelize-mp',
                  'tessellate-mp', 'tessellate-mp:edit-and-retessellate', 'range-scale:short', 'range-scale:long', 'normalised-from-raw', 'raw:small-domain-start', 'cache:1', 'cache:16', 'cache:1024', 'curve', 'surface', 'volume']
TECHNIQUE = ("runtime monitoring: cross-configuration differential oracle (same seeded query under each configuration, digests "
             "compared), event-log schedule checker for the multiprocessing pools, separate-interpreter runs for the environment-"
             "configured cache size")
LEVEL_TEXT = ("The same geometry and queries are executed under every configuration value the property names and compared result by "
              "result; pool schedules actually observed are recorded; holds on the configurations x shapes observed.")

_SCHED = {'worker_sets': set(), 'assignments': set(), 'runs': 0, 'multi_worker_runs': 0}


def teardown(ctx):
    ctx.notes['pool_schedules'] = {'pool_runs': _SCHED['runs'], 'runs_with_more_than_one_worker': _SCHED['multi_worker_runs'],
                                   'distinct_worker_set_sizes': sorted(set(len(w) for w in _SCHED['worker_sets'])),
                                   'distinct_task_to_worker_assignments': len(_SCHED['assignments'])}


def gen(rng, tier, shard, nshards):
    n = 45 if tier == 'quick' else 400
    for i in range(n):
        pdim = rng.choice([1, 1, 2, 2, 3])
        yield {'kind': 'config', 'pdim': pdim, 'rational': rng.random() < 0.5, 'seed': rng.randrange(1 << 30)}
        if i % 2 == 0:
            yield {'kind': 'raw', 'pdim': rng.choice([1, 1, 2]), 'rational': rng.random() < 0.4, 'seed': rng.randrange(1 << 30)}
        if i % 5 == 0:
            yield {'kind': 'procs', 'seed': rng.randrange(1 << 30), 'what': 'tessellate' if (i // 5) % 2 == 0 else 'voxelize'}
        if i % 15 == 1:
            yield {'kind': 'cache', 'seed': rng.randrange(1 << 30)}
        if i % 3 == 1:
            yield {'kind': 'trimtwin', 'seed': rng.randrange(1 << 30)}
        if i % 4 == 2:
            yield {'kind': 'kvtype', 'pdim': rng.choice([1, 2]), 'seed': rng.randrange(1 << 30)}


def check(case, ctx):
    return {'config': check_config, 'procs': check_procs, 'cache': check_cache, 'raw': check_normalised_from_raw,
            'trimtwin': check_trim_twin, 'kvtype': check_kv_type}[case['kind']](case, ctx)


def check_kv_type(case, ctx):
    """(fifth hunt) the knot vectors are handed over as tuples or numpy arrays (the setters take them): what works with knot vectors
    normalised works with knot vectors kept as they are - evaluation, splitting, Bezier decomposition, knot insertion"""
    from geomdl import operations
    rng = random.Random(case['seed'])
    pdim = case['pdim']
    sd = G.rand_shape(rng, pdim, rational=False, clamped_only=True, maxextra=4, maxdeg=3, dim=3, pcls='uniform')
    if not any(len(kv) > 2 * (p + 1) + 1 for kv, p in zip(sd['kvs'], sd['degrees'])):
        raise Reject()         # at least two interior knots in some direction
    forms = [tuple]
    try:
        import numpy as _np
        forms.append(_np.array)
    except ImportError:
        pass
    form = rng.choice(forms)
    ctx.tag('kvtype', 'kvtype:' + form.__name__)
    ctx.nontriv(True)
    lohi = rng.choice([(0.0, 1.0), (0.0, 4.0), (2.0, 5.0)])

    def run(norm):
        o = G.build(dict(sd, normalize_kv=norm, kvs=[[amap(k, lohi) for k in kv] for kv in sd['kvs']]))
        if pdim == 1:
            o.knotvector = form(list(o.knotvector) if norm else [amap(k, lohi) for k in sd['kvs'][0]])
        else:
            o.knotvector_u = form([amap(k, lohi) for k in sd['kvs'][0]])
            o.knotvector_v = form([amap(k, lohi) for k in sd['kvs'][1]])
        out = {}
        doms = G.domains_of(o)
        mid = [a + 0.37 * (b - a) for a, b in doms]
        for name, fn in (('evaluate_single', lambda: [round(c, 9) for c in G.evaluate_single(o, mid)]),
                         ('split', lambda: len(operations.split_curve(o, mid[0]) if pdim == 1 else operations.split_surface_u(o, mid[0]))),
                         ('decompose', lambda: len(operations.decompose_curve(o) if pdim == 1 else operations.decompose_surface(o))),
                         ('insert_knot', lambda: len(operations.insert_knot(o, mid, [1] * pdim).ctrlpts))):
            try:
                out[name] = ('ok', fn())
            except Exception as e:
                out[name] = ('raised', type(e).__name__)
        return out
    with so.quiet():
        A, B = run(True), run(False)
    for name in A:
        if A[name][0] != 'ok':
            continue
        ctx.check(B[name][0] == 'ok' and (name == 'evaluate_single' or B[name][1] == A[name][1]) and
                  (name != 'evaluate_single' or near(B[name][1], A[name][1], 1e-7 * max(1.0, max(abs(c) for c in A[name][1])))),
                  'config/kv-type/%s' % name, '%s with %s knot vectors on %r: normalize_kv=True gives %r, normalize_kv=False %r'
                  % (name, form.__name__, lohi, A[name], B[name]), what='unnormalized')


# -- (a) span function / evaluator / knot range ------------------------------------------------------------------------------------
def near(a, b, tol):
    if isinstance(a, (list, tuple)):
        return isinstance(b, (list, tuple)) and len(a) == len(b) and all(near(x, y, tol) for x, y in zip(a, b))
    if isinstance(a, (int, float)) and isinstance(b, (int, float)):
        return abs(a - b) <= tol * max(1.0, abs(a), abs(b))
    return a == b


def amap(u, lohi):
    lo, hi = lohi
    if u == 0.0:
        return lo
    if u == 1.0:
        return hi
    return lo + (hi - lo) * u


def queries(o, sd_base, prms, lohis, ops_kw, rng_seed):
    """run the fixed battery of queries on object o (knot range lohi); parameters given for the [0,1] baseline are mapped affinely.
    Returns dict name -> result (floats); derivative vectors are rescaled by (b-a)^k so that all configurations are comparable."""
    from geomdl import operations
    pdim = o.pdimension
    if isinstance(lohis[0], (int, float)):
        lohis = [tuple(lohis)] * pdim
    Ls = [b - a for a, b in lohis]
    R = {}

    def rec(name, fn):
        try:
            R[name] = fn()
        except Exception as e:
            R[name] = 'EXC:%s' % type(e).__name__
    for k, prm in enumerate(prms):
        q = [amap(u, lohis[d_]) for d_, u in enumerate(prm)]
        rec('eval%d' % k, lambda: list(G.evaluate_single(o, q)))
        if pdim == 1:
            rec('ders%d' % k, lambda: [[c * (Ls[0] ** i) for c in v] for i, v in enumerate(o.derivatives(q[0], 2))])
            rec('findcp%d' % k, lambda: [list(p) for p in operations.find_ctrlpts(o, q[0], **ops_kw)])
        elif pdim == 2:
            rec('ders%d' % k, lambda: [[[c * (Ls[0] ** i) * (Ls[1] ** j) for c in o_] for j, o_ in enumerate(row) if i + j <= 2]
                                       for i, row in enumerate(o.derivatives(q[0], q[1], 2))])
    ss = {1: 9, 2: 5, 3: 3}[pdim]
    o.sample_size = ss
    rec('evalpts', lambda: [list(p) for p in o.evalpts])
    if pdim > 1:
        def per_dir():
            for i_, nm in enumerate(('sample_size_u', 'sample_size_v', 'sample_size_w')[:pdim]):
                setattr(o, nm, ss + 1 + i_)
            return [list(o.sample_size), len(o.evalpts), list(o.evalpts[-1])]
        rec('evalpts-per-direction-sizes', per_dir)
        o.sample_size = ss
    # a sampled grid over part of the domain, its limits at the middle of the domain in alternating roles (on a range that is
    # symmetric about zero that limit is the parameter 0.0)
    def partial():
        kw_ = {}
        for d_, nm_ in enumerate(['']) if pdim == 1 else enumerate(['_u', '_v', '_w'][:pdim]):
            lo_, hi_ = (0.5, 0.9) if d_ % 2 == 0 else (0.1, 0.5)
            kw_['start' + nm_] = amap(lo_, lohis[d_])
            kw_['stop' + nm_] = amap(hi_, lohis[d_])
        o.evaluate(**kw_)
        res_ = [list(p) for p in o.evalpts]
        o.evaluate()
        return res_
    rec('evalpts-partial', partial)
    rec('bbox', lambda: [list(b) for b in o.bbox])
    if pdim == 2:
        def tess():
            o.tessellate()
            return [[list(v.data) for v in o.vertices], [list(f.data) for f in o.faces],
                    [[(c - lohis[d_][0]) / Ls[d_] for d_, c in enumerate(v.uv)] for v in o.vertices]]
        rec('tessellate', tess)
    # structure-changing operations on copies
    r = random.Random(rng_seed)
    d = r.randrange(pdim)
    u0 = round(r.uniform(0.1, 0.9), 3)
    kv0 = sd_base['kvs'][d]
    if any(abs(u0 - k) < 2e-3 for k in kv0):
        u0 = 0.5 * (sorted(set(kv0))[0] + sorted(set(kv0))[1])

    def ins():
        c = copy.deepcopy(o)
        p = [None] * pdim
        n = [0] * pdim
        p[d], n[d] = amap(u0, lohis[d]), 1
        operations.insert_knot(c, p, n)
        return G.hom_pts_of(c)
    rec('insert', ins)

    def refine():
        c = copy.deepcopy(o)
        p = [0] * pdim
        p[d] = 1
        operations.refine_knotvector(c, p)
        return [G.hom_pts_of(c), [[(k - lohis[d][0]) / Ls[d] for k in kv] if i == d else None for i, kv in enumerate(G.kvs_of(c))]]
    rec('refine', refine)
    if pdim <= 2:
        def split():
            fn = operations.split_curve if pdim == 1 else (operations.split_surface_u if d == 0 else operations.split_surface_v)
            pieces = fn(o, amap(u0, lohis[d]), **ops_kw)
            return [G.hom_pts_of(p_) for p_ in pieces]
        rec('split', split)

        def decomp():
            pieces = operations.decompose_curve(o, **ops_kw) if pdim == 1 else operations.decompose_surface(o, **ops_kw)
            return [G.hom_pts_of(p_) for p_ in pieces]
        rec('decompose', decomp)
    return R


def check_config(case, ctx):
    from geomdl import helpers, evaluators
    rng = random.Random(case['seed'])
    pdim = case['pdim']
    sd = G.rand_shape(rng, pdim, rational=case['rational'], clamped_only=True, maxextra={1: 5, 2: 3, 3: 2}[pdim],
                      maxdeg={1: 5, 2: 3, 3: 2}[pdim], dim=3, pcls='uniform')
    ctx.tag({1: 'curve', 2: 'surface', 3: 'volume'}[pdim], 'rational' if sd['rational'] else 'nonrational')
    interior = any(len(kv) > 2 * (p + 1) for kv, p in zip(sd['kvs'], sd['degrees']))
    ctx.nontriv(interior or (sd['rational'] and len(set(sd['weights'])) > 1))
    base = G.build(dict(sd, span='linear'))
    sc = so.scale_of_defn(G.defn_of(base))
    # query parameters on the normalised baseline: corners, knots, midpoints, random
    prms = [p for _, p in G.param_tuples(rng, base, 5)]
    qseed = rng.randrange(1 << 30)
    B = queries(base, sd, prms, (0.0, 1.0), {}, qseed)
    failed_base = [k for k, v in B.items() if isinstance(v, str)]

    def compare(V, name, what, tol=1e-9):
        for k, bv in B.items():
            vv = V.get(k)
            if isinstance(bv, str):
                continue      # the baseline itself failed: judged by the owning property, not here
            if isinstance(vv, str):
                ctx.fail('config/%s/fails-where-baseline-succeeds/%s' % (name, k.rstrip('0123456789')),
                         '%s: query %s raised %s although the baseline configuration succeeded' % (name, k, vv))
                continue
            if not near(vv, bv, tol * sc if not k.startswith('ders') else tol * sc * 1e3):
                ctx.fail('config/%s/differs/%s' % (name, k.rstrip('0123456789')), '%s: result of %s differs from the baseline configuration'
                         % (name, k), baseline=str(bv)[:300], variant=str(vv)[:300])
            else:
                ctx.ok(what)
    # ---- binary span search: constructor + find_span_func kwargs of operations ----------------------------------------------------
    ctx.tag('span:binary')
    v1 = G.build(dict(sd, span='binary'))
    V = queries(v1, sd, prms, (0.0, 1.0), {'find_span_func': helpers.find_span_binsearch}, qseed)
    compare(V, 'span-binary', 'span-func')
    ctx.ok('ops-kwargs')
    # ---- alternative evaluator (non-rational curves / surfaces) -----------------------------------------------------------------------
    if not sd['rational'] and pdim <= 2:
        ctx.tag('evaluator2')
        v2 = G.build(dict(sd, span='linear'))
        v2.evaluator = evaluators.CurveEvaluator2() if pdim == 1 else evaluators.SurfaceEvaluator2()
        V = queries(v2, sd, prms, (0.0, 1.0), {}, qseed)
        compare(V, 'evaluator2', 'evaluator2')
    # ---- un-normalised knot vectors over an affine image of the range -----------------------------------------------------------------
    ranges = [(0.0, 1.0), (2.0, 5.0), (-3.0, 7.5), (10.0, 10.5), (-1.0, 1.0), (-2.0, 2.0)]
    for rep in range(2):
        # the same range in every direction, or a different range per direction
        lohis = [rng.choice(ranges)] * pdim if rep == 0 else [rng.choice(ranges) for _ in range(pdim)]
        for lohi in lohis:
            ctx.tag('range:%r' % (list(lohi),))
        if len(set(lohis)) > 1:
            ctx.tag('range:per-direction')
        sd3 = dict(sd, span='linear', normalize_kv=False,
                   kvs=[[amap(k, lohis[d_]) for k in kv] for d_, kv in enumerate(sd['kvs'])])
        v3 = G.build(sd3)
        V = queries(v3, sd, prms, lohis, {}, qseed)
        compare(V, 'normalize_kv-off', 'unnormalized', tol=1e-8)
    # ---- both options at once, on very short and very long knot ranges (power-of-two lengths: the affine map is exact) ---------------------
    lohi = rng.choice([(0.0, 2.0 ** -13), (0.0, 1024.0), (-2.0 ** -13, 2.0 ** -13), (1.0, 1.0 + 2.0 ** -10)])
    ctx.tag('range-scale:%s' % ('short' if lohi[1] - lohi[0] < 1e-2 else 'long'), 'span:binary+unnormalized')
    lohis = [lohi] * pdim
    sd4 = dict(sd, span='binary', normalize_kv=False, kvs=[[amap(k, lohi) for k in kv] for kv in sd['kvs']])
    v4 = G.build(sd4)
    V = queries(v4, sd, prms, lohis, {'find_span_func': helpers.find_span_binsearch}, qseed)
    compare(V, 'normalize_kv-off+span-binary', 'unnormalized', tol=1e-8)


def check_trim_twin(case, ctx):
    """the trimmed tessellation of a surface and of its un-normalised twin (knot vectors and trim curves mapped affinely) are the same
    mesh in normalised parameters - trims whose edges run along lines of the sample grid included, with the sense given or detected"""
    from geomdl import BSpline, tessellate, trimming
    rng = random.Random(case['seed'])
    sd = G.rand_shape(rng, 2, rational=rng.random() < 0.3, clamped_only=True, maxextra=3, maxdeg=3, dim=3, pcls='uniform')
    n = rng.choice([5, 5, 9, 7, 6])
    aligned = rng.random() < 0.6
    detect = rng.random() < 0.4
    rev = rng.choice([0, 1])
    if aligned:
        # a box whose edges lie on lines of the n x n sample grid
        g = [i / float(n - 1) for i in range(n)]
        i0, i1 = sorted(rng.sample(range(1, n - 1), 2)) if n > 3 else (1, 1)
        j0, j1 = sorted(rng.sample(range(1, n - 1), 2)) if n > 3 else (1, 1)
        box = [[g[i0], g[j0]], [g[i1], g[j0]], [g[i1], g[j1]], [g[i0], g[j1]], [g[i0], g[j0]]]
    else:
        a_, b_ = sorted([round(rng.uniform(0.12, 0.88), 3) for _ in range(2)])
        c_, d_ = sorted([round(rng.uniform(0.12, 0.88), 3) for _ in range(2)])
        if b_ - a_ < 0.15 or d_ - c_ < 0.15:
            raise Reject()
        box = [[a_, c_], [b_, c_], [b_, d_], [a_, d_], [a_, c_]]
    if rng.random() < 0.5:
        box.reverse()
    # (fourth hunt) the loop given as two polylines in a curve container, either of them possibly the wrong way round, meeting up to
    # 1e-9 .. 1e-10 of the range only: the data fix_multi_trim_curves exists to repair (sense given)
    multi_ = rng.random() < 0.3
    if multi_:
        detect = False
        cut = rng.choice([1, 2, 3])
        flips = (rng.random() < 0.5, rng.random() < 0.5)
        gap = rng.choice([0.0, 1e-9, 1e-10, 3e-9])
    RANGES = [(0.0, 200.0), (1000.0, 5000.0), (0.0, 2.0 ** -7), (0.0, 0.001), (0.0, 2.0 ** 20), (-3.0, 7.5), (2.0, 5.0),
              # (fourth hunt) ranges a few 1e-7 long and ranges 1e-4 long around 1.0: nothing may be compared with the absolute 0.0 / 1.0
              (0.0, 2.0 ** -22), (1.0 - 2.0 ** -15, 1.0 + 2.0 ** -15), (-2.0 ** -21, 2.0 ** -21), (0.0, 1e-4)]
    lohi_u = rng.choice(RANGES)
    # (fourth hunt) the two directions on ranges of different length - whatever is relative is relative per direction
    lohi_v = rng.choice(RANGES) if rng.random() < 0.4 else lohi_u
    lohi = (lohi_u, lohi_v)
    len_u, len_v = lohi_u[1] - lohi_u[0], lohi_v[1] - lohi_v[0]
    ctx.tag('trim-twin', 'trim-twin:aligned' if aligned else 'trim-twin:generic', 'trim-twin:sense-detected' if detect else 'trim-twin:sense-given',
            'trim-twin:loop-in-%s' % ('two-pieces' if multi_ else 'one-curve'),
            'trim-twin:range-%s' % ('tiny' if len_u < 1e-5 else 'short' if len_u < 0.1 else 'long' if len_u > 100 else 'moderate'),
            'trim-twin:directions-%s' % ('alike' if lohi_u == lohi_v else 'ratio>=1e4' if max(len_u, len_v) >= 1e4 * min(len_u, len_v) else 'differ'))
    ctx.nontriv(True)

    def build(norm, lh):
        sdx = dict(sd, normalize_kv=norm, kvs=[[amap(k, lh_) for k in kv] for kv, lh_ in zip(sd['kvs'], lh)]) if not norm else dict(sd)
        o = G.build(sdx)
        o.sample_size = n
        (u0, u1), (v0, v1) = o.domain
        if multi_:
            from geomdl import multi as multi_mod
            pieces = []
            for pi_, (qs, flip) in enumerate(zip((box[:cut + 1], box[cut:]), flips)):
                qs = [list(q) for q in qs]
                if pi_ == 1:
                    qs[0][0] += gap
                    qs[-1][1] -= gap
                if flip:
                    qs.reverse()
                c_ = BSpline.Curve()
                c_.degree = 1
                c_.ctrlpts = [[u0 + (u1 - u0) * q[0], v0 + (v1 - v0) * q[1]] for q in qs]
                c_.knotvector = [0.0] + [i / (len(qs) - 1.0) for i in range(len(qs))] + [1.0]
                c_.sample_size = 4 * (len(qs) - 1) + 1
                pieces.append(c_)
            t = multi_mod.CurveContainer(*pieces)
            t.opt = ['reversed', rev]
            o.trims = [t]
            trimming.fix_multi_trim_curves(o, delta=0.25)
        else:
            t = BSpline.Curve()
            t.degree = 1
            t.ctrlpts = [[u0 + (u1 - u0) * q[0], v0 + (v1 - v0) * q[1]] for q in box]
            t.knotvector = [0.0, 0.0, 0.25, 0.5, 0.75, 1.0, 1.0]
            t.sample_size = 21
            if not detect:
                t.opt = ['reversed', rev]
            o.trims = [t]
        if detect:
            trimming.fix_trim_curves(o)
        o.tessellator = tessellate.TrimTessellate()
        o.tessellate()
        tris = []
        area = 0.0
        for f in o.faces:
            q = [((v.uv[0] - u0) / (u1 - u0), (v.uv[1] - v0) / (v1 - v0)) for v in f.vertices]
            area += abs((q[1][0] - q[0][0]) * (q[2][1] - q[0][1]) - (q[2][0] - q[0][0]) * (q[1][1] - q[0][1])) / 2.0
            tris.append(tuple(sorted((round(x, 7), round(y, 7)) for x, y in q)))
        sense = [(c.opt_get('reversed') if hasattr(c, 'opt_get') else None) for c in o.trims]
        return sorted(tris), area, sense, (len(o.trims), [len(c) if multi_ else 1 for c in o.trims])
    try:
        with so.quiet():
            T0, A0, s0, k0 = build(True, ((0.0, 1.0), (0.0, 1.0)))
    except Exception:
        raise Reject()       # the baseline itself fails: the owning property (C15) judges that
    try:
        with so.quiet():
            T1, A1, s1, k1 = build(False, lohi)
    except Exception as e:
        ctx.fail('trim-twin/fails-where-baseline-succeeds', 'trimmed tessellation on the knot range %r raised %s: %s; the normalised twin '
                 'succeeds' % (lohi, type(e).__name__, e))
        return
    # the same region is kept (parametric area); the same triangles unless trim edges run along grid lines (there the rounding of
    # the affine map decides on which side of a grid line a trim vertex lies: slivers of zero area may differ, the region may not).
    # A triangle whose centroid lies ON the trim polygon is kept or dropped by a tie that rounding may break either way: such
    # triangles (and their area) are left out of the comparison.
    xs_, ys_ = sorted(set(q[0] for q in box)), sorted(set(q[1] for q in box))

    def tri_area(t_):
        return abs((t_[1][0] - t_[0][0]) * (t_[2][1] - t_[0][1]) - (t_[2][0] - t_[0][0]) * (t_[1][1] - t_[0][1])) / 2.0

    def tie(t_):
        cx, cy = sum(q[0] for q in t_) / 3.0, sum(q[1] for q in t_) / 3.0
        on_v = any(abs(cx - x_) <= 1e-6 for x_ in xs_) and ys_[0] - 1e-6 <= cy <= ys_[-1] + 1e-6
        on_h = any(abs(cy - y_) <= 1e-6 for y_ in ys_) and xs_[0] - 1e-6 <= cx <= xs_[-1] + 1e-6
        return on_v or on_h or tri_area(t_) <= 1e-12
    # (the coordinates were rounded to 7 decimals for sorting; an intersection vertex at x.xxxxxxx5 is rounded either way by the last
    # bit, so triangles are matched within 3e-7, not by equality of the rounded values - thorough sweep after the fifth hunt)
    def same_tri(t_, u_):
        import itertools as _it
        return any(all(abs(a_ - b_) <= 3e-7 for p_, q_ in zip(t_, perm_) for a_, b_ in zip(p_, q_)) for perm_ in _it.permutations(u_))
    S0, S1 = set(T0), set(T1)
    D0 = [t_ for t_ in T0 if t_ not in S1 and not tie(t_) and not any(same_tri(t_, u_) for u_ in T1)]
    D1 = [t_ for t_ in T1 if t_ not in S0 and not tie(t_) and not any(same_tri(t_, u_) for u_ in T0)]
    ties_ = sum(tri_area(t_) for t_ in T0 if t_ not in T1 and tie(t_)) - sum(tri_area(t_) for t_ in T1 if t_ not in T0 and tie(t_))
    if ties_ != 0.0:
        ctx.count('trim-twin-tie-triangles-ignored')
    ok = k0 == k1 and s0 == s1 and abs((A0 - A1) - ties_) <= 1e-6 and (aligned or (not D0 and not D1))
    ctx.check(ok, 'trim-twin/differs', 'trimmed tessellation (%s trim %r, sample size %d, sense %s) on the knot range %r: %r trims, senses %r, '
              '%d faces, parametric area %.6f; normalised twin: %r trims, senses %r, %d faces, area %.6f'
              % (('grid-aligned' if aligned else 'generic') + (', given as two pieces (cut %d, flipped %r, gap %g) and repaired' % (cut, flips, gap)
                                                               if multi_ else ''),
                 box[:4], n, 'detected' if detect else 'given %d' % rev, lohi, k1, s1, len(T1), A1,
                 k0, s0, len(T0), A0), what='trim-twin')


def check_normalised_from_raw(case, ctx):
    """a shape is given a raw (possibly unclamped) knot vector; one twin keeps it, the other lets the library normalise it. The caller maps
    its parameters with the same affine map (u - U[0]) / (U[-1] - U[0]) - the stored knots went through an 18-decimal round trip, so the
    mapped domain ends may differ from them in the last bit. Queries at the raw domain ends / knots / interior, either span search."""
    import signal
    from ..core import CaseTimeout, CASE_TIMEOUT_S
    rng = random.Random(case['seed'])
    pdim = case['pdim']
    sd = G.rand_shape(rng, pdim, rational=case['rational'], kvcls=rng.choice(['unclamped', 'unclamped_rep', 'unclamped_endrep', 'random']),
                      maxextra=4, maxdeg=3, mindeg=1, dim=3, pcls='uniform')
    lohi = rng.choice([(0.0, 141.0), (2.0, 5.0), (-3.0, 7.5), (0.0, 7.0), (1.0, 100.0)])
    raw = [[amap(k, lohi) for k in kv] for kv in sd['kvs']]
    if rng.random() < 0.5:
        # unclamped vectors whose domain starts at less than 1 % of the knot range: U = [0 .. | a, interior, 100 | .. 141]
        raw = []
        for p_, n_ in zip(sd['degrees'], sd['sizes']):
            a_ = rng.uniform(0.3, 1.3)
            head = sorted(rng.uniform(0.0, 0.25) for _ in range(p_ - 1))
            inner = sorted(rng.uniform(a_ + 1, 99.0) for _ in range(n_ - p_ - 1))
            tail = sorted(rng.uniform(101.0, 140.0) for _ in range(p_ - 1))
            U_ = [0.0] + head + [a_] + inner + [100.0] + tail + [141.0]
            if rng.random() < 0.3 and p_ >= 1 and n_ - p_ - 1 >= 1:
                U_[p_ - 1] = a_ if p_ - 1 >= 1 else U_[p_ - 1]          # repeated first domain knot
            raw.append(sorted(U_))
        ctx.tag('raw:small-domain-start')
    ctx.tag('normalised-from-raw', {1: 'curve', 2: 'surface', 3: 'volume'}[pdim])
    ctx.nontriv(True)
    vR = G.build(dict(sd, kvs=raw, normalize_kv=False, span='linear'))
    S = G.defn_of(vR)
    sc = so.scale_of_defn(S)
    for span in ('linear', 'binary'):
        vN = G.build(dict(sd, kvs=raw, normalize_kv=True, span=span))
        for tags, prm in G.param_tuples(rng, vR, 5):
            mapped = [(u - U[0]) / (U[-1] - U[0]) for u, U in zip(prm, raw)]
            base = G.evaluate_single(vR, prm)
            signal.alarm(20)
            try:
                got = G.evaluate_single(vN, mapped)
            except CaseTimeout:
                ctx.fail('config/normalised-from-raw/no-termination/%s' % span, 'evaluate_single%r (the caller\'s affine image of %r) did not return within '
                         '20 s with span search %s on the normalised twin; the un-normalised twin answers' % (tuple(mapped), tuple(prm), span))
                return
            except Exception as e:
                ctx.fail('config/normalised-from-raw/fails/%s/%s' % (span, type(e).__name__), 'evaluate_single%r raised %s: %s on the normalised twin '
                         '(span search %s); the un-normalised twin evaluates %r' % (tuple(mapped), type(e).__name__, e, span, tuple(prm)))
                return
            finally:
                signal.alarm(CASE_TIMEOUT_S)
            # (the 1-ulp difference of the parameters moves the point by ~1e-16 * |C'|)
            ctx.check(near(got, base, 1e-8 * sc), 'config/normalised-from-raw/differs/%s' % span, 'normalised twin at %r gives %r, un-normalised twin at %r '
                      'gives %r' % (tuple(mapped), got, tuple(prm), base), what='unnormalized')


# -- (b) number of worker processes ---------------------------------------------------------------------------------------------------
def _install_pool_logging(logdir, seed):
    """wrap the pool task functions (inherited by forked workers): log (pid, t_start, t_end), sleep a seeded 0-5 ms between tasks"""
    import functools
    from geomdl import multi, _voxelize

    def wrap(mod, name):
        orig = getattr(mod, name)
        if getattr(orig, '_nv_logged', False):
            return

        @functools.wraps(orig)
        def logged(*a, **k):
            t0 = time.time()
            res = orig(*a, **k)
            t1 = time.time()
            d = os.environ.get('NV_POOL_LOG')
            if d:
                try:
                    with open(os.path.join(d, 'pool.%d.log' % os.getpid()), 'a') as f:
                        f.write('%d %r %r\n' % (os.getpid(), t0, t1))
                except OSError:
                    pass
                r = random.Random('%s/%d/%r' % (os.environ.get('NV_POOL_SEED', '0'), os.getpid(), t0))
                time.sleep(r.uniform(0, 0.005))    # between two tasks: a legitimate suspension point
            return res
        logged._nv_logged = True
        setattr(mod, name, logged)
    wrap(multi, 'process_tessellate')
    wrap(_voxelize, 'is_point_inside_voxel')


def _read_pool_log(logdir):
    recs = []
    for fn in os.listdir(logdir):
        if fn.startswith('pool.'):
            with open(os.path.join(logdir, fn)) as f:
                for l in f:
                    pid, t0, t1 = l.split()
                    recs.append((int(pid), float(t0), float(t1)))
            os.remove(os.path.join(logdir, fn))
    return recs


def check_procs(case, ctx):
    from geomdl import multi, voxelize
    rng = random.Random(case['seed'])
    logdir = tempfile.mkdtemp(prefix='nv_c17_')
    os.environ['NV_POOL_LOG'] = logdir
    os.environ['NV_POOL_SEED'] = str(case['seed'])
    _install_pool_logging(logdir, case['seed'])
    ctx.nontriv(True)
    try:
        if case['what'] == 'tessellate':
            ctx.tag('tessellate-mp')
            sds = [G.rand_shape(rng, 2, dim=3, clamped_only=True, maxextra=2, maxdeg=3, pcls='uniform') for _ in range(rng.randint(3, 6))]
            n = rng.randint(4, 8)

            edit = rng.random() < 0.5      # the history continues after the first tessellation: the caller edits one of its surfaces
            if edit:
                ctx.tag('tessellate-mp:edit-and-retessellate')
            shift = [rng.uniform(1, 3) for _ in range(3)]
            listed_twice = rng.random() < 0.3
            if listed_twice:
                ctx.tag('tessellate-mp:surface-listed-twice')

            def run(k):
                from geomdl import operations
                from geomdl import tessellate as _tsl, freeform as _ff
                mine = [G.build(sd) for sd in sds]
                # the caller's own sub-objects: a tessellation component and a trim curve it keeps references to
                tsl_ = _tsl.TrimTessellate()
                (ua_, ub_), (va_, vb_) = G.domains_of(mine[0])
                trim_ = _ff.Freeform()
                trim_.evaluate(points=[[ua_ + x_ * (ub_ - ua_), va_ + y_ * (vb_ - va_)] for x_, y_ in
                                       ((0.3, 0.3), (0.7, 0.3), (0.7, 0.7), (0.3, 0.7), (0.3, 0.3))])
                mine[0].trims = [trim_]
                mine[0].tessellator = tsl_
                pieces_ = []
                if len(mine) >= 2:
                    # (sixth hunt) a second surface trimmed by a loop of four curves in a CurveContainer: the caller's curve objects are
                    # still the curves of that loop afterwards
                    from geomdl import BSpline as _BS
                    (ua2_, ub2_), (va2_, vb2_) = G.domains_of(mine[1])
                    cs_ = [(0.3, 0.3), (0.7, 0.3), (0.7, 0.7), (0.3, 0.7)]
                    for k2_ in range(4):
                        c2_ = _BS.Curve()
                        c2_.degree = 1
                        c2_.ctrlpts = [[ua2_ + x_ * (ub2_ - ua2_), va2_ + y_ * (vb2_ - va2_)] for x_, y_ in (cs_[k2_], cs_[(k2_ + 1) % 4])]
                        c2_.knotvector = [0.0, 0.0, 1.0, 1.0]
                        pieces_.append(c2_)
                    loop_ = multi.CurveContainer(*pieces_)
                    mine[1].trims = [loop_]
                    mine[1].tessellator = _tsl.TrimTessellate()
                if listed_twice:
                    mine = [mine[0]] + mine          # the same surface listed twice, distinct surfaces after it
                ms = multi.SurfaceContainer(*mine)
                ms.sample_size = n
                kw = {} if k == 1 else {'num_procs': k}
                ms.tessellate(**kw)
                out = [[(v.id, list(v.uv), list(v.data)) for v in ms.vertices], [list(f.data) for f in ms.faces],
                       [[list(p) for p in e.evalpts] for e in ms]]
                # the component the caller installed holds the mesh of its surface; the objects it handed over are still in place
                out.append([len(tsl_.faces), mine[0].tessellator is tsl_, mine[0].trims[0] is trim_])
                if pieces_:
                    out.append(['loop-curves-kept'] + [a_ is b_ for a_, b_ in zip(loop_, pieces_)])
                if edit:
                    # the surfaces the caller put into the container are still the container's surfaces
                    operations.translate(mine[0], shift, inplace=True)
                    ms.tessellate(force=True, **kw)
                    out.append([(v.id, list(v.uv), list(v.data)) for v in ms.vertices])
                    out.append([len(e.vertices) for e in mine])
                return out
        else:
            ctx.tag('voxelize-mp')
            pd = rng.choice([2, 3])
            sd = G.rand_shape(rng, pd, dim=3, clamped_only=True, maxextra=2, maxdeg=3, pcls='uniform')
            if rng.random() < 0.6:
                # the far corner of the bounding box is a point of the shape (the end corner of a clamped net): the LAST voxels are filled
                mx_ = [max(pt[i_] for pt in sd['ctrlpts']) + 1.0 for i_ in range(3)]
                sd['ctrlpts'][-1] = mx_
                ctx.tag('voxelize:far-corner-on-shape')
            if rng.random() < 0.4:
                # (round 10) a model much smaller than 1: the default padding is relative to the model, for every worker count
                f_ = rng.choice([1e-6, 1e-8, 2.0 ** -30, 1e-9, 1e-7])
                sd['ctrlpts'] = [[c_ * f_ for c_ in pt] for pt in sd['ctrlpts']]
                ctx.tag('voxelize:small-model')
            gs = tuple(rng.randint(3, 6) for _ in range(3))
            ss = rng.randint(3, 5) if pd == 2 else 3
            small_ = max(abs(c_) for pt in sd['ctrlpts'] for c_ in pt) < 1e-3
            vkw = {} if (small_ and rng.random() < 0.6) else rng.choice([{}, {}, {'tol': 0.11}, {'tol': 0.3}, {'tol': 0.05}, {'use_cubes': True}])     # options must be honoured for every worker count
            if vkw:
                ctx.tag('voxelize-options')

            def run(k):
                o = G.build(sd)
                o.sample_size = ss
                if k == 1:
                    return [list(x) if isinstance(x, (list, tuple)) else x for x in voxelize.voxelize(o, grid_size=gs, **vkw)]
                return [list(x) if isinstance(x, (list, tuple)) else x for x in voxelize.voxelize(o, grid_size=gs, num_procs=k, **vkw)]
        base = run(1)
        _read_pool_log(logdir)
        for k in (2, 4, 8):
            ctx.tag('procs:%d' % k)
            try:
                got = run(k)
            except Exception as e:
                ctx.fail('procs/fails-where-single-process-succeeds/%s' % case['what'], '%s with num_procs=%d raised %s: %s'
                         % (case['what'], k, type(e).__name__, e))
                continue
            ctx.check(got == base, 'procs/result-differs/%s' % case['what'], '%s with num_procs=%d returns a result different from '
                      'num_procs=1 (order or content)' % (case['what'], k), what='num_procs')
            recs = _read_pool_log(logdir)
            pids = frozenset(p for p, _, _ in recs if p != os.getpid())
            _SCHED['runs'] += 1
            if len(pids) > 1:
                _SCHED['multi_worker_runs'] += 1
            _SCHED['worker_sets'].add(pids)
            order = tuple(sorted(recs, key=lambda r: r[1]))
            first_pid = {}
            _SCHED['assignments'].add(tuple(first_pid.setdefault(p, len(first_pid)) for p, _, _ in order))
            ctx.count('pool-tasks-logged', len(recs))
    finally:
        os.environ.pop('NV_POOL_LOG', None)
        import shutil
        shutil.rmtree(logdir, ignore_errors=True)


# -- (c) cache size from the environment ---------------------------------------------------------------------------------------------
def check_cache(case, ctx):
    ctx.nontriv(True)
    env = dict(os.environ)
    env['PYTHONPATH'] = core.REPO + os.pathsep + core.VERIF_DIR
    env['PYTHONHASHSEED'] = '0'
    outs = {}
    for val in (None, '1', '16', '1024'):
        e = dict(env)
        e.pop('GEOMDL_CACHE_SIZE', None)
        if val is not None:
            e['GEOMDL_CACHE_SIZE'] = val
            ctx.tag('cache:' + val)
        p = subprocess.run([sys.executable, '-m', 'nvmon.scenario', str(case['seed'])], env=e, capture_output=True, text=True,
                           timeout=300, cwd=core.VERIF_DIR)
        try:
            outs[val] = json.loads(p.stdout)
        except ValueError:
            outs[val] = [['process', 'EXC:exit %d: %s' % (p.returncode, p.stderr[-300:])]]
    base = outs[None]
    if not ctx.check(base and base[0] == ['import', 'ok'], 'cache/baseline-import', 'scenario failed in the default configuration: %r'
                     % (base[:1],), what='cache-size'):
        return
    for val in ('1', '16', '1024'):
        got = outs[val]
        if got[0] != ['import', 'ok']:
            ctx.fail('cache/import-fails', 'GEOMDL_CACHE_SIZE=%s: importing geomdl fails: %r' % (val, got[0]))
            continue
        bad = [(a[0], str(a[1])[:80], str(b[1])[:80]) for a, b in zip(base, got) if a != b]
        ctx.check(not bad and len(got) == len(base), 'cache/result-differs', 'GEOMDL_CACHE_SIZE=%s: %d scenario steps differ from the '
                  'default configuration, first: %r' % (val, len(bad), bad[:1]), what='cache-size')
