"""C07 — splitting and Bezier decomposition reproduce the original piecewise."""
import random
from collections import Counter
from fractions import Fraction as F

from .. import gen as G, hooks, ref, shapeops as so
from ..core import Reject

ID = 'C07'
SHARDS = {'quick': 4, 'thorough': 16}
BUDGET = {'quick': 150, 'thorough': 1500}
RULE = ("cases: random clamped curves and surfaces (rational or not, normalised or in a non-[0,1] range, linear or binary span "
        "search passed as find_span_func) split at a parameter inside a span (incl. parameters within 1e-4 / 1e-2 of the domain "
        "start) or on a knot of multiplicity 1..p, in u or v, and decomposed in u, v, uv; judged: every piece evaluated at 12 "
        "parameters (both ends, midpoint, random) equals the exact reference of the original at the affinely mapped parameter, "
        "the piece definitions likewise, the input's definition is bit-identical afterwards, a split at either domain end "
        "raises, decomposition yields one Bezier piece per non-empty knot interval in order. Non-trivial: the split direction "
        "has >= 1 interior knot or the shape is rational; distinct = distinct case hash.")
ASSUMPTIONS = ["nvmon.ref exact reference model", "explored domain of DESIGN.md section 3; tolerance 1e-9*scale",
               "split parameters are stored knots or >= 1e-7*range away from every knot"]
FLOORS = {'quick': {'split': 250, 'piece-lib': 4000, 'piece-defn': 4000, 'input-intact': 300, 'reject-end': 150,
                    'decompose': 80, 'bezier-piece': 200},
          'thorough': {'split': 3000, 'piece-lib': 40000, 'decompose': 800}}
MANDATORY_TAGS = ['curve', 'surface-u', 'surface-v', 'rational', 'on-knot', 'on-knot-full', 'in-span', 'near-start', 'dir:uv',
                  'dir:u', 'dir:v', 'span:binary', 'unnormalized', 'interior-multiplicity-p+1', 'on-jump-knot', 'caller-knot-value', 'on-near-duplicate-knot', 'decompose:unclamped', 'near-domain-end']
TECHNIQUE = ("runtime monitoring: exact reference-model oracle on every piece returned by split_* / decompose_* under the affine "
             "re-parametrisation, plus before/after digests of the input object")
LEVEL_TEXT = ("Each split / decomposition performed by the workload is judged piece by piece against the exact original shape and "
              "structurally (piece count, order, Bezier form, untouched input); holds on the calls observed.")


def gen(rng, tier, shard, nshards):
    n = 90 if tier == 'quick' else 800
    for i in range(n):
        pdim = rng.choice([1, 1, 2, 2, 2])
        sd = G.rand_shape(rng, pdim, clamped_only=True, normalize=rng.random() < 0.75,
                          maxextra={1: 6, 2: 4}[pdim], maxdeg={1: 6, 2: 4}[pdim])
        yield {'kind': 'split', 'sd': sd, 'seed': rng.randrange(1 << 30), 'span': rng.choice(['default', 'linear', 'binary'])}
        if i % 4 == 1:
            # an interior knot of multiplicity degree + 1 (the shape is discontinuous there; a valid knot vector all the same)
            sdd = discontinuous_shape(rng, pdim)
            if sdd is not None:
                yield {'kind': 'split', 'sd': sdd, 'seed': rng.randrange(1 << 30), 'span': rng.choice(['default', 'linear', 'binary']),
                       'discontinuous': True}
        if i % 4 == 0:
            # unclamped shapes: the pieces of a decomposition are Bezier pieces there as well
            sdu = G.rand_shape(rng, pdim, kvcls=rng.choice(['unclamped', 'unclamped_rep']), normalize=rng.random() < 0.7, maxextra=4, maxdeg=3)
            yield {'kind': 'split', 'sd': sdu, 'seed': rng.randrange(1 << 30), 'span': rng.choice(['default', 'linear', 'binary']), 'unclamped': True}
        if i % 4 == 3:
            # two DISTINCT interior knots closer than 1e-7 (0.3 next to 0.1 + 0.2, or a 5e-8 gap): the shape is split at one of them
            sdn = G.rand_shape(rng, pdim, clamped_only=True, normalize=rng.random() < 0.7, kvcls='random', maxextra=5, mindeg=2, maxdeg=4)
            okn = False
            for d_, (kv, p_) in enumerate(zip(sdn['kvs'], sdn['degrees'])):
                inter = [j for j in range(p_ + 1, len(kv) - p_ - 2) if kv[j] < kv[j + 1] and kv[j - 1] < kv[j] and (j + 2 >= len(kv) or kv[j + 1] < kv[j + 2])]
                if inter and not okn:
                    j = rng.choice(inter)
                    gap = rng.choice([5e-8, 2e-8, 4.4e-16, 1e-12]) * (kv[-1] - kv[0])
                    if kv[j] + gap < kv[j + 2 if j + 2 < len(kv) else j + 1] and kv[j] + gap > kv[j]:
                        kv[j + 1] = kv[j] + gap
                        okn = True
            if okn:
                yield {'kind': 'split', 'sd': sdn, 'seed': rng.randrange(1 << 30), 'span': rng.choice(['default', 'linear']), 'near_duplicate': True}
        if i % 4 == 2:
            # an interior knot whose decimal value below 0.01 is not reproduced by an 18-decimal round trip: the caller later names the
            # value it supplied, the object holds a neighbouring double
            sds = G.rand_shape(rng, pdim, clamped_only=True, normalize=True, kvcls='random', maxextra=4, mindeg=2, maxdeg=4)
            ok = False
            for d_, (kv, p_) in enumerate(zip(sds['kvs'], sds['degrees'])):
                if len(kv) > 2 * (p_ + 1):
                    k_ = rng.uniform(0.002, 0.0099)
                    if k_ < kv[p_ + 1] - 1e-3 or len(kv) == 2 * (p_ + 1) + 1:
                        kv[p_ + 1] = k_
                        ok = True
            if ok:
                yield {'kind': 'split', 'sd': sds, 'seed': rng.randrange(1 << 30), 'span': 'default', 'caller_knot': True}


def discontinuous_shape(rng, pdim):
    for _ in range(20):
        sd = G.rand_shape(rng, pdim, clamped_only=True, kvcls='random', normalize=rng.random() < 0.7, maxextra=6, maxdeg=3)
        d = rng.randrange(pdim)
        p, kv = sd['degrees'][d], sd['kvs'][d]
        interior = kv[p + 1:len(kv) - p - 1]
        if len(interior) < p + 1:
            continue
        a, b = kv[0], kv[-1]
        j = rng.randint(0, len(interior) - (p + 1))
        v = interior[j + (p + 1) // 2]
        if not a < v < b:
            continue
        new = interior[:j] + [v] * (p + 1) + interior[j + p + 1:]
        new.sort()
        if max(Counter(new).values()) > p + 1:
            continue
        sd['kvs'][d] = kv[:p + 1] + new + kv[len(kv) - p - 1:]
        return sd
    return None


def affine(c0, c1, lo, hi):
    def f(t):
        if t == c0:
            return lo
        if t == c1:
            return hi
        return float(F(lo) + (F(t) - F(c0)) / (F(c1) - F(c0)) * (F(hi) - F(lo)))
    return f


def piece_params(rng, piece, n=12):
    doms = G.domains_of(piece)
    out = [tuple(a for a, b in doms), tuple(b for a, b in doms), tuple(0.5 * (a + b) for a, b in doms)]
    if len(doms) == 2:
        out += [(doms[0][0], doms[1][1]), (doms[0][1], doms[1][0])]
    while len(out) < n:
        out.append(tuple(rng.uniform(a, b) for a, b in doms))
    return out


def judge_piece(ctx, rng, piece, S0, sub, tol, desc, expect_class=None, expect_degrees=None):
    """sub: per direction (lo, hi) interval of the original that the piece must reproduce"""
    doms = G.domains_of(piece)
    maps = [affine(c0, c1, lo, hi) for (c0, c1), (lo, hi) in zip(doms, sub)]

    def mapf(q):
        return tuple(m(t) for m, t in zip(maps, q))
    if expect_degrees is not None:
        if not ctx.check(G.degrees_of(piece) == list(expect_degrees), 'piece/degree', '%s: piece has degrees %r, original %r'
                         % (desc, G.degrees_of(piece), list(expect_degrees)), what='piece-degree'):
            return False
    prms = piece_params(rng, piece)
    S1 = G.defn_of(piece)
    # keep mapped parameters either exactly on original knots or clear of them (span decision must not hinge on 1 ulp)
    good = []
    # interior knots of multiplicity p + 1: the original jumps there (its value is the right limit), a piece ending there holds the left limit
    jumps = [set(k for k, c in Counter(U[p + 1:len(U) - p - 1]).items() if c >= p + 1) for p, U in zip(S0.p, S0.U)]
    for q in prms:
        q0 = mapf(q)
        if any(F(x) in js for x, js in zip(q0, jumps)):
            continue
        if so.clear_of_knots(S0, q0, 1e-9) and so.clear_of_knots(S1, q, 1e-9):
            good.append(q)
    a = so.compare_object(ctx, piece, S0, good, tol, 'piece/library-eval', '%s: piece does not coincide with the original' % desc,
                          'piece-lib', mapf=mapf)
    b = a and so.compare_defns(ctx, S1, S0, good, tol, 'piece/definition', '%s: piece definition is a different shape' % desc,
                               'piece-defn', mapf=mapf)
    return a and b


def is_bezier(piece):
    return all(n == p + 1 and len(set(kv)) == 2 for n, p, kv in zip(G.sizes_of(piece), G.degrees_of(piece), G.kvs_of(piece)))


def check(case, ctx):
    from geomdl import operations, helpers
    from geomdl.exceptions import GeomdlException
    sd = case['sd']
    rng = random.Random(case['seed'])
    pdim = sd['pdim']
    o = G.build(sd)
    S0 = G.defn_of(o)
    sc = so.scale_of_defn(S0)
    tol = 1e-9 * sc
    kw = {}
    if case['span'] == 'binary':
        kw['find_span_func'] = helpers.find_span_binsearch
    elif case['span'] == 'linear':
        kw['find_span_func'] = helpers.find_span_linear
    ctx.tag('span:' + case['span'], 'rational' if sd['rational'] else 'nonrational',
            'normalized' if sd['normalize_kv'] else 'unnormalized')
    if case.get('discontinuous'):
        ctx.tag('interior-multiplicity-p+1')
    before = G.snapshot(o)
    doms = G.domains_of(o)
    degs = G.degrees_of(o)
    interior_any = False
    # ---- splits -------------------------------------------------------------------------------------------------------
    for rep in range(3):
        d = rng.randrange(pdim)
        fine = rng.random() < 0.25
        pick = so.pick_insertion(rng, o, d, prefer_knot=0.45, fine=fine)
        if pick is not None and pick[2].startswith('on-domain-end'):
            pick = None          # (a split at a domain end is the rejected case, exercised below)
        U = G.kvs_of(o)[d]
        cnt = Counter(U)
        full = [k for k in so.interior_distinct(degs[d], U) if cnt[k] == degs[d]]
        nd = []
        if case.get('near_duplicate'):
            ks_ = sorted(set(U))
            nd = [k for a_, k in zip(ks_, ks_[1:]) if 0 < k - a_ <= 1e-7 * (U[-1] - U[0])] + [a_ for a_, k in zip(ks_, ks_[1:]) if 0 < k - a_ <= 1e-7 * (U[-1] - U[0])]
            nd = [k for k in nd if doms[d][0] < k < doms[d][1] and cnt[k] <= degs[d]]
        callers = []
        if nd and rng.random() < 0.8:
            u = rng.choice(nd)
            s, tag = cnt[u], 'on-near-duplicate-knot'
            pick = (u, s, tag)
        if case.get('caller_knot'):
            # the values the caller supplied for the interior knots of this direction (shape dict), where the object holds another double
            callers = [k for k in set(sd['kvs'][d][degs[d] + 1:-degs[d] - 1]) if k not in cnt and min(abs(k - x) for x in cnt) < 1e-12]
        if nd and pick is not None and pick[2] == 'on-near-duplicate-knot':
            u, s, tag = pick
        elif callers and rng.random() < 0.8:
            u = rng.choice(callers)
            s = cnt[min(cnt, key=lambda x: abs(x - u))]
            tag = 'caller-knot-value'
        elif case.get('discontinuous') and rng.random() < 0.4 and [k for k in so.interior_distinct(degs[d], U) if cnt[k] == degs[d] + 1]:
            u = rng.choice([k for k in so.interior_distinct(degs[d], U) if cnt[k] == degs[d] + 1])
            s, tag = degs[d] + 1, 'on-jump-knot'
        elif full and rng.random() < 0.25:
            u, s, tag = rng.choice(full), degs[d], 'on-knot-full'
        elif pick is None:
            continue
        else:
            u, s, tag = pick
        ctx.tag('near-start' if (fine and tag == 'in-span') else tag.split('-m')[0] if tag not in ('on-knot-full', 'on-jump-knot', 'caller-knot-value', 'on-near-duplicate-knot') else tag)
        if tag == 'on-knot-full':
            ctx.tag('on-knot')
        if len(U) > 2 * (degs[d] + 1):
            interior_any = True
        if pdim == 1:
            fn, nm = operations.split_curve, 'split_curve'
            ctx.tag('curve')
        else:
            fn, nm = (operations.split_surface_u, 'split_surface_u') if d == 0 else (operations.split_surface_v, 'split_surface_v')
            ctx.tag('surface-u' if d == 0 else 'surface-v')
        pieces = fn(o, u, **kw)
        ctx.ok('split')
        ctx.check(G.snapshot(o) == before, 'input-modified', '%s(%r) modified its input' % (nm, u), what='input-intact')
        if not ctx.check(len(pieces) == 2, 'split/count', '%s returned %d pieces' % (nm, len(pieces)), what='split-count'):
            continue
        for k, piece in enumerate(pieces):
            sub = list(doms)
            sub[d] = (doms[d][0], u) if k == 0 else (u, doms[d][1])
            ctx.check(type(piece) is type(o), 'piece/class', '%s: piece is a %s, input a %s' % (nm, type(piece).__name__, type(o).__name__),
                      what='piece-class')
            if not judge_piece(ctx, rng, piece, S0, sub, tol, '%s(%r) piece %d [%s, s=%d]' % (nm, u, k, tag, s), expect_degrees=degs):
                return
    # ---- a split at a domain end is rejected ------------------------------------------------------------------------------
    for d in range(pdim):
        for end in (0, 1):
            u = doms[d][end]
            fn = operations.split_curve if pdim == 1 else (operations.split_surface_u if d == 0 else operations.split_surface_v)
            try:
                fn(o, u, **kw)
            except Exception:
                ctx.ok('reject-end')
            else:
                ctx.fail('split/domain-end-accepted', '%s accepted a split at the domain end %r' % (fn.__name__, u))
            ctx.check(G.snapshot(o) == before, 'input-modified', 'rejected split modified its input', what='input-intact')
    # ---- a parameter a hair inside a domain end: either taken for the end (rejected) or split there - never wrong pieces -----------
    import math as _m
    for d in range(pdim):
        for end in (0, 1):
            rng_ = doms[d][1] - doms[d][0]
            delta = rng.choice([0.0, 1e-12, 1e-9, 3e-8, 2e-6]) * rng_
            e_ = doms[d][end]
            u = _m.nextafter(e_ + delta, doms[d][1]) if end == 0 else _m.nextafter(e_ - delta, doms[d][0])
            if not doms[d][0] < u < doms[d][1]:
                continue
            fn = operations.split_curve if pdim == 1 else (operations.split_surface_u if d == 0 else operations.split_surface_v)
            ctx.tag('near-domain-end')
            try:
                pieces = fn(o, u, **kw)
            except GeomdlException:
                ctx.ok('near-end-rejected')
                ctx.check(G.snapshot(o) == before, 'input-modified', 'rejected split modified its input', what='input-intact')
                continue
            ctx.ok('near-end-split')
            ctx.check(G.snapshot(o) == before, 'input-modified', '%s(%r) modified its input' % (fn.__name__, u), what='input-intact')
            if not ctx.check(len(pieces) == 2, 'split/count', '%s returned %d pieces' % (fn.__name__, len(pieces)), what='split-count'):
                continue
            for k, piece in enumerate(pieces):
                sub = list(doms)
                sub[d] = (doms[d][0], u) if k == 0 else (u, doms[d][1])
                if not judge_piece(ctx, rng, piece, S0, sub, tol, '%s(%r) piece %d [%.1e of the range inside the domain end]'
                                   % (fn.__name__, u, k, abs(u - e_) / rng_), expect_degrees=degs):
                    return
    # ---- decomposition ---------------------------------------------------------------------------------------------------------
    ints = []
    for dd, U in zip(degs, G.kvs_of(o)):
        ks = sorted(set(U[dd:len(U) - dd]))
        ints.append(list(zip(ks, ks[1:])))
    uncl = bool(case.get('unclamped'))
    if uncl:
        ctx.tag('decompose:unclamped')
    try:
        if pdim == 1:
            pieces = operations.decompose_curve(o, **kw)
            expected = [[iv] for iv in ints[0]]
            desc = 'decompose_curve'
            ctx.tag('curve')
        else:
            ddir = rng.choice(['u', 'v', 'uv'])
            ctx.tag('dir:' + ddir)
            pieces = operations.decompose_surface(o, decompose_dir=ddir, **kw)
    except GeomdlException as e:
        if uncl:
            ctx.fail('decompose/unclamped/raises', 'decomposition of a valid unclamped shape raised: %s' % e)
            return
        raise
    if pdim == 2:
        if ddir == 'u':
            expected = [[iu, doms[1]] for iu in ints[0]]
        elif ddir == 'v':
            expected = [[doms[0], iv] for iv in ints[1]]
        else:
            expected = [[iu, iv] for iu in ints[0] for iv in ints[1]]
        desc = 'decompose_surface(%s)' % ddir
    ctx.ok('decompose')
    ctx.check(G.snapshot(o) == before, 'input-modified', '%s modified its input' % desc, what='input-intact')
    if not ctx.check(len(pieces) == len(expected), 'decompose/count', '%s returned %d pieces for %d non-empty knot intervals'
                     % (desc, len(pieces), len(expected)), what='decompose-count'):
        return
    for k, (piece, sub) in enumerate(zip(pieces, expected)):
        nbkey = 'decompose/not-bezier' if not uncl else 'decompose/unclamped/end-pieces-not-bezier'
        if pdim == 1 or desc.endswith('(uv)'):
            ctx.check(is_bezier(piece), nbkey, '%s: piece %d of %d is not a Bezier piece (sizes %r, degrees %r, knot vectors %r)'
                      % (desc, k, len(pieces), G.sizes_of(piece), G.degrees_of(piece), G.kvs_of(piece)), what='bezier-piece')
        else:
            dcheck = 0 if desc.endswith('(u)') else 1
            kvd = G.kvs_of(piece)[dcheck]
            ctx.check(G.sizes_of(piece)[dcheck] == degs[dcheck] + 1 and len(set(kvd)) == 2, nbkey, '%s: piece %d is not Bezier in the '
                      'decomposed direction (knot vector %r)' % (desc, k, kvd), what='bezier-piece')
        if not judge_piece(ctx, rng, piece, S0, sub, tol, '%s piece %d of %d' % (desc, k, len(pieces)), expect_degrees=degs):
            return
    ctx.nontriv(interior_any or sd['rational'])
