"""C01 — evaluated points equal the B-spline / NURBS definition, through every evaluation entry point."""
import random
from fractions import Fraction as F

from .. import gen as G, hooks, ref, meval
from ..core import Reject

ID = 'C01'
SHARDS = {'quick': 4, 'thorough': 16}
BUDGET = {'quick': 120, 'thorough': 1500}
RULE = ("cases: random shapes (curve/surface/volume, rational or not, degrees 1..7/4/3, knot-vector classes clamped "
        "uniform/random multiplicity/full multiplicity/unclamped/unclamped with repeated (end) knots, normalised or kept "
        "in a non-[0,1] range, linear or binary span search, 2-D/3-D/4-D points, weight classes) x parameters on both "
        "domain corners, on interior knots of every multiplicity, span midpoints, random; each judged through "
        "evaluate_single, evaluate_list, derivatives(order=0), evaluate(start,stop)+evalpts grids (sample sizes set via "
        "sample_size, per-direction sample_size_*, delta) against the exact tensor-product definition; the M-eval hook "
        "judges every evaluator.evaluate() call. Non-trivial: the shape has an interior knot or is rational with "
        "non-constant weights or is unclamped; distinct = distinct case hash.")
ASSUMPTIONS = ["CPython float/Fraction arithmetic", "nvmon.ref exact reference model",
               "explored domain: knot spacing >= 1e-3 of range, weights in [0.1,10], |coordinates| <= 1e3, tolerance 1e-9*scale"]
FLOORS = {'quick': {'single': 1500, 'list': 300, 'ders0': 300, 'grid_point': 1000, 'grid_shape': 150, 'meval': 2000,
                    'corner': 300},
          'thorough': {'single': 15000, 'grid_point': 10000, 'meval': 20000}}
MANDATORY_TAGS = ['grid:evaluator-asked-directly', 'ss:delta-half-integer', 'partial:zero-start-or-stop', 'partial:start==stop', 'square', 'large', 'ss:delta>2/3', 'container-grid', 'pdim3', 'rational', 'u:knot_full', 'u:knot', 'u:start', 'u:end', 'kv:unclamped', 'kv:range',
                  'ss:distinct', 'ss:one-direction', 'route:list', 'span:binary', 'dim4']
TECHNIQUE = ("runtime monitoring: exact-arithmetic post-condition on every evaluators.*.evaluate() call (M-eval hook) and on "
             "each public evaluation entry point, under a class-enumerating seeded workload")
LEVEL_TEXT = ("Every evaluation the workload triggers is compared with the Cox-de Boor tensor-product definition computed in "
              "rational arithmetic, incl. grid size/ordering/end points; holds on the executions observed (thousands of shapes "
              "x parameters across all entry points), not a proof over all inputs.")


def setup(ctx):
    meval.install(ctx)


def teardown(ctx):
    ctx.notes['hooks'] = hooks.report()


def gen(rng, tier, shard, nshards):
    if shard == 0:
        yield {'kind': 'ambient-suite'}
    n = 110 if tier == 'quick' else 1100
    forced = [dict(pdim=3), dict(pdim=1, dim=4), dict(pdim=2, kvcls='fullmult'), dict(pdim=1, kvcls='unclamped'),
              dict(pdim=2, normalize=False, lohi=(-3.0, 7.5)), dict(pdim=1, kvcls='unclamped_endrep', maxdeg=4, mindeg=2),
              dict(pdim=2, span='binary', rational=True)]
    for i in range(n):
        if i < len(forced) and shard == 0:
            kw = dict(forced[i])
        else:
            kw = dict(pdim=rng.choice([1, 1, 2, 2, 3]))
            kw['normalize'] = rng.random() < 0.65
            if rng.random() < 0.07:
                kw['kvcls'] = 'unclamped_endrep'
                kw['mindeg'] = 2
            elif rng.random() < 0.1:
                kw['kvcls'] = 'jump'           # an interior knot of multiplicity p + 1: the point one ulp below it belongs to the left piece
                kw['maxextra'] = 6
            if kw['pdim'] == 1 and rng.random() < 0.15:
                kw['dim'] = 4
            if rng.random() < 0.08:
                # un-normalised domain that starts at a small decimal (not reproduced by an 18-decimal round trip)
                a_ = rng.choice([0.1 ** 3, rng.uniform(0.0005, 0.004), -rng.uniform(0.0005, 0.004), 0.1 ** 3])
                kw.update(normalize=False, lohi=(a_, a_ + rng.choice([1.0, 2.5, 5.0, 2.0 ** -25, 2.0 ** -24])), clamped_only=True)
                kw.pop('kvcls', None)
        kw.setdefault('span', rng.choice(['linear', 'binary', None]))
        pd = kw.pop('pdim')
        if not (i < len(forced) and shard == 0) and 'kvcls' not in kw and rng.random() < 0.07:
            kw['large'] = True         # degree up to 10 / 40 control points; surfaces and volumes with one long, high-degree direction
        sd = G.rand_shape(rng, pd, **kw)
        if pd > 1 and rng.random() < 0.25:
            sd['route'] = 'list'       # built through the list-form setters degree = [...], knotvector = [...]
        yield {'kind': 'shape', 'sd': sd, 'seed': rng.randrange(1 << 30)}


def scale_of_shape(S):
    m = 1.0
    for idx in S.net:
        for c in S.cart(idx):
            m = max(m, abs(float(c)))
    return m


def check(case, ctx):
    if case.get('kind') == 'ambient-suite':
        from .. import ambient
        ctx.nontriv(True)
        return ambient.run_repo_suite(ctx, None)
    sd = case['sd']
    rng = random.Random(case['seed'])
    pdim = sd['pdim']
    o = G.build(sd)
    S = G.defn_of(o)            # knot vectors as stored by the object (normalisation itself is C03/C17 business)
    sc = scale_of_shape(S)
    tol = 1e-9 * sc
    interior = any(len(kv) > 2 * (p + 1) or kv[0] != kv[p] for kv, p in zip(sd['kvs'], sd['degrees']))
    ctx.nontriv(interior or (sd['rational'] and len(set(sd.get('weights', [1]))) > 1))
    if sd.get('large'):
        ctx.tag('large')
    if sd.get('square'):
        ctx.tag('square')
    ctx.tag('pdim%d' % pdim, 'rational' if sd['rational'] else 'nonrational', 'dim%d' % len(sd['ctrlpts'][0]),
            'span:%s' % sd.get('span', 'default'), 'route:%s' % sd.get('route', 'per-direction'))
    for c in sd['kvcls']:
        ctx.tag('kv:' + ('unclamped' if c.startswith('unclamped') else c))
    if not sd['normalize_kv'] and any(kv[0] != 0.0 or kv[-1] != 1.0 for kv in sd['kvs']):
        ctx.tag('kv:range')
    doms = G.domains_of(o)
    prms = G.param_tuples(rng, o, 9 if pdim == 1 else 7 if pdim == 2 else 4, ulp=True)
    # -- single / list / zeroth derivative -------------------------------------------------------------------
    plist = []
    for tags, prm in prms:
        for t, d in zip(tags, sd['degrees']):
            ctx.tag('u:' + ('knot_full' if t == 'knot_m%d' % d else t if t in ('knot_ulp', 'knot_near') else 'knot' if t.startswith('knot') else t))
        exact = S.point(prm)
        got = G.evaluate_single(o, prm)
        ctx.near(got, exact, tol, 'point/evaluate_single', 'evaluate_single%r differs from the definition' % (prm,),
                 what='single', params=list(prm))
        plist.append(prm)
        if pdim == 1:
            d0 = o.derivatives(prm[0], 0)
            ctx.near(d0[0], exact, tol, 'point/derivatives-order0', 'derivatives(u,0)[0] differs from the definition',
                     what='ders0', params=list(prm))
        elif pdim == 2:
            d0 = o.derivatives(prm[0], prm[1], 0)
            ctx.near(d0[0][0], exact, tol, 'point/derivatives-order0', 'derivatives(u,v,0)[0][0] differs from the '
                     'definition', what='ders0', params=list(prm))
    lst = o.evaluate_list([p[0] for p in plist] if pdim == 1 else [tuple(p) for p in plist])
    if ctx.check(len(lst) == len(plist), 'list/length', 'evaluate_list returned %d points for %d in-domain parameters'
                 % (len(lst), len(plist)), what='list'):
        for prm, got in zip(plist, lst):
            ctx.check(list(got) == list(G.evaluate_single(o, prm)), 'list/point', 'evaluate_list entry differs from '
                      'evaluate_single at %r' % (prm,), what='list')
    # -- sampled grids ------------------------------------------------------------------------------------------
    mx = {1: 25, 2: 9, 3: 5}[pdim]
    for rep in range(2):
        want = [rng.randint(2, mx) for _ in range(pdim)]
        if pdim > 1 and len(set(want)) < pdim:
            want = [2 + ((want[0] + k) % (mx - 1)) for k in range(pdim)]
        how = rng.choice(['sample_size', 'per_dir', 'delta', 'one_dir', 'one_dir']) if pdim > 1 else rng.choice(['sample_size', 'delta'])
        if how == 'sample_size':
            if pdim > 1:
                want = [want[0]] * pdim
            o.sample_size = want[0]
        elif how == 'one_dir':
            # only ONE direction is changed on an object that may already hold sampled points
            cur = [o.sample_size] if pdim == 1 else list(o.sample_size)
            d1 = rng.randrange(pdim)
            want = list(cur)
            want[d1] = want[d1] + rng.choice([1, 2, 3]) if want[d1] < mx else want[d1] - 1
            setattr(o, ('sample_size_u', 'sample_size_v', 'sample_size_w')[d1], want[d1])
            ctx.tag('ss:one-direction')
        elif how == 'per_dir':
            for nm, w in zip(('sample_size_u', 'sample_size_v', 'sample_size_w'), want):
                setattr(o, nm, w)
            ctx.tag('ss:distinct')
        else:
            # delta route: documented as the step of the sampling; n = round(1/delta) samples per direction
            dl = [1.0 / w for w in want]
            if rng.random() < 0.35:
                # any accepted delta (0 < delta < 1), not only reciprocals of integers; the documented grid [start, start + delta, ..., end]
                # has at least its two end points
                import math
                dl = [rng.uniform(0.04, 0.99) for _ in want]
                want = [max(2, int(math.floor(1.0 / x + 0.5))) for x in dl]
                ctx.tag('ss:arbitrary-delta')
                if any(x > 2.0 / 3.0 for x in dl):
                    ctx.tag('ss:delta>2/3')
            elif rng.random() < 0.3:
                # 1 / delta exactly half-way between two integers (0.4 -> 2.5, 2/9 -> 4.5, 0.08 -> 12.5): every route to the sample size
                # rounds it the same way (half up, as documented by floor(1 / delta + 0.5)) - the half-to-even rounding of round() differs
                import math
                kmax = {1: 22, 2: 8, 3: 4}[pdim]
                dl = [rng.choice([2.0 / (2 * k_ + 1) for k_ in range(2, kmax + 1, 2)] + [x]) for x in dl]
                dl[rng.randrange(pdim)] = 2.0 / (2 * rng.choice(range(2, kmax + 1, 2)) + 1)
                want = [max(2, int(math.floor(1.0 / x + 0.5))) for x in dl]
                ctx.tag('ss:delta-half-integer')
            if pdim == 1:
                o.delta = dl[0]
            else:
                o.delta = tuple(dl)
        ss = [o.sample_size] if pdim == 1 else list(o.sample_size)
        ctx.check(ss == want, 'grid/sample_size-roundtrip', 'sample size set via %s to %r reads back %r'
                  % (how, want, ss), what='grid_shape')
        import signal
        from ..core import CaseTimeout, CASE_TIMEOUT_S
        signal.alarm(30)
        try:
            pts = o.evalpts
        except CaseTimeout:
            ctx.fail('grid/no-termination', 'evalpts of a %d-sample grid did not return within 30 s (domain %r, span search %s)'
                     % (max(want), G.domains_of(o), sd.get('span')))
            return
        finally:
            signal.alarm(CASE_TIMEOUT_S)
        total = 1
        for w in want:
            total *= w
        if not ctx.check(len(pts) == total, 'grid/size', 'evalpts has %d points, documented size is %r -> %d (set via %s)'
                         % (len(pts), want, total, how), what='grid_shape'):
            continue
        # (sixth hunt) the evaluator asked directly, without a range: the same grid over the domain of the shape (the property names
        # evaluators.*Evaluator*.evaluate(datadict) as an entry point; its grid starts and ends on the domain corners)
        if rep == 0:
            with hooks.suspended():
                direct = o.evaluator.evaluate(o.data)
            ctx.tag('grid:evaluator-asked-directly')
            ctx.check(len(direct) == len(pts) and all(abs(a_ - b_) <= 1e-12 * max(1.0, sc) for p_, q_ in zip(direct, pts) for a_, b_ in zip(p_, q_)),
                      'grid/direct-evaluator-range', 'evaluator.evaluate(shape.data) without start / stop on the domain %r: %d points, first %r, last '
                      '%r; evalpts has %d points, first %r, last %r' % (doms, len(direct), direct[:1], direct[-1:], len(pts), pts[:1], pts[-1:]),
                      what='grid_point')
        per = [meval.grid_params(a, b, w) for (a, b), w in zip(doms, want)]
        idxs = list(range(total)) if total <= 40 else sorted(set([0, total - 1] + [rng.randrange(total) for _ in range(38)]))
        for f in idxs:
            rem, ii = f, []
            for d in reversed(range(pdim)):
                ii.append(rem % want[d])
                rem //= want[d]
            ii.reverse()
            prm = [per[d][ii[d]] for d in range(pdim)]
            if any(0 < abs(prm[d] - kk) < F(1, 10 ** 9) for d in range(pdim) for kk in set(S.U[d])):
                continue
            ctx.near(pts[f], S.point(prm), tol, 'grid/point', 'evalpts[%d] (grid index %r of %r) is not the surface point at '
                     'the documented parameter' % (f, ii, want), what='grid_point', params=[float(x) for x in prm])
        # grid starts and ends exactly on the domain corners
        c0 = G.evaluate_single(o, [a for a, b in doms])
        c1 = G.evaluate_single(o, [b for a, b in doms])
        exact_dom = all(a == 0.0 and b == 1.0 for a, b in doms)
        for nm, got, ref_pt in (('first', pts[0], c0), ('last', pts[-1], c1)):
            if exact_dom:
                ok = list(got) == list(ref_pt)
            else:
                ok = all(abs(x - y) <= 1e-12 * sc for x, y in zip(got, ref_pt))
            ctx.check(ok, 'grid/corner', '%s grid point %r is not the evaluation at the domain corner %r' % (nm, list(got), list(ref_pt)),
                      what='corner')
    # -- the same shape sampled through a container: "sample size defines the number of points to evaluate" (per direction, per shape) -------
    if case['seed'] % 3 == 0:
        import copy as _copy
        from geomdl import multi
        ccls = {1: multi.CurveContainer, 2: multi.SurfaceContainer, 3: multi.VolumeContainer}[pdim]
        members = [_copy.deepcopy(o) for _ in range(rng.randint(1, 2))]
        cont = ccls(*members)
        n_ = rng.randint(2, {1: 12, 2: 6, 3: 4}[pdim])
        cont.sample_size = n_
        ctx.tag('container-grid')
        got_ss = cont.sample_size
        ctx.check(got_ss == (n_ if pdim == 1 else [n_] * pdim), 'container-grid/sample_size-roundtrip', 'container.sample_size set to %d reads back %r'
                  % (n_, got_ss), what='grid_shape')
        cpts = cont.evalpts
        kept_pts, kept_copy = cpts, [list(p_) for p_ in cpts]       # the caller keeps the list it was handed
        ctx.check(len(cpts) == len(members) * n_ ** pdim, 'container-grid/size', 'container.sample_size = %d over %d %s(s): evalpts has %d points, '
                  'documented %d x %d^%d = %d' % (n_, len(members), ccls.__name__[:-9].lower(), len(cpts), len(members), n_, pdim,
                                                   len(members) * n_ ** pdim), what='grid_shape')
        if len(cpts) == len(members) * n_ ** pdim:
            first, last = cpts[0], cpts[n_ ** pdim - 1]
            c0 = G.evaluate_single(o, [a for a, b in doms])
            c1 = G.evaluate_single(o, [b for a, b in doms])
            ctx.check(all(abs(x - y) <= 1e-12 * sc for x, y in zip(first, c0)) and all(abs(x - y) <= 1e-12 * sc for x, y in zip(last, c1)),
                      'container-grid/corner', "the container's samples of its first shape do not start / end on the domain corners", what='corner')
        # a later change of the sampling gives the container a new grid; the list handed out before still holds the old one
        cont.sample_size = n_ + 1
        cont.evalpts
        ctx.check([list(p_) for p_ in kept_pts] == kept_copy, 'container-grid/kept-list-changed', 'the evalpts list handed out by the container (%d '
                  'points) holds %d points after the container was re-sampled: it was emptied / refilled in place' % (len(kept_copy), len(kept_pts)),
                  what='grid_shape')
    # -- evaluate(start, stop) on a sub-range ---------------------------------------------------------------------
    sub = []
    for a, b in doms:
        x, y = sorted([rng.uniform(a, b), rng.uniform(a, b)])
        if y - x < 1e-3 * (b - a):
            x, y = a, b
        r_ = rng.random()
        if r_ < 0.25 and a <= 0.0 <= b and a < b:
            # the value 0.0 itself as a start or a stop (a legitimate parameter like any other; it is falsy in Python)
            if 0.0 < b and (a == 0.0 or rng.random() < 0.5) and 0.0 < y:
                x = 0.0
            elif a < 0.0:
                y = 0.0
                x = min(x, a + 0.5 * (0.0 - a))
            ctx.tag('partial:zero-start-or-stop')
        elif r_ < 0.33:
            # an iso-parametric slice: start == stop (at a domain end or inside)
            x = y = rng.choice([a, b, x])
            ctx.tag('partial:start==stop')
        sub.append((x, y))
    if pdim == 1:
        o.evaluate(start=sub[0][0], stop=sub[0][1])
    elif pdim == 2:
        o.evaluate(start_u=sub[0][0], stop_u=sub[0][1], start_v=sub[1][0], stop_v=sub[1][1])
    else:
        o.evaluate(start_u=sub[0][0], stop_u=sub[0][1], start_v=sub[1][0], stop_v=sub[1][1], start_w=sub[2][0],
                   stop_w=sub[2][1])
    pts = o.evalpts
    ss = [o.sample_size] if pdim == 1 else list(o.sample_size)
    per = [meval.grid_params(a, b, w) for (a, b), w in zip(sub, ss)]
    cnt_ = [len(pp) for pp in per]
    total = 1
    for w in cnt_:
        total *= w
    sub_pts = [list(p) for p in pts]
    if ctx.check(len(pts) == total, 'grid/size', 'evaluate(start=%r, stop=%r) produced %d points for sample sizes %r (expected %r per direction)'
                 % ([x_ for x_, _ in sub], [y_ for _, y_ in sub], len(pts), ss, cnt_), what='grid_shape'):
        for f in sorted(set([0, total - 1, rng.randrange(total), rng.randrange(total)])):
            rem, ii = f, []
            for d in reversed(range(pdim)):
                ii.append(rem % cnt_[d])
                rem //= cnt_[d]
            ii.reverse()
            prm = [per[d][ii[d]] for d in range(pdim)]
            if any(0 < abs(prm[d] - kk) < F(1, 10 ** 6) for d in range(pdim) for kk in set(S.U[d])):
                continue
            ctx.near(pts[f], S.point(prm), tol, 'grid/point', 'evaluate(start,stop): point %d is not the point at the '
                     'documented parameter' % f, what='grid_point', params=[float(x) for x in prm])
    # ---- a plain evaluate() after the partial one samples the whole domain again ---------------------------------------------------------
    o.evaluate()
    pts = o.evalpts
    total = 1
    for w in ss:
        total *= w
    if ctx.check(len(pts) == total, 'grid/size', 'evaluate() after a partial-range evaluate produced %d points for sample sizes %r' % (len(pts), ss),
                 what='grid_shape'):
        c0 = S.point([a for a, b in doms])
        c1 = S.point([b for a, b in doms])
        ctx.near(pts[0], c0, tol, 'grid/stale-partial-range', 'evaluate() after evaluate(start=..., stop=...) still holds the sub-range samples '
                 '(first point is not the domain start)', what='corner')
        ctx.near(pts[-1], c1, tol, 'grid/stale-partial-range', 'evaluate() after evaluate(start=..., stop=...) still holds the sub-range samples '
                 '(last point is not the domain end)', what='corner')
