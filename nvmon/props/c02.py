"""C02 — derivatives returned are the true derivatives of the shape."""
import math
import random
from collections import Counter
from fractions import Fraction as F

from .. import gen as G, hooks, ref, shapeops as so
from ..core import Reject

ID = 'C02'
SHARDS = {'quick': 4, 'thorough': 16}
BUDGET = {'quick': 150, 'thorough': 1500}
RULE = ("cases: random curves and surfaces (rational or not, clamped/unclamped, normalised or not, linear/binary span search) x "
        "parameters on domain ends, on interior knots of multiplicity 1..p (right derivative), span midpoints, random x orders "
        "0..p+2 (surfaces: capped at 4, rational 3), through Curve/Surface.derivatives with the default evaluator and (non-"
        "rational) CurveEvaluator2/SurfaceEvaluator2, the hodograph constructors derivative_curve/derivative_surface, and "
        "operations.tangent/normal (normalised or not); oracle: exact piece-polynomial derivatives, power-series division for "
        "rational shapes; entries SKL[k][l] with k+l > order are not judged. Non-trivial: order >= 1 and (interior knot or "
        "rational with non-constant weights); distinct = distinct case hash.")
ASSUMPTIONS = ["nvmon.ref exact reference (piece polynomials, truncated power-series division)",
               "tolerance 1e-9*scale*(p/h)^k with h the smallest non-zero knot span in the support of the active basis functions "
               "(times the weight ratio for rational shapes); explored domain of DESIGN.md section 3"]
FLOORS = {'quick': {'curve-ders': 1500, 'surface-ders': 600, 'alt-evaluator': 400, 'above-degree': 200, 'hodograph': 150,
                    'tangent': 150, 'normal': 60, 'hook:derivatives': 100},
          'thorough': {'curve-ders': 15000, 'surface-ders': 6000, 'alt-evaluator': 4000}}
MANDATORY_TAGS = ['unit-vectors:small-shape', 'unit-vectors:long-domain', 'square', 'large', 'tangent:int-parameter', 'short-knot-range', 'curve', 'surface', 'rational', 'u:knot', 'u:knot_full', 'u:end', 'order>degree', 'eval2', 'deg1-order>=2',
                  'mixed-partial', 'unclamped', 'unnormalized']
TECHNIQUE = ("runtime monitoring: exact-arithmetic post-condition (piece-polynomial derivatives / power-series division) on every "
             "derivatives() call, hodograph constructor and tangent/normal query of a class-enumerating seeded workload; "
             "all-call hook on evaluators.*.derivatives")
LEVEL_TEXT = ("Every derivative vector the workload obtains is compared with the exact derivative of the position function, for "
              "both evaluator families and for orders above the degree; holds on the calls observed.")

_CTX = [None]
_worst = [0.0]


def local_h(S, d, u):
    p, U = S.p[d], S.U[d]
    sp = ref.find_span(p, U, F(u))
    ks = sorted(set(U[max(0, sp - p):sp + p + 2]))
    return float(min(y - x for x, y in zip(ks, ks[1:])))


def wratio(S):
    if not S.rational:
        return 1.0
    ws = [float(P[-1]) for P in S.net.values()]
    return max(ws) / min(ws)


def scale(S):
    return so.scale_of_defn(S)


def judge_curve_ders(ctx, S, u, order, got, key, what, desc):
    exact = S.curve_ders(u, order)
    sc = scale(S)
    h = local_h(S, 0, u)
    p = S.p[0]
    wr = wratio(S)
    if len(got) != order + 1:
        ctx.fail(key + '/shape', '%s returned %d derivative vectors for order %d' % (desc, len(got), order))
        return False
    for k in range(order + 1):
        tol = 1e-9 * sc * (max(1.0, p / h) ** k) * (wr ** (k + 1) if S.rational else 1.0)
        # ... and never below 1e-9 relative to the derivative itself (orders above 10 on 30 knot spans reach 1e37: thorough sweep)
        tol = max(tol, 1e-9 * max(abs(float(e)) for e in exact[k]))
        err = max(abs(float(g) - float(e)) for g, e in zip(got[k], exact[k])) if len(got[k]) == len(exact[k]) else float('inf')
        _worst[0] = max(_worst[0], err / tol)
        if not err <= tol:
            ctx.fail(key, '%s: derivative of order %d at u=%r is %r, exact %r (degree %d)' %
                     (desc, k, u, list(got[k]), [float(e) for e in exact[k]], p), order=order, k=k)
            return False
        ctx.ok(what)
        if k > p and not S.rational:
            ctx.ok('above-degree')
    return True


def judge_surface_ders(ctx, S, u, v, order, got, key, what, desc):
    exact = S.surface_ders(u, v, order)
    sc = scale(S)
    hu, hv = local_h(S, 0, u), local_h(S, 1, v)
    p, q = S.p
    wr = wratio(S)
    try:
        ok_shape = len(got) >= order + 1 and all(len(row) >= order + 1 - k for k, row in enumerate(got[:order + 1]))
    except TypeError:
        ok_shape = False
    if not ok_shape:
        ctx.fail(key + '/shape', '%s: result is not an (order+1)x(order+1) table' % desc)
        return False
    for k in range(order + 1):
        for l in range(order + 1 - k):
            tol = 1e-9 * sc * (max(1.0, p / hu) ** k) * (max(1.0, q / hv) ** l) * (wr ** (k + l + 1) if S.rational else 1.0)
            e = exact[(k, l)]
            g = got[k][l]
            tol = max(tol, 1e-9 * max(abs(float(b)) for b in e))
            err = max(abs(float(a) - float(b)) for a, b in zip(g, e)) if len(g) == len(e) else float('inf')
            _worst[0] = max(_worst[0], err / tol)
            if not err <= tol:
                ctx.fail(key, '%s: mixed partial (%d,%d) at (%r,%r) is %r, exact %r (degrees %r)' %
                         (desc, k, l, u, v, list(g), [float(x) for x in e], (p, q)), order=order, k=k, l=l)
                return False
            ctx.ok(what)
            if (k > p or l > q) and not S.rational:
                ctx.ok('above-degree')
    return True


# -- all-call hook on evaluators.*.derivatives -------------------------------------------------------------------------------
def install_hooks(ctx):
    from geomdl import evaluators
    from .. import meval
    _CTX[0] = ctx

    def post(hk, self, a, k, res, pv):
        c = _CTX[0]
        dd = a[0] if a else k.get('datadict')
        parpos = a[1] if len(a) > 1 else k.get('parpos')
        order = a[2] if len(a) > 2 else k.get('deriv_order', 0)
        try:
            S = meval.shape_from_datadict(dd)
        except Exception:
            return False
        if S is None or S.pdim > 2 or order > 6:
            return False
        prm = [parpos] if S.pdim == 1 else list(parpos)
        doms = S.domain()
        for d in range(S.pdim):
            if not (doms[d][0] <= prm[d] <= doms[d][1]):
                return False
            if any(0 < abs(prm[d] - kk) < 1e-6 * float(doms[d][1] - doms[d][0]) for kk in set(S.U[d])):
                return False
        name = type(self).__name__
        if S.pdim == 1:
            judge_curve_ders(c, S, prm[0], order, res, 'ders/hook/%s' % name, 'hook:derivatives', '%s.derivatives' % name)
        else:
            judge_surface_ders(c, S, prm[0], prm[1], order, res, 'ders/hook/%s' % name, 'hook:derivatives',
                               '%s.derivatives' % name)
        return True
    for cname in ('CurveEvaluator', 'CurveEvaluatorRational', 'SurfaceEvaluator', 'SurfaceEvaluatorRational', 'CurveEvaluator2',
                  'SurfaceEvaluator2'):
        cls = getattr(evaluators, cname, None)
        if cls is not None and 'derivatives' in cls.__dict__:
            _wrap_outer(cls, post, 'ders:%s' % cname)


_depth = [0]


def _wrap_outer(cls, post, hname):
    import functools
    hk = hooks.HOOKS.setdefault(hname, hooks.Hook(hname))
    orig = cls.__dict__['derivatives']
    if getattr(orig, '_nv_wrapped', False):
        return

    @functools.wraps(orig)
    def wrapper(self, *a, **k):
        hk.calls += 1
        if hooks.is_suspended() or _depth[0] > 0 or (hk.calls > 300 and hk.calls % 7):
            _depth[0] += 1
            try:
                return orig(self, *a, **k)
            finally:
                _depth[0] -= 1
        _depth[0] += 1
        try:
            res = orig(self, *a, **k)
        finally:
            _depth[0] -= 1
        with hooks.suspended():
            if post(hk, self, a, k, res, None):
                hk.evaluated += 1
            else:
                hk.ignored += 1
        return res
    wrapper._nv_wrapped = True
    setattr(cls, 'derivatives', wrapper)


def setup(ctx):
    install_hooks(ctx)


def teardown(ctx):
    ctx.notes['hooks'] = hooks.report()
    ctx.notes['worst_error_over_tolerance'] = _worst[0]


# -- workload --------------------------------------------------------------------------------------------------------------------
def gen(rng, tier, shard, nshards):
    if shard == 0:
        yield {'kind': 'ambient-suite'}
    n = 80 if tier == 'quick' else 750
    forced = [dict(pdim=2, maxdeg=1, rational=False), dict(pdim=1, maxdeg=1), dict(pdim=2, rational=True),
              dict(pdim=1, kvcls='unclamped'), dict(pdim=2, normalize=False, lohi=(2.0, 5.0)), dict(pdim=1, kvcls='fullmult', mindeg=2)]
    for i in range(n):
        if shard == 0 and i < len(forced):
            kw = dict(forced[i])
        else:
            kw = dict(pdim=rng.choice([1, 1, 2]), normalize=rng.random() < 0.7)
            if rng.random() < 0.1:
                # un-normalised knot vector on a very short (or long) range: derivatives scale with 1/range^k, nothing else changes
                a_ = rng.choice([0.0, 5.0])
                kw.update(normalize=False, lohi=(a_, a_ + rng.choice([2.0 ** -20, 2.0 ** -17, 2.0 ** 10])), rational=rng.random() < 0.3)
        pd = kw.pop('pdim')
        if not (shard == 0 and i < len(forced)) and 'lohi' not in kw and rng.random() < 0.07:
            kw['large'] = True         # degree up to 10 / 40 control points; surfaces with one long, high-degree direction
        kw.setdefault('maxdeg', {1: 6, 2: 3}[pd])
        kw.setdefault('maxextra', {1: 6, 2: 4}[pd])
        if 'wcls' not in kw and rng.random() < 0.8:
            kw['wcls'] = rng.choice(['uniform', 'ones', 'const'])
        sd = G.rand_shape(rng, pd, span=rng.choice([None, 'linear', 'binary']), **kw)
        yield {'kind': 'ders', 'sd': sd, 'seed': rng.randrange(1 << 30)}


def check(case, ctx):
    if case.get('kind') == 'ambient-suite':
        from .. import ambient
        ctx.nontriv(True)
        return ambient.run_repo_suite(ctx, None)
    from geomdl import operations, evaluators, linalg
    sd = case['sd']
    rng = random.Random(case['seed'])
    pdim = sd['pdim']
    o = G.build(sd)
    S = G.defn_of(o)
    sc = scale(S)
    interior = any(len(kv) > 2 * (p + 1) or kv[0] != kv[p] for kv, p in zip(sd['kvs'], sd['degrees']))
    ctx.nontriv(interior or (sd['rational'] and len(set(sd.get('weights', [1]))) > 1))
    if any(abs(kv[-1] - kv[0]) < 1e-4 for kv in sd['kvs']):
        ctx.tag('short-knot-range')
    if sd.get('large'):
        ctx.tag('large')
    if sd.get('square'):
        ctx.tag('square')
    ctx.tag('curve' if pdim == 1 else 'surface', 'rational' if sd['rational'] else 'nonrational',
            'normalized' if sd['normalize_kv'] else 'unnormalized')
    if any(c.startswith('unclamped') for c in sd['kvcls']):
        ctx.tag('unclamped')
    prms = G.param_tuples(rng, o, 7 if pdim == 1 else 5)
    alt = None
    if not sd['rational']:
        alt = G.build(sd)
        alt.evaluator = evaluators.CurveEvaluator2() if pdim == 1 else evaluators.SurfaceEvaluator2()
    degs = sd['degrees']
    for tags, prm in prms:
        for t, d in zip(tags, degs):
            ctx.tag('u:' + ('knot_full' if t == 'knot_m%d' % d else 'knot' if t.startswith('knot') else t))
        if pdim == 1:
            p = degs[0]
            order = rng.choice([0, 1, 2, p, p + 1, p + 2])
            if order > p:
                ctx.tag('order>degree')
            if p == 1 and order >= 2:
                ctx.tag('deg1-order>=2')
            with hooks.suspended():
                got = o.derivatives(prm[0], order)
            if not judge_curve_ders(ctx, S, prm[0], order, got, 'ders/curve', 'curve-ders', 'Curve.derivatives'):
                return
            if alt is not None:
                ctx.tag('eval2')
                with hooks.suspended():
                    got2 = alt.derivatives(prm[0], order)
                if not judge_curve_ders(ctx, S, prm[0], order, got2, 'ders/curve-evaluator2', 'alt-evaluator',
                                        'Curve.derivatives [CurveEvaluator2]'):
                    return
        else:
            p, q = degs
            cap = 3 if sd['rational'] else 4
            order = min(cap, rng.choice([0, 1, 2, max(p, q), min(p, q) + 1, max(p, q) + 2]))
            if order > min(p, q):
                ctx.tag('order>degree')
            if min(p, q) == 1 and order >= 2:
                ctx.tag('deg1-order>=2')
            if order >= 2:
                ctx.tag('mixed-partial')
            with hooks.suspended():
                got = o.derivatives(prm[0], prm[1], order)
            if not judge_surface_ders(ctx, S, prm[0], prm[1], order, got, 'ders/surface', 'surface-ders', 'Surface.derivatives'):
                return
            if alt is not None:
                ctx.tag('eval2')
                with hooks.suspended():
                    got2 = alt.derivatives(prm[0], prm[1], order)
                if not judge_surface_ders(ctx, S, prm[0], prm[1], order, got2, 'ders/surface-evaluator2', 'alt-evaluator',
                                          'Surface.derivatives [SurfaceEvaluator2]'):
                    return
    # ---- tangent / normal (hooks listening on the nested derivatives calls) -----------------------------------------------------
    for tags, prm in prms[:4]:
        for normalize in (True, False):
            if pdim == 1:
                ex = S.curve_ders(prm[0], 1)
                d1 = [float(x) for x in ex[1]]
                mag = math.sqrt(sum(x * x for x in d1))
                h = local_h(S, 0, prm[0])
                if mag < 1e-6 * sc:
                    ctx.count('tangent-degenerate-skipped')
                    continue
                pt, vec = operations.tangent(o, prm[0], normalize=normalize)
                want = [x / mag for x in d1] if normalize else d1
                tol = 1e-9 * (1.0 if normalize else sc * max(1.0, degs[0] / h)) * (wratio(S) ** 2) * (max(1.0, sc * degs[0] / h / mag) if normalize else 1)
                ok = all(abs(a - b) <= tol for a, b in zip(vec, want)) and all(abs(a - float(b)) <= 1e-9 * sc for a, b in zip(pt, ex[0]))
                if normalize:
                    ok = ok and abs(math.sqrt(sum(x * x for x in vec)) - 1.0) <= 1e-9
                ctx.check(ok, 'tangent/curve', 'tangent(u=%r, normalize=%s) = %r, exact %r' % (prm[0], normalize, list(vec), want),
                          what='tangent')
            else:
                ex = S.surface_ders(prm[0], prm[1], 1)
                su = [float(x) for x in ex[(1, 0)]]
                sv = [float(x) for x in ex[(0, 1)]]
                mu, mv = math.sqrt(sum(x * x for x in su)), math.sqrt(sum(x * x for x in sv))
                hu, hv = local_h(S, 0, prm[0]), local_h(S, 1, prm[1])
                bound = sc * max(1.0, degs[0] / hu, degs[1] / hv)
                if mu < 1e-6 * sc or mv < 1e-6 * sc:
                    ctx.count('tangent-degenerate-skipped')
                    continue
                # integer-valued parameters (domain corners, integer knots) are passed as ints by some callers: same query
                qprm = [int(x) if float(x) == int(x) and rng.random() < 0.5 else float(x) for x in prm]
                if any(isinstance(x, int) for x in qprm):
                    ctx.tag('tangent:int-parameter')
                res = operations.tangent(o, qprm, normalize=normalize)
                wr = wratio(S) ** 2
                wu = [x / mu for x in su] if normalize else su
                wv = [x / mv for x in sv] if normalize else sv
                tu = 1e-9 * wr * (max(1.0, bound / mu) if normalize else bound)
                tv = 1e-9 * wr * (max(1.0, bound / mv) if normalize else bound)
                ok = len(res) == 3 and all(abs(a - b) <= tu for a, b in zip(res[1], wu)) and all(abs(a - b) <= tv for a, b in zip(res[2], wv))
                if ok and normalize:
                    ok = abs(math.sqrt(sum(x * x for x in res[1])) - 1) <= 1e-9 and abs(math.sqrt(sum(x * x for x in res[2])) - 1) <= 1e-9
                ctx.check(ok, 'tangent/surface', 'tangent((%r,%r), normalize=%s) = %r, exact %r %r' % (prm[0], prm[1], normalize, res[1:], wu, wv),
                          what='tangent')
                if len(su) == 3:
                    cr = [su[1] * sv[2] - su[2] * sv[1], su[2] * sv[0] - su[0] * sv[2], su[0] * sv[1] - su[1] * sv[0]]
                    mc = math.sqrt(sum(x * x for x in cr))
                    if mc < 1e-6 * mu * mv or mc < 1e-6 * sc * sc:
                        ctx.count('normal-degenerate-skipped')
                        continue
                    nres = operations.normal(o, qprm, normalize=normalize)
                    nv = list(nres[1])
                    wn = [x / mc for x in cr] if normalize else cr
                    tn = 1e-9 * wr * wr * (max(1.0, bound * bound / mc) if normalize else bound * bound)
                    ok = all(abs(a - b) <= tn for a, b in zip(nv, wn))
                    mn = math.sqrt(sum(x * x for x in nv))
                    if normalize:
                        ok = ok and abs(mn - 1.0) <= 1e-9
                    # orthogonal to both tangents
                    ok = ok and abs(sum(a * b for a, b in zip(nv, su))) <= 1e-9 * wr * max(1.0, bound) * mn * max(mu, 1.0) * max(1.0, bound / mc * mu) and \
                        abs(sum(a * b for a, b in zip(nv, sv))) <= 1e-9 * wr * max(1.0, bound) * mn * max(mv, 1.0) * max(1.0, bound / mc * mv)
                    ctx.check(ok, 'normal/surface', 'normal((%r,%r), normalize=%s) = %r, exact %r' % (prm[0], prm[1], normalize, nv, wn),
                              what='normal')
    # ---- unit tangents / normals do not depend on the unit of length or of the parameter: the same shape 2^-17 times as large, or on a
    #      knot range 2^14 times as long (exact powers of two: every derivative scales exactly), has the same unit vectors ----------------
    if pdim <= 2 and rng.random() < 0.5:
        which = rng.choice(['small-shape', 'long-domain'])
        ctx.tag('unit-vectors:' + which)
        if which == 'small-shape':
            sd2 = dict(sd, ctrlpts=[[c * 2.0 ** -17 for c in p_] for p_ in sd['ctrlpts']])
            pmap = lambda q_: list(q_)
        else:
            sd2 = dict(sd, normalize_kv=False, kvs=[[k_ * 2.0 ** 14 for k_ in kv] for kv in G.kvs_of(o)])
            pmap = lambda q_: [x_ * 2.0 ** 14 for x_ in q_]
        o2 = G.build(sd2)
        for tags, prm in prms[:4]:
            try:
                if pdim == 1:
                    a_ = operations.tangent(o, prm[0], normalize=True)[1:]
                    b_ = operations.tangent(o2, pmap(prm)[0], normalize=True)[1:]
                else:
                    a_ = list(operations.tangent(o, list(prm), normalize=True)[1:])
                    b_ = list(operations.tangent(o2, pmap(prm), normalize=True)[1:])
                    if len(sd['ctrlpts'][0]) == 3:
                        a_.append(operations.normal(o, list(prm), normalize=True)[1])
                        b_.append(operations.normal(o2, pmap(prm), normalize=True)[1])
            except Exception as e:
                if type(e).__name__ in ('ValueError', 'ZeroDivisionError', 'GeomdlException'):
                    ctx.count('unit-vectors-degenerate-skipped')     # zero tangent / normal: cannot be normalised in either unit
                    continue
                raise
            # judged where the vectors are well defined: raw magnitudes not tiny relative to the shape
            for va, vb in zip(a_, b_):
                la = math.sqrt(sum(x * x for x in va))
                if abs(la - 1.0) > 1e-9:
                    continue            # the unit-length oracle above speaks for the original shape
                ctx.check(all(abs(x - y) <= 1e-7 for x, y in zip(va, vb)), 'unit-vector/depends-on-scale', 'normalised tangent / normal at %r: %r for '
                          'the shape, %r for the same shape %s' % (prm, list(va), list(vb), '2^-17 times as large' if which == 'small-shape' else
                                                                    'on a knot range 2^14 times as long'), what='tangent')
    # ---- hodograph of a shape with a degree-1 direction: its derivative has degree 0, which the library cannot represent --------------
    if not sd['rational'] and any(d == 1 for d in degs) and pdim in (1, 2) and \
            not any(c >= p_ for kv, p_ in zip(G.kvs_of(o), degs) if p_ > 1 for k_, c in Counter(kv[p_ + 1:len(kv) - p_ - 1]).items()):
        ctx.tag('hodograph:degree-1')
        try:
            with so.quiet():
                res = operations.derivative_curve(o) if pdim == 1 else operations.derivative_surface(o)
        except (ValueError, Exception) as e:
            if type(e).__name__ not in ('ValueError', 'GeomdlException'):
                raise
            ctx.fail('hodograph/degree-1-unsupported', 'derivative_%s raised %s for a shape of degree %r: %s'
                     % ('curve' if pdim == 1 else 'surface', type(e).__name__, degs, e))
        else:
            ctx.ok('hodograph-degree-1')
    # ---- hodograph constructors asked for a rational shape: the derivative of a rational shape is no shape of this construction; the
    #      library refuses (a warning, the input handed back - or an exception). Anything ELSE it returns is taken for the hodograph.
    if sd['rational'] and all(d >= 2 for d in degs) and pdim in (1, 2):
        import warnings
        ctx.tag('hodograph:rational-refused')
        with warnings.catch_warnings(record=True) as wlist:
            warnings.simplefilter('always')
            try:
                res = operations.derivative_curve(o) if pdim == 1 else operations.derivative_surface(o)
            except Exception as e:
                if type(e).__name__ not in ('ValueError', 'GeomdlException', 'TypeError', 'NotImplementedError'):
                    raise
                res = None
        if res is None or (res is o and wlist):
            ctx.ok('hodograph')
        else:
            hods = [res] if pdim == 1 else (list(res) if isinstance(res, (list, tuple)) else [res])
            bad = None
            for _, prm in prms[:6]:
                if not so.clear_of_knots(S, prm, 1e-6):
                    continue
                ex = [S.curve_ders(prm[0], 1)[1]] if pdim == 1 else [S.surface_ders(prm[0], prm[1], 2)[kl] for kl in ((1, 0), (0, 1), (1, 1))]
                try:
                    got = [h_.evaluate_single(prm[0] if pdim == 1 else tuple(prm)) for h_ in hods]
                except Exception as e:
                    bad = 'evaluating it at %r raised %s' % (prm, type(e).__name__)
                    break
                if len(got) != len(ex) or any(not all(abs(a - b) <= 1e-9 * sc * 1e3 for a, b in zip(g_, e_)) for g_, e_ in zip(got, ex)):
                    bad = 'at %r it evaluates %r, the exact derivative is %r' % (prm, got[0], [float(x) for x in ex[0]])
                    break
            ctx.check(bad is None, 'hodograph/rational-not-refused', 'derivative_%s of a RATIONAL shape returned %s without refusing (no warning / '
                      'not the input handed back): %s' % ('curve' if pdim == 1 else 'surface', 'a new object' if res is not o else 'the input silently',
                                                        bad), what='hodograph')
    # ---- hodograph constructors (non-rational, degree >= 2 in the differentiated directions) -----------------------------------------
    if not sd['rational'] and all(d >= 2 for d in degs):
        doms = G.domains_of(o)
        if pdim == 1:
            hod = operations.derivative_curve(o)
            hd = G.domains_of(hod)
            # the hodograph is a function of the SAME parameter: C'(u) is read off it at u, so it lives on the domain of the curve
            if not ctx.check(all(abs(a - b) <= 1e-12 * max(1.0, abs(b)) for a, b in zip(hd[0], doms[0])), 'hodograph/domain-differs',
                             'derivative_curve(c) is defined on %r, the curve on %r (normalize_kv=%s, knot vector %s): evaluating it at a parameter '
                             'of the curve does not give the derivative there' % (tuple(hd[0]), tuple(doms[0]), sd['normalize_kv'],
                                                                                   'clamped' if G.kvs_of(o)[0][0] == G.kvs_of(o)[0][degs[0]] else 'unclamped'),
                             what='hodograph'):
                return
            for _, prm in prms:
                t = min(max(prm[0], hd[0][0]), hd[0][1])
                Sh = G.defn_of(hod)
                if not so.clear_of_knots(Sh, (t,), 1e-9) or (t != prm[0] and not so.clear_of_knots(S, prm, 1e-6)):
                    continue
                got = hod.evaluate_single(t)
                ex = S.curve_ders(prm[0], 1)[1]
                # at an interior knot of multiplicity p the first derivative jumps; the hodograph there is the right value
                h = local_h(S, 0, prm[0])
                ctx.near(got, ex, 1e-9 * sc * max(1.0, degs[0] / h), 'hodograph/curve',
                         'derivative_curve(c) evaluated at %r differs from C\'(%r)' % (t, prm[0]), what='hodograph')
        else:
            fullmult = any(c >= p for kv, p in zip(G.kvs_of(o), degs) for k_, c in Counter(kv[p + 1:len(kv) - p - 1]).items())
            try:
                su_, sv_, suv_ = operations.derivative_surface(o)
            except ZeroDivisionError:
                if fullmult:
                    # mechanism: the constructor also builds the unused 2nd-order derivative control points, whose
                    # denominators U[i+p+1]-U[i+2] vanish at an interior knot of multiplicity p
                    ctx.fail('hodograph/surface-raises-at-full-multiplicity-knot', 'derivative_surface raised ZeroDivisionError '
                             'for a surface with an interior knot of multiplicity = degree')
                    return
                raise
            for surf, nm in ((su_, 'u'), (sv_, 'v'), (suv_, 'uv')):
                hd = G.domains_of(surf)
                if not ctx.check(all(abs(a - b) <= 1e-12 * max(1.0, abs(b)) for d in range(2) for a, b in zip(hd[d], doms[d])),
                                 'hodograph/domain-differs', 'derivative_surface(s)[%s] is defined on %r, the surface on %r (normalize_kv=%s)'
                                 % (nm, hd, doms, sd['normalize_kv']), what='hodograph'):
                    return
            for _, prm in prms:
                for surf, kl, nm in ((su_, (1, 0), 'u'), (sv_, (0, 1), 'v'), (suv_, (1, 1), 'uv')):
                    hd = G.domains_of(surf)
                    t = [min(max(prm[d], hd[d][0]), hd[d][1]) for d in range(2)]
                    Sh = G.defn_of(surf)
                    if not so.clear_of_knots(Sh, t, 1e-9) or (tuple(t) != tuple(prm) and not so.clear_of_knots(S, prm, 1e-6)):
                        continue
                    got = surf.evaluate_single(tuple(t))
                    ex = S.surface_ders(prm[0], prm[1], 2)[kl]
                    hu, hv = local_h(S, 0, prm[0]), local_h(S, 1, prm[1])
                    tol = 1e-9 * sc * (max(1.0, degs[0] / hu) ** kl[0]) * (max(1.0, degs[1] / hv) ** kl[1])
                    ctx.near(got, ex, tol, 'hodograph/surface-%s' % nm, 'derivative_surface(s)[%s] at %r differs from the exact '
                             'partial derivative at %r' % (nm, t, prm), what='hodograph')
