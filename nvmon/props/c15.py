"""C15 — tessellation is a valid triangulation lying on the surface; exports describe exactly that mesh."""
import math
import os
import random
import shutil
import struct
import tempfile
from collections import Counter
from fractions import Fraction as F

from .. import gen as G, hooks, ref, shapeops as so
from ..core import Reject

ID = 'C15'
SHARDS = {'quick': 4, 'thorough': 16}
BUDGET = {'quick': 200, 'thorough': 1800}
RULE = ("cases: random 3-D surfaces (rational or not, clamped, normalised) with sample sizes 2..14 (thorough: ..40) different in u "
        "and v and every vertex spacing dividing both sizes minus one; judged on Surface.tessellate/.vertices/.faces: consecutive "
        "vertex ids, in-range face indices, vertex/face counts, signed parametric areas of one sign summing exactly (Fractions of "
        "the stored uv) to the area of the parametric rectangle, interior edges in two triangles / boundary edges in one, Euler "
        "characteristic 1, vertex.data == exact reference at vertex.uv; QuadTessellate on the sampled grid: (nu-1)(nv-1) cells, "
        "each the four corners of its grid cell; TrimTessellate with polygonal / spline / sense-reversed trims: cells farther than "
        "1.5 cell diagonals from the trim polygon are fully kept or fully dropped according to the kept side; OBJ / OFF / ASCII+binary "
        "STL (string and file, single surface and containers of 1..3) parsed back and compared with the tessellation (counts, "
        "per-surface index offsets, coordinates, facet normals positively parallel to (v1-v0)x(v2-v1)); surfaces whose domain is "
        "not [0,1]^2 form a separate class. Non-trivial: at least 2 cells per direction; distinct = case hash.")
ASSUMPTIONS = ["nvmon.ref exact reference for vertex positions (uv within 1e-12 of the domain clamped: the library accumulates "
               "u += u_jump)", "areas compared with 1e-9; coordinates printed with str()/float32 in binary STL (1e-6 relative)"]
FLOORS = {'quick': {'topology': 150, 'vertex-on-surface': 1500, 'quads': 100, 'trim-cells': 1000, 'obj': 60, 'off': 60, 'stl-ascii': 60,
                    'stl-binary': 60, 'container': 30},
          'thorough': {'topology': 1500, 'vertex-on-surface': 15000, 'trim-cells': 10000}}
MANDATORY_TAGS = ['single:spacing-kept-across-inplace-edit', 'trim:sense-detected:first-corner-reflex', 'trim:mesh-read-before-sense-detection', 'container:element-edited-after-mesh-read', 'partial-evaluate-before:iso', 'far-from-origin', 'export:spacing-after-tessellation', 'mesh:kept-across-edit', 'partial-evaluate-before', 'spacing1', 'spacing>=2', 'spacing>=3', 'spacing:not-dividing', 'rational', 'trim:freeform', 'trim:spline', 'trim:reversed', 'trim:clockwise', 'trim:non-unit-domain', 'trim:added-after-tessellation', 'trim:setter-replaces', 'tessellator:reinstalled-after-edit', 'container', 'container:tessellator-replaced', 'quad:as-surface-tessellator', 'export:quad-mesh',
                  'quad', 'non-unit-domain', 'export:file']
TECHNIQUE = ("runtime monitoring: structural + exact-geometric oracle over every tessellation the workload produces (ids, indices, "
             "orientation, exact area cover, edge incidence, Euler characteristic, vertex = surface(uv)), cell-classification oracle "
             "for trims, and an independent parser for OBJ/OFF/STL output")
LEVEL_TEXT = ("Every mesh produced by the workload is checked as a combinatorial triangulation of the parametric rectangle lying on "
              "the exact surface, and every export is parsed back and compared with it; holds on the meshes observed.")

_TMP = [None]


def setup(ctx):
    _TMP[0] = tempfile.mkdtemp(prefix='nv_c15_')


def teardown(ctx):
    if _TMP[0]:
        shutil.rmtree(_TMP[0], ignore_errors=True)


def gen(rng, tier, shard, nshards):
    n = 45 if tier == 'quick' else 350
    mx = 14 if tier == 'quick' else 40
    for i in range(n):
        sd = G.rand_shape(rng, 2, dim=3, clamped_only=True, maxextra=3, maxdeg=3, pcls='uniform')
        for _ in range(50):
            sp = rng.choice([1, 1, 2, 2, 3, 4, 5])
            nu = 1 + sp * rng.randint(1, max(1, (mx - 1) // sp))
            nv = 1 + sp * rng.randint(1, max(1, (mx - 1) // sp))
            if rng.random() < 0.4:
                # any sample sizes, not only those where the spacing divides size - 1: the coarser mesh still covers the whole surface
                nu, nv = rng.randint(2, mx), rng.randint(2, mx)
            if nu != nv or mx < 4:
                break
        if i % 6 == 5:
            # a model far from the origin (UTM metres): the mesh and what the exporters derive from it (facet normals) do not care
            off_ = [rng.choice([-1, 1]) * rng.uniform(3e5, 4e6) for _ in range(3)]
            sd['ctrlpts'] = [[c + o_ for c, o_ in zip(p_, off_)] for p_ in sd['ctrlpts']]
            sd['far'] = True
        yield {'kind': 'plain', 'sd': sd, 'nu': nu, 'nv': nv, 'spacing': sp, 'seed': rng.randrange(1 << 30)}
        if i % 3 == 0:
            nonunit = rng.random() < 0.35
            yield {'kind': 'trim', 'sd': G.rand_shape(rng, 2, dim=3, clamped_only=True, maxextra=2, maxdeg=3, pcls='uniform',
                                                      normalize=not nonunit, lohi=(0.0, 2.0) if nonunit else None),
                   'seed': rng.randrange(1 << 30), 'n': rng.randint(6, 16 if tier == 'quick' else 30),
                   'trim': rng.choice(['freeform', 'spline', 'freeform-reversed', 'spline-reversed', 'freeform-detect', 'spline-detect'])}
        if i % 4 == 1:
            yield {'kind': 'container', 'seed': rng.randrange(1 << 30), 'n': rng.randint(3, 9),
                   'shapes': [G.rand_shape(rng, 2, dim=3, clamped_only=True, maxextra=2, maxdeg=3, pcls='uniform')
                              for _ in range(rng.randint(1, 3))]}
        if i % 5 == 2:
            cls = rng.choice(['unnormalized', 'unclamped'])
            if cls == 'unnormalized':
                sd2 = G.rand_shape(rng, 2, dim=3, clamped_only=True, maxextra=2, maxdeg=3, normalize=False,
                                   lohi=rng.choice([(0.0, 2.0), (2.0, 5.0)]))
                if rng.random() < 0.6:      # a different range in v than in u
                    a2, b2 = rng.choice([(1.0, 3.0), (-2.0, -1.0), (0.0, 0.5)])
                    kv = sd2['kvs'][1]
                    sd2['kvs'][1] = [a2 + (k - kv[0]) / (kv[-1] - kv[0]) * (b2 - a2) for k in kv]
            else:
                sd2 = G.rand_shape(rng, 2, dim=3, kvcls='unclamped', maxextra=3, maxdeg=3)
            yield {'kind': 'plain', 'sd': sd2, 'nu': rng.randint(3, 6), 'nv': rng.randint(7, 9), 'spacing': 1,
                   'seed': rng.randrange(1 << 30), 'nonunit': True}


def check(case, ctx):
    return {'plain': check_plain, 'trim': check_trim, 'container': check_container}[case['kind']](case, ctx)


# -- topology / geometry of a triangle mesh -------------------------------------------------------------------------------------------
def mesh_topology(V, Fc, dom):
    """returns None or a (key, message) describing the first defect"""
    ids = [v.id for v in V]
    if ids != list(range(len(V))):
        return 'ids', 'vertex ids are not 0..V-1 consecutively: %r...' % ids[:12]
    edges = Counter()
    area = F(0)
    signs = set()
    for f in Fc:
        d = list(f.data)
        if len(d) != 3 or any(not (isinstance(i, int) and 0 <= i < len(V)) for i in d):
            return 'face-index', 'face %r references a vertex that does not exist (V=%d)' % (d, len(V))
        uv = [[F(c) for c in V[i].uv] for i in d]
        a = ((uv[1][0] - uv[0][0]) * (uv[2][1] - uv[0][1]) - (uv[2][0] - uv[0][0]) * (uv[1][1] - uv[0][1])) / 2
        if a == 0:
            return 'degenerate-triangle', 'triangle %r has zero parametric area' % d
        area += a
        signs.add(a > 0)
        for k in range(3):
            edges[tuple(sorted((d[k], d[(k + 1) % 3])))] += 1
    if len(signs) > 1:
        return 'orientation', 'triangles are not consistently oriented in the parameter plane'
    want = F(dom[0][1] - dom[0][0]) * F(dom[1][1] - dom[1][0])
    if abs(abs(area) - want) > F(1, 10 ** 9) * max(F(1), want):
        return 'area', 'parametric areas sum to %s, the parametric rectangle has area %s' % (float(area), float(want))
    if any(c > 2 for c in edges.values()):
        return 'edge-incidence', 'an edge belongs to more than two triangles'
    if len(V) - len(edges) + len(Fc) != 1:
        return 'euler', 'V - E + F = %d, a disc has 1' % (len(V) - len(edges) + len(Fc))
    return None


def clamp_uv(uv, dom):
    out = []
    for x, (a, b) in zip(uv, dom):
        if abs(x - a) <= 1e-12 * max(1.0, abs(a)):
            x = a
        if abs(x - b) <= 1e-12 * max(1.0, abs(b)):
            x = b
        out.append(x)
    return out


def vertices_on_surface(ctx, S, V, dom, sc, rng, key, limit=40):
    pick = V if len(V) <= limit else [V[0], V[-1]] + rng.sample(V, limit - 2)
    for v in pick:
        if not all(a <= x <= b for x, (a, b) in zip(v.uv, dom)):
            # (the library itself evaluates at these parameters again, e.g. for the vertex normals of an OBJ export)
            ctx.fail(key + '/stored-parameter-outside-domain', 'vertex %d stores parameters %r outside the surface domain %r' % (v.id, list(v.uv), dom))
            return False
        uv = clamp_uv(v.uv, dom)
        if not so.clear_of_knots(S, uv, 1e-9):
            continue
        if not ctx.near(v.data, S.point(uv), 1e-9 * sc, key, 'vertex %d: position is not the surface evaluated at its stored '
                        'parameters %r' % (v.id, list(v.uv)), what='vertex-on-surface'):
            return False
    return True


# -- export parsers --------------------------------------------------------------------------------------------------------------------
def parse_obj(txt):
    vs, fs = [], []
    for l in txt.split('\n'):
        if l.startswith('v '):
            vs.append([float(x) for x in l.split()[1:]])
        elif l.startswith('f '):
            fs.append([int(x) for x in l.split()[1:]])
    return vs, fs


def parse_off(txt):
    L = [l for l in txt.split('\n') if l.strip()]
    if L[0].strip() != 'OFF':
        return None
    nv, nf = int(L[1].split()[0]), int(L[1].split()[1])
    vs = [[float(x) for x in L[2 + i].split()] for i in range(nv)]
    fs = []
    for i in range(nf):
        t = L[2 + nv + i].split()
        fs.append((int(t[0]), [int(x) for x in t[1:]]))
    return vs, fs, len(L) - 2 - nv - nf


def parse_stl_ascii(txt):
    facets = []
    cur = None
    for l in txt.split('\n'):
        t = l.split()
        if t[:2] == ['facet', 'normal']:
            cur = {'n': [float(x) for x in t[2:5]], 'v': []}
        elif t[:1] == ['vertex']:
            cur['v'].append([float(x) for x in t[1:4]])
        elif t[:1] == ['endfacet']:
            facets.append(cur)
    return facets


def parse_stl_binary(b):
    n = struct.unpack('<i', b[80:84])[0]
    if len(b) != 84 + 50 * n:
        return None
    facets = []
    for i in range(n):
        rec = struct.unpack('<12f', b[84 + 50 * i:84 + 50 * i + 48])
        facets.append({'n': list(rec[0:3]), 'v': [list(rec[3:6]), list(rec[6:9]), list(rec[9:12])]})
    return facets


def normal_ok(fc, rel, verts=None):
    v = verts if verts is not None else fc['v']     # binary STL stores float32: judge the normal against the mesh's own positions
    # exact edge vectors and cross product (a facet far from the origin - coordinates of 1e6 - is as good a facet as one at the origin)
    a = [F(q) - F(p) for p, q in zip(v[0], v[1])]
    b = [F(q) - F(p) for p, q in zip(v[1], v[2])]
    n = [float(a[1] * b[2] - a[2] * b[1]), float(a[2] * b[0] - a[0] * b[2]), float(a[0] * b[1] - a[1] * b[0])]
    mn = math.sqrt(sum(x * x for x in n))
    mg = math.sqrt(sum(x * x for x in fc['n']))
    la, lb = math.sqrt(float(sum(x * x for x in a))), math.sqrt(float(sum(x * x for x in b)))
    if mn <= 1e-7 * la * lb or mn <= 1e-300:
        return True  # degenerate facet in space (its edges are parallel): direction undefined
    if mg == 0:
        return False
    cosang = sum(x * y for x, y in zip(n, fc['n'])) / (mn * mg)
    return cosang >= 1 - rel


def check_exports(ctx, rng, obj, surfs, sp, sc, as_file):
    """obj: surface or container handed to the exporters; surfs: the list of surfaces whose tessellation must be described"""
    from geomdl import exchange

    def mesh_now():
        VV, FF = [], []
        for s in surfs:
            VV.append([(v.id, [float(c) for c in v.data]) for v in s.tessellator.vertices])
            FF.append([list(f.data) for f in s.tessellator.faces])
        return VV, FF
    kw = {'vertex_spacing': sp}
    tol = 1e-9 * sc
    # ---- OBJ ---------------------------------------------------------------------------------------------------------------------
    if as_file:
        fn = os.path.join(_TMP[0], 'm.obj')
        exchange.export_obj(obj, fn, **kw)
        txt = open(fn).read()
        ctx.tag('export:file')
    else:
        txt = exchange.export_obj_str(obj, **kw)
    VV, FF = mesh_now()
    vs, fs = parse_obj(txt)
    tv, tf = sum(len(x) for x in VV), sum(len(x) for x in FF)
    ok = len(vs) == tv and len(fs) == tf
    if ok:
        off = 0
        fi = 0
        for Vk, Fk in zip(VV, FF):
            base = Vk[0][0] if Vk else 0
            for (vid, data), got in zip(Vk, vs[off:off + len(Vk)]):
                ok = ok and all(abs(a - b) <= tol for a, b in zip(got, data))
            for f, got in zip(Fk, fs[fi:fi + len(Fk)]):
                ok = ok and got == [i - base + off + 1 for i in f] and all(off + 1 <= g <= off + len(Vk) for g in got)
            off += len(Vk)
            fi += len(Fk)
    ctx.check(ok, 'export/obj', 'OBJ export (%d v, %d f) does not describe the tessellation (%d vertices, %d faces, 1-based indices '
              'with per-surface offsets)' % (len(vs), len(fs), tv, tf), what='obj')
    # ---- OFF ---------------------------------------------------------------------------------------------------------------------
    if as_file:
        fn = os.path.join(_TMP[0], 'm.off')
        exchange.export_off(obj, fn, **kw)
        txt = open(fn).read()
    else:
        txt = exchange.export_off_str(obj, **kw)
    VV, FF = mesh_now()
    parsed = parse_off(txt)
    ok = parsed is not None
    if ok:
        vs, fs, extra = parsed
        ok = len(vs) == tv and len(fs) == tf and extra == 0
        if ok:
            off = 0
            fi = 0
            for Vk, Fk in zip(VV, FF):
                base = Vk[0][0] if Vk else 0
                for (vid, data), got in zip(Vk, vs[off:off + len(Vk)]):
                    ok = ok and all(abs(a - b) <= tol for a, b in zip(got, data))
                for f, (cnt, got) in zip(Fk, fs[fi:fi + len(Fk)]):
                    ok = ok and cnt == 3 and got == [i - base + off for i in f] and all(off <= g < off + len(Vk) for g in got)
                off += len(Vk)
                fi += len(Fk)
    ctx.check(ok, 'export/off', 'OFF export does not describe the tessellation (header counts, 0-based indices with per-surface offsets)',
              what='off')
    # ---- STL ---------------------------------------------------------------------------------------------------------------------
    for binary in (False, True):
        if as_file:
            fn = os.path.join(_TMP[0], 'm.stl')
            exchange.export_stl(obj, fn, binary=binary, **kw)
            data = open(fn, 'rb').read() if binary else open(fn).read()
        else:
            data = exchange.export_stl_str(obj, binary=binary, **kw)
        VV, FF = mesh_now()
        facets = parse_stl_binary(data) if binary else parse_stl_ascii(data)
        name = 'stl-binary' if binary else 'stl-ascii'
        ok = facets is not None and len(facets) == tf
        if ok:
            k = 0
            rel = 1e-5 if binary else 1e-9
            ptol = (1e-5 * sc) if binary else tol
            for Vk, Fk in zip(VV, FF):
                pos = {vid: d for vid, d in Vk}
                for f in Fk:
                    fc = facets[k]
                    k += 1
                    ok = ok and len(fc['v']) == 3 and all(all(abs(a - b) <= ptol for a, b in zip(g, pos[i])) for g, i in zip(fc['v'], f))
                    ok = ok and normal_ok(fc, rel, [pos[i] for i in f])
        ctx.check(ok, 'export/%s' % name, '%s STL export does not describe the tessellation (facet count / vertex coordinates / '
                  'facet normal not positively parallel to (v1-v0)x(v2-v1))' % ('binary' if binary else 'ASCII'), what=name)


# -- cases ----------------------------------------------------------------------------------------------------------------------------
def check_plain(case, ctx):
    from geomdl import tessellate
    sd = case['sd']
    rng = random.Random(case['seed'])
    nu, nv, sp = case['nu'], case['nv'], case['spacing']
    o = G.build(sd)
    S = G.defn_of(o)
    sc = so.scale_of_defn(S)
    dom = G.domains_of(o)
    nonunit = bool(case.get('nonunit'))
    ctx.tag('spacing1' if sp == 1 else 'spacing>=2', 'rational' if sd['rational'] else 'nonrational')
    if sd.get('far'):
        ctx.tag('far-from-origin')
    if sp >= 3:
        ctx.tag('spacing>=3')
    if nonunit:
        ctx.tag('non-unit-domain')
    ctx.nontriv((nu - 1) // sp >= 2 and (nv - 1) // sp >= 2)
    o.sample_size_u, o.sample_size_v = nu, nv
    if nonunit:
        # separate class: the domain is not [0,1]^2 (normalize_kv=False with another range, or an unclamped knot vector)
        try:
            o.tessellate(vertex_spacing=sp)
            V, Fc = o.vertices, o.faces
            err = mesh_topology(V, Fc, dom)
            inside = all(dom[d][0] - 1e-9 <= v.uv[d] <= dom[d][1] + 1e-9 for v in V for d in range(2))
            good = err is None and inside
            if good:
                for v in V[:: max(1, len(V) // 10)]:
                    uv = clamp_uv(v.uv, dom)
                    if so.clear_of_knots(S, uv, 1e-9) and any(abs(a - float(b)) > 1e-9 * sc for a, b in zip(v.data, S.point(uv))):
                        good = False
        except Exception:
            good = False
        if not good:
            ctx.fail('tessellate/unit-domain-assumed', 'surface with domain %r: the tessellation\'s parameters span [0,1]^2 instead of '
                     'the domain (vertices are placed / re-evaluated at the wrong parameters, or evaluation fails)' % (dom,))
        else:
            ctx.ok('topology')
        return
    if rng.random() < 0.3:
        # the surface was sampled on a part of its domain before (its cached points are not the grid over the whole domain)
        ctx.tag('partial-evaluate-before')
        kwp = dict(start_u=rng.uniform(0.1, 0.4), stop_u=rng.uniform(0.6, 0.9), start_v=rng.uniform(0.1, 0.4), stop_v=rng.uniform(0.6, 0.9))
        if rng.random() < 0.4:
            # an iso-parametric line: start == stop in one direction (the cached points are 1 x n, not nu x nv)
            d_ = rng.choice('uv')
            kwp['start_' + d_] = kwp['stop_' + d_] = rng.choice([0.0, 1.0, 0.5, kwp['start_' + d_]])
            ctx.tag('partial-evaluate-before:iso')
        o.evaluate(**kwp)
    o.tessellate(vertex_spacing=sp)
    V, Fc = o.vertices, o.faces
    # every sp-th sample per direction, and always the last one
    eu, ev = len(range(0, nu - 1, sp)) + 1, len(range(0, nv - 1, sp)) + 1
    if (nu - 1) % sp or (nv - 1) % sp:
        ctx.tag('spacing:not-dividing')
    if not ctx.check(len(V) == eu * ev and len(Fc) == 2 * (eu - 1) * (ev - 1), 'mesh/counts',
                     'sample sizes (%d,%d), spacing %d: %d vertices / %d faces, expected %d / %d' %
                     (nu, nv, sp, len(V), len(Fc), eu * ev, 2 * (eu - 1) * (ev - 1)), what='topology'):
        return
    err = mesh_topology(V, Fc, dom)
    if not ctx.check(err is None, 'mesh/%s' % (err[0] if err else ''), 'sample sizes (%d,%d), spacing %d: %s' % (nu, nv, sp, err[1] if err else ''),
                     what='topology'):
        return
    if not vertices_on_surface(ctx, S, V, dom, sc, rng, 'mesh/vertex-off-surface'):
        return
    # vertex parameters are the sampled grid nodes
    us = sorted(set(round(v.uv[0], 12) for v in V))
    vs_ = sorted(set(round(v.uv[1], 12) for v in V))
    ctx.check(len(us) == eu and len(vs_) == ev and abs(us[0] - dom[0][0]) < 1e-12 and abs(us[-1] - dom[0][1]) < 1e-9 and
              abs(vs_[-1] - dom[1][1]) < 1e-9, 'mesh/grid', 'vertex parameters are not the %dx%d sampled grid over the domain' % (eu, ev),
              what='topology')
    # ---- quads, as the library itself uses the quad tessellator: on the sampled grid ---------------------------------------------------
    ctx.tag('quad')
    qt = tessellate.QuadTessellate()
    pts = o.evalpts
    qt.tessellate(pts, size_u=nu, size_v=nv)
    QV, QF = qt.vertices, qt.faces
    ok = [v.id for v in QV] == list(range(nu * nv)) and len(QF) == (nu - 1) * (nv - 1) and \
        all(list(v.data) == list(p) for v, p in zip(QV, pts))
    if ok:
        want = set()
        for i in range(nu - 1):
            for j in range(nv - 1):
                want.add(frozenset([j + nv * i, j + nv * (i + 1), j + 1 + nv * (i + 1), j + 1 + nv * i]))
        got = [frozenset(q.data) for q in QF]
        ok = set(got) == want and len(got) == len(want) and all(len(q.data) == 4 and all(0 <= t < nu * nv for t in q.data) for q in QF)
        # each quad is a cycle around its cell (consecutive corners share a grid edge)
        for q in QF:
            d = list(q.data)
            for a, b in zip(d, d[1:] + d[:1]):
                ia, ja, ib, jb = a // nv, a % nv, b // nv, b % nv
                ok = ok and abs(ia - ib) + abs(ja - jb) == 1
    ctx.check(ok, 'quads', 'QuadTessellate on a %dx%d grid: cells are not exactly the (nu-1)(nv-1) grid cells with their four corners' % (nu, nv),
              what='quads')
    # ---- the quad tessellator installed on the surface itself (surf.tessellator = QuadTessellate(); surf.vertices / faces) ------------
    o2 = G.build(sd)
    o2.sample_size_u, o2.sample_size_v = nu, nv
    o2.tessellator = tessellate.QuadTessellate()
    ctx.tag('quad:as-surface-tessellator')
    QV2, QF2 = o2.vertices, o2.faces
    if ctx.check([v.id for v in QV2] == list(range(nu * nv)) and len(QF2) == (nu - 1) * (nv - 1) and
                 all(len(q.data) == 4 and all(0 <= t < nu * nv for t in q.data) for q in QF2), 'quads/surface-tessellator',
                 'surface with QuadTessellate: %d vertices / %d quads for a %dx%d grid' % (len(QV2), len(QF2), nu, nv), what='quads'):
        # each vertex position is the surface evaluated at its stored parameters, which are the sampled grid
        vertices_on_surface(ctx, S, QV2, dom, sc, rng, 'quads/vertex-off-surface', limit=30)
        uq = sorted(set(round(v.uv[0], 12) for v in QV2))
        vq = sorted(set(round(v.uv[1], 12) for v in QV2))
        ctx.check(len(uq) == nu and len(vq) == nv and abs(uq[0] - dom[0][0]) < 1e-12 and abs(uq[-1] - dom[0][1]) < 1e-9 and
                  abs(vq[0] - dom[1][0]) < 1e-12 and abs(vq[-1] - dom[1][1]) < 1e-9, 'quads/stored-parameters',
                  'quad vertices do not store the %dx%d sampled grid over the domain as their parameters (distinct u: %d, distinct v: %d)'
                  % (nu, nv, len(uq), len(vq)), what='quads')
    # ---- exports of the quad mesh: they describe THIS mesh (all four corners of every face; STL, a triangle format, two facets per quad) ---
    if len(QF2) == (nu - 1) * (nv - 1) and rng.random() < 0.6:
        from geomdl import exchange
        ctx.tag('export:quad-mesh')
        nq = len(QF2)
        obj_txt = exchange.export_obj_str(o2, update_delta=False)
        fl = [[int(t_) for t_ in l.split()[1:]] for l in obj_txt.split('\n') if l.startswith('f ')]
        ctx.check(fl == [[i_ + 1 for i_ in q.data] for q in QF2], 'export/quad-obj', 'OBJ export of a quad mesh: face lines %r..., quads %r...'
                  % (fl[:2], [list(q.data) for q in QF2[:2]]), what='obj')
        off_txt = [l for l in exchange.export_off_str(o2, update_delta=False).split('\n') if l.strip()]
        hdr = off_txt[1].split()
        offf = [[int(t_) for t_ in l.split()] for l in off_txt[2 + len(QV2):]]
        ctx.check(hdr[:2] == [str(len(QV2)), str(nq)] and offf == [[4] + list(q.data) for q in QF2], 'export/quad-off',
                  'OFF export of a quad mesh: header %r, first faces %r, quads %r' % (hdr, offf[:2], [list(q.data) for q in QF2[:2]]), what='off')
        stl_txt = exchange.export_stl_str(o2, binary=False, update_delta=False)
        facets = stl_txt.split('facet normal')[1:]
        per = [f_.count('vertex ') for f_ in facets]
        if len(facets) == 2 * nq and all(c_ == 3 for c_ in per):
            # the two facets of a quad tile it: they share one of its diagonals and cover its four corners
            def fverts(f_):
                return [tuple(float(x_) for x_ in ln.split()[1:4]) for ln in f_.split('\n') if ln.strip().startswith('vertex ')]
            bad_q = None
            for k_, q_ in enumerate(QF2):
                cor = [tuple(float(x_) for x_ in QV2[i_].data) for i_ in q_.data]
                if len(set(cor)) < 4:
                    continue
                t1, t2 = set(fverts(facets[2 * k_])), set(fverts(facets[2 * k_ + 1]))
                sh = t1 & t2
                if (t1 | t2) != set(cor) or sh not in ({cor[0], cor[2]}, {cor[1], cor[3]}):
                    bad_q = k_
                    break
            ctx.check(bad_q is None, 'export/quad-stl-split', 'ASCII STL export: the two facets written for quad %r do not tile it (they must share one of its '
                      'diagonals and cover its four corners)' % (bad_q,), what='stl-ascii')
        ctx.check(len(facets) == 2 * nq and all(c_ == 3 for c_ in per), 'export/quad-stl', 'ASCII STL export of %d quads: %d facets with %r vertices each '
                  '(a quad is two triangular facets)' % (nq, len(facets), sorted(set(per))), what='stl-ascii')
        stl_bin = exchange.export_stl_str(o2, binary=True, update_delta=False)
        import struct as _st
        ctx.check(len(stl_bin) == 84 + 50 * _st.unpack('<i', stl_bin[80:84])[0] and _st.unpack('<i', stl_bin[80:84])[0] == 2 * nq, 'export/quad-stl',
                  'binary STL export of %d quads: %d bytes, header says %d facets' % (nq, len(stl_bin), _st.unpack('<i', stl_bin[80:84])[0]), what='stl-binary')
    # ---- the mesh handed out is the caller's: a later edit gives a NEW mesh, it does not empty the lists read before ----------------------
    if rng.random() < 0.4:
        o4 = G.build(sd)
        o4.sample_size_u, o4.sample_size_v = nu, nv
        kv_, kf_ = o4.vertices, o4.faces
        nkv, nkf = len(kv_), len(kf_)
        first_pos = [list(v.data) for v in kv_[:3]]
        o4.sample_size_u = nu + 2
        ctx.tag('mesh:kept-across-edit')
        len(o4.vertices)
        ctx.check(len(kv_) == nkv and len(kf_) == nkf and [list(v.data) for v in kv_[:3]] == first_pos, 'mesh/kept-lists-emptied',
                  'the vertex / face lists read before a sample-size change hold %d / %d entries afterwards (had %d / %d): the mesh handed '
                  'out earlier was emptied in place' % (len(kv_), len(kf_), nkv, nkf), what='topology')
    # ---- a tessellation component taken off the surface and installed again later (after an edit) must not bring its old mesh back ------
    if rng.random() < 0.4:
        from geomdl import operations
        o3 = G.build(sd)
        o3.sample_size_u, o3.sample_size_v = nu, nv
        first = o3.tessellator
        o3.vertices
        o3.tessellator = tessellate.QuadTessellate() if rng.random() < 0.5 else tessellate.TrimTessellate()
        o3.faces
        shift = [rng.uniform(2, 5) * sc for _ in range(3)]
        operations.translate(o3, shift, inplace=True)
        o3.tessellator = first
        ctx.tag('tessellator:reinstalled-after-edit')
        S3 = G.defn_of(o3)
        vertices_on_surface(ctx, S3, o3.vertices, dom, so.scale_of_defn(S3), rng, 'mesh/stale-after-tessellator-reinstalled', limit=12)
    # ---- exports ---------------------------------------------------------------------------------------------------------------------
    check_exports(ctx, rng, o, [o], sp, sc, as_file=rng.random() < 0.4)
    # ---- the mesh an exporter is asked for (vertex_spacing=) is the mesh it writes, also when the surface holds another one already ------
    divs = [k for k in range(2, 7) if (nu - 1) % k == 0 and (nv - 1) % k == 0]
    if divs and rng.random() < 0.6:
        from geomdl import exchange
        sp2 = rng.choice(divs)
        o5 = G.build(sd)
        o5.sample_size_u, o5.sample_size_v = nu, nv
        len(o5.vertices)           # the spacing-1 mesh is cached
        ctx.tag('export:spacing-after-tessellation')
        fmt = rng.choice(['off', 'obj', 'stl'])
        if fmt == 'off':
            nvs = len(parse_off(exchange.export_off_str(o5, vertex_spacing=sp2, update_delta=False))[0])
        elif fmt == 'obj':
            nvs = len(parse_obj(exchange.export_obj_str(o5, vertex_spacing=sp2, update_delta=False))[0])
        else:
            nvs = None
            nfs = len(parse_stl_ascii(exchange.export_stl_str(o5, vertex_spacing=sp2, update_delta=False, binary=False)))
        e2u, e2v = (nu - 1) // sp2 + 1, (nv - 1) // sp2 + 1
        if nvs is not None:
            ctx.check(nvs == e2u * e2v, 'export/vertex-spacing-ignored', 'export_%s_str(vertex_spacing=%d, update_delta=False) of a %dx%d surface that '
                      'was tessellated before writes %d vertices, the mesh of that spacing has %d' % (fmt, sp2, nu, nv, nvs, e2u * e2v), what=fmt)
        else:
            ctx.check(nfs == 2 * (e2u - 1) * (e2v - 1), 'export/vertex-spacing-ignored', 'export_stl_str(vertex_spacing=%d, update_delta=False) of a '
                      '%dx%d surface that was tessellated before writes %d facets, the mesh of that spacing has %d'
                      % (sp2, nu, nv, nfs, 2 * (e2u - 1) * (e2v - 1)), what='stl-ascii')


def point_seg_dist(p, a, b):
    ax, ay, bx, by = a[0], a[1], b[0], b[1]
    dx, dy = bx - ax, by - ay
    L = dx * dx + dy * dy
    t = 0.0 if L == 0 else max(0.0, min(1.0, ((p[0] - ax) * dx + (p[1] - ay) * dy) / L))
    return math.hypot(p[0] - (ax + t * dx), p[1] - (ay + t * dy))


def check_trim(case, ctx):
    from geomdl import tessellate, freeform, BSpline, knotvector
    sd = case['sd']
    rng = random.Random(case['seed'])
    n = case['n']
    o = G.build(sd)
    S = G.defn_of(o)
    sc = so.scale_of_defn(S)
    kind = case['trim']
    reversed_ = kind.endswith('reversed')
    ctx.tag('trim:' + kind.split('-')[0], 'rational' if sd['rational'] else 'nonrational')
    if reversed_:
        ctx.tag('trim:reversed')
    ctx.nontriv(True)
    # closed trim polygon well inside the parametric rectangle (the unit square, or the un-normalised domain)
    dom = G.domains_of(o)
    (ua, ub), (va, vb) = dom
    if (ua, ub, va, vb) != (0.0, 1.0, 0.0, 1.0):
        ctx.tag('trim:non-unit-domain')

    def P2(x, y):
        return [ua + x * (ub - ua), va + y * (vb - va)]
    cx, cy = rng.uniform(0.4, 0.6), rng.uniform(0.4, 0.6)
    detect = kind.endswith('detect')
    if detect:
        # (fifth hunt) the sense of the trim is not given but worked out by trimming.fix_trim_curves: a NON-CONVEX loop (an L), started at
        # any of its vertices, in either orientation - the orientation of the loop decides (counter-clockwise: the inside is trimmed, clockwise: the
        # inside is kept - what the library answers for every convex loop), not its first corner; half of the time the mesh is read before (reading is not editing the trims)
        a_, b_ = rng.uniform(0.22, 0.3), rng.uniform(0.22, 0.3)
        L_ = [(cx - a_, cy - b_), (cx + a_, cy - b_), (cx + a_, cy), (cx, cy), (cx, cy + b_), (cx - a_, cy + b_)]    # counter-clockwise
        ccw = rng.random() < 0.5
        if not ccw:
            L_.reverse()
            ctx.tag('trim:clockwise')
        st_ = rng.randrange(6)
        L_ = L_[st_:] + L_[:st_]
        poly = [P2(x_, y_) for x_, y_ in L_] + [P2(*L_[0])]
        ctx.tag('trim:sense-detected', 'trim:sense-detected:first-corner-%s' % ('reflex' if st_ == (2 if ccw else 1) else 'convex'))
        if kind.startswith('freeform'):
            trim = freeform.Freeform()
            trim.evaluate(points=poly)
        else:
            trim = BSpline.Curve()
            trim.degree = 1
            trim.ctrlpts = poly
            trim.knotvector = knotvector.generate(1, len(poly))
            trim.sample_size = 6 * rng.choice([1, 4, 7]) + 1
        reversed_ = not ccw
    elif kind.startswith('freeform'):
        m = rng.randint(3, 7)
        angs = sorted(rng.uniform(0, 2 * math.pi) for _ in range(m))
        if max(b - a for a, b in zip(angs, angs[1:] + [angs[0] + 2 * math.pi])) > 2.6:
            angs = [2 * math.pi * k / m for k in range(m)]
        poly = [P2(cx + rng.uniform(0.15, 0.3) * math.cos(a), cy + rng.uniform(0.15, 0.3) * math.sin(a)) for a in angs]
        if rng.random() < 0.5:
            poly.reverse()          # clockwise trims are as valid as counter-clockwise ones
            ctx.tag('trim:clockwise')
        poly.append(list(poly[0]))
        trim = freeform.Freeform()
        trim.evaluate(points=poly)
    else:
        r = rng.uniform(0.15, 0.3)
        cps = [P2(cx - r, cy - r), P2(cx + r, cy - r), P2(cx + r, cy + r), P2(cx - r, cy + r), P2(cx - r, cy - r)]
        if rng.random() < 0.5:
            cps.reverse()
            ctx.tag('trim:clockwise')
        trim = BSpline.Curve()
        trim.degree = 1 if rng.random() < 0.5 else 2
        trim.ctrlpts = cps
        trim.knotvector = knotvector.generate(trim.degree, len(cps))
        trim.sample_size = 40
    if reversed_ and not detect:
        trim.opt = ['reversed', 1]
    o.sample_size = n
    o.tessellator = tessellate.TrimTessellate()
    how = rng.choice(['trims-first', 'trims-first', 'tessellated-then-trims', 'tessellated-then-add_trim'])
    if how != 'trims-first':
        # the surface already holds an (untrimmed) tessellation when the trim curve arrives
        o.vertices
        ctx.tag('trim:added-after-tessellation')
    if how != 'tessellated-then-add_trim' and rng.random() < 0.35:
        # the trims are SET: an earlier assignment (a hole in the opposite corner region) is replaced, not extended
        decoy = freeform.Freeform()
        dx, dy = (0.06, 0.06) if cx > 0.5 else (0.8, 0.8)
        decoy.evaluate(points=[P2(dx, dy), P2(dx + 0.12, dy), P2(dx + 0.12, dy + 0.12), P2(dx, dy + 0.12), P2(dx, dy)])
        o.trims = [decoy]
        if rng.random() < 0.5:
            o.vertices
        ctx.tag('trim:setter-replaces')
    if how == 'tessellated-then-add_trim':
        o.add_trim(trim)
    else:
        o.trims = [trim]
        if not ctx.check(len(o.trims) == 1, 'trim/setter-appends', 'surf.trims = [t] leaves %d trim curves on the surface (the setter is documented to '
                         'set the array of trim curves)' % len(o.trims), what='topology'):
            return
    if detect:
        from geomdl import trimming
        read_first = rng.random() < 0.5
        if read_first:
            _ = o.vertices
            ctx.tag('trim:mesh-read-before-sense-detection')
        trimming.fix_trim_curves(o)
        got_sense = [t_.opt_get('reversed') for t_ in o.trims]
        if not ctx.check(got_sense == [0 if ccw else 1], 'trim/sense-detected-wrong', 'fix_trim_curves on a %s L-shaped loop started at vertex %d%s: '
                         'senses %r, expected [%d] (the orientation of the loop decides, as it does for convex loops)'
                         % ('counter-clockwise' if ccw else 'clockwise', st_, ' (mesh read before)' if read_first else '',
                            got_sense, 0 if ccw else 1), what='trim-cells'):
            return
        trim = o.trims[0]
        o.tessellate()
    if how == 'trims-first':
        o.tessellate()
    V, Fc = o.vertices, o.faces
    tp = [list(p) for p in trim.evalpts]
    ids = [v.id for v in V]
    if not ctx.check(ids == list(range(len(V))), 'trim/ids', 'trimmed mesh: vertex ids not consecutive', what='topology'):
        return
    if not ctx.check(all(all(0 <= i < len(V) for i in f.data) and len(f.data) == 3 for f in Fc), 'trim/face-index',
                     'trimmed mesh: face references a missing vertex', what='topology'):
        return
    if not vertices_on_surface(ctx, S, V, dom, sc, rng, 'trim/vertex-off-surface', limit=40):
        return
    # per-cell kept area
    hu, hv = (ub - ua) / (n - 1), (vb - va) / (n - 1)
    cell_area = Counter()
    for f in Fc:
        uv = [V[i].uv for i in f.data]
        a = abs((uv[1][0] - uv[0][0]) * (uv[2][1] - uv[0][1]) - (uv[2][0] - uv[0][0]) * (uv[1][1] - uv[0][1])) / 2
        c = [sum(p[0] for p in uv) / 3, sum(p[1] for p in uv) / 3]
        cell_area[(min(n - 2, int((c[0] - ua) / hu)), min(n - 2, int((c[1] - va) / hv)))] += a
    polyF = [(F(p[0]), F(p[1])) for p in tp[:-1]]
    diag = math.hypot(hu, hv)
    h = math.sqrt(hu * hv)
    for i in range(n - 1):
        for j in range(n - 1):
            c = (ua + (i + 0.5) * hu, va + (j + 0.5) * hv)
            dist = min(point_seg_dist(c, a, b) for a, b in zip(tp, tp[1:]))
            if dist <= 1.5 * diag:
                continue          # within one cell of the trim: nothing is demanded
            inside = ref.inside_parity((F(c[0]), F(c[1])), polyF)
            kept = inside if reversed_ else not inside
            a = cell_area.get((i, j), 0.0)
            want = h * h if kept else 0.0
            if not ctx.check(abs(a - want) <= 1e-9 * max(1.0, h * h), 'trim/cell', 'trim %s: cell (%d,%d) far from the trim curve is %s the trimmed region but '
                             'carries triangle area %r (cell area %r)' % (kind, i, j, 'outside' if kept else 'inside', a, h * h),
                             what='trim-cells'):
                return


def check_container(case, ctx):
    from geomdl import multi
    rng = random.Random(case['seed'])
    els = [G.build(sd) for sd in case['shapes']]
    defs = [G.defn_of(e) for e in els]
    ctx.tag('container')
    ctx.nontriv(True)
    n = case['n']
    ms = multi.SurfaceContainer(*els)
    ms.sample_size = n
    sc = max(so.scale_of_defn(S) for S in defs)
    # exports of a container: per-surface offsets
    check_exports(ctx, rng, ms, list(ms), 1, sc, as_file=rng.random() < 0.4)
    # container-level tessellation
    ms2 = multi.SurfaceContainer(*[G.build(sd) for sd in case['shapes']])
    ms2.sample_size = n
    ms2.tessellate()
    V, Fc = ms2.vertices, ms2.faces
    ok = [v.id for v in V] == list(range(len(V)))
    ctx.check(ok, 'container/vertex-ids', 'container vertices are not numbered 0..V-1 consecutively', what='container')
    for k_, e_ in enumerate(ms2):
        ctx.check([v.id for v in e_.vertices] == list(range(len(e_.vertices))) and
                  all(all(0 <= i < len(e_.vertices) for i in f.data) for f in e_.faces), 'container/element-renumbered',
                  'after tessellating the container, surface %d itself reports vertices / faces that are not numbered 0..V-1' % k_,
                  what='container')
    ok2 = all(len(f.data) == 3 and all(0 <= i < len(V) for i in f.data) for f in Fc)
    ctx.check(ok2, 'container/face-index', 'container faces reference missing vertices', what='container')
    # the container's sample size is the number of samples per direction of every surface in it (what its own exports use as well)
    ctx.check(len(V) == len(els) * n * n and len(Fc) == len(els) * 2 * (n - 1) * (n - 1), 'container/sample-size',
              'container of %d surfaces with sample_size = %d: %d vertices / %d faces, documented %d / %d' %
              (len(els), n, len(V), len(Fc), len(els) * n * n, len(els) * 2 * (n - 1) * (n - 1)), what='container')
    # tessellate(delta=False) keeps the surfaces' own sampling; a plain tessellate() afterwards is another request (the container's sampling)
    es3 = [G.build(sd) for sd in case['shapes']]
    m3 = max(2, n - 2)
    for e_ in es3:
        e_.sample_size = m3
    ms3 = multi.SurfaceContainer(*es3)
    ms3.sample_size = n
    ms3.tessellate(delta=False)
    nv_own = len(ms3.vertices)
    ms3.tessellate()
    ctx.tag('container:delta-flag-then-default')
    ctx.check(nv_own == len(es3) * m3 * m3 and len(ms3.vertices) == len(es3) * n * n, 'container/stale-after-other-request',
              'container of %d surfaces sampled %d x %d, container sample_size %d: tessellate(delta=False) gives %d vertices, tessellate() '
              'afterwards %d (expected %d, then %d)' % (len(es3), m3, m3, n, nv_own, len(ms3.vertices), len(es3) * m3 * m3, len(es3) * n * n),
              what='container')
    # (fifth hunt) an element is edited after the mesh of the container has been read: the mesh read next lies on the surfaces as they
    # are now (vertex by vertex, at the parameters the vertices carry), with the arguments of the request served last
    from geomdl import operations as ops_
    es4 = [G.build(sd) for sd in case['shapes']]
    ms4 = multi.SurfaceContainer(*es4)
    ms4.sample_size = max(3, n - 1)
    spacing = rng.choice([1, 1, 2])
    if spacing > 1:
        ms4.tessellate(vertex_spacing=spacing)
    nv_before = len(ms4.vertices)
    nf_before = len(ms4.faces)
    how = rng.choice(['element-translate', 'container-translate-inplace', 'element-ctrlpts'])
    k_ = rng.randrange(len(es4))
    if how == 'element-translate':
        ops_.translate(es4[k_], [3.0 * sc, -2.0 * sc, 1.5 * sc], inplace=True)
    elif how == 'container-translate-inplace':
        ops_.translate(ms4, [3.0 * sc, -2.0 * sc, 1.5 * sc], inplace=True)
    else:
        es4[k_].ctrlpts = [[c * 0.5 + sc for c in p_] for p_ in es4[k_].ctrlpts]
    ctx.tag('container:element-edited-after-mesh-read')
    # (sixth hunt) the same for a single surface: a mesh asked for with vertex_spacing = k is the mesh handed out after an in-place
    # transformation, too (the surface remembers the arguments of the request it served last)
    s5 = G.build(case['shapes'][0])
    s5.sample_size = 2 * rng.randint(2, 4) + 1
    s5.tessellate(vertex_spacing=2)
    n5 = (len(s5.vertices), len(s5.faces))
    ops_.translate(s5, [1.5 * sc, 0.0, -2.0 * sc], inplace=True)
    ctx.tag('single:spacing-kept-across-inplace-edit')
    ctx.check((len(s5.vertices), len(s5.faces)) == n5, 'single/spacing-forgotten-after-edit', 'surface tessellated with vertex_spacing=2 (%d vertices / '
              '%d faces), translated in place, mesh read again: %d vertices / %d faces' % (n5[0], n5[1], len(s5.vertices), len(s5.faces)), what='container')
    # ... and for surfaces that were given ONE tessellation component and are tessellated through their container
    from geomdl import tessellate as tess_
    es6 = [G.build(sd) for sd in case['shapes']]
    if len(es6) >= 2:
        shared_ = tess_.TriangularTessellate()
        for e_ in es6:
            e_.tessellator = shared_
        ms6 = multi.SurfaceContainer(*es6)
        ms6.sample_size = 7
        ms6.tessellate(vertex_spacing=2)
        ctx.tag('container:shared-tessellator-with-arguments')
        ctx.check(len(ms6.vertices) == len(es6) * 16 and len(ms6.faces) == len(es6) * 18, 'container/arguments-dropped-shared-tessellator',
                  'container of %d surfaces sharing one tessellation component, sample_size 7, tessellate(vertex_spacing=2): %d vertices / %d faces, '
                  'expected %d / %d' % (len(es6), len(ms6.vertices), len(ms6.faces), len(es6) * 16, len(es6) * 18), what='container')
    V4 = ms4.vertices
    ok4 = len(V4) == nv_before and len(ms4.faces) == nf_before
    bad4 = None
    if ok4:
        per = nv_before // len(es4)
        for k2, e_ in enumerate(es4):
            S4 = G.defn_of(e_)
            for v_ in V4[k2 * per:(k2 + 1) * per][::max(1, per // 7)]:
                ex = [float(x) for x in S4.point(tuple(v_.uv))]
                if not all(abs(a - b) <= 1e-9 * 10 * sc for a, b in zip(v_.data, ex)):
                    bad4 = (k2, tuple(v_.uv), list(v_.data), ex)
                    break
            if bad4:
                break
    ctx.check(ok4 and bad4 is None, 'container/mesh-stale-after-element-edit', 'mesh of a container read, then %s, mesh read again: %s'
              % (how, 'the vertex at %r of surface %d is %r, the surface is at %r there' % (bad4[1], bad4[0], bad4[2], bad4[3]) if bad4 else
                 '%d vertices / %d faces, before the edit %d / %d (vertex_spacing=%d)' % (len(V4), len(ms4.faces), nv_before, nf_before, spacing)),
              what='container')
    if rng.random() < 0.5 and n >= 6:
        # replacing the tessellator of a container whose mesh has been read: the new tessellator's mesh must be reported
        from geomdl import tessellate, freeform

        def trimmed_container(set_first):
            es = [G.build(sd) for sd in case['shapes']]
            for e_ in es:
                (ua, ub), (va, vb) = G.domains_of(e_)
                tr = freeform.Freeform()
                tr.evaluate(points=[[ua + x * (ub - ua), va + y * (vb - va)] for x, y in
                                    ((0.27, 0.27), (0.73, 0.27), (0.73, 0.73), (0.27, 0.73), (0.27, 0.27))])
                e_.trims = [tr]
            c_ = multi.SurfaceContainer(*es)
            c_.sample_size = n
            if set_first:
                c_.tessellator = tessellate.TrimTessellate()
            return c_
        live, fresh_ = trimmed_container(False), trimmed_container(True)
        nf0 = len(live.faces)                      # default tessellator: trims ignored
        live.tessellator = tessellate.TrimTessellate()
        ctx.tag('container:tessellator-replaced')
        ctx.check(len(live.faces) == len(fresh_.faces) and len(live.vertices) == len(fresh_.vertices), 'container/stale-after-tessellator-change',
                  'container mesh read, tessellator replaced by TrimTessellate, mesh read again: %d faces (before: %d), a container given the '
                  'tessellator first reports %d' % (len(live.faces), nf0, len(fresh_.faces)), what='container')
    if ok and ok2:
        # every face stays within the vertex block of one surface, and every vertex lies on its surface
        off = 0
        k = 0
        for e, S in zip(ms2, defs):
            nvk = len(e.vertices)
            nfk = len(e.faces)
            for f in Fc[k:k + nfk]:
                if not all(off <= i < off + nvk for i in f.data):
                    ctx.fail('container/offset', 'a face of surface %d references vertices outside its own block' % (k,))
                    return
            dom = G.domains_of(e)
            for v in V[off:off + nvk][:: max(1, nvk // 8)]:
                uv = clamp_uv(v.uv, dom)
                if so.clear_of_knots(S, uv, 1e-9):
                    ctx.near(v.data, S.point(uv), 1e-9 * sc, 'container/vertex-off-surface', 'container vertex %d is not on its surface' % v.id,
                             what='vertex-on-surface')
            off += nvk
            k += nfk
        ctx.check(off == len(V) and k == len(Fc), 'container/counts', 'container aggregates do not add up to its elements\' meshes',
                  what='container')
