"""C14 — export followed by import reproduces the geometry."""
import json
import os
import random
import shutil
import tempfile
from fractions import Fraction as F

from .. import gen as G, hooks, ref, shapeops as so
from ..core import Reject

ID = 'C14'
SHARDS = {'quick': 4, 'thorough': 16}
BUDGET = {'quick': 150, 'thorough': 1500}
RULE = ("cases: random shapes with pairwise different sizes per direction (curve/surface/volume, rational or not, non-default "
        "sampling density), containers of 1..4 shapes, surfaces with spline / freeform / container trims (with sense flags); "
        "each written with export_json / export_smesh / export_vmesh / export_txt (1-D and two_dimensional) / export_csv and read "
        "back with the matching importer; judged: degrees, sizes equal, knot vectors and homogeneous control points equal within "
        "the printed precision, delta / trims (type, data, sense) preserved for JSON, re-imported shape evaluates to the exact "
        "reference of the original; the written files are additionally parsed by the harness itself and compared with the "
        "documented layout (txt 2-D: row i = u_i; txt 1-D / csv: v fastest; smesh / vmesh: header lines, then u fastest within a "
        "w-layer, un-weighted (x,y,z,w)). Non-trivial: every case (sizes differ per direction, so a transposed file is "
        "detectable); distinct = case hash.")
ASSUMPTIONS = ["Python json / float repr round-trips floats exactly; mesh formats print 18 decimals (tolerance 1e-12*scale)",
               "libconfig / YAML exporters need uninstalled third-party modules and are not covered (they share the dict "
               "exporter/importer with JSON)"]
FLOORS = {'quick': {'json': 300, 'smesh': 60, 'vmesh': 40, 'txt': 150, 'csv': 80, 'file-layout': 200, 'reimport-eval': 1500,
                    'trims': 40, 'container': 40},
          'thorough': {'json': 3000, 'reimport-eval': 15000}}
MANDATORY_TAGS = ['trims:sense-0-explicit', 'trims:own-sampling-density', 'curve', 'surface', 'volume', 'rational', 'nonrational', 'container', 'container:ten-or-more', 'fmt:txt-volume', 'unnormalized:inside-unit-interval', 'unnormalized:some-directions-on-unit-interval', 'trims', 'fmt:json', 'fmt:smesh', 'fmt:vmesh',
                  'fmt:txt1d', 'fmt:txt2d', 'fmt:csv', 'unnormalized']
TECHNIQUE = ("runtime monitoring: round-trip oracle on every export/import pair (structural equality within printed precision + "
             "exact reference evaluation of the re-imported shape) and an independent harness-side parser of the written files")
LEVEL_TEXT = ("Each file written by the workload is read back with the library and parsed independently by the harness; both are "
              "compared with the original definition; holds on the files observed.")

_TMP = [None]


def setup(ctx):
    _TMP[0] = tempfile.mkdtemp(prefix='nv_c14_')


def teardown(ctx):
    if _TMP[0]:
        shutil.rmtree(_TMP[0], ignore_errors=True)


def gen(rng, tier, shard, nshards):
    n = 60 if tier == 'quick' else 500
    for i in range(n):
        pdim = rng.choice([1, 2, 2, 3])
        sub01 = rng.random() < 0.12     # un-normalised knot vectors on a range INSIDE [0, 1] (but not [0, 1] itself)
        sd = G.rand_shape(rng, pdim, dim=3 if pdim > 1 else rng.choice([2, 3]), clamped_only=True, maxextra=3, maxdeg=3,
                          normalize=rng.random() < 0.8 and not sub01,
                          **(dict(lohi=rng.choice([(0.25, 0.75), (0.0, 0.5), (0.0, 2.0 ** -20), (0.5, 1.0)])) if sub01 else {}))
        yield {'kind': 'single', 'sd': sd, 'seed': rng.randrange(1 << 30), 'trims': pdim == 2 and rng.random() < 0.5}
        if i % 5 == 1:
            # some directions on [0, 1], the others not: nothing may be rescaled on the way through a file
            pd = rng.choice([2, 2, 3])
            sdm = G.rand_shape(rng, pd, dim=3, clamped_only=True, maxextra=3, maxdeg=3, normalize=False, lohi=(0.0, 1.0))
            dirs = rng.sample(range(pd), rng.randint(1, pd - 1))
            for d_ in dirs:
                a_, b_ = rng.choice([(0.0, 2.0), (2.0, 5.0), (-3.0, 7.5), (0.0, 0.5)])
                sdm['kvs'][d_] = [a_ + (b_ - a_) * k for k in sdm['kvs'][d_]]
            yield {'kind': 'single', 'sd': sdm, 'seed': rng.randrange(1 << 30), 'trims': False, 'mixed': True}
        if i % 4 == 0:
            pd = rng.choice([1, 2, 3])
            yield {'kind': 'container', 'seed': rng.randrange(1 << 30),
                   'shapes': [G.rand_shape(rng, pd, dim=3, clamped_only=True, maxextra=2, maxdeg=3) for _ in range(rng.randint(1, 4))]}
        if i % 8 == 5:
            # ten or more shapes: multi-file formats number their files 1..N
            pd = rng.choice([2, 2, 3])
            yield {'kind': 'container', 'seed': rng.randrange(1 << 30),
                   'shapes': [G.rand_shape(rng, pd, dim=3, clamped_only=True, maxextra=1, maxdeg=2) for _ in range(rng.randint(10, 13))]}


def tmpfile(name):
    if _TMP[0] is None:
        _TMP[0] = tempfile.mkdtemp(prefix='nv_c14_')
    return os.path.join(_TMP[0], name)


def norm_kv(kv):
    a, b = kv[0], kv[-1]
    return [(k - a) / (b - a) for k in kv]


def same_definition(ctx, a_snap, b, fmt, tol_rel, normalized_import=False):
    """a_snap: snapshot of the original; b: re-imported object. Rational-ness may change (B-spline comes back with unit weights)."""
    bs = G.snapshot(b)
    if not ctx.check(bs['pdim'] == a_snap['pdim'] and bs['degrees'] == a_snap['degrees'] and bs['sizes'] == a_snap['sizes'],
                     '%s/structure' % fmt, '%s round trip: degrees %r sizes %r, original %r %r' %
                     (fmt, bs['degrees'], bs['sizes'], a_snap['degrees'], a_snap['sizes']), what=fmt):
        return False
    ok = True
    for ka, kb in zip(a_snap['kvs'], bs['kvs']):
        ka2 = norm_kv(ka) if normalized_import else ka
        ok = ok and len(ka2) == len(kb) and all(abs(x - y) <= 1e-12 for x, y in zip(ka2, kb))
    ctx.check(ok, '%s/knotvector' % fmt, '%s round trip changed a knot vector' % fmt, what=fmt)
    ha = a_snap['hom'] if a_snap['rational'] else [list(p) + [1.0] for p in a_snap['hom']]
    hb = bs['hom'] if bs['rational'] else [list(p) + [1.0] for p in bs['hom']]
    sc = max(1.0, max(abs(c) for p in ha for c in p))
    ok2 = len(ha) == len(hb) and all(len(p) == len(q) and all(abs(x - y) <= tol_rel * sc for x, y in zip(p, q)) for p, q in zip(ha, hb))
    ctx.check(ok2, '%s/control-points' % fmt, '%s round trip changed (or re-ordered) the homogeneous control points' % fmt, what=fmt)
    return ok and ok2


def reimport_eval(ctx, rng, S0, b, fmt):
    sc = so.scale_of_defn(S0)
    doms0 = S0.domain()
    domsb = G.domains_of(b)
    for q in so.probe_params(rng, S0, nrand=4, maxn=7):
        qb = []
        for d, x in enumerate(q):
            a0, b0 = float(doms0[d][0]), float(doms0[d][1])
            a1, b1 = domsb[d]
            t = a1 + (x - a0) / (b0 - a0) * (b1 - a1)
            qb.append(min(max(t, a1), b1))
        Sb = G.defn_of(b)
        if not so.clear_of_knots(Sb, qb, 1e-9):
            continue
        ctx.near(G.evaluate_single(b, qb), S0.point(q), 1e-9 * sc, '%s/reimported-shape-differs' % fmt,
                 '%s: re-imported shape evaluates differently at %r' % (fmt, q), what='reimport-eval')


def check(case, ctx):
    ctx.nontriv(True)
    if case['kind'] == 'container':
        return check_container(case, ctx)
    from geomdl import exchange, freeform, BSpline, multi, knotvector
    sd = case['sd']
    rng = random.Random(case['seed'])
    pdim = sd['pdim']
    o = G.build(sd)
    S0 = G.defn_of(o)
    ctx.tag({1: 'curve', 2: 'surface', 3: 'volume'}[pdim], 'rational' if sd['rational'] else 'nonrational',
            'normalized' if sd['normalize_kv'] else 'unnormalized')
    if not sd['normalize_kv'] and all(0.0 <= kv[0] and kv[-1] <= 1.0 for kv in sd['kvs']) and any(kv[0] != 0.0 or kv[-1] != 1.0 for kv in sd['kvs']):
        ctx.tag('unnormalized:inside-unit-interval')
    if not sd['normalize_kv'] and len(set((kv[0] == 0.0 and kv[-1] == 1.0) for kv in sd['kvs'])) == 2:
        ctx.tag('unnormalized:some-directions-on-unit-interval')
    # non-default sampling density
    if pdim == 1:
        o.sample_size = rng.randint(3, 30)
    elif pdim == 2:
        o.sample_size_u, o.sample_size_v = rng.randint(3, 12), rng.randint(3, 12)
    else:
        o.sample_size_u, o.sample_size_v, o.sample_size_w = rng.randint(2, 5), rng.randint(2, 5), rng.randint(2, 5)
    trims = []
    if case['trims']:
        ctx.tag('trims')
        (ua, ub), (va, vb) = G.domains_of(o)

        def M(pts):
            # trim curves live in the parameter space of the surface: unit-square templates are mapped onto its domain
            return [[ua + (ub - ua) * x, va + (vb - va) * y] for x, y in pts]
        ff = freeform.Freeform()
        ff.evaluate(points=M([[0.3, 0.3], [0.7, 0.3], [0.7, 0.7], [0.3, 0.7], [0.3, 0.3]]))
        c2 = BSpline.Curve()
        c2.degree = 2
        c2.ctrlpts = M([[0.2, 0.2], [0.8, 0.2], [0.5, 0.8], [0.2, 0.2]])
        c2.knotvector = knotvector.generate(2, 4)
        # (round 10) the sense is 1, an explicit 0 (which is not "no sense given": the trimming module assigns one to those) or absent
        sense2 = rng.choice([1, 0, 0, None])
        if sense2 is not None:
            c2.opt = ['reversed', sense2]
        if sense2 == 0:
            ctx.tag('trims:sense-0-explicit')
        if rng.random() < 0.5:
            ff.opt = ['reversed', rng.choice([0, 1])]
        c3 = BSpline.Curve()
        c3.degree = 1
        c3.ctrlpts = M([[0.1, 0.1], [0.4, 0.1], [0.1, 0.4], [0.1, 0.1]])
        c3.knotvector = knotvector.generate(1, 4)
        c4 = BSpline.Curve()
        c4.degree = 2
        c4.ctrlpts = M([[0.6, 0.6], [0.9, 0.6], [0.75, 0.9], [0.6, 0.6]])
        c4.knotvector = knotvector.generate(2, 4)
        c5 = BSpline.Curve()
        c5.degree = 1
        c5.ctrlpts = M([[0.05, 0.6], [0.2, 0.6], [0.2, 0.8], [0.05, 0.6]])
        c5.knotvector = knotvector.generate(1, 4)
        cc = multi.CurveContainer(*([c3, c4, c5][:rng.randint(1, 3)]))
        if rng.random() < 0.6:
            # the trims' own sampling density (the polygon the tessellator trims with)
            c2.sample_size = rng.randint(5, 40)
            cc.sample_size = rng.randint(4, 30)
            ctx.tag('trims:own-sampling-density')
        trims = [ff, c2, cc]
        rng.shuffle(trims)
        o.trims = trims
    snap = G.snapshot(o)
    # ---- JSON ---------------------------------------------------------------------------------------------------------------
    ctx.tag('fmt:json')
    fn = tmpfile('x.json')
    exchange.export_json(o, fn)
    r = exchange.import_json(fn)
    if ctx.check(len(r) == 1, 'json/count', 'import_json returned %d shapes for one exported shape' % len(r), what='json'):
        r = r[0]
        if same_definition(ctx, snap, r, 'json', 1e-15):
            reimport_eval(ctx, rng, S0, r, 'json')
        da = [o.delta] if pdim == 1 else list(o.delta)
        db = [r.delta] if pdim == 1 else list(r.delta)
        ctx.check(da == db, 'json/delta', 'JSON round trip changed the sampling density %r -> %r' % (da, db), what='json')
        if trims:
            rt = r.trims
            # the trims are in the parameter space of the surface they came back with
            (ua2, ub2), (va2, vb2) = G.domains_of(r)
            eps = 1e-9 * max(1.0, abs(ub2 - ua2), abs(vb2 - va2))

            def tpts(t):
                if t.type == 'container':
                    return [p for e in t for p in tpts(e)]
                return [list(p) for p in (t.evalpts if t.type == 'freeform' else t.ctrlpts)]
            inside = all(ua2 - eps <= p[0] <= ub2 + eps and va2 - eps <= p[1] <= vb2 + eps for t in rt for p in tpts(t))
            ctx.check(inside, 'json/trims-outside-domain', 'after the JSON round trip the trim curves (inside the domain %r x %r when exported) '
                      'have points outside the domain %r x %r of the imported surface' % ((ua, ub), (va, vb), (ua2, ub2), (va2, vb2)),
                      what='trims')
            ok = len(rt) == len(trims) and [t.type for t in rt] == [t.type for t in trims]
            ctx.check(ok, 'json/trims-types', 'trim curves came back as %r, exported %r' % ([t.type for t in rt], [t.type for t in trims]),
                      what='trims')
            if ok:
                for a, b in zip(trims, rt):
                    ctx.check(a.opt_get('reversed') == b.opt_get('reversed'), 'json/trim-sense', 'trim sense flag of a %s trim exported as %r comes back as %r'
                              % (a.type, a.opt_get('reversed'), b.opt_get('reversed')), what='trims')
                    ctx.check(len(a.evalpts) == len(b.evalpts), 'json/trim-sampling-density', 'a %s trim sampled with %d points comes back sampled '
                              'with %d points (the trimmed tessellation uses these points)' % (a.type, len(a.evalpts), len(b.evalpts)), what='trims')
                    if a.type == 'freeform':
                        ctx.check([list(p) for p in a.evalpts] == [list(p) for p in b.evalpts], 'json/trim-data', 'freeform trim points changed',
                                  what='trims')
                    elif a.type == 'spline':
                        ctx.check(a.degree == b.degree and [list(p) for p in a.ctrlpts] == [list(p) for p in b.ctrlpts] and
                                  list(a.knotvector) == list(b.knotvector), 'json/trim-data', 'spline trim changed', what='trims')
                    else:
                        def cdata(x):
                            return [list(p) for p in (x.evalpts if x.type == 'freeform' else x.ctrlpts)]
                        ctx.check(len(a) == len(b) and all(x.type == y.type and cdata(x) == cdata(y) for x, y in zip(a, b)),
                                  'json/trim-data', 'container trim of %d curves came back with %d curves or changed data' % (len(a), len(b)),
                                  what='trims')
    # file layout, parsed independently
    with open(fn) as f:
        raw = json.load(f)
    d0 = raw['shape']['data'][0]
    pts = d0['control_points']['points']
    idx = G.net_index(pdim, snap['sizes'])
    cart = {t: [float(c) for c in S0.cart(t)] for t in S0.net}
    sc = so.scale_of_defn(S0)
    ctx.check(raw['shape']['type'] == {1: 'curve', 2: 'surface', 3: 'volume'}[pdim] and len(pts) == len(idx) and
              all(all(abs(a - b) <= 1e-12 * sc for a, b in zip(pts[f], cart[t])) for t, f in idx.items()),
              'json/file-layout', 'JSON file: control_points.points is not the unweighted net in v-fastest order', what='file-layout')
    # ---- txt / csv (curves, surfaces) -------------------------------------------------------------------------------------------
    hom = snap['hom']
    if pdim in (1, 2):
        for two in ([False] if pdim == 1 else [False, True]):
            ctx.tag('fmt:txt2d' if two else 'fmt:txt1d')
            fn = tmpfile('x.txt')
            exchange.export_txt(o, fn, two_dimensional=two)
            res = exchange.import_txt(fn, two_dimensional=two)
            got = res[0] if two else res
            ctx.check([list(p) for p in got] == [list(p) for p in hom], 'txt/points', 'txt round trip (two_dimensional=%s) changed or '
                      're-ordered the control points' % two, what='txt')
            if two:
                ctx.check((res[1], res[2]) == tuple(snap['sizes']), 'txt/sizes', 'txt 2-D import sizes %r, original %r'
                          % ((res[1], res[2]), snap['sizes']), what='txt')
            with open(fn) as f:
                lines = [l for l in f.read().strip().split('\n')]
            if two:
                nu, nv = snap['sizes']
                ok = len(lines) == nu
                if ok:
                    for i, l in enumerate(lines):
                        cells = l.split(';')
                        ok = ok and len(cells) == nv and all([float(c) for c in cells[j].split(',')] == hom[j + nv * i] for j in range(nv))
                ctx.check(ok, 'txt/file-layout', 'txt 2-D file: row i is not the u_i row of v-entries', what='file-layout')
            else:
                ok = len(lines) == len(hom) and all([float(c) for c in l.split(',')] == hom[k] for k, l in enumerate(lines))
                ctx.check(ok, 'txt/file-layout', 'txt 1-D file is not the flat v-fastest list', what='file-layout')
        ctx.tag('fmt:csv')
        fn = tmpfile('x.csv')
        exchange.export_csv(o, fn, point_type='ctrlpts')
        got = exchange.import_csv(fn)
        ctx.check([list(p) for p in got] == [list(p) for p in hom], 'csv/points', 'csv ctrlpts round trip changed the control points', what='csv')
        exchange.export_csv(o, fn, point_type='evalpts')
        with open(fn) as f:
            lines = f.read().strip().split('\n')
        ev = [list(p) for p in o.evalpts]
        ok = len(lines) == len(ev) + 1 and all([float(c) for c in l.split(',')] == ev[k] for k, l in enumerate(lines[1:]))
        ctx.check(ok, 'csv/evalpts-file', 'csv evalpts export does not list the evaluated points in order', what='csv')
    if pdim == 3:
        # control-point text format of a volume: the flat list; the surface-only two_dimensional flag must not lose points
        for two in (False, True):
            ctx.tag('fmt:txt-volume')
            fn = tmpfile('xv.txt')
            try:
                exchange.export_txt(o, fn, two_dimensional=two)
            except Exception as e:           # an explicit refusal of the surface-only layout is fine
                if two and type(e).__name__ in ('GeomdlException', 'ValueError', 'TypeError'):
                    ctx.ok('txt')
                    continue
                raise
            with open(fn) as f:
                nlines = len([l for l in f.read().strip().split('\n') if l.strip()])
            npts_file = nlines if not two else None
            if two:
                with open(fn) as f:
                    npts_file = sum(len(l.split(';')) for l in f.read().strip().split('\n') if l.strip())
            ctx.check(npts_file == len(hom), 'txt/volume-points-lost', 'export_txt(volume, two_dimensional=%s) wrote %d of %d control points'
                      % (two, npts_file, len(hom)), what='txt')
            if not two:
                got = exchange.import_txt(fn)
                ctx.check([list(p) for p in got] == [list(p) for p in hom], 'txt/points', 'txt round trip of a volume changed or re-ordered the '
                          'control points', what='txt')
    # ---- smesh -----------------------------------------------------------------------------------------------------------------
    if pdim == 2:
        ctx.tag('fmt:smesh')
        fn = tmpfile('x.smesh')
        exchange.export_smesh(o, fn)
        r = exchange.import_smesh(fn)
        if ctx.check(len(r) == 1, 'smesh/count', 'import_smesh returned %d surfaces' % len(r), what='smesh'):
            if same_definition(ctx, snap, r[0], 'smesh', 1e-12):
                reimport_eval(ctx, rng, S0, r[0], 'smesh')
        with open(fn) as f:
            L = [l.split() for l in f.read().strip().split('\n')]
        nu, nv = snap['sizes']
        ok = L[0] == ['3'] and [int(x) for x in L[1]] == snap['degrees'] and [int(x) for x in L[2]] == snap['sizes'] and \
            len(L[3]) == len(snap['kvs'][0]) and len(L[4]) == len(snap['kvs'][1]) and len(L) >= 5 + nu * nv
        if ok:
            for t in range(nu * nv):
                i, j = t % nu, t // nu
                row = [float(x) for x in L[5 + t]]
                w = float(S0.net[(i, j)][-1]) if S0.rational else 1.0
                exp = cart[(i, j)] + [w]
                ok = ok and len(row) == 4 and all(abs(a - b) <= 1e-12 * max(sc, 1.0) for a, b in zip(row, exp))
        ctx.check(ok, 'smesh/file-layout', 'smesh file: header or control point order (u fastest, un-weighted x y z w) wrong', what='file-layout')
    # ---- vmesh -----------------------------------------------------------------------------------------------------------------
    if pdim == 3:
        ctx.tag('fmt:vmesh')
        fn = tmpfile('x.vmesh')
        exchange.export_vmesh(o, fn)
        r = exchange.import_vmesh(fn)
        if ctx.check(len(r) == 1, 'vmesh/count', 'import_vmesh returned %d volumes' % len(r), what='vmesh'):
            if same_definition(ctx, snap, r[0], 'vmesh', 1e-12):
                reimport_eval(ctx, rng, S0, r[0], 'vmesh')
        with open(fn) as f:
            L = [l.split() for l in f.read().strip().split('\n')]
        nu, nv, nw = snap['sizes']
        ok = L[0] == ['3'] and [int(x) for x in L[1]] == snap['degrees'] and [int(x) for x in L[2]] == snap['sizes'] and \
            len(L) >= 6 + nu * nv * nw
        if ok:
            for t in range(nu * nv * nw):
                k, rem = t // (nu * nv), t % (nu * nv)
                i, j = rem % nu, rem // nu
                row = [float(x) for x in L[6 + t]]
                w = float(S0.net[(i, j, k)][-1]) if S0.rational else 1.0
                ok = ok and len(row) == 4 and all(abs(a - b) <= 1e-12 * max(sc, 1.0) for a, b in zip(row, cart[(i, j, k)] + [w]))
        ctx.check(ok, 'vmesh/file-layout', 'vmesh file: header or control point order (u fastest within a w-layer) wrong', what='file-layout')


def check_container(case, ctx):
    from geomdl import exchange, multi
    rng = random.Random(case['seed'])
    sds = case['shapes']
    pdim = sds[0]['pdim']
    els = [G.build(sd) for sd in sds]
    ctx.tag('container', 'fmt:json')
    if len(case['shapes']) >= 10:
        ctx.tag('container:ten-or-more')
    cont = {1: multi.CurveContainer, 2: multi.SurfaceContainer, 3: multi.VolumeContainer}[pdim](*els)
    fn = tmpfile('m.json')
    exchange.export_json(cont, fn)
    r = exchange.import_json(fn)
    if not ctx.check(len(r) == len(els), 'json/container-count', 'container of %d shapes came back as %d' % (len(els), len(r)), what='container'):
        return
    for a, b in zip(els, r):
        if same_definition(ctx, G.snapshot(a), b, 'json', 1e-15):
            reimport_eval(ctx, rng, G.defn_of(a), b, 'json')
        ctx.ok('container')
    if pdim == 2 and len(els) > 1:
        # multi-surface smesh export enumerates the files; a directory import reads them back in order
        d = tmpfile('meshdir_%d' % case['seed'])
        os.makedirs(d, exist_ok=True)
        exchange.export_smesh(cont, os.path.join(d, 's.smesh'))
        rr = exchange.import_smesh(d)
        if ctx.check(len(rr) == len(els), 'smesh/container-count', 'multi smesh export/import: %d of %d' % (len(rr), len(els)), what='container'):
            for a, b in zip(els, rr):
                same_definition(ctx, G.snapshot(a), b, 'smesh', 1e-12)
        shutil.rmtree(d, ignore_errors=True)
    if pdim == 3 and len(els) > 1:
        ctx.tag('fmt:vmesh')
        d = tmpfile('vmeshdir_%d' % case['seed'])
        os.makedirs(d, exist_ok=True)
        exchange.export_vmesh(cont, os.path.join(d, 'v.vmesh'))
        rr = exchange.import_vmesh(d)
        if ctx.check(len(rr) == len(els), 'vmesh/container-count', 'multi vmesh export/import: %d of %d' % (len(rr), len(els)), what='container'):
            for a, b in zip(els, rr):
                if same_definition(ctx, G.snapshot(a), b, 'vmesh', 1e-12):
                    reimport_eval(ctx, rng, G.defn_of(a), b, 'vmesh')
        shutil.rmtree(d, ignore_errors=True)
