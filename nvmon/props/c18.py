"""C18 — shapes stay inside the hull of their control points (and inside the bounding box; length bounds)."""
import itertools
import math
import random
from fractions import Fraction as F

from .. import gen as G, hooks, ref, shapeops as so, meval
from ..core import Reject

ID = 'C18'
SHARDS = {'quick': 4, 'thorough': 16}
BUDGET = {'quick': 150, 'thorough': 1500}
RULE = ("cases: random shapes (curve/surface/volume, rational with positive weights or not, clamped or unclamped, 2-D/3-D) x "
        "parameters on corners, knots, span midpoints, random, plus the sampled grid (every point handed out by "
        "evaluators.*.evaluate is intercepted by the M-eval hook); for each point x and the degree+1 (per direction) control "
        "points A active on its knot interval: for every direction d in {axes, 24 random, normals of all point pairs (2-D) / of "
        "all triples of a <=10-point subset (3-D)}: min_A d.P - tol <= d.x <= max_A d.P + tol; bbox == min/max of the "
        "unweighted net and contains x; clamped shapes start/end on the first/last control point; non-rational curves: "
        "chord <= length_curve <= control polygon length. Non-trivial: shape has an interior knot or non-constant weights; "
        "distinct = distinct case hash.")
ASSUMPTIONS = ["active control points are determined by the reference span (nvmon.ref.find_span) and cross-checked with "
               "operations.find_ctrlpts", "tolerance 1e-9*scale on projections", "weights in [0.1, 10]"]
FLOORS = {'quick': {'hull': 2500, 'bbox-contains': 2500, 'bbox-equals-net': 200, 'clamped-ends': 300, 'length': 40,
                    'find_ctrlpts': 800, 'hull-via-meval': 1500},
          'thorough': {'hull': 25000, 'hull-via-meval': 15000}}
MANDATORY_TAGS = ['evaluator-asked-directly:unclamped', 'copy-read-first', 'coarse-precision-sampling', 'container-bbox', 'pdim1', 'pdim2', 'pdim3', 'rational', 'dim2', 'dim3', 'unclamped', 'clamped', 'edit-then-read', 'length:after-partial-evaluate']
TECHNIQUE = ("runtime monitoring: separating-hyperplane oracle on every evaluated point (targeted queries and all points "
             "intercepted at evaluators.*.evaluate) against the active control points of its knot span; min/max oracle for bbox; "
             "chord/polygon bounds for length_curve")
LEVEL_TEXT = ("Each evaluated point observed is tested against the hull of its active control points with a family of separating "
              "directions that is complete in 2-D; bbox and length bounds likewise; holds on the points observed.")

_CTX = [None]
_RNG = random.Random(12345)


def directions(A, dim):
    dirs = []
    for i in range(dim):
        e = [0.0] * dim
        e[i] = 1.0
        dirs.append(e)
    for _ in range(24):
        dirs.append([_RNG.gauss(0, 1) for _ in range(dim)])
    if dim == 2:
        pts = A if len(A) <= 30 else A[:30]
        for a, b in itertools.combinations(pts, 2):
            dirs.append([-(b[1] - a[1]), b[0] - a[0]])
    elif dim == 3:
        pts = A if len(A) <= 10 else _RNG.sample(A, 10)
        for a, b, c in itertools.combinations(pts, 3):
            u = [q - p for p, q in zip(a, b)]
            v = [q - p for p, q in zip(a, c)]
            dirs.append([u[1] * v[2] - u[2] * v[1], u[2] * v[0] - u[0] * v[2], u[0] * v[1] - u[1] * v[0]])
    return dirs


def in_hull(x, A, sc):
    """None if no separating direction found, else the witness direction"""
    dim = len(x)
    for d in directions(A, dim):
        nd = math.sqrt(sum(c * c for c in d))
        if nd == 0:
            continue
        vals = [sum(di * pi for di, pi in zip(d, P)) for P in A]
        xv = sum(di * xi for di, xi in zip(d, x))
        tol = 1e-9 * nd * sc
        if xv < min(vals) - tol or xv > max(vals) + tol:
            return d
    return None


def active_points(S, prm):
    return [[float(c) for c in S.cart(t)] for t in S.active(prm)]


def judge_point(ctx, S, prm, x, sc, key, what):
    A = active_points(S, prm)
    w = in_hull([float(c) for c in x], A, sc)
    if w is not None:
        ctx.fail(key, 'point %r evaluated at %r lies outside the convex hull of its %d active control points (separating direction %r)'
                 % (list(x), [float(p) for p in prm], len(A), w))
        return False
    ctx.ok(what)
    return True


def listener(dd, S, prms, pts):
    ctx = _CTX[0]
    sc = so.scale_of_defn(S)
    for prm, x in list(zip(prms, pts))[:12]:
        judge_point(ctx, S, prm, x, sc, 'hull/evaluate-funnel', 'hull-via-meval')


def setup(ctx):
    _CTX[0] = ctx
    meval.install(ctx, judge=False)   # C01 judges the values; here the funnel only supplies points to the hull oracle
    meval.LISTENERS.append(listener)


def teardown(ctx):
    ctx.notes['hooks'] = hooks.report()


def gen(rng, tier, shard, nshards):
    n = 90 if tier == 'quick' else 800
    for i in range(n):
        pdim = rng.choice([1, 1, 2, 2, 3])
        dim = 3 if pdim == 3 else rng.choice([2, 3])
        kw = {}
        if rng.random() < 0.08:
            kw = dict(kvcls='unclamped_endrep', mindeg=2)
        elif rng.random() < 0.12:
            kw = dict(kvcls='jump', maxextra=6)      # interior knot of multiplicity p + 1
        sd = G.rand_shape(rng, pdim, dim=dim, normalize=rng.random() < 0.7, span=rng.choice([None, 'linear', 'binary']), **kw)
        yield {'kind': 'shape', 'sd': sd, 'seed': rng.randrange(1 << 30)}
        if i % 5 == 1:
            pd = rng.choice([1, 1, 2])
            yield {'kind': 'coarse-sampling', 'seed': rng.randrange(1 << 30),
                   'sd': G.rand_shape(rng, pd, dim=3, clamped_only=True, maxextra=3, maxdeg=3, normalize=True, pcls='uniform')}
        if i % 5 == 3:
            pd = rng.choice([1, 2, 3])
            yield {'kind': 'container-bbox', 'seed': rng.randrange(1 << 30),
                   'shapes': [G.rand_shape(rng, pd, dim=3, clamped_only=True, maxextra=2, maxdeg=3, pcls='uniform') for _ in range(rng.randint(1, 3))]}


def check_coarse_sampling(case, ctx):
    """shapes created with a small precision= (parameters of the sampled grid are rounded to that many decimals) and sample sizes of 50 - 170:
    every sampled parameter still lies in the domain, so every sampled point lies in the bounding box; the far end of the shape is the unique
    extreme point in x, so anything sampled beyond the domain end shows"""
    sd = dict(case['sd'])
    rng = random.Random(case['seed'])
    pdim = sd['pdim']
    sd['ctrlpts'] = [list(p) for p in sd['ctrlpts']]
    far = max(p[0] for p in sd['ctrlpts']) + rng.uniform(1.0, 5.0)
    sd['ctrlpts'][-1][0] = far
    sd['precision'] = rng.choice([3, 3, 4])
    o = G.build(sd)
    sizes = [55, 58, 61, 65, 69] if sd['precision'] == 3 else [156, 161, 166]
    ctx.tag('coarse-precision-sampling', 'pdim%d' % pdim)
    ctx.nontriv(True)
    with hooks.suspended():
        if pdim == 1:
            o.sample_size = rng.choice(sizes)
        else:
            o.sample_size_u, o.sample_size_v = (rng.choice(sizes), rng.randint(2, 4)) if rng.random() < 0.5 else (rng.randint(2, 4), rng.choice(sizes))
        bb = o.bbox
        pts = o.evalpts
    S = G.defn_of(o)
    sc = so.scale_of_defn(S)
    for k, x in enumerate(pts):
        if not ctx.check(all(bb[0][i] - 1e-9 * sc <= x[i] <= bb[1][i] + 1e-9 * sc for i in range(len(x))), 'bbox/point-outside',
                         'precision=%d, sample size %r: sampled point #%d %r lies outside the bounding box %r (sampled beyond the domain?)'
                         % (sd['precision'], o.sample_size, k, list(x), bb), what='bbox-contains'):
            return


def check_container_bbox(case, ctx):
    """the bounding box a container reports is the box of its elements' CURRENT control points, also after its elements were moved in place"""
    from geomdl import operations, multi
    rng = random.Random(case['seed'])
    sds = case['shapes']
    pdim = sds[0]['pdim']
    elems = [G.build(sd) for sd in sds]
    cls = {1: multi.CurveContainer, 2: multi.SurfaceContainer, 3: multi.VolumeContainer}[pdim]
    cont = cls(*elems)
    cont.sample_size = {1: 7, 2: 4, 3: 3}[pdim]
    ctx.tag('container-bbox')
    ctx.nontriv(True)

    def judge(desc):
        bb = cont.bbox
        cps = [p for e in elems for p in e.ctrlpts]
        mn = [min(p[i] for p in cps) for i in range(3)]
        mx = [max(p[i] for p in cps) for i in range(3)]
        sc = max(1.0, max(abs(c) for c in mn + mx))
        ok = all(abs(a - b) <= 1e-9 * sc for a, b in zip(bb[0], mn)) and all(abs(a - b) <= 1e-9 * sc for a, b in zip(bb[1], mx))
        ctx.check(ok, 'container-bbox/not-minmax-of-elements', '%s: container.bbox = %r, the control points of its elements span %r %r'
                  % (desc, bb, mn, mx), what='bbox-equals-net')
        for e in elems:
            for x in e.evalpts[:: max(1, len(e.evalpts) // 8)]:
                ctx.check(all(bb[0][i] - 1e-9 * sc <= x[i] <= bb[1][i] + 1e-9 * sc for i in range(3)), 'container-bbox/point-outside',
                          '%s: a sampled point of an element lies outside container.bbox' % desc, what='bbox-contains')
    with hooks.suspended():
        judge('as built')
        op = rng.choice(['translate', 'scale', 'element-ctrlpts', 'rotate'])
        if op == 'translate':
            operations.translate(cont, [rng.uniform(5, 30) * rng.choice([-1, 1]) for _ in range(3)], inplace=True)
        elif op == 'scale':
            operations.scale(cont, rng.choice([0.25, 3.0]), inplace=True)
        elif op == 'rotate':
            operations.rotate(cont, rng.uniform(20, 160), axis=rng.randrange(3), inplace=True)
        else:
            e0 = elems[0]
            e0.ctrlpts = [[c + 40.0 for c in p] for p in e0.ctrlpts]
        judge('after %s in place' % op)


def check(case, ctx):
    if case.get('kind') == 'coarse-sampling':
        return check_coarse_sampling(case, ctx)
    if case.get('kind') == 'container-bbox':
        return check_container_bbox(case, ctx)
    from geomdl import operations
    sd = case['sd']
    rng = random.Random(case['seed'])
    pdim = sd['pdim']
    o = G.build(sd)
    S = G.defn_of(o)
    sc = so.scale_of_defn(S)
    clamped = all(kv[0] == kv[p] and kv[-1] == kv[-p - 1] for kv, p in zip(sd['kvs'], sd['degrees']))
    interior = any(len(kv) > 2 * (p + 1) or kv[0] != kv[p] for kv, p in zip(sd['kvs'], sd['degrees']))
    ctx.nontriv(interior or (sd['rational'] and len(set(sd.get('weights', [1]))) > 1))
    ctx.tag('pdim%d' % pdim, 'rational' if sd['rational'] else 'nonrational', 'dim%d' % len(sd['ctrlpts'][0]),
            'clamped' if clamped else 'unclamped')
    # ---- (round 8) a transformed deep copy exists and is read FIRST: the box, the hull and the ends below are still those of this shape ----
    if rng.random() < 0.3:
        ctx.tag('copy-read-first')
        moved = operations.translate(o, [7.5 * sc] * o.dimension) if rng.random() < 0.5 else operations.scale(o, 3.0)
        _ = moved.bbox, [list(p_) for p_ in moved.ctrlpts]
        if sd['rational']:
            _ = list(moved.weights)
        if rng.random() < 0.5:
            _ = moved.evalpts
    # ---- bounding box ----------------------------------------------------------------------------------------------------
    bb = o.bbox
    cart = [[float(c) for c in S.cart(t)] for t in S.net]
    dim = len(cart[0])
    mn = [min(p[i] for p in cart) for i in range(dim)]
    mx = [max(p[i] for p in cart) for i in range(dim)]
    ctx.check(len(bb) == 2 and all(abs(a - b) <= 1e-12 * sc for a, b in zip(bb[0], mn)) and
              all(abs(a - b) <= 1e-12 * sc for a, b in zip(bb[1], mx)), 'bbox/not-minmax-of-net',
              'bbox %r is not the min/max %r %r of the (unweighted) control net' % (bb, mn, mx), what='bbox-equals-net')
    # ---- targeted points ---------------------------------------------------------------------------------------------------
    with hooks.suspended():
        prms = G.param_tuples(rng, o, 10 if pdim < 3 else 6, ulp=True)
        for tags, prm in prms:
            x = G.evaluate_single(o, prm)
            if not judge_point(ctx, S, prm, x, sc, 'hull/evaluate_single', 'hull'):
                return
            ctx.check(all(bb[0][i] - 1e-9 * sc <= x[i] <= bb[1][i] + 1e-9 * sc for i in range(dim)), 'bbox/point-outside',
                      'point %r at %r lies outside the reported bounding box %r' % (list(x), prm, bb), what='bbox-contains')
            # find_ctrlpts agrees with the reference's active set
            if pdim == 1:
                fc = operations.find_ctrlpts(o, prm[0])
                exp = [S.cart(t) for t in S.active(prm)]
                ok = len(fc) == len(exp) and all(all(abs(a - float(b)) <= 1e-12 * sc for a, b in zip(g, e)) for g, e in zip(fc, exp))
                ctx.check(ok, 'find_ctrlpts/curve', 'find_ctrlpts(u=%r) is not the control points span-p..span' % prm[0],
                          what='find_ctrlpts')
            elif pdim == 2:
                fc = operations.find_ctrlpts(o, prm[0], prm[1])
                act = S.active(prm)
                p, q = S.p
                ok = len(fc) == p + 1 and all(len(r) == q + 1 for r in fc)
                if ok:
                    for t, g in zip(act, [pt for row in fc for pt in row]):
                        e_h = [float(c) for c in S.net[t]]
                        e_c = [float(c) for c in S.cart(t)]
                        if not (len(g) == len(e_h) and all(abs(a - b) <= 1e-12 * max(sc, 1.0) * 10 for a, b in zip(g, e_h))) and \
                                not (len(g) == len(e_c) and all(abs(a - b) <= 1e-12 * sc for a, b in zip(g, e_c))):
                            ok = False
                ctx.check(ok, 'find_ctrlpts/surface', 'find_ctrlpts(u=%r, v=%r) is not the (p+1)x(q+1) block of active control points'
                          % (prm[0], prm[1]), what='find_ctrlpts')
    # ---- sampled grid through the evaluate funnel (M-eval listener judges hull membership) -------------------------------------------
    o.sample_size = {1: 15, 2: 5, 3: 3}[pdim]
    pts = o.evalpts
    for x in pts[:: max(1, len(pts) // 25)]:
        ctx.check(all(bb[0][i] - 1e-9 * sc <= x[i] <= bb[1][i] + 1e-9 * sc for i in range(dim)), 'bbox/point-outside',
                  'sampled point %r lies outside the bounding box %r' % (list(x), bb), what='bbox-contains')
    # ---- (round 10) the evaluator asked directly, without a range: its default range is the domain, so the same containment holds -----------
    if rng.random() < 0.5 or not clamped:
        ctx.tag('evaluator-asked-directly', 'evaluator-asked-directly:' + ('clamped' if clamped else 'unclamped'))
        pts_d = o.evaluator.evaluate(o.data)
        ctx.check(len(pts_d) == len(pts), 'evaluator-direct/grid-size', 'evaluator.evaluate(data) without a range returns %d points, evalpts has %d'
                  % (len(pts_d), len(pts)), what='bbox-contains')
        for x in pts_d[:: max(1, len(pts_d) // 25)] + [pts_d[-1]]:
            ctx.check(all(bb[0][i] - 1e-9 * sc <= x[i] <= bb[1][i] + 1e-9 * sc for i in range(dim)), 'bbox/point-outside',
                      'point %r handed out by evaluator.evaluate(data) (no range given: the domain) lies outside the bounding box %r' % (list(x), bb),
                      what='bbox-contains')
    # ---- clamped shapes start and end on their first and last control points ------------------------------------------------------------
    if clamped:
        first = S.cart(tuple(0 for _ in S.n))
        last = S.cart(tuple(n - 1 for n in S.n))
        ctx.near(pts[0], first, 1e-9 * sc, 'clamped/start', 'clamped shape does not start at its first control point', what='clamped-ends')
        ctx.near(pts[-1], last, 1e-9 * sc, 'clamped/end', 'clamped shape does not end at its last control point', what='clamped-ends')
        doms = G.domains_of(o)
        with hooks.suspended():
            ctx.near(G.evaluate_single(o, [a for a, b in doms]), first, 1e-9 * sc, 'clamped/start', 'evaluate_single(domain start) is not '
                     'the first control point', what='clamped-ends')
            ctx.near(G.evaluate_single(o, [b for a, b in doms]), last, 1e-9 * sc, 'clamped/end', 'evaluate_single(domain end) is not '
                     'the last control point', what='clamped-ends')
    # ---- evaluate, edit the control net through a public route, read the sampled points again (no explicit evaluate) ------------------
    #      the points handed out must lie in the hull / bounding box of the CURRENT control points
    route = rng.choice(['ctrlpts', 'translate', 'scale', 'set_ctrlpts', 'weights' if sd['rational'] else 'ctrlpts'])
    ctx.tag('edit-then-read')
    from geomdl import operations as _ops
    if route == 'ctrlpts':
        o.ctrlpts = [[c * 0.25 + 3.0 for c in p] for p in o.ctrlpts]
    elif route == 'translate':
        _ops.translate(o, [7.5 * sc] * dim, inplace=True)
    elif route == 'scale':
        _ops.scale(o, 0.1, inplace=True)
    elif route == 'weights':
        o.weights = [w * rng.uniform(0.5, 2.0) for w in o.weights]
    else:
        newp = [[c * 0.5 - 2.0 for c in p[:dim]] + list(p[dim:]) for p in G.hom_pts_of(o)]
        if pdim == 1:
            o.set_ctrlpts(newp)
        else:
            o.set_ctrlpts(newp, *G.sizes_of(o))
    S2 = G.defn_of(o)
    sc2 = so.scale_of_defn(S2)
    bb2 = o.bbox
    pts2 = o.evalpts
    ss = [o.sample_size] if pdim == 1 else list(o.sample_size)
    doms2 = G.domains_of(o)
    per = [meval.grid_params(a, b, w) for (a, b), w in zip(doms2, ss)]
    tot = 1
    for w in ss:
        tot *= w
    if ctx.check(len(pts2) == tot, 'edit-then-read/grid-size', 'sampled grid has %d points for sample sizes %r after a control net edit'
                 % (len(pts2), ss), what='hull'):
        for f in sorted(set([0, tot - 1] + [rng.randrange(tot) for _ in range(6)])):
            rem, ii = f, []
            for d in reversed(range(pdim)):
                ii.append(rem % ss[d])
                rem //= ss[d]
            ii.reverse()
            prm = [per[d][ii[d]] for d in range(pdim)]
            if not so.clear_of_knots(S2, [float(x) for x in prm], 1e-9):
                continue
            if not judge_point(ctx, S2, prm, pts2[f], sc2, 'hull/after-%s' % ('edit'), 'hull'):
                break
            ctx.check(all(bb2[0][i] - 1e-9 * sc2 <= pts2[f][i] <= bb2[1][i] + 1e-9 * sc2 for i in range(dim)), 'bbox/point-outside',
                      'after editing the control net (%s) sampled point %d lies outside the reported bounding box' % (route, f),
                      what='bbox-contains')
        if clamped:
            ctx.near(pts2[0], S2.cart(tuple(0 for _ in S2.n)), 1e-9 * sc2, 'clamped/start', 'after editing the control net (%s) the sampled '
                     'points do not start at the first control point' % route, what='clamped-ends')
    S, sc = S2, sc2
    # ---- length bounds -----------------------------------------------------------------------------------------------------------------
    if pdim == 1 and not sd['rational']:
        for ss in (2, 7, 40):
            o.sample_size = ss
            a, b = G.domains_of(o)[0]
            if rng.random() < 0.4:
                # the curve has last been sampled on a part of its domain (documented evaluate(start=, stop=)); its length is still its length
                o.evaluate(start=a + 0.4 * (b - a), stop=a + 0.6 * (b - a))
                ctx.tag('length:after-partial-evaluate')
            L = operations.length_curve(o)
            pa, pb = S.point((a,)), S.point((b,))
            chord = math.sqrt(sum(float(x - y) ** 2 for x, y in zip(pa, pb)))
            idx = sorted(S.net)
            poly = sum(math.sqrt(sum(float(x - y) ** 2 for x, y in zip(S.net[i], S.net[j]))) for i, j in zip(idx, idx[1:]))
            ctx.check(chord - 1e-9 * sc <= L <= poly + 1e-9 * sc, 'length/out-of-bounds',
                      'length_curve = %r with %d samples, but chord = %r and control polygon length = %r' % (L, ss, chord, poly),
                      what='length')
