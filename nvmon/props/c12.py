"""C12 — no stale derived state after any sequence of edits; deep copies are independent."""
import copy
import json
import random
from fractions import Fraction as F

from .. import gen as G, hooks, ref, shapeops as so
from ..core import Reject

ID = 'C12'
SHARDS = {'quick': 4, 'thorough': 16}
BUDGET = {'quick': 240, 'thorough': 2400}
RULE = ("cases: seeded histories of 4..25 steps over a population of 1..3 live shapes (curves/surfaces/volumes, rational or not), "
        "deep copies of them and a container sharing some of them by reference; steps are drawn from the public mutators "
        "{ctrlpts, ctrlptsw, set_ctrlpts, ctrlpts2d, weights, knot vector (re-assigned), degree change issued as the prescribed "
        "degree->control points->knot vector sequence, delta / sample_size (all variants), insert_knot, remove_knot of an inserted "
        "knot, refine_knotvector, reverse, transpose, flip(inplace), translate/rotate/scale(inplace) on shapes and on the "
        "container, container.add / delta / sample_size, deepcopy} interleaved with random reads; after every mutator a random "
        "non-empty subset of the derived views {ctrlpts, weights, ctrlptsw, ctrlpts2d, evalpts, bbox, vertices+faces, data, "
        "container evalpts/bbox/vertices/faces} is read and compared with the same read on a freshly built object with the same "
        "primary definition (degrees, knot vectors, homogeneous control points, sizes, delta); ops with known semantics are also "
        "checked against a shadow of the primary state (shape-preserving ops keep the exact reference points; reverse: C'(u)=C(a+b-u); "
        "setters: the value given). Copies: the digest of a copy must not change when its source is edited and vice versa. "
        "Non-trivial: history with >= 3 mutators and >= 1 read-before-mutate; distinct = case hash.")
ASSUMPTIONS = ["trusted base: the library's fresh-construction path (checked by C01) and nvmon.ref for the shadow checks",
               "transient states between the public setters of a compound edit are never read"]
FLOORS = {'quick': {'fresh-compare': 4000, 'shadow': 600, 'copy-independence': 150, 'container-read': 150},
          'thorough': {'fresh-compare': 40000, 'shadow': 6000, 'copy-independence': 1500}}
MANDATORY_TAGS = ['tessellate-requests', 'tessellate-requests:default-after-arguments', 'knotvector:list-form-accepted', 'refused-edit:remove-clamping-knot', 'refused-edit:list-setter-degree', 'refused-edit:reverse-before-knotvector', 'kept-sizes:other-object-resized', 'shared-tessellator', 'refused-edit', 'sampling:takes-the-value-of-another-direction', 'kept-sizes', 'kept-sizes:given-to-another-object', 'curve', 'surface', 'volume', 'rational', 'container', 'copy', 'op:reverse', 'op:transpose', 'op:flip', 'op:insert',
                  'op:remove', 'op:refine', 'op:weights', 'op:ctrlpts', 'op:delta', 'op:translate', 'op:degree', 'op:knotvector',
                  'op:container-add', 'op:container-transform', 'op:container-deepcopy', 'read-mutate-read', 'op:container-delta-one-direction']
TECHNIQUE = ("runtime monitoring: history driver with an online differential oracle (every read of a derived view vs the same read "
             "on a freshly built object with the same primary definition) plus a shadow model of the primary state, over seeded "
             "mutator/reader histories incl. copies and containers sharing elements")
LEVEL_TEXT = ("Every read performed after every mutator of every generated history is compared with a fresh object's answer; copy "
              "independence is checked by digests across edits; holds on the histories observed.")


# -- views ------------------------------------------------------------------------------------------------------------------------
def near(a, b, tol=1e-9):
    if isinstance(a, (list, tuple)):
        return isinstance(b, (list, tuple)) and len(a) == len(b) and all(near(x, y, tol) for x, y in zip(a, b))
    if isinstance(a, dict):
        return isinstance(b, dict) and set(a) == set(b) and all(near(a[k], b[k], tol) for k in a)
    if isinstance(a, float) or isinstance(b, float):
        try:
            return abs(a - b) <= tol * max(1.0, abs(a), abs(b))
        except TypeError:
            return False
    return a == b


def view(o, name):
    if name == 'ctrlpts':
        return [list(p) for p in o.ctrlpts]
    if name == 'weights':
        return list(o.weights)
    if name == 'ctrlptsw':
        return [list(p) for p in o.ctrlptsw]
    if name == 'ctrlpts2d':
        return [[list(p) for p in row] for row in o.ctrlpts2d]
    if name == 'evalpts':
        return [list(p) for p in o.evalpts]
    if name == 'bbox':
        return [list(b) for b in o.bbox]
    if name == 'mesh':
        V, Fc = o.vertices, o.faces
        return [[(v.id, list(v.uv), list(v.data)) for v in V], [list(f.data) for f in Fc]]
    if name == 'data':
        d = o.data
        return {'degree': list(d['degree']), 'knotvector': [list(k) for k in d['knotvector']], 'size': list(d['size']),
                'control_points': [list(p) for p in d['control_points']], 'sample_size': list(d['sample_size']),
                'rational': d['rational'], 'dimension': d['dimension']}
    if name == 'sample_size':
        s = o.sample_size
        return list(s) if isinstance(s, (list, tuple)) else [s]
    raise KeyError(name)


def views_for(o):
    v = ['ctrlpts', 'evalpts', 'bbox', 'data', 'sample_size']
    if o.rational:
        v += ['weights', 'ctrlptsw']
    if o.pdimension == 2:
        v += ['ctrlpts2d', 'mesh']
    return v


def fresh(o, meta):
    cls = type(o)
    f = cls(normalize_kv=meta['normalize'])
    pts = copy.deepcopy(G.hom_pts_of(o))
    if o.pdimension == 1:
        f.degree = o.degree
        f.set_ctrlpts(pts)
        f.knotvector = list(o.knotvector)
        f.delta = o.delta
    elif o.pdimension == 2:
        f.degree_u, f.degree_v = o.degree_u, o.degree_v
        f.set_ctrlpts(pts, o.ctrlpts_size_u, o.ctrlpts_size_v)
        f.knotvector_u, f.knotvector_v = list(o.knotvector_u), list(o.knotvector_v)
        f.delta = tuple(o.delta)
    else:
        f.degree_u, f.degree_v, f.degree_w = o.degree_u, o.degree_v, o.degree_w
        f.set_ctrlpts(pts, o.ctrlpts_size_u, o.ctrlpts_size_v, o.ctrlpts_size_w)
        f.knotvector_u, f.knotvector_v, f.knotvector_w = list(o.knotvector_u), list(o.knotvector_v), list(o.knotvector_w)
        f.delta = tuple(o.delta)
    return f


def digest(o):
    return json.dumps([G.snapshot(o), [o.delta] if o.pdimension == 1 else list(o.delta)], sort_keys=True)


# -- workload ----------------------------------------------------------------------------------------------------------------------
def gen(rng, tier, shard, nshards):
    n = 70 if tier == 'quick' else 600
    for i in range(n):
        nobj = rng.choice([1, 1, 2, 3])
        pdim = rng.choice([1, 1, 2, 2, 3])
        shapes = []
        for k in range(nobj):
            pd = pdim if (k == 0 or rng.random() < 0.8) else rng.choice([1, 2, 3])
            shapes.append(G.rand_shape(rng, pd, dim=3 if pd > 1 else rng.choice([2, 3]), clamped_only=True,
                                       maxextra={1: 4, 2: 3, 3: 2}[pd], maxdeg={1: 4, 2: 3, 3: 2}[pd], normalize=rng.random() < 0.85,
                                       pcls='uniform'))
        yield {'kind': 'history', 'shapes': shapes, 'seed': rng.randrange(1 << 30), 'steps': rng.randint(4, 25),
               'container': rng.random() < 0.5}
        if i % 3 == 1:
            pd = rng.choice([1, 2, 2, 3])
            yield {'kind': 'refused-edit', 'seed': rng.randrange(1 << 30),
                   'sd': G.rand_shape(rng, pd, dim=3 if pd > 1 else rng.choice([2, 3]), clamped_only=True, maxextra=3, maxdeg=3, pcls='uniform')}
        if i % 4 == 2:
            yield {'kind': 'shared-tessellator', 'seed': rng.randrange(1 << 30),
                   'shapes': [G.rand_shape(rng, 2, dim=3, clamped_only=True, maxextra=2, maxdeg=3, pcls='uniform') for _ in range(2)]}
        if i % 2 == 1:
            yield {'kind': 'tessellate-requests', 'seed': rng.randrange(1 << 30),
                   'sd': G.rand_shape(rng, 2, dim=3, clamped_only=True, maxextra=2, maxdeg=3, pcls='uniform')}
        if i % 3 == 0:
            pd = rng.choice([1, 2, 2, 3])
            yield {'kind': 'kept-sizes', 'seed': rng.randrange(1 << 30),
                   'sd': G.rand_shape(rng, pd, dim=3 if pd > 1 else rng.choice([2, 3]), clamped_only=True, maxextra=3, maxdeg=3, pcls='uniform')}


class World(object):
    pass


def check_kept_sizes(case, ctx):
    """small values handed out by getters (cpsize, degree, sample size) are the caller's: a later edit of the object - or of ANOTHER object
    that was given them - reports new values, it does not rewrite the ones read before"""
    from geomdl import operations
    rng = random.Random(case['seed'])
    sd = case['sd']
    pdim = sd['pdim']
    o = G.build(sd)
    ctx.tag('kept-sizes', {1: 'curve', 2: 'surface', 3: 'volume'}[pdim])
    ctx.nontriv(True)
    before = o.cpsize
    snap = list(before)
    which = rng.choice(['refine', 'insert', 'other-object'])
    if which == 'other-object':
        # a second shape is defined from the first one's values (degree, sizes), then gets its own control points
        ctx.tag('kept-sizes:given-to-another-object')
        other = type(o)()
        other.degree = o.degree
        other.cpsize = o.cpsize
        pts = [[c * 2.0 + 1.0 for c in p] for p in o.ctrlpts]
        digest0 = digest(o)
        if pdim >= 2 and rng.random() < 0.5:
            # (sixth hunt) ... after its sizes were re-declared through the size properties (another layout of as many points)
            ctx.tag('kept-sizes:other-object-resized')
            szs = list(sd['sizes'])
            szs[0], szs[1] = szs[1], szs[0]
            if szs == list(sd['sizes']):
                szs[0], szs[1] = szs[0] * szs[1], 1
            try:
                for nm_, v_ in zip(('ctrlpts_size_u', 'ctrlpts_size_v', 'ctrlpts_size_w'), szs):
                    setattr(other, nm_, v_)
            except Exception:
                pass
        try:
            other.ctrlpts = pts
        except Exception:
            pass
        ctx.check(digest(o) == digest0 and list(o.cpsize) == snap and G.sizes_of(o) == list(sd['sizes']), 'kept/other-object-edit-leaks',
                  'a %s defined with sizes read from another one (new.cpsize = old.cpsize) and then given control points: the FIRST object now '
                  'reports sizes %r (had %r)' % (type(o).__name__, list(o.cpsize), snap), what='copy-independent')
        return
    d = rng.randrange(pdim)
    if which == 'refine':
        prm = [0] * pdim
        prm[d] = 1
        operations.refine_knotvector(o, prm)
    else:
        pick = so.pick_insertion(rng, o, d, prefer_knot=0.0)
        if pick is None:
            raise Reject()
        so.call_insert(o, d, pick[0], 1, 'operations')
    ctx.check(list(before) == snap, 'kept/sizes-rewritten', 'cpsize read before %s (%r) reads %r afterwards - the list handed out was rewritten in '
              'place (the object itself now has %r)' % (which, snap, list(before), list(o.cpsize)), what='copy-independent')


def check_refused_edit(case, ctx):
    """an assignment the library refuses (a control point of the wrong length, a grid that is too small, missing sizes) is not an edit:
    every view still reports what it reported before"""
    rng = random.Random(case['seed'])
    sd = case['sd']
    pdim = sd['pdim']
    if pdim == 1 and rng.random() < 0.25:
        # (sixth hunt) a curve which has its degree, control points and weights but no knot vector yet is asked to reverse itself: the
        # library cannot (IndexError) - and the three control point views still agree with each other afterwards
        from geomdl import NURBS, BSpline
        ctx.tag('refused-edit', 'curve', 'refused-edit:reverse-before-knotvector')
        ctx.nontriv(True)
        c_ = (NURBS.Curve if sd['rational'] else BSpline.Curve)()
        c_.degree = sd['degrees'][0]
        c_.ctrlpts = [list(p_) for p_ in sd['ctrlpts']]
        if sd['rational']:
            c_.weights = list(sd['weights'])
            _ = list(c_.weights), [list(p_) for p_ in c_.ctrlpts]
        pts0 = [list(p_) for p_ in c_.ctrlpts]
        try:
            c_.reverse()
        except Exception:
            pass
        else:
            raise Reject()
        pts1 = [list(p_) for p_ in c_.ctrlpts]
        okv = near(pts1, pts0, 1e-12)
        if sd['rational']:
            okv = okv and near([[c * w for c in p_] + [w] for p_, w in zip(c_.ctrlpts, c_.weights)], [list(p_) for p_ in c_.ctrlptsw], 1e-12)
        ctx.check(okv, 'refused-edit/state-changed', 'reverse() of a curve without a knot vector raised and left the control points changed '
                  '(ctrlpts %r..., before %r...; the weighted points and the cached views disagree: %s)' % (pts1[:1], pts0[:1], sd['rational']),
                  what='fresh-equal')
        return
    o = G.build(sd)
    o.sample_size = {1: 5, 2: 3, 3: 2}[pdim]
    ctx.tag('refused-edit', {1: 'curve', 2: 'surface', 3: 'volume'}[pdim])
    ctx.nontriv(True)
    names = views_for(o)
    before = dict((nm, copy.deepcopy(view(o, nm))) for nm in names)
    dg0 = digest(o)
    how = rng.choice(['ragged-ctrlpts', 'ragged-set_ctrlpts', 'missing-sizes', 'small-ctrlpts2d', 'ragged-ctrlptsw',
                      'remove-clamping-knot', 'list-setter-degree', 'list-setter-knotvector'])
    if rng.random() < (0.4 if pdim == 1 else 0.2):
        how = 'remove-clamping-knot'
    refused = False
    try:
        if how == 'remove-clamping-knot':
            # (sixth hunt) a removal the library cannot carry out: two copies of the clamping start (or end) knot of a curve
            from geomdl import operations as ops_
            d_ = rng.randrange(pdim)
            if G.degrees_of(o)[d_] < 2:
                raise Reject()
            kv_ = G.kvs_of(o)[d_]
            prm_, num_ = [None] * pdim, [0] * pdim
            prm_[d_], num_[d_] = rng.choice([kv_[0], kv_[-1]]), 2
            S_before = G.defn_of(o)
            ops_.remove_knot(o, prm_, num_)
            # (seventh hunt) ... of a surface or a volume: if the library does NOT refuse, the shape it leaves must at least be a shape
            ok_ = all(len(kv2_) == n2_ + p2_ + 1 for kv2_, n2_, p2_ in zip(G.kvs_of(o), G.sizes_of(o), G.degrees_of(o)))
            ctx.tag('refused-edit:remove-clamping-knot', 'refused-edit:remove-clamping-knot:accepted')
            ctx.check(ok_, 'refused-edit/state-changed', 'remove_knot of two copies of a clamping knot of a %s (direction %d) was accepted and left '
                      'sizes %r on knot vectors of lengths %r (degrees %r): not a valid shape' % (type(o).__name__, d_, G.sizes_of(o),
                                                                                                  [len(k_) for k_ in G.kvs_of(o)], G.degrees_of(o)),
                      what='fresh-equal')
            if ok_:
                # ... and the shape it was before, wherever both are defined
                doms_ = [(max(a_[0], b_[0]), min(a_[1], b_[1])) for a_, b_ in zip(G.domains_of(o), [tuple(map(float, x_)) for x_ in S_before.domain()])]
                sc_ = so.scale_of_defn(S_before)
                worst_ = 0.0
                for _k in range(6):
                    q_ = [lo_ + rng.uniform(0.2, 0.8) * (hi_ - lo_) for lo_, hi_ in doms_]
                    try:
                        got_ = G.evaluate_single(o, q_)
                    except Exception:
                        worst_ = float('inf')
                        break
                    worst_ = max(worst_, max(abs(a_ - float(b_)) for a_, b_ in zip(got_, S_before.point(q_))))
                ctx.check(worst_ <= 1e-9 * sc_, 'refused-edit/state-changed', 'remove_knot of two copies of a clamping knot of a %s (direction %d) was '
                          'accepted: the shape moved by %r (a curve refuses this request)' % (type(o).__name__, d_, worst_), what='fresh-equal')
            return
        elif how == 'list-setter-degree':
            # (sixth hunt) the list form of the degree setter with a valid first and an invalid later entry
            if pdim == 1:
                raise Reject()
            dg_ = list(G.degrees_of(o))
            dg_[0] = max(1, dg_[0] - 1) if dg_[0] > 1 else dg_[0] + 1
            dg_[-1] = 0
            o.degree = dg_
        elif how == 'list-setter-knotvector':
            if pdim == 1:
                raise Reject()
            kvs_ = [list(kv) for kv in G.kvs_of(o)]
            a_, b_ = kvs_[0][0], kvs_[0][-1]
            p0_ = G.degrees_of(o)[0]
            inner_ = len(kvs_[0]) - 2 * (p0_ + 1)
            kvs_[0] = [a_] * (p0_ + 1) + [a_ + (b_ - a_) * (k_ + 1) / (inner_ + 1.0) * 0.9 for k_ in range(inner_)] + [b_] * (p0_ + 1)
            kvs_[-1] = kvs_[-1][:-1]
            o.knotvector = kvs_
        elif how == 'ragged-ctrlpts':
            bad = [list(p_) for p_ in o.ctrlpts]
            bad[rng.randrange(1, len(bad))] = bad[0][:-1]
            o.ctrlpts = bad
        elif how == 'ragged-set_ctrlpts':
            bad = [list(p_) for p_ in (o.ctrlptsw if o.rational else o.ctrlpts)]
            bad[rng.randrange(1, len(bad))] = bad[0][:-1]
            o.set_ctrlpts(bad, *sd['sizes']) if pdim > 1 else o.set_ctrlpts(bad)
        elif how == 'missing-sizes':
            if pdim == 1:
                raise Reject()
            o.set_ctrlpts([list(p_) for p_ in (o.ctrlptsw if o.rational else o.ctrlpts)])
        elif how == 'small-ctrlpts2d':
            if pdim != 2:
                raise Reject()
            g_ = o.ctrlpts2d
            o.ctrlpts2d = [list(r_) for r_ in g_[:1]] if G.degrees_of(o)[0] >= 1 and len(g_) > 1 else [r_[:1] for r_ in g_]
        else:
            if not o.rational:
                raise Reject()
            bad = [list(p_) for p_ in o.ctrlptsw]
            bad[rng.randrange(1, len(bad))] = bad[0][:-1]
            o.ctrlptsw = bad
    except Reject:
        raise
    except Exception:
        refused = True
    if not refused:
        raise Reject()          # the library accepted it: then it was an edit, judged by the histories
    ctx.tag('refused-edit:' + how)
    bad_views = []
    for nm in names:
        try:
            now = view(o, nm)
        except Exception as e:
            bad_views.append('%s raises %s' % (nm, type(e).__name__))
            continue
        if not near(now, before[nm], 1e-12):
            bad_views.append(nm)
    ctx.check(not bad_views and digest(o) == dg0, 'refused-edit/state-changed', 'after a refused assignment (%s) of a %s these views no longer report '
              'what they reported before the call: %r' % (how, type(o).__name__, bad_views or ['definition']), what='fresh-equal')


def check_shared_tessellator(case, ctx):
    """(fifth hunt) ONE configured tessellation component is given to two surfaces (`for s in surfaces: s.tessellator = tsl`): the mesh
    each surface - and a container of both - hands out is the mesh a freshly built surface hands out, whichever was read first"""
    from geomdl import tessellate, multi
    rng = random.Random(case['seed'])
    ctx.tag('shared-tessellator')
    ctx.nontriv(True)
    n = rng.randint(3, 6)

    def build_all():
        es = [G.build(sd) for sd in case['shapes']]
        for e_ in es:
            e_.sample_size = n
        return es
    cls = rng.choice([tessellate.TriangularTessellate, tessellate.QuadTessellate])
    es, fresh_ = build_all(), build_all()
    tsl = cls()
    for e_ in es:
        e_.tessellator = tsl
    for e_ in fresh_:
        e_.tessellator = cls()
    order = [0, 1] if rng.random() < 0.5 else [1, 0]
    use_container = rng.random() < 0.4
    if use_container:
        agg = [list(v.data) for v in multi.SurfaceContainer(*es).vertices]
        exp = [list(v.data) for v in multi.SurfaceContainer(*fresh_).vertices]
        ctx.check(len(agg) == len(exp) and all(near(a_, b_) for a_, b_ in zip(agg, exp)), 'derived/shared-tessellator',
                  'container of two surfaces which were given ONE tessellation component: its vertices are not those of a container of two '
                  'freshly built surfaces (first difference at vertex %r)' % next((i_ for i_, (a_, b_) in enumerate(zip(agg, exp)) if not near(a_, b_)), None),
                  what='read')
    for k_ in order + order:
        got = [list(v.data) for v in es[k_].vertices]
        exp = [list(v.data) for v in fresh_[k_].vertices]
        ctx.check(len(got) == len(exp) and all(near(a_, b_) for a_, b_ in zip(got, exp)) and len(es[k_].faces) == len(fresh_[k_].faces),
                  'derived/shared-tessellator', 'two surfaces were given ONE tessellation component; surface %d (read %s) reports vertices which are not '
                  'those of a freshly built surface' % (k_, 'first' if k_ == order[0] else 'after the other one'), what='read')


def check_tessellate_requests(case, ctx):
    """(round 10) a history of tessellation requests with and without arguments on ONE surface, in-place edits in between: after every
    step the mesh handed out is the mesh of a freshly built surface which is asked the request served last"""
    from geomdl import operations
    rng = random.Random(case['seed'])
    ctx.tag('tessellate-requests')
    ctx.nontriv(True)
    sd = case['sd']
    s = G.build(sd)
    s.sample_size = 2 * 3 * rng.randint(1, 2) + 1          # 7 or 13: spacings 2 and 3 divide the cell counts
    last = {}
    hist = []
    sc = max(1.0, max(abs(c) for p_ in sd['ctrlpts'] for c in p_))

    def mesh_of(o):
        return [[(v.id, list(v.uv), list(v.data)) for v in o.vertices], [list(f.data) for f in o.faces]]

    for step in range(rng.randint(3, 7)):
        r = rng.random()
        if r < 0.55:
            req = rng.choice([{}, {}, {'vertex_spacing': 2}, {'vertex_spacing': 3}, {'vertex_spacing': 1}])
            s.tessellate(**req)
            last = dict(req)
            hist.append('tessellate(%s)' % ', '.join('%s=%r' % kv for kv in sorted(req.items())))
            if len(hist) >= 2 and hist[-2].startswith('tessellate(v') and hist[-1] == 'tessellate()':
                ctx.tag('tessellate-requests:default-after-arguments')
        elif r < 0.8:
            how = rng.choice(['translate', 'ctrlpts', 'scale'])
            if how == 'translate':
                operations.translate(s, [1.5 * sc, -0.5 * sc, 2.0 * sc], inplace=True)
            elif how == 'scale':
                operations.scale(s, 0.5, inplace=True)
            else:
                s.ctrlpts = [[0.5 * c + 0.25 * sc for c in p_] for p_ in s.ctrlpts]
            hist.append(how)
        else:
            hist.append('read')
        f = fresh(s, {'normalize': sd['normalize_kv']})
        f.tessellate(**last)
        got, exp = mesh_of(s), mesh_of(f)
        ctx.check(near(got, exp), 'derived/tessellate-request-history', 'surface sampled %d x %d after [%s]: the mesh handed out (%d vertices / %d faces) '
                  'is not the mesh of a freshly built surface asked tessellate(%s) (%d vertices / %d faces)'
                  % (s.sample_size_u, s.sample_size_v, '; '.join(hist), len(got[0]), len(got[1]),
                     ', '.join('%s=%r' % kv for kv in sorted(last.items())), len(exp[0]), len(exp[1])), what='read')
        ctx.ok('fresh-compare')


def check(case, ctx):
    if case.get('kind') == 'shared-tessellator':
        return check_shared_tessellator(case, ctx)
    if case.get('kind') == 'tessellate-requests':
        return check_tessellate_requests(case, ctx)
    if case.get('kind') == 'kept-sizes':
        return check_kept_sizes(case, ctx)
    if case.get('kind') == 'refused-edit':
        return check_refused_edit(case, ctx)
    from geomdl import operations, multi
    rng = random.Random(case['seed'])
    sds = case['shapes']
    objs = []      # list of dict(o=object, meta=..., copies=[...])
    for sd in sds:
        o = G.build(sd)
        ss = {1: rng.randint(3, 8), 2: rng.randint(3, 5), 3: 3}[sd['pdim']]
        o.sample_size = ss
        objs.append({'o': o, 'meta': {'normalize': sd['normalize_kv']}, 'inserted': []})
        ctx.tag({1: 'curve', 2: 'surface', 3: 'volume'}[sd['pdim']], 'rational' if sd['rational'] else 'nonrational')
    cont = None
    cont_members = []
    if case['container']:
        pd0 = sds[0]['pdim']
        cont_members = [e for e in objs if e['o'].pdimension == pd0 and e['o'].dimension == objs[0]['o'].dimension]
        cls = {1: multi.CurveContainer, 2: multi.SurfaceContainer, 3: multi.VolumeContainer}[pd0]
        cont = cls(*[e['o'] for e in cont_members])
        cont.sample_size = {1: 5, 2: 4, 3: 3}[pd0]
        ctx.tag('container')
    copies = []    # (copy_entry, source_entry, digest_of_copy, digest_of_source)
    mutators = 0
    read_before = False
    cont_dirty_by_element = False

    def fresh_container():
        c2 = type(cont)(*[fresh(e['o'], e['meta']) for e in cont_members])
        c2.delta = cont.delta
        return c2

    def read_container():
        nonlocal cont_dirty_by_element
        names = ['evalpts', 'bbox'] + (['mesh'] if cont.pdimension == 2 and rng.random() < 0.4 else [])
        for nm in rng.sample(names, rng.randint(1, len(names))):
            # live first: reading the container aligns its elements' delta with its own (a legitimate, documented side effect),
            # the fresh container is then built from the elements as they are now
            if nm == 'mesh':
                live = [[(v.id, list(v.uv), list(v.data)) for v in cont.vertices], [list(f.data) for f in cont.faces]]
                fc = fresh_container()
                exp = [[(v.id, list(v.uv), list(v.data)) for v in fc.vertices], [list(f.data) for f in fc.faces]]
            else:
                live = view(cont, nm)
                exp = view(fresh_container(), nm)
            if near(live, exp):
                ctx.ok('container-read')
                ctx.ok('fresh-compare')
            elif cont_dirty_by_element:
                ctx.fail('container-cache/element-edit', 'container.%s is stale: a contained element was edited after the aggregate '
                         'was cached (read - edit element - read)' % nm)
                # let the history go on: clear the aggregate through the public API, as a user who knows about it would
                cont.reset()
                cont_dirty_by_element = False
                return True
            else:
                ctx.fail('stale/container-%s' % nm, 'container.%s differs from a freshly built container of the same elements' % nm)
                return False
        return True

    def read_object(e, after):
        o = e['o']
        names = views_for(o)
        for nm in rng.sample(names, rng.randint(1, min(4, len(names)))):
            live = view(o, nm)
            exp = view(fresh(o, e['meta']), nm)
            if not near(live, exp):
                ctx.fail('stale/%s/after-%s' % (nm, after), '%s of a %s %s read after %s differs from a freshly built object with the same '
                         'definition' % (nm, 'rational' if o.rational else 'non-rational', type(o).__name__, after))
                return False
            ctx.ok('fresh-compare')
        return True

    for step in range(case['steps']):
        # ---- random reads before the mutation (reads are part of the history) -----------------------------------------------------
        if rng.random() < 0.6:
            e = rng.choice(objs)
            nm = rng.choice(views_for(e['o']))
            view(e['o'], nm)
            read_before = True
            if cont is not None and rng.random() < 0.5:
                view(cont, rng.choice(['evalpts', 'bbox']))
                cont_dirty_by_element = False
        e = rng.choice(objs)
        o = e['o']
        pdim = o.pdimension
        ops = ['ctrlpts', 'delta', 'sample_size', 'insert', 'refine', 'translate', 'scale', 'rotate', 'knotvector', 'degree', 'deepcopy',
               'set_ctrlpts', 'partial-evaluate']
        if o.rational:
            ops += ['weights', 'ctrlptsw', 'weights']
        if pdim == 1:
            ops += ['reverse', 'reverse']
        if pdim == 2:
            ops += ['transpose', 'flip', 'ctrlpts2d', 'transpose', 'transpose-method']
        if pdim >= 2:
            ops += ['cross-sampling']
        if e['inserted']:
            ops += ['remove', 'remove']
        if cont is not None:
            ops += ['container-add', 'container-delta', 'container-transform', 'container-deepcopy', 'container-retessellate']
        op = rng.choice(ops)
        S_prev = G.defn_of(o)
        sc = so.scale_of_defn(S_prev)
        counterpart = []    # (other entry of a copy pair, its digest right before this mutation, which side is edited)
        for ce, se, _, _ in copies:
            if e is se:
                counterpart.append((ce, digest(ce['o']), 'source'))
            elif e is ce:
                counterpart.append((se, digest(se['o']), 'copy'))
        shadow = None       # function q -> expected exact point after the op (checked on the live object)
        desc = op
        in_container = cont is not None and any(m is e for m in cont_members)
        with so.quiet():
            if op in ('ctrlpts', 'set_ctrlpts', 'ctrlptsw', 'ctrlpts2d', 'weights'):
                e['inserted'] = []      # an arbitrary edit of the net makes previously inserted knots non-removable
            if op == 'ctrlpts':
                new = [[c + rng.uniform(-1, 1) for c in p] for p in o.ctrlpts]
                o.ctrlpts = copy.deepcopy(new)
                ctx.check(near(view(o, 'ctrlpts'), new, 1e-12), 'setter/ctrlpts', 'ctrlpts read back differs from the value assigned', what='shadow')
            elif op == 'set_ctrlpts':
                new = [[c * 0.5 + 1.0 for c in p] for p in G.hom_pts_of(o)]
                if o.rational:
                    new = [p[:-1] + [abs(p[-1]) + 0.1] for p in new]
                if pdim == 1:
                    o.set_ctrlpts(copy.deepcopy(new))
                else:
                    o.set_ctrlpts(copy.deepcopy(new), *G.sizes_of(o))
                ctx.check(near(G.hom_pts_of(o), new, 1e-12), 'setter/set_ctrlpts', 'control points read back differ from set_ctrlpts input',
                          what='shadow')
                desc = 'ctrlpts'
            elif op == 'ctrlptsw':
                new = [[c * 1.5 for c in p] for p in o.ctrlptsw]
                o.ctrlptsw = copy.deepcopy(new)
                ctx.check(near(view(o, 'ctrlptsw'), new, 1e-12), 'setter/ctrlptsw', 'ctrlptsw read back differs', what='shadow')
                desc = 'ctrlpts'
            elif op == 'ctrlpts2d':
                g2 = [[[c + 0.25 for c in p[:3]] + list(p[3:]) for p in row] for row in o.ctrlpts2d]
                o.ctrlpts2d = copy.deepcopy(g2)
                ctx.check(near(view(o, 'ctrlpts2d'), g2, 1e-12), 'setter/ctrlpts2d', 'ctrlpts2d read back differs', what='shadow')
                desc = 'ctrlpts'
            elif op == 'weights':
                new = [w * rng.uniform(0.5, 2) for w in o.weights]
                o.weights = list(new)
                ctx.check(near(view(o, 'weights'), new, 1e-12), 'setter/weights', 'weights read back differs', what='shadow')
            elif op == 'cross-sampling':
                # one direction takes the sampling another direction has right now (a setter comparing with the wrong slot sees "no change")
                dirs_ = list('uvw'[:pdim])
                a_, b_ = rng.sample(dirs_, 2)
                if getattr(o, 'delta_' + a_) == getattr(o, 'delta_' + b_):
                    setattr(o, 'sample_size_' + b_, getattr(o, 'sample_size_' + b_) + 1)
                    if rng.random() < 0.5:
                        view(o, 'evalpts')
                ctx.tag('sampling:takes-the-value-of-another-direction')
                view(o, 'evalpts')
                setattr(o, 'delta_' + a_, getattr(o, 'delta_' + b_))
                nexp = 1
                for d_ in dirs_:
                    nexp *= getattr(o, 'sample_size_' + d_)
                ctx.check(len(o.evalpts) == nexp, 'stale/evalpts/after-delta', 'evalpts read after delta_%s took the value of delta_%s: %d points for '
                          'sample sizes %r' % (a_, b_, len(o.evalpts), [getattr(o, 'sample_size_' + d_) for d_ in dirs_]), what='fresh-equal')
                desc = 'delta'
            elif op in ('delta', 'sample_size'):
                if op == 'delta':
                    if pdim == 1:
                        o.delta = rng.choice([0.1, 0.2, 0.25])
                    else:
                        which = rng.choice(['delta', 'delta_u', 'delta_v'] + (['delta_w'] if pdim == 3 else []))
                        val = rng.choice([0.2, 0.25, 0.34])
                        setattr(o, which, val if which != 'delta' else tuple([val] * pdim))
                else:
                    if pdim == 1:
                        o.sample_size = rng.randint(3, 8)
                    else:
                        which = rng.choice(['sample_size', 'sample_size_u', 'sample_size_v'] + (['sample_size_w'] if pdim == 3 else []))
                        setattr(o, which, rng.randint(3, 5) if pdim == 2 else rng.randint(2, 3))
                desc = 'delta'
            elif op == 'insert':
                d = rng.randrange(pdim)
                pick = so.pick_insertion(rng, o, d, prefer_knot=0.2)
                if pick is None or max(G.sizes_of(o)) > 14:
                    continue
                u, s, _ = pick
                so.call_insert(o, d, u, 1, rng.choice(['operations', 'method']))
                us = min(G.kvs_of(o)[d], key=lambda k: abs(k - u))
                e['inserted'].append((d, us))
                shadow = lambda q: S_prev.point(q)
            elif op == 'remove':
                d, u = e['inserted'].pop()
                if not any(abs(k - u) <= 1e-12 for k in G.kvs_of(o)[d]):
                    continue
                so.call_remove(o, d, u, 1, rng.choice(['operations', 'method']))
                shadow = lambda q: S_prev.point(q)
            elif op == 'refine':
                if max(G.sizes_of(o)) > 9 or len(G.hom_pts_of(o)) > 120:
                    continue
                prm = [0] * pdim
                prm[rng.randrange(pdim)] = 1
                operations.refine_knotvector(o, prm)
                e['inserted'] = []
                shadow = lambda q: S_prev.point(q)
            elif op == 'reverse':
                a, b = o.domain
                o.reverse()
                e['inserted'] = []
                a2, b2 = o.domain
                # the reversed curve is C(a + b - u) on the SAME domain (what a freshly built curve with the reversed data reports)
                if not ctx.check(abs(a2 - a) <= 1e-12 * max(1.0, abs(a), abs(b)) and abs(b2 - b) <= 1e-12 * max(1.0, abs(a), abs(b)),
                                 'reverse/domain-changed', 'reverse() moved the domain of the curve from %r to %r (normalize_kv=%s)'
                                 % ((a, b), (a2, b2), e['meta'].get('normalize_kv') if isinstance(e.get('meta'), dict) else '?'), what='shadow'):
                    return

                def shadow(q, a=a, b=b, a2=a2, b2=b2):
                    if q[0] == a2:
                        return S_prev.point((b,))
                    if q[0] == b2:
                        return S_prev.point((a,))
                    t = (F(q[0]) - F(a2)) / (F(b2) - F(a2))
                    return S_prev.point((F(b) - t * (F(b) - F(a)),))
            elif op == 'partial-evaluate':
                # sample a sub-range, then ask for the plain evaluation again: the sampled points must be those of the whole domain
                doms_ = G.domains_of(o)
                sub = [(a + 0.25 * (b - a), a + 0.75 * (b - a)) for a, b in doms_]
                if pdim == 1:
                    o.evaluate(start=sub[0][0], stop=sub[0][1])
                elif pdim == 2:
                    o.evaluate(start_u=sub[0][0], stop_u=sub[0][1], start_v=sub[1][0], stop_v=sub[1][1])
                else:
                    o.evaluate(start_u=sub[0][0], stop_u=sub[0][1], start_v=sub[1][0], stop_v=sub[1][1], start_w=sub[2][0], stop_w=sub[2][1])
                o.evaluate()
                desc = 'delta'
            elif op == 'transpose-method':
                o.transpose()
                e['inserted'] = []
                shadow = lambda q: S_prev.point((q[1], q[0]))
                desc = 'transpose'
            elif op == 'transpose':
                operations.transpose(o, inplace=True)
                e['inserted'] = []
                shadow = lambda q: S_prev.point((q[1], q[0]))
            elif op == 'flip':
                before2d = view(o, 'ctrlpts2d')
                operations.flip(o, inplace=True)
                e['inserted'] = []      # the net is mirrored but the knot vectors are not: earlier knots are no longer removable
                nu, nv = len(before2d), len(before2d[0])
                after2d = view(o, 'ctrlpts2d')
                ctx.check(all(near(after2d[i][j], before2d[nu - 1 - i][nv - 1 - j], 1e-12) for i in range(nu) for j in range(nv)),
                          'shadow/flip', 'flip(inplace=True): ctrlpts2d\'[i][j] != old[nu-1-i][nv-1-j]', what='shadow')
            elif op == 'translate':
                vec = [rng.uniform(-3, 3) for _ in range(o.dimension)]
                r = operations.translate(o, vec, inplace=True)
                ctx.check(r is o, 'inplace/other-object', 'translate(inplace=True) returned another object', what='shadow')
                shadow = lambda q: [x + F(v) for x, v in zip(S_prev.point(q), vec)]
                sc = sc + 3
            elif op == 'scale':
                m = rng.choice([0.5, 2, -1.5])
                operations.scale(o, m, inplace=True)
                shadow = lambda q: [x * F(m) for x in S_prev.point(q)]
                sc = sc * 2
                desc = 'translate'
            elif op == 'rotate':
                operations.rotate(o, rng.choice([30, 90, -45]), axis=rng.randrange(3), inplace=True)
                desc = 'translate'
            elif op == 'knotvector':
                # re-assign a (different) valid knot vector in one direction
                d = rng.randrange(pdim)
                p, n = G.degrees_of(o)[d], G.sizes_of(o)[d]
                kv = G.knot_vector(rng, p, n, 'bezier' if n == p + 1 else rng.choice(['uniform', 'random']))
                if pdim == 1:
                    o.knotvector = list(kv)
                elif rng.random() < 0.4:
                    # (round 10) the list form of the setter: all directions in one assignment, one of them new
                    kvs_ = [list(k) for k in G.kvs_of(o)]
                    kvs_[d] = list(kv)
                    o.knotvector = kvs_
                    ctx.tag('knotvector:list-form-accepted')
                else:
                    setattr(o, 'knotvector_' + 'uvw'[d], list(kv))
                e['inserted'] = []
                got = G.kvs_of(o)[d]
                ctx.check(near(got, kv, 1e-12), 'setter/knotvector', 'knot vector read back differs from the (normalised) value assigned',
                          what='shadow')
            elif op == 'degree':
                # compound edit through the prescribed public sequence: degree -> control points -> knot vector
                d = rng.randrange(pdim)
                p, n = G.degrees_of(o)[d], G.sizes_of(o)[d]
                newp = p + 1 if p + 1 <= n - 1 else (p - 1 if p > 1 else None)
                if newp is None:
                    continue
                pts = copy.deepcopy(G.hom_pts_of(o))
                sizes = G.sizes_of(o)
                kvs = [list(k) for k in G.kvs_of(o)]
                kvs[d] = G.knot_vector(rng, newp, n, 'bezier' if n == newp + 1 else 'uniform')
                if pdim == 1:
                    o.degree = newp
                    o.set_ctrlpts(pts)
                    o.knotvector = kvs[0]
                else:
                    setattr(o, 'degree_' + 'uvw'[d], newp)
                    o.set_ctrlpts(pts, *sizes)
                    for dd in range(pdim):
                        setattr(o, 'knotvector_' + 'uvw'[dd], kvs[dd])
                e['inserted'] = []
            elif op == 'deepcopy':
                c = copy.deepcopy(o)
                ce = {'o': c, 'meta': dict(e['meta']), 'inserted': list(e['inserted'])}
                objs.append(ce)
                copies.append([ce, e, digest(c), digest(o)])
                ctx.tag('copy')
                ctx.check(digest(c) == digest(o), 'copy/differs-from-source', 'deepcopy has a different definition than its source',
                          what='copy-independence')
                if not read_object(ce, 'deepcopy'):
                    return
                continue
            elif op == 'container-add':
                extra = G.build(G.rand_shape(rng, cont.pdimension, dim=objs[0]['o'].dimension, clamped_only=True, maxextra=2, maxdeg=2,
                                             pcls='uniform'))
                ne = {'o': extra, 'meta': {'normalize': True}, 'inserted': []}
                objs.append(ne)
                cont_members.append(ne)
                cont.add(extra)
                cont_dirty_by_element = False
                ctx.tag('op:container-add')
                if not read_container():
                    return
                mutators += 1
                continue
            elif op == 'container-deepcopy':
                # a deep copy of the container (explicit, or what translate/rotate/scale(container) return without inplace) must report
                # the same aggregates as a freshly built container of the same elements, whatever the order they are read in
                c2 = copy.deepcopy(cont) if rng.random() < 0.5 else operations.translate(cont, [0.0] * cont.dimension)
                ctx.tag('op:container-deepcopy')
                names = ['evalpts', 'bbox'] + (['mesh', 'mesh'] if cont.pdimension == 2 else [])
                rng.shuffle(names)
                for nm in names:
                    fc = fresh_container()
                    if nm == 'mesh':
                        try:
                            live = [[(v.id, list(v.uv), list(v.data)) for v in c2.vertices], [list(f.data) for f in c2.faces]]
                        except AttributeError as ex:
                            ctx.fail('copy/container-aggregate-corrupt', 'vertices/faces of a deep-copied container are not Vertex/Triangle '
                                     'objects after reading %r first (%s)' % (names[:names.index(nm)], ex))
                            return
                        exp = [[(v.id, list(v.uv), list(v.data)) for v in fc.vertices], [list(f.data) for f in fc.faces]]
                    else:
                        live, exp = view(c2, nm), view(fc, nm)
                    if not near(live, exp):
                        ctx.fail('copy/container-%s-differs' % nm, '%s of a deep-copied container (read order %r) differs from a freshly built '
                                 'container of the same elements' % (nm, names))
                        return
                    ctx.ok('fresh-compare')
                    ctx.ok('container-read')
                mutators += 1
                continue
            elif op == 'container-retessellate':
                if cont.pdimension != 2:
                    continue
                cont.vertices
                cont.tessellate(force=True)
                fc = fresh_container()
                live = [[(v.id, list(v.uv), list(v.data)) for v in cont.vertices], [list(f.data) for f in cont.faces]]
                exp = [[(v.id, list(v.uv), list(v.data)) for v in fc.vertices], [list(f.data) for f in fc.faces]]
                if not near(live, exp):
                    if cont_dirty_by_element and len(live[0]) == len(exp[0]):
                        pass    # (positions may lag an element edit: that is the recorded container-cache mechanism, judged in read_container)
                    else:
                        ctx.fail('stale/container-mesh-after-forced-tessellate', 'tessellate(force=True) on a container whose mesh had been '
                                 'read leaves %d vertices / %d faces, a fresh container has %d / %d' % (len(live[0]), len(live[1]), len(exp[0]), len(exp[1])))
                        return
                ctx.ok('container-read')
                cont_dirty_by_element = False
                mutators += 1
                continue
            elif op == 'container-delta':
                r_ = rng.random()
                if cont.pdimension > 1 and r_ < 0.4:
                    # the per-direction setters of surface / volume containers
                    dnm = rng.choice('uvw'[:cont.pdimension])
                    if rng.random() < 0.5:
                        setattr(cont, 'delta_' + dnm, rng.choice([0.2, 0.25, 0.34, 0.5]))
                    else:
                        setattr(cont, 'sample_size_' + dnm, rng.randint(3, 6))
                    ctx.tag('op:container-delta-one-direction')
                elif r_ < 0.7:
                    cont.sample_size = rng.randint(3, 5)
                else:
                    cont.delta = rng.choice([0.2, 0.25, 0.34])
                cont_dirty_by_element = False
                ctx.tag('op:delta')
                if not read_container():
                    return
                mutators += 1
                continue
            elif op == 'container-transform':
                cont_pre = []
                for ce, se, _, _ in copies:
                    ce_in, se_in = any(m is ce for m in cont_members), any(m is se for m in cont_members)
                    if se_in and not ce_in:
                        cont_pre.append((ce, digest(ce['o'])))
                    if ce_in and not se_in:
                        cont_pre.append((se, digest(se['o'])))
                vec = [rng.uniform(-2, 2) for _ in range(cont.dimension)]
                which = rng.choice(['translate', 'scale', 'rotate'])
                if which == 'translate':
                    operations.translate(cont, vec, inplace=True)
                elif which == 'scale':
                    operations.scale(cont, 1.5, inplace=True)
                else:
                    operations.rotate(cont, 40, inplace=True)
                cont_dirty_by_element = True     # the transform edits the elements, not the container's own state
                ctx.tag('op:container-transform')
                for m in cont_members:
                    if not read_object(m, 'container-' + which):
                        return
                if not read_container():
                    return
                for other, dg in cont_pre:
                    ctx.check(digest(other['o']) == dg, 'copy/changed-by-container-transform', 'transforming a container changed an '
                              'object that is only a copy / the source of one of its elements', what='copy-independence')
                mutators += 1
                continue
        mutators += 1
        ctx.tag('op:' + desc if desc in ('reverse', 'transpose', 'flip', 'insert', 'remove', 'refine', 'weights', 'ctrlpts', 'delta',
                                          'translate', 'degree', 'knotvector') else 'op:other')
        if read_before:
            ctx.tag('read-mutate-read')
        if in_container:
            cont_dirty_by_element = True
        # ---- shadow of the primary state ---------------------------------------------------------------------------------------------
        if shadow is not None:
            S_now = G.defn_of(o)
            for q in so.probe_params(rng, S_now, nrand=2, maxn=5):
                if not so.clear_of_knots(S_now, q, 1e-9):
                    continue
                try:
                    exp = shadow(q)
                except ValueError:
                    continue
                if not ctx.near(G.evaluate_single(o, q), exp, 1e-9 * sc, 'shadow/%s' % op, 'after %s the shape is not what the operation is '
                                'defined to produce (at %r)' % (op, q), what='shadow'):
                    return
        # ---- reads after the mutation -------------------------------------------------------------------------------------------------
        if not read_object(e, op):
            return
        if in_container and rng.random() < 0.7:
            if not read_container():
                return
        # ---- copies are independent: the other side of every copy pair is bit-identical to what it was right before this edit ----------
        for other, dg, side in counterpart:
            # the derived views of the other side are its own as well (a tessellation component shared by a surface and its deep copy
            # would hand the edited side's mesh to the other one): read the edited object's mesh, then the other side's
            oo = other['o']
            if oo.pdimension == 2 and oo.dimension == 3 and rng.random() < 0.5:
                try:
                    view(o, 'mesh')
                    mine_ = view(oo, 'mesh')
                    exp_ = view(fresh(oo, other['meta']), 'mesh')
                except Exception:
                    mine_ = exp_ = None
                if mine_ is not None:
                    ctx.tag('copy:mesh-of-the-other-side')
                    same_ = len(mine_[0]) == len(exp_[0]) and mine_[1] == exp_[1] and \
                        all(a_[0] == b_[0] and all(abs(x_ - y_) <= 1e-9 * max(1.0, abs(y_)) for x_, y_ in zip(a_[2], b_[2])) for a_, b_ in zip(mine_[0], exp_[0]))
                    ctx.check(same_, 'copy/mesh-follows-other-side', 'after editing %s (%s) and reading its mesh, the mesh of its %s is not the mesh of a '
                              'freshly built object with that definition' % ('the source' if side == 'source' else 'a deep copy', op,
                                                                              'deep copy' if side == 'source' else 'source'), what='copy-independence')
            if side == 'source':
                ctx.check(digest(other['o']) == dg, 'copy/changed-with-source', 'editing the source (%s) changed its deep copy' % op,
                          what='copy-independence')
            else:
                ctx.check(digest(other['o']) == dg, 'copy/source-changed-with-copy', 'editing a deep copy (%s) changed its source' % op,
                          what='copy-independence')
    ctx.nontriv(mutators >= 3 and read_before)
