"""C16 — linear-algebra routines satisfy their defining equations on every call, independent of call history."""
import math
import random
from fractions import Fraction as F

from .. import gen as G, hooks, ref
from ..core import Reject

ID = 'C16'
SHARDS = {'quick': 2, 'thorough': 16}
BUDGET = {'quick': 120, 'thorough': 1200}
RULE = ("cases: call histories of 12..40 calls drawn from {lu_solve, lu_factor, lu_decomposition, forward/backward "
        "substitution, matrix_inverse, matrix_determinant, matrix_pivot, matrix_identity, transpose, multiply, vector and "
        "scalar helpers, linspace, frange} over a small pool of matrices (sizes 1..8; integer, rational and float entries; "
        "needing 0, 1 or several row swaps; a zero on the diagonal; strictly diagonally dominant; B-spline collocation "
        "matrices) so that the same arguments recur after different predecessors. Every call is judged by exact residuals "
        "(A x - b, A A^-1 - I, Leibniz/Bareiss determinant, permutation structure) and logged; equal (function, arguments) "
        "must give bit-equal results. Non-trivial: the history contains a matrix that needs at least one row swap and at "
        "least one repeated (function, arguments) pair; distinct = distinct case hash.")
ASSUMPTIONS = ["CPython float/Fraction arithmetic", "exact linear algebra of nvmon.ref (Gaussian elimination in Fractions)",
               "explored domain: exact condition number <= 1e6, sizes <= 8; tolerance scaled by the exact LU growth factor of the matrix "
               "(non-pivoting lu_solve) or of its exactly partial-pivoted row permutation (lu_factor, inverse, determinant); when that growth "
               "is > 1e3 or a pivot is exactly zero a RETURNED result is still judged (1e-6 relative) under the mechanism key */pivot-breakdown; "
               "raising ZeroDivisionError is not returning a result"]
FLOORS = {'quick': {'lu_factor': 150, 'lu_solve': 150, 'matrix_inverse': 100, 'matrix_determinant': 100,
                    'matrix_pivot': 300, 'matrix_identity': 300, 'same-args-same-result': 500, 'helper': 1000,
                    'lu_solve_must_return': 60},
          'thorough': {'lu_factor': 1500, 'lu_solve': 1500, 'matrix_inverse': 1000, 'same-args-same-result': 5000}}
MANDATORY_TAGS = ['scaled-entries', 'size8', 'size1', 'edit-in-place', 'swaps>=2', 'zero-diagonal', 'diag-dominant', 'collocation', 'float-entries', 'residue-pivot', 'prepivot-breakdown',
                  'rational-entries']
TECHNIQUE = ("runtime monitoring: all-call post-condition hooks on geomdl.linalg with exact-arithmetic residual oracles, plus an "
             "online call-log checker (same arguments => bit-identical result) over randomized call histories")
LEVEL_TEXT = ("Every linalg call the workload makes (directly or nested inside other routines and inside curve fitting) is judged "
              "against its defining equation in rational arithmetic and against earlier calls with the same arguments; holds "
              "on the histories observed, not a proof.")

_CTX = [None]
_LOG = {}
_STATS = {'pairs': 0}


# -- oracles ------------------------------------------------------------------------------------------------------------
def is_matrix(m, square=True):
    try:
        n = len(m)
        if n == 0:
            return False
        for r in m:
            if len(r) != (n if square else len(m[0])):
                return False
            for x in r:
                if not isinstance(x, (int, float)) or isinstance(x, bool) or x != x or abs(x) == float('inf'):
                    return False
    except TypeError:
        return False
    return True


def cond_exact(A):
    try:
        inv = ref.solve(A, [[1 if i == j else 0 for j in range(len(A))] for i in range(len(A))])
    except ZeroDivisionError:
        return None
    return float(ref.inf_norm(A) * ref.inf_norm(inv))


def lu_growth(A):
    """exact Doolittle factors; None if a zero pivot occurs; else max|L|*max|U| / max|A|"""
    n = len(A)
    Af = [[F(x) for x in r] for r in A]
    L = [[F(0)] * n for _ in range(n)]
    U = [[F(0)] * n for _ in range(n)]
    for i in range(n):
        for k in range(i, n):
            U[i][k] = Af[i][k] - sum(L[i][j] * U[j][k] for j in range(i))
        if U[i][i] == 0:
            return None
        for k in range(i, n):
            L[k][i] = F(1) if i == k else (Af[k][i] - sum(L[k][j] * U[j][i] for j in range(i))) / U[i][i]
    amax = max(abs(x) for r in Af for x in r) or F(1)
    return float(max(abs(x) for r in L for x in r) * max(abs(x) for r in U for x in r) / amax)


def apriori_pivoted(A):
    """P*A for the a-priori rule (first largest entry of each column of the ORIGINAL matrix) - the rule matrix_pivot used to implement;
    kept to label the matrices on which that rule breaks down"""
    M = [[F(x) for x in r] for r in A]
    n = len(M)
    for j in range(n):
        row, amax = j, F(0)
        for i in range(j, n):
            if abs(M[i][j]) > amax:
                amax, row = abs(M[i][j]), i
        if row != j:
            M[j], M[row] = M[row], M[j]
    return M


def prepivoted(A):
    """P*A for partial pivoting in exact arithmetic (first largest entry of each column of the ELIMINATED matrix): the reference for what a
    pivoting LU routine can be expected to factorise stably (growth <= 2^(n-1))"""
    M = [[F(x) for x in r] for r in A]
    E = [list(r) for r in M]
    n = len(M)
    for j in range(n):
        row, amax = j, F(0)
        for i in range(j, n):
            if abs(E[i][j]) > amax:
                amax, row = abs(E[i][j]), i
        if row != j:
            M[j], M[row] = M[row], M[j]
            E[j], E[row] = E[row], E[j]
        if E[j][j] != 0:
            for i in range(j + 1, n):
                f = E[i][j] / E[j][j]
                if f:
                    E[i] = [x - f * y for x, y in zip(E[i], E[j])]
    return M


def diag_dominant(A):
    return all(abs(A[i][i]) > sum(abs(A[i][j]) for j in range(len(A)) if j != i) for i in range(len(A)))


def residual_ok(A, X, B, tol=1e-9, growth=1.0):
    """||A X - B||_inf <= tol * (||A|| ||X|| + ||B||), exact evaluation of the float result"""
    try:
        R = ref.matmul(A, X)
    except Exception:
        return False
    na = ref.inf_norm(A)
    nx = max(sum(abs(F(x)) for x in r) for r in X)
    nb = max(sum(abs(F(x)) for x in r) for r in B)
    bound = F(tol) * F(max(1.0, growth)) * (na * nx + nb)
    for rr, rb in zip(R, B):
        for x, y in zip(rr, rb):
            if abs(x - F(y)) > bound:
                return False
    return True


def key_of(fname, a, k):
    return fname + repr(a) + (repr(sorted(k.items())) if k else '')


def log_call(ctx, fname, a, k, res):
    try:
        key = key_of(fname, a, k)
        val = repr(res)
    except Exception:
        return
    if len(key) > 4000:
        return
    old = _LOG.get(key)
    if old is None:
        if len(_LOG) < 200000:
            _LOG[key] = val
        return
    _STATS['pairs'] += 1
    if old != val:
        ctx.fail('history/%s' % fname, '%s returned different results for identical arguments at two points of the call '
                 'history' % fname, args=repr(a)[:600], first=old[:600], later=val[:600])
    else:
        ctx.ok('same-args-same-result')


def install_linalg_hooks(ctx):
    from geomdl import linalg
    _CTX[0] = ctx

    def mk(fname, judge):
        def post(hk, a, k, res, pv):
            c = _CTX[0]
            log_call(c, fname, a, k, res)
            if judge is None:
                return True
            return bool(judge(c, a, k, res, pv))
        return post

    def pre_copy(a, k):
        import copy
        return copy.deepcopy(a)

    def j_identity(c, a, k, res, pv):
        n = a[0]
        ok = len(res) == n and all(len(r) == n and all(r[j] == (1.0 if i == j else 0.0) for j in range(n))
                                   for i, r in enumerate(res))
        c.check(ok, 'identity/not-identity', 'matrix_identity(%d) returned %r' % (n, res), what='matrix_identity')
        return True

    def j_pivot(c, a, k, res, pv):
        m = pv[0]
        if not is_matrix(m):
            return False
        n = len(m)
        mp, p = res[0], res[1]
        ok = is_matrix(p) and len(p) == n and all(sorted(r) == [0.0] * (n - 1) + [1.0] for r in p) and \
            all(sorted(p[i][j] for i in range(n)) == [0.0] * (n - 1) + [1.0] for j in range(n))
        if not c.check(ok, 'pivot/not-permutation', 'matrix_pivot returned P=%r which is not a permutation matrix' % (p,),
                       what='matrix_pivot', m=m):
            return True
        pm = ref.matmul(p, m)
        c.check(all(F(x) == y for r1, r2 in zip(mp, pm) for x, y in zip(r1, r2)) and len(mp) == n, 'pivot/mp-not-P*m',
                'matrix_pivot: returned matrix is not P*M', what='matrix_pivot', m=m, mp=mp, p=p)
        # the purpose of pivoting: for a non-singular (well-conditioned) M the row-permuted matrix has an LU factorisation with bounded growth
        cn_ = cond_exact(m)
        if cn_ is None or cn_ > 1e6:
            return True
        g_ = lu_growth(mp)
        okp = g_ is not None and g_ <= 1.001 * 2.0 ** (n - 1)
        c.check(okp, 'pivot/permuted-matrix-not-lu-factorisable', 'matrix_pivot of a well-conditioned matrix (cond %.3g): LU factorisation of the '
                'returned P*M %s' % (cn_, 'hits a zero pivot' if g_ is None else 'has growth %.3g > 2^(n-1)' % g_),
                what='matrix_pivot', m=m, mp=mp)
        c.check(m == a[0], 'pivot/input-modified', 'matrix_pivot modified its input', what='matrix_pivot')
        if len(res) == 3:
            d = ref.det(p)
            c.check(F(res[2]) == d, 'pivot/sign', 'matrix_pivot sign %r but det(P) = %r' % (res[2], d), what='matrix_pivot')
        return True

    def j_solver(fname, pivoting):
        def j(c, a, k, res, pv):
            A, B = pv[0], pv[1]
            if not is_matrix(A) or not is_matrix(B, square=False) or len(B) != len(A):
                return False
            cn = cond_exact(A)
            if cn is None or cn > 1e6:
                return False
            g = lu_growth(A if not pivoting else prepivoted(A))
            if g is None or g > 1e3:
                # LU of the (pre-pivoted) matrix breaks down / is unstable. Raising is fine; but a result that IS returned for a
                # non-singular matrix must still solve the system (mechanism key of its own: missing / a-priori-only pivoting)
                c.check(residual_ok(A, res, B, tol=1e-6, growth=1e3), 'solve/%s-residual/pivot-breakdown' % fname,
                        '%s returned X with A X != B for a well-conditioned matrix (cond %.3g) whose %s has a zero or vanishing pivot'
                        % (fname, cn, 'LU factorisation after the a-priori row permutation' if pivoting else 'LU factorisation without pivoting'),
                        what=fname + '-breakdown', A=A, B=B, X=res)
                return True
            c.check(residual_ok(A, res, B, growth=g), 'solve/%s-residual' % fname, '%s returned X with A X != B' % fname, what=fname,
                    A=A, B=B, X=res)
            return True
        return j

    def j_inverse(c, a, k, res, pv):
        A = pv[0]
        if not is_matrix(A):
            return False
        cn = cond_exact(A)
        if cn is None or cn > 1e6:
            return False
        n = len(A)
        g = lu_growth(prepivoted(A))
        I = [[1 if i == j else 0 for j in range(n)] for i in range(n)]
        if g is None or g > 1e3:
            c.check(is_matrix(res) and len(res) == n and residual_ok(A, res, I, tol=1e-6, growth=1e3), 'inverse/residual/pivot-breakdown',
                    'matrix_inverse returned a matrix with A * A^-1 != I for a well-conditioned matrix (cond %.3g) whose LU factorisation after the '
                    'a-priori row permutation has a zero or vanishing pivot' % cn, what='matrix_inverse-breakdown', A=A, inv=res)
            return True
        c.check(is_matrix(res) and len(res) == n and residual_ok(A, res, I, growth=g), 'inverse/residual',
                'matrix_inverse: A * A^-1 != I', what='matrix_inverse', A=A, inv=res)
        return True

    def j_det(c, a, k, res, pv):
        A = pv[0]
        if not is_matrix(A):
            return False
        n = len(A)
        d = ref.det_leibniz(A) if n <= 6 else ref.det(A)
        cn = cond_exact(A)
        if cn is None:
            # singular: LUP determinant must be ~0 relative to the Hadamard bound
            had = 1.0
            for r in A:
                had *= max(1e-300, math.sqrt(sum(float(x) ** 2 for x in r)))
            c.check(abs(res) <= 1e-9 * max(1.0, had), 'det/singular', 'determinant of a singular matrix = %r' % res,
                    what='matrix_determinant', A=A)
            return True
        if cn > 1e6:
            return False
        had = 1.0
        for r in A:
            had *= math.sqrt(sum(float(x) ** 2 for x in r))
        g = lu_growth(prepivoted(A))
        if g is None or g > 1e3:
            # mechanism: the a-priori row permutation does not make P*A (stably) LU-factorisable: zero or vanishing pivot
            c.check(abs(F(res) - d) <= F(1e-9) * max(abs(d), F(had) * F(1e-3)), 'det/value/a-priori-pivoting-breakdown',
                    'matrix_determinant = %r, Leibniz determinant = %r (LU of the pre-pivoted matrix hits a zero pivot)'
                    % (res, float(d)), what='matrix_determinant', A=A)
            return True
        c.check(abs(F(res) - d) <= F(1e-9) * F(g) * max(abs(d), F(had) * F(1e-3)), 'det/value',
                'matrix_determinant = %r, Leibniz determinant = %r' % (res, float(d)), what='matrix_determinant', A=A)
        return True

    def j_lu(c, a, k, res, pv):
        A = pv[0]
        if not is_matrix(A):
            return False
        g = lu_growth(A)
        if g is None or g > 1e3:
            return False
        L, U = res
        n = len(A)
        ok = all(L[i][j] == 0 for i in range(n) for j in range(i + 1, n)) and all(U[i][j] == 0 for i in range(n) for j in range(i))
        ok = ok and all(L[i][i] == 1.0 for i in range(n)) and residual_ok(L, U, A)
        c.check(ok, 'lu/decomposition', 'lu_decomposition: L U != A or wrong triangular structure', what='lu_decomposition', A=A)
        return True

    def j_subst(lower):
        def j(c, a, k, res, pv):
            T, y = pv[0], pv[1]
            if not is_matrix(T) or len(y) != len(T) or any(T[i][i] == 0 for i in range(len(T))):
                return False
            n = len(T)
            # exact solution using only the relevant triangle (what the routine is documented to use)
            Tt = [[T[i][j] if (j <= i if lower else j >= i) else 0 for j in range(n)] for i in range(n)]
            if cond_exact(Tt) is None or cond_exact(Tt) > 1e8:
                return False
            c.check(residual_ok(Tt, [[x] for x in res], [[v] for v in y]), 'subst/%s' % ('forward' if lower else 'backward'),
                    '%s substitution result does not satisfy the triangular system' % ('forward' if lower else 'backward'),
                    what='substitution', T=T, y=y, x=res)
            return True
        return j

    def j_transpose(c, a, k, res, pv):
        m = a[0]
        ok = len(res) == len(m[0]) and all(len(r) == len(m) for r in res) and \
            all(res[j][i] == m[i][j] for i in range(len(m)) for j in range(len(m[0])))
        c.check(ok, 'helper/matrix_transpose', 'matrix_transpose wrong', what='helper', m=m)
        return True

    def j_multiply(c, a, k, res, pv):
        m1, m2 = a[0], a[1]
        if not is_matrix(m1, False):
            return False
        if is_matrix(m2, False):
            ex = ref.matmul(m1, m2)
            sc = max(1.0, float(ref.inf_norm(m1) * max(sum(abs(F(x)) for x in r) for r in m2)))
            ok = len(res) == len(ex) and all(abs(F(x) - y) <= F(1e-12) * F(sc) for r1, r2 in zip(res, ex) for x, y in zip(r1, r2))
        else:
            try:
                ex = [sum(F(m1[i][t]) * F(m2[t]) for t in range(len(m2))) for i in range(len(m1))]
            except TypeError:
                return False
            sc = max(1.0, float(ref.inf_norm(m1) * max(abs(F(x)) for x in m2)))
            ok = len(res) == len(ex) and all(abs(F(x) - y) <= F(1e-12) * F(sc) for x, y in zip(res, ex))
        c.check(ok, 'helper/matrix_multiply', 'matrix_multiply differs from the row-by-column definition', what='helper',
                m1=m1, m2=m2)
        return True

    def j_dot(c, a, k, res, pv):
        v1, v2 = a[0], a[1]
        if len(v1) != len(v2):
            return False
        ex = sum(F(x) * F(y) for x, y in zip(v1, v2))
        sc = sum(abs(F(x) * F(y)) for x, y in zip(v1, v2))
        c.check(abs(F(res) - ex) <= F(1e-12) * max(F(1), sc), 'helper/vector_dot', 'vector_dot(%r,%r)=%r' % (v1, v2, res),
                what='helper')
        return True

    def j_cross(c, a, k, res, pv):
        v1 = [F(x) for x in a[0]] + ([F(0)] if len(a[0]) == 2 else [])
        v2 = [F(x) for x in a[1]] + ([F(0)] if len(a[1]) == 2 else [])
        ex = [v1[1] * v2[2] - v1[2] * v2[1], v1[2] * v2[0] - v1[0] * v2[2], v1[0] * v2[1] - v1[1] * v2[0]]
        sc = max(F(1), max(abs(x) for x in v1) * max(abs(x) for x in v2))
        c.check(len(res) == 3 and all(abs(F(x) - y) <= F(1e-12) * sc for x, y in zip(res, ex)), 'helper/vector_cross',
                'vector_cross(%r,%r)=%r' % (a[0], a[1], res), what='helper')
        return True

    def j_mag(c, a, k, res, pv):
        ex = sum(F(x) ** 2 for x in a[0])
        c.check(abs(F(res) ** 2 - ex) <= F(1e-12) * max(F(1), ex), 'helper/vector_magnitude', 'vector_magnitude(%r)=%r'
                % (a[0], res), what='helper')
        return True

    def j_normalize(c, a, k, res, pv):
        v = a[0]
        dec = a[1] if len(a) > 1 else k.get('decimals', 18)
        mag2 = sum(F(x) ** 2 for x in v)
        if mag2 == 0:
            return False
        # the result is rounded to `decimals` places: compare with the exact unit vector within that rounding
        tolf = max(1e-12, 10.0 ** (-int(dec)))
        mag = math.sqrt(float(mag2))
        ok = len(res) == len(v) and all(abs(r - float(x) / mag) <= tolf for r, x in zip(res, v))
        c.check(ok, 'helper/vector_normalize', 'vector_normalize(%r, decimals=%r)=%r is not the unit vector in that direction'
                % (v, dec, res), what='helper')
        return True

    def j_binom(c, a, k, res, pv):
        kk, i = a[0], a[1]
        if not (isinstance(kk, int) and isinstance(i, int)) or kk < 0 or i < 0 or kk > 50:
            return False
        c.check(res == float(math.comb(kk, i)), 'helper/binomial_coefficient', 'binomial_coefficient(%d,%d)=%r' % (kk, i, res),
                what='helper')
        return True

    def j_linspace(c, a, k, res, pv):
        start, stop, num = float(a[0]), float(a[1]), int(a[2])
        if abs(start - stop) <= 10e-8 or num < 2:
            return False
        if start > stop:
            c.count('linspace-descending')
        ok = len(res) == num
        dec = a[3] if len(a) > 3 else k.get('decimals', 18)
        if ok:
            sc = max(abs(start), abs(stop), 1.0)
            for i, x in enumerate(res):
                ex = F(start) + (F(stop) - F(start)) * i / (num - 1)
                if abs(F(x) - ex) > F(max(1e-14 * sc, 10.0 ** (-int(dec)))):
                    ok = False
        c.check(ok, 'helper/linspace', 'linspace(%r,%r,%r) = %r is not the evenly spaced sequence' % (start, stop, num, res),
                what='helper')
        if ok:
            # the sequence spans the interval: its end points are the interval's end points themselves
            c.check(res[0] == start and res[-1] == stop, 'helper/linspace-endpoints', 'linspace(%r,%r,%r) starts at %r and ends at %r'
                    % (start, stop, num, res[0], res[-1]), what='helper')
        return True

    W = hooks.wrap_function
    W(linalg, 'matrix_identity', mk('matrix_identity', j_identity))
    W(linalg, 'matrix_pivot', mk('matrix_pivot', j_pivot), pre=pre_copy)
    W(linalg, 'lu_solve', mk('lu_solve', j_solver('lu_solve', False)), pre=pre_copy)
    W(linalg, 'lu_factor', mk('lu_factor', j_solver('lu_factor', True)), pre=pre_copy)
    W(linalg, 'matrix_inverse', mk('matrix_inverse', j_inverse), pre=pre_copy)
    W(linalg, 'matrix_determinant', mk('matrix_determinant', j_det), pre=pre_copy)
    W(linalg, 'lu_decomposition', mk('lu_decomposition', j_lu), pre=pre_copy)
    W(linalg, 'forward_substitution', mk('forward_substitution', j_subst(True)), pre=pre_copy)
    W(linalg, 'backward_substitution', mk('backward_substitution', j_subst(False)), pre=pre_copy)
    W(linalg, 'matrix_transpose', mk('matrix_transpose', j_transpose))
    W(linalg, 'matrix_multiply', mk('matrix_multiply', j_multiply))
    W(linalg, 'vector_dot', mk('vector_dot', j_dot))
    W(linalg, 'vector_cross', mk('vector_cross', j_cross))
    W(linalg, 'vector_magnitude', mk('vector_magnitude', j_mag))
    W(linalg, 'vector_normalize', mk('vector_normalize', j_normalize))
    W(linalg, 'binomial_coefficient', mk('binomial_coefficient', j_binom))
    W(linalg, 'linspace', mk('linspace', j_linspace))


def setup(ctx):
    install_linalg_hooks(ctx)


def teardown(ctx):
    ctx.notes['hooks'] = hooks.report()
    ctx.notes['repeated_call_pairs_compared'] = _STATS['pairs']
    ctx.notes['distinct_logged_calls'] = len(_LOG)


# -- generators -----------------------------------------------------------------------------------------------------------
def rand_matrix(rng, n, cls):
    for _ in range(200):
        if cls == 'int':
            A = [[rng.randint(-9, 9) for _ in range(n)] for _ in range(n)]
        elif cls == 'float':
            A = [[rng.uniform(-5, 5) for _ in range(n)] for _ in range(n)]
        elif cls == 'rational':
            A = [[rng.randint(-9, 9) / rng.choice([1.0, 2.0, 3.0, 7.0, 8.0]) for _ in range(n)] for _ in range(n)]
        elif cls == 'diagdom':
            A = [[float(rng.randint(-4, 4)) for _ in range(n)] for _ in range(n)]
            for i in range(n):
                A[i][i] = float((sum(abs(A[i][j]) for j in range(n) if j != i) + rng.randint(1, 4)) * rng.choice([-1, 1]))
        elif cls == 'zerodiag':
            A = [[rng.randint(-9, 9) for _ in range(n)] for _ in range(n)]
            A[rng.randrange(n)][rng.randrange(n)] = 0
            A[0][0] = 0
        elif cls == 'needswaps':
            A = [[rng.randint(-2, 2) for _ in range(n)] for _ in range(n)]
            perm = list(range(n))
            rng.shuffle(perm)
            for i in range(n):
                A[i][perm[i]] = rng.choice([-9, 9, 8, -8])
        elif cls == 'breakdown':
            # non-singular, but the documented a-priori pivoting leaves a singular leading 2x2 block
            A = [[rng.randint(-8, 8) for _ in range(n)] for _ in range(n)]
            if n >= 3:
                s1, s2 = rng.choice([-9, 9]), rng.choice([-9, 9])
                A[0][0] = A[1][0] = s1
                A[0][1] = A[1][1] = s2
        elif cls == 'residue':
            # as 'breakdown', but the multiplier of the proportional leading rows is not a binary fraction: the exactly-zero second pivot
            # comes out of floating-point elimination as a rounding residue of ~1e-16 instead of 0.0
            A = [[rng.randint(-8, 8) for _ in range(n)] for _ in range(n)]
            if n >= 3:
                for _t in range(100):
                    a_, c_, t_ = rng.choice([49, 98, 7, 3, 11, 13, 21, 35, 77]), rng.randint(1, 9), rng.choice([1, 1, 2, 3])
                    if a_ > c_ and (c_ / a_) * (a_ * t_) != c_ * t_:
                        break
                sg = rng.choice([-1, 1])
                A[0][0], A[0][1], A[1][0], A[1][1] = sg * a_, sg * a_ * t_, c_, c_ * t_
        else:
            raise ValueError(cls)
        c = cond_exact(A)
        if c is not None and c <= 1e5:
            return A
    return [[1.0 if i == j else 0.0 for j in range(n)] for i in range(n)]


def n_swaps(A):
    """row swaps partial pivoting performs (exact arithmetic, same rule as the documented algorithm: first largest)"""
    M = [[F(x) for x in r] for r in A]
    n = len(M)
    s = 0
    for j in range(n):
        row = max(range(j, n), key=lambda i: (abs(M[i][j]), -i))
        if abs(M[row][j]) == 0:
            row = j
        if row != j:
            M[j], M[row] = M[row], M[j]
            s += 1
    return s


def collocation(rng):
    """B-spline collocation matrix of a global interpolation problem (chord-length parameters, averaged knots)"""
    n = rng.randint(3, 8)
    p = rng.randint(1, min(4, n - 1))
    pts = [0.0]
    for _ in range(n - 1):
        pts.append(pts[-1] + rng.uniform(0.1, 2.0))
    uk = [(x - pts[0]) / (pts[-1] - pts[0]) for x in pts]
    kv = [0.0] * (p + 1) + [sum(uk[j:j + p]) / p for j in range(1, n - p)] + [1.0] * (p + 1)
    A = []
    for u in uk:
        sp = ref.find_span(p, [F(k) for k in kv], F(u))
        b = ref.basis_span(p, [F(k) for k in kv], sp, F(u))
        A.append([float(b.get(j, 0)) for j in range(n)])
    return A


def gen(rng, tier, shard, nshards):
    if shard == 0:
        yield {'kind': 'ambient-suite'}
    n = 160 if tier == 'quick' else 900
    for i in range(n):
        yield {'kind': 'history', 'seed': rng.randrange(1 << 30), 'steps': rng.randint(12, 40),
               'sizes': [rng.choice([1, 2, 3, 3, 4, 5, 6, 7, 8]) for _ in range(3)]}
        if i % 8 == 0:
            yield {'kind': 'fitting', 'seed': rng.randrange(1 << 30)}
        if i % 5 == 0:
            yield {'kind': 'helpers', 'seed': rng.randrange(1 << 30)}


def check(case, ctx):
    if case.get('kind') == 'ambient-suite':
        from .. import ambient
        ctx.nontriv(True)
        return ambient.run_repo_suite(ctx, 'linalg or fit or helpers or curve')
    if case['kind'] == 'history':
        return check_history(case, ctx)
    if case['kind'] == 'fitting':
        return check_fitting(case, ctx)
    if case['kind'] == 'helpers':
        return check_helpers(case, ctx)
    raise Reject()


def check_history(case, ctx):
    from geomdl import linalg
    rng = random.Random(case['seed'])
    pool = []
    classes = ['int', 'float', 'rational', 'diagdom', 'zerodiag', 'needswaps', 'breakdown', 'residue']
    for n in case['sizes']:
        cls = rng.choice(classes)
        A = rand_matrix(rng, n, cls)
        if rng.random() < 0.15:
            # the same matrix in other units (an exact power of two): entries and pivots of 1e-9 .. 1e-12 or 1e9 are as good as those of
            # order one - nothing about a linear system is absolute
            s_ = rng.choice([2.0 ** -30, 2.0 ** -40, 2.0 ** 30])
            A = [[x * s_ for x in row] for row in A]
            ctx.tag('scaled-entries')
        pool.append((A, cls))
        ctx.tag('size%d' % n)
        sw = n_swaps(A)
        ctx.tag('swaps>=2' if sw >= 2 else 'swaps%d' % sw)
        if any(A[i][i] == 0 for i in range(n)):
            ctx.tag('zero-diagonal')
        if cls == 'diagdom':
            ctx.tag('diag-dominant')
        if cls == 'residue' and n >= 3:
            ctx.tag('residue-pivot')
        if lu_growth(apriori_pivoted(A)) is None:
            ctx.tag('prepivot-breakdown')
        ctx.tag({'float': 'float-entries', 'rational': 'rational-entries'}.get(cls, 'int-entries'))
    if rng.random() < 0.5:
        A = collocation(rng)
        pool.append((A, 'collocation'))
        ctx.tag('collocation')
    rhs = {}
    for A, _ in pool:
        n = len(A)
        rhs[id(A)] = []
        for _ in range(2):
            cols = rng.choice([1, 2, 3])
            rhs[id(A)].append([[float(rng.randint(-9, 9)) for _ in range(cols)] for _ in range(n)])
    ctx.nontriv(any(n_swaps(A) >= 1 for A, _ in pool))
    ops = ['lu_factor', 'lu_solve', 'matrix_inverse', 'matrix_determinant', 'matrix_pivot', 'matrix_pivot_sign',
           'matrix_identity', 'lu_decomposition', 'transpose_multiply', 'edit-in-place', 'edit-in-place']
    for _ in range(case['steps']):
        A, cls = rng.choice(pool)
        n = len(A)
        B = rng.choice(rhs[id(A)])
        op = rng.choice(ops)
        if op == 'edit-in-place':
            # a caller re-uses one work matrix: the SAME list object is refilled in place between two solves; routines must go by the
            # values, not by the identity of the object (the hooks judge every call against a deep copy taken at call time)
            ctx.tag('edit-in-place')
            W = rand_matrix(rng, n, 'diagdom')
            first = rng.choice(['lu_solve', 'lu_decomposition', 'lu_factor', 'matrix_inverse', 'matrix_determinant'])
            second = rng.choice(['lu_solve', 'lu_decomposition', 'lu_factor', 'matrix_inverse', 'matrix_determinant'])

            def run(name):
                if name in ('lu_solve', 'lu_factor'):
                    return getattr(linalg, name)(W, B)
                return getattr(linalg, name)(W)
            r1 = run(first)
            W2 = rand_matrix(rng, n, 'diagdom')
            for i in range(n):
                W[i][:] = W2[i]
            if first == 'lu_decomposition' and rng.random() < 0.5:
                r1[0][0][0] = 7.0          # a caller may scribble on what it got back
                r1[1][n - 1][n - 1] = 0.0
            run(second)
            continue
        before = [list(r) for r in A]
        bbefore = [list(r) for r in B]
        if op in ('lu_factor', 'matrix_inverse'):
            try:
                linalg.lu_factor(A, B) if op == 'lu_factor' else linalg.matrix_inverse(A)
            except ZeroDivisionError:
                # raising is not "returning a result"; only allowed when LU of the pre-pivoted matrix really breaks down
                g = lu_growth(prepivoted(A))
                ctx.check(g is None or g > 1e3, 'solve/%s-raised' % op, '%s raised ZeroDivisionError although P*A has a stable LU '
                          'factorisation' % op, what='raise-justified', A=A)
        elif op == 'lu_solve':
            must = cls in ('diagdom', 'collocation')
            try:
                linalg.lu_solve(A, B)
                if must:
                    ctx.ok('lu_solve_must_return')
            except ZeroDivisionError:
                if must:
                    ctx.fail('solve/lu_solve-raised', 'lu_solve raised ZeroDivisionError for a %s matrix' % cls, A=A, B=B)
                else:
                    ctx.count('lu_solve_raised_for_matrix_needing_pivoting')
        elif op == 'matrix_determinant':
            linalg.matrix_determinant(A)
        elif op == 'matrix_pivot':
            linalg.matrix_pivot(A)
        elif op == 'matrix_pivot_sign':
            linalg.matrix_pivot(A, sign=True)
        elif op == 'matrix_identity':
            linalg.matrix_identity(rng.choice([n, n, 2, 3]))
        elif op == 'lu_decomposition':
            linalg.lu_decomposition(A)
        else:
            linalg.matrix_multiply(linalg.matrix_transpose(A), A)
        ctx.check(A == before and B == bbefore, 'input-modified/%s' % op, '%s modified its arguments' % op, what='inputs-intact')


def check_fitting(case, ctx):
    """curve interpolation drives lu_solve on real collocation matrices (nested calls are judged by the hooks)"""
    from geomdl import fitting
    rng = random.Random(case['seed'])
    n = rng.randint(3, 12)
    dim = rng.choice([2, 3])
    pts = [[0.0] * dim]
    for _ in range(n - 1):
        pts.append([a + rng.uniform(0.2, 1.5) * rng.choice([-1, 1]) for a in pts[-1]])
    deg = rng.randint(1, min(4, n - 1))
    ctx.nontriv(True)
    ctx.tag('collocation')
    try:
        fitting.interpolate_curve(pts, deg, centripetal=rng.random() < 0.5)
        ctx.ok('lu_solve_must_return')
    except ZeroDivisionError:
        ctx.fail('solve/lu_solve-raised', 'lu_solve raised inside interpolate_curve (collocation matrix)', pts=pts, degree=deg)


def check_helpers(case, ctx):
    from geomdl import linalg
    rng = random.Random(case['seed'])
    ctx.nontriv(True)
    for _ in range(12):
        d = rng.choice([2, 3])
        cls = rng.choice(['int', 'float'])
        mk = (lambda: [float(rng.randint(-9, 9)) for _ in range(d)]) if cls == 'int' else \
            (lambda: [rng.uniform(-1e3, 1e3) for _ in range(d)])
        v1, v2 = mk(), mk()
        linalg.vector_dot(v1, v2)
        linalg.vector_cross(v1, v2)
        linalg.vector_magnitude(v1)
        if any(v1):
            linalg.vector_normalize(v1)
        kk = rng.randint(0, 20)
        linalg.binomial_coefficient(kk, rng.randint(0, kk + 2))
        kb = rng.randint(21, 60)                      # factorials beyond 2^53: the quotient is still an exactly representable integer
        linalg.binomial_coefficient(kb, rng.randint(0, min(kb, 8)))
        a = rng.choice([0.0, -3.0, 2.5, rng.uniform(-10, 10)])
        b = a + rng.choice([1.0, 0.5, 7.25, rng.uniform(0.01, 20)])
        nn = rng.randint(2, 40)
        linalg.linspace(a, b, nn)
        linalg.linspace(b, a, nn)          # descending intervals are evenly spaced sequences too
        m_ = rng.randint(1, 12)
        step = (b - a) / m_
        seq = list(linalg.frange(a, b, step))
        # a step that divides the interval: exactly m + 1 values, the end value once (not once more a rounding error before it)
        ok = seq[0] == a and all(y > x for x, y in zip(seq, seq[1:])) and \
            all(y - x <= step * (1 + 1e-9) for x, y in zip(seq, seq[1:])) and seq[-1] == b and len(seq) == m_ + 1
        ctx.check(ok, 'helper/frange', 'frange(%r,%r,%r) = %r (%d values, expected %d)' % (a, b, step, seq, len(seq), m_ + 1), what='helper')
        # any other step: start + i * step while inside the interval, then the end value - nothing beyond it
        st2 = (b - a) * rng.uniform(0.12, 0.95)
        seq2 = list(linalg.frange(a, b, st2))
        ok2 = seq2[0] == a and seq2[-1] == b and all(a <= x <= b for x in seq2) and all(y > x for x, y in zip(seq2, seq2[1:])) and \
            all(abs(x - (a + i * st2)) <= 1e-12 * max(1.0, abs(a), abs(b)) for i, x in enumerate(seq2[:-1])) and \
            seq2[-1] - seq2[-2] <= st2 * (1 + 1e-9)
        ctx.check(ok2, 'helper/frange', 'frange(%r,%r,%r) = %r' % (a, b, st2, seq2), what='helper')
        r, c_ = rng.randint(1, 5), rng.randint(1, 5)
        M = [[float(rng.randint(-9, 9)) for _ in range(c_)] for _ in range(r)]
        linalg.matrix_transpose(M)
        nc = rng.randint(1, 4)
        N = [[float(rng.randint(-9, 9)) for _ in range(nc)] for _ in range(c_)]
        linalg.matrix_multiply(M, N)
        linalg.matrix_multiply(M, [float(rng.randint(-9, 9)) for _ in range(c_)])
