"""C06 — removing a removable knot is exact and inverts insertion."""
import random
from collections import Counter
from fractions import Fraction as F

from .. import gen as G, hooks, ref, shapeops as so
from ..core import Reject

ID = 'C06'
SHARDS = {'quick': 4, 'thorough': 16}
BUDGET = {'quick': 150, 'thorough': 1500}
RULE = ("cases: random clamped shapes (curve/surface/volume, rational or not, normalised or not) with a seeded history that makes "
        "knots removable (1..p-s insertions of one or two parameters in any direction, or refine_knotvector) and then removes "
        "1..r copies again (operations.remove_knot or the remove_knot method, any interleaving of two knots); judged after every "
        "removal: live object and new definition equal the exact reference of the ORIGINAL, knot vector lost exactly the "
        "requested copies, net shrank by that count in that direction only, and after removing all inserted copies the control "
        "points equal the originals (1e-8*scale). Non-trivial: at least one removal of a knot created by an insertion with "
        "r >= 1 in a direction with an interior span structure or a rational shape; distinct = distinct case hash.")
ASSUMPTIONS = ["nvmon.ref exact reference model", "only removable knots are removed (created by insertion/refinement in the same "
               "history), named either by the value read back from the object or - in the caller-value histories - by the very float the caller inserted",
               "explored domain of DESIGN.md section 3; tolerance 1e-9*scale (1e-8*scale for restored control points), widened only by the "
               "conditioning of the PROBLEM: 1e-14 * product over the removals of the smaller of the two chain products of Eq. 5.28 for the best "
               "meeting point (reported as max_conditioning_factor_applied; 1..3 in practice) - not by what Algorithm A5.8 as printed amplifies"]
FLOORS = {'quick': {'removal': 300, 'probe-lib': 3000, 'probe-defn': 3000, 'structure': 300, 'restored': 120},
          'thorough': {'removal': 4000, 'probe-lib': 40000, 'restored': 1500}}
MANDATORY_TAGS = ['helper-default:ulp-below', 'large', 'pdim1', 'pdim2', 'pdim3', 'rational', 'multi-dir-one-call', 'partial-removal', 'full-removal', 'after-refine', 'interleaved',
                  'via:method', 'via:operations', 'dir:u', 'dir:v', 'dir:w', 'on-knot', 'in-span', 'caller-value-removal', 'big-coordinates', 'tuple-knot-vector', 'unclamped', 'on-domain-end', 'short-knot-range', 'multiplicity-p+1-removal']
TECHNIQUE = ("runtime monitoring: shadow-model oracle (exact reference of the original definition + remembered original control "
             "points) evaluated after every removal step of a seeded insert/refine/remove history")
LEVEL_TEXT = ("Every removal the workload performs is compared exactly with the original shape and structurally with the expected "
              "knot vector / net; full removal must restore the original control points; holds on the histories observed.")


def gen(rng, tier, shard, nshards):
    n = 70 if tier == 'quick' else 650
    forced = [dict(pdim=3, rational=True), dict(pdim=3, rational=False), dict(pdim=2, normalize=False, lohi=(-3.0, 7.5)),
              dict(pdim=1, kvcls='fullmult'), dict(pdim=2, rational=True), dict(pdim=1, rational=True)]
    for i in range(n):
        if shard == 0 and i < len(forced):
            kw = dict(forced[i])
        else:
            kw = dict(pdim=rng.choice([1, 1, 2, 2, 3]), normalize=rng.random() < 0.7)
        pd = kw.pop('pdim')
        kw.setdefault('maxextra', {1: 6, 2: 4, 3: 2}[pd])
        if 'lohi' not in kw and rng.random() < 0.1:
            # an un-normalised knot vector on a very short (or long) range: tolerances of the library must be relative to that range
            a_ = rng.choice([0.0, 5.0, -2.0 ** -21])
            kw.update(normalize=False, lohi=(a_, a_ + rng.choice([2.0 ** -20, 2.0 ** -17, 2.0 ** 12])))
        if 'lohi' not in kw and 'kvcls' not in kw and not (shard == 0 and i < len(forced)) and rng.random() < 0.06:
            kw['large'] = True         # degree up to 10 / 40 control points; one long, high-degree direction for surfaces and volumes
        unclamped = 'kvcls' not in kw and rng.random() < 0.25
        sd = G.rand_shape(rng, pd, clamped_only=not unclamped, **(dict(kw, kvcls=rng.choice(['unclamped', 'unclamped_rep'])) if unclamped else kw))
        yield {'kind': 'history', 'sd': sd, 'seed': rng.randrange(1 << 30),
               'mode': rng.choice(['single', 'single', 'single', 'two', 'two', 'refine', 'multi-dir', 'multi-dir'])}
        if i % 5 == 3:
            sd4 = G.rand_shape(rng, 1, clamped_only=True, kvcls='random', maxextra=4, maxdeg=4, normalize=rng.random() < 0.7)
            yield {'kind': 'history', 'sd': sd4, 'seed': rng.randrange(1 << 30) | 1, 'mode': 'full-plus-one'}
        if i % 3 == 2:
            # large, uniformly offset coordinates (UTM metres, millimetres): removability must not be decided on an absolute scale
            sd3 = G.rand_shape(rng, 1, clamped_only=True, mindeg=4, maxdeg=7, maxextra=2, rational=rng.random() < 0.3, normalize=True)
            off = [rng.uniform(1e5, 5e6) for _ in sd3['ctrlpts'][0]]
            sd3['ctrlpts'] = [[o_ + 1e3 * c for o_, c in zip(off, pt)] for pt in sd3['ctrlpts']]
            yield {'kind': 'history', 'sd': sd3, 'seed': rng.randrange(1 << 30) | 1, 'mode': 'single', 'bigcoords': True}
        if i % 3 == 1:
            sd2 = G.rand_shape(rng, pd, clamped_only=True, mindeg=2, **kw)
            yield {'kind': 'history', 'sd': sd2, 'seed': rng.randrange(1 << 30) | 1, 'mode': rng.choice(['single', 'single', 'two']),
                   'uservalue': True}
            yield {'kind': 'helper-default', 'seed': rng.randrange(1 << 30)}
            # the same on a curve through the METHOD route with small decimal values (1/300: the object stores another double)
            sd5 = G.rand_shape(rng, 1, clamped_only=True, mindeg=2, maxextra=5, normalize=True)
            yield {'kind': 'history', 'sd': sd5, 'seed': rng.randrange(1 << 30) | 1, 'mode': 'single', 'uservalue': True, 'method_only': True}


def stored_knot(o, d, u):
    """the knot value as stored by the object that is nearest to u (what a user reads back before removing it)"""
    U = G.kvs_of(o)[d]
    return min(U, key=lambda k: abs(k - u))


def removal_amplification(p, U, u, num):
    """A-priori conditioning of removing u `num` times from U (Eq. 5.28 of The NURBS Book): every single removal solves
    P[i] = a_i Q[i] + (1 - a_i) Q[i-1], i = first..last, for the new points Q - from the left (divide by a_i) up to some index m and
    from the right (divide by 1 - a_i) down to it; a rounding error of eps*|P| grows by at most 1/a_i resp. 1/(1 - a_i) per chain
    step. The meeting point is free, so the conditioning of the PROBLEM is the best choice of m (an implementation that always meets
    in the middle, as Algorithm A5.8 is printed, may do much worse: that is its defect, not conditioning). Returned: the product over
    the `num` removals of min over m of the larger chain product (>= 1), computed from the knot vector alone."""
    U = list(U)
    rng_ = abs(U[-1] - U[0]) or 1.0
    total = 1.0
    for _t in range(num):
        idx = [i for i, k in enumerate(U) if abs(k - u) <= 1e-12 * max(1.0, rng_)]
        if not idx:
            return total
        r, s = idx[-1], len(idx)
        first, last = r - p, r - s
        if last >= first:
            try:
                al = [(u - U[i]) / (U[i + p + 1] - U[i]) for i in range(first, last + 1)]
            except (ZeroDivisionError, IndexError):
                return float('inf')
            best = float('inf')
            for m in range(len(al)):
                left = right = 1.0
                for a in al[:m]:
                    left *= 1.0 / max(abs(a), 1e-300)
                for a in al[m + 1:]:
                    right *= 1.0 / max(abs(1.0 - a), 1e-300)
                best = min(best, max(left, right))
            total *= max(1.0, best)
        del U[r]
    return total


def removal_structure(ctx, pre, post, d, u, r):
    ok = post['degrees'] == pre['degrees']
    for e in range(pre['pdim']):
        rng_ = abs(pre['kvs'][e][-1] - pre['kvs'][e][0])
        tol = 1e-12 * max(1.0, rng_)
        if e == d:
            exp = list(pre['kvs'][e])
            for _ in range(r):
                j = min(range(len(exp)), key=lambda i: abs(exp[i] - u))
                if abs(exp[j] - u) > tol:
                    return ctx.check(False, 'structure', 'harness: knot %r not present before removal' % u, what='structure')
                del exp[j]
            ok = ok and post['sizes'][e] == pre['sizes'][e] - r and so.kv_multiset_equal(post['kvs'][e], exp, tol)
        else:
            ok = ok and post['sizes'][e] == pre['sizes'][e] and len(post['kvs'][e]) == len(pre['kvs'][e]) and \
                all(abs(x - y) <= tol for x, y in zip(post['kvs'][e], pre['kvs'][e]))
    n = 1
    for s in post['sizes']:
        n *= s
    ok = ok and len(post['hom']) == n
    return ctx.check(ok, 'structure', 'after removing %r x%d in direction %d knot vectors / sizes are not "old minus r copies; '
                     '-r in that direction only": sizes %r -> %r' % (u, r, d, pre['sizes'], post['sizes']), what='structure')


def build_shared_kv(sd, rng):
    """surface whose two directions have equal degree and size and are given the SAME list object as knot vector (possible when
    knot vectors are not normalised: the setters then keep the caller's list)"""
    from geomdl import BSpline, NURBS
    p = sd['degrees'][0]
    n = sd['sizes'][0]
    sd2 = dict(sd, degrees=[p, p], sizes=[n, n], normalize_kv=False)
    kv = G.knot_vector(rng, p, n, 'bezier' if n == p + 1 else 'random', (0.0, 2.0))
    sd2['kvs'] = [kv, kv]
    sd2['ctrlpts'] = [G.rand_point(rng, 3, 'uniform') for _ in range(n * n)]
    if sd['rational']:
        sd2['weights'] = G.rand_weights(rng, n * n, 'uniform')
    o = (NURBS if sd['rational'] else BSpline).Surface(normalize_kv=False)
    o.degree_u = o.degree_v = p
    o.set_ctrlpts(G.ctrlptsw_of(sd2), n, n)
    o.knotvector_u = kv
    o.knotvector_v = kv        # same object on purpose
    return o, sd2


def check_shared(case, ctx, rng):
    """the knot to be removed already sits in a knot vector whose list object is shared by both directions"""
    from geomdl import operations, BSpline, NURBS
    sd = case['sd']
    o, sd = build_shared_kv(sd, rng)
    ctx.tag('shared-kv-object', 'pdim2', 'rational' if sd['rational'] else 'nonrational', 'unnormalized')
    S0 = G.defn_of(o)
    sc = so.scale_of_defn(S0)
    p = sd['degrees'][0]
    pick = so.pick_insertion(rng, o, 0, prefer_knot=0.0, mindist=0.05)
    if pick is None:
        raise Reject()
    x = pick[0]
    r = rng.randint(1, p)
    operations.insert_knot(o, [x, x], [r, r])
    kv = list(o.knotvector_u)
    o2 = (NURBS if sd['rational'] else BSpline).Surface(normalize_kv=False)
    o2.degree_u = o2.degree_v = p
    o2.set_ctrlpts(G.hom_pts_of(o), *G.sizes_of(o))
    o2.knotvector_u = kv
    o2.knotvector_v = kv          # one list object for both directions
    d = rng.randrange(2)
    k = rng.randint(1, r)
    pre = G.snapshot(o2)
    with so.quiet():
        so.call_remove(o2, d, x, k, rng.choice(['operations', 'method']))
    post = G.snapshot(o2)
    ctx.ok('removal')
    ctx.tag('via:operations', 'dir:' + 'uv'[d], 'partial-removal' if k < r else 'full-removal')
    if not removal_structure(ctx, pre, post, d, x, k):
        return
    S1 = G.defn_of_snapshot(post)
    probes = [q for q in so.probe_params(rng, S0, nrand=6, maxn=20) if so.clear_of_knots(S1, q)]
    if so.compare_object(ctx, o2, S0, probes, 1e-9 * sc, 'shape-changed/library-eval', 'knot vectors sharing one list object: removing %r x%d in '
                         'direction %d changed the shape' % (x, k, d), 'probe-lib'):
        so.compare_defns(ctx, S1, S0, probes, 1e-9 * sc, 'shape-changed/definition', 'shared knot-vector object: definition differs', 'probe-defn')
    ctx.nontriv(True)


def check_full_plus_one(case, ctx, rng):
    """a removable interior knot stored with multiplicity p + 1 (junction control point stored twice - what joining two pieces end to
    end gives): all p + 1 copies can be removed, and removing them restores the original"""
    from geomdl import operations, BSpline, NURBS
    sd = case['sd']
    o = G.build(sd)
    S0 = G.defn_of(o)
    sc = so.scale_of_defn(S0)
    p = sd['degrees'][0]
    pick = so.pick_insertion(rng, o, 0, prefer_knot=0.0, mindist=0.05)
    if pick is None or pick[2] != 'in-span':
        raise Reject()
    u = pick[0]
    operations.insert_knot(o, [u], [p])
    kv = list(o.knotvector)
    us = stored_knot(o, 0, u)
    first = kv.index(us)
    hom = [list(q) for q in G.hom_pts_of(o)]
    hom2 = hom[:first] + [list(hom[first - 1])] + hom[first:]          # the point C(u) once more
    kv2 = kv[:first] + [us] + kv[first:]
    o2 = (NURBS if sd['rational'] else BSpline).Curve(normalize_kv=sd['normalize_kv'])
    o2.degree = p
    o2.set_ctrlpts(hom2)
    o2.knotvector = kv2
    ctx.tag('multiplicity-p+1-removal', 'pdim1', 'rational' if sd['rational'] else 'nonrational')
    probes = [q for q in so.probe_params(rng, S0, nrand=6, maxn=20) if so.clear_of_knots(G.defn_of(o2), q) and abs(q[0] - us) > 1e-9]
    if not so.compare_object(ctx, o2, S0, probes, 1e-9 * sc, 'harness/p+1-construction', 'harness: the multiplicity p+1 form is not the same curve',
                             'probe-lib'):
        return
    r = rng.choice([p + 1, p + 1, rng.randint(1, p)])
    pre = G.snapshot(o2)
    with so.quiet():
        so.call_remove(o2, 0, stored_knot(o2, 0, us), r, rng.choice(['operations', 'method']))
    post = G.snapshot(o2)
    ctx.ok('removal')
    ctx.tag('via:operations', 'dir:u', 'full-removal' if r == p + 1 else 'partial-removal')
    if not removal_structure(ctx, pre, post, 0, stored_knot(o2, 0, us) if r < p + 1 else us, r):
        return
    S1 = G.defn_of_snapshot(post)
    good = [q for q in probes if so.clear_of_knots(S1, q)]
    if so.compare_object(ctx, o2, S0, good, 1e-8 * sc, 'shape-changed/library-eval', 'removing %d of the %d copies of a removable knot of multiplicity '
                         'p+1 changed the curve' % (r, p + 1), 'probe-lib'):
        so.compare_defns(ctx, S1, S0, good, 1e-8 * sc, 'shape-changed/definition', 'multiplicity p+1 removal: definition differs', 'probe-defn')
    ctx.nontriv(True)


def check_helper_default(case, ctx):
    """helpers.knot_insertion then helpers.knot_removal with the same parameter and count, both left to work out multiplicity and span
    themselves: the control points come back - also for a parameter that is an existing knot up to rounding"""
    import math
    from collections import Counter
    from geomdl import helpers
    rng = random.Random(case['seed'])
    p = rng.randint(2, 5)
    n = p + 2 + rng.randint(0, 6)
    U = G.knot_vector(rng, p, n, rng.choice(['uniform', 'random', 'random']), rng.choice([(0.0, 1.0), (0.0, 1.0), (2.0, 5.0)]))
    cnt = Counter(U)
    inner = [k for k in sorted(set(U[p + 1:n])) if cnt[k] <= p - 1]
    how = rng.choice(['exact', 'ulp-below', 'ulp-above', 'new'])
    if how == 'new' or not inner:
        how = 'new'
        d_ = sorted(set(U))
        i_ = rng.randrange(len(d_) - 1)
        u = d_[i_] + rng.uniform(0.2, 0.8) * (d_[i_ + 1] - d_[i_])
        k, s0 = u, 0
    else:
        k = rng.choice(inner)
        s0 = cnt[k]
        u = k if how == 'exact' else math.nextafter(k, -math.inf if how == 'ulp-below' else math.inf)
    r = rng.randint(1, p - s0)
    dim = rng.choice([2, 3])
    P = [[rng.uniform(-10, 10) for _ in range(dim)] for _ in range(n)]
    ctx.tag('helper-default', 'helper-default:' + how)
    ctx.nontriv(True)
    with hooks.suspended():
        Q = helpers.knot_insertion(p, list(U), [list(q) for q in P], u, num=r)
        kvq = sorted(list(U) + [k] * r)
        R = helpers.knot_removal(p, kvq, [list(q) for q in Q], u, num=r)
    sc = max(1.0, max(abs(x) for q in P for x in q))
    ok = len(R) == n and all(abs(a - b) <= 1e-8 * sc for q0, q1 in zip(P, R) for a, b in zip(q0, q1))
    ctx.check(ok, 'helper-default/not-restored', 'helpers.knot_insertion(u=%r, num=%d) then helpers.knot_removal(u=%r, num=%d), both without s / '
              'span (u is %s): %d control points, deviation %s' % (u, r, u, r, {'exact': 'an existing knot', 'new': 'a new knot'}.get(
                  how, 'one ulp beside the knot %r' % k), len(R),
                  max([abs(a - b) for q0, q1 in zip(P, R) for a, b in zip(q0, q1)]) if len(R) == n else 'n/a'), what='restored', kv=list(U))


def check(case, ctx):
    if case.get('kind') == 'helper-default':
        return check_helper_default(case, ctx)
    from geomdl import operations
    sd = case['sd']
    if case.get('mode') == 'full-plus-one':
        return check_full_plus_one(case, ctx, random.Random(case['seed']))
    rng = random.Random(case['seed'])
    pdim = sd['pdim']
    if pdim == 2 and case['seed'] % 7 == 0:
        return check_shared(case, ctx, rng)
    o = G.build(sd)
    S0 = G.defn_of(o)
    orig = G.snapshot(o)
    sc = so.scale_of_defn(S0)
    tol = 1e-9 * sc
    cond = {'amp': 1.0, 'removed': {}}    # conditioning of the removals performed so far (see note_removal)

    def note_removal(d, u, r):
        # knot removal divides by alpha_i (from the left) or 1 - alpha_i (from the right) once per chain step: the acceptance band is
        # widened by the conditioning of the PROBLEM (best meeting point of the two chains; never below the 1e-9 policy), not by what
        # an unlucky choice of the meeting point would cost
        U = G.kvs_of(o)[d]
        key = (d, round(u, 12))
        cond['removed'][key] = cond['removed'].get(key, 0) + r
        # the chain products of Eq. 5.28 on this knot vector for the best meeting point of the two recursions
        cond['chain'] = cond.get('chain', 1.0) * removal_amplification(G.degrees_of(o)[d], list(U), u, r)
        cond['amp'] = max(cond['amp'], 1e-14 * cond['chain'] / 1e-9)
        ctx.notes['max_conditioning_factor_applied'] = max(ctx.notes.get('max_conditioning_factor_applied', 1.0), cond['amp'])
    hsc = max(1.0, max(abs(c) for p in orig['hom'] for c in p))
    probes = so.probe_params(rng, S0, nrand=6, maxn=26 if pdim < 3 else 12)
    if any(kv[0] != kv[p_] or kv[-1] != kv[-p_ - 1] for kv, p_ in zip(sd['kvs'], sd['degrees'])):
        ctx.tag('unclamped')
    if any(abs(kv[-1] - kv[0]) < 1e-4 for kv in sd['kvs']):
        ctx.tag('short-knot-range')
    if sd.get('large'):
        ctx.tag('large')
    ctx.tag('pdim%d' % pdim, 'rational' if sd['rational'] else 'nonrational',
            'normalized' if sd['normalize_kv'] else 'unnormalized')
    mode = case['mode']
    removed_any = False

    def verify(step_desc):
        post = G.snapshot(o)
        S1 = G.defn_of_snapshot(post)
        good = [q for q in probes if so.clear_of_knots(S1, q)]
        a = so.compare_object(ctx, o, S0, good, tol * cond['amp'], 'shape-changed/library-eval',
                              '%s: the object evaluates differently from the original' % step_desc, 'probe-lib')
        b = a and so.compare_defns(ctx, S1, S0, good, tol * cond['amp'], 'shape-changed/definition',
                                   '%s: the definition describes a different shape' % step_desc, 'probe-defn')
        return a and b

    def restored(desc):
        post = G.snapshot(o)
        ok = post['sizes'] == orig['sizes'] and len(post['hom']) == len(orig['hom']) and \
            all(abs(x - y) <= 1e-8 * hsc * cond['amp'] for p, q in zip(post['hom'], orig['hom']) for x, y in zip(p, q)) and \
            all(len(a) == len(b) and all(abs(x - y) <= 1e-12 * max(1.0, abs(b[-1] - b[0])) for x, y in zip(a, b))
                for a, b in zip(post['kvs'], orig['kvs']))
        ctx.check(ok, 'not-restored', '%s: removing every inserted copy did not restore the original control points / knot vectors'
                  % desc, what='restored')

    def do_remove(d, u, r, via, desc):
        if not sd['normalize_kv'] and rng.random() < 0.3:
            # knot vectors may be tuples (documented "list, tuple"); an object that does not normalise keeps the caller's tuple
            nm = 'knotvector' if pdim == 1 else 'knotvector_' + 'uvw'[d]
            setattr(o, nm, tuple(getattr(o, nm)))
            ctx.tag('tuple-knot-vector')
        pre = G.snapshot(o)
        note_removal(d, u, r)
        with so.quiet():
            so.call_remove(o, d, u, r, via)
        post = G.snapshot(o)
        ctx.ok('removal')
        ctx.tag('via:' + via, 'dir:' + 'uvw'[d])
        if not removal_structure(ctx, pre, post, d, u, r):
            return False
        return verify(desc)

    if mode == 'multi-dir':
        # knots inserted in two or three directions, then removed again in ONE call naming all of them
        if pdim == 1:
            raise Reject()
        dirs = sorted(rng.sample(range(pdim), rng.randint(2, pdim)))
        prm, num = [None] * pdim, [0] * pdim
        for d in dirs:
            pick = so.pick_insertion(rng, o, d, prefer_knot=0.3, mindist=0.03 if rng.random() < 0.5 else 1e-3)
            if pick is None:
                raise Reject()
            u, s, tag = pick
            r = rng.randint(1, G.degrees_of(o)[d] - s)
            with so.quiet():
                so.call_insert(o, d, u, r, 'operations')
            prm[d], num[d] = stored_knot(o, d, u), r
        if not verify('after the insertions'):
            return
        ctx.tag('multi-dir-one-call', 'full-removal')
        for d in dirs:
            note_removal(d, prm[d], num[d])
        pre = G.snapshot(o)
        with so.quiet():
            if pdim == 2 and rng.random() < 0.5:
                o.remove_knot(u=prm[0], v=prm[1], num_u=num[0], num_v=num[1])
                ctx.tag('via:method')
            else:
                operations.remove_knot(o, prm, num)
                ctx.tag('via:operations')
        ctx.ok('removal')
        post = G.snapshot(o)
        ok = all(post['sizes'][d] == pre['sizes'][d] - num[d] for d in range(pdim))
        ctx.check(ok, 'structure', 'one remove_knot call over directions %r x %r: sizes %r -> %r' % (dirs, num, pre['sizes'], post['sizes']),
                  what='structure')
        if not verify('insert in directions %r, then remove %r x %r in one call' % (dirs, prm, num)):
            return
        restored('multi-direction insert / single-call removal')
        removed_any = True
    elif mode == 'refine':
        # refine one direction, then remove copies of one NEW knot
        d = rng.randrange(pdim)
        pre = G.snapshot(o)
        p = pre['degrees'][d]
        iv = len(set(pre['kvs'][d])) - 1
        if (iv * 2 - 1) * p + p + 1 > 40:
            raise Reject()
        param = [0] * pdim
        param[d] = 1
        operations.refine_knotvector(o, param)
        after = G.snapshot(o)
        oldk = set(pre['kvs'][d])
        new = sorted(set(k for k in after['kvs'][d] if all(abs(k - x) > 1e-9 for x in oldk)))
        if not new:
            raise Reject()
        u = rng.choice(new)
        r = rng.randint(1, p)
        ctx.tag('after-refine', 'partial-removal' if r < p else 'full-removal-of-new-knot')
        if not do_remove(d, u, r, rng.choice(['operations', 'method']), 'refine then remove %r x%d (dir %d)' % (u, r, d)):
            return
        removed_any = True
    else:
        plans = []
        for _ in range(1 if mode == 'single' else 2):
            d = rng.randrange(pdim)
            # mostly well-conditioned removals (>= 3% of the range away from every knot); a minority down to 1e-3
            uservalue = case.get('uservalue', False)
            big = case.get('bigcoords', False)
            if big:
                ctx.tag('big-coordinates')
            pick = so.pick_insertion(rng, o, d, prefer_knot=0.35 if not (uservalue or big) else 0.0, mindist=0.03 if rng.random() < 0.5 else 1e-3,
                                     small=(0.9 if case.get('method_only') else 0.6) if uservalue else (0.8 if big else 0.0))
            if pick is None:
                continue
            u, s, tag = pick
            p = G.degrees_of(o)[d]
            r = rng.randint(1, p - s) if not big else rng.randint(2, min(3, p - s))
            if uservalue and r > 1 and rng.random() < 0.5:
                # the copies arrive in separate calls, each naming the caller's own value
                with so.quiet():
                    for _ in range(r):
                        so.call_insert(o, d, u, 1, rng.choice(['operations', 'method']))
            else:
                with so.quiet():
                    so.call_insert(o, d, u, r, rng.choice(['operations', 'method']))
            # normally the knot is read back from the object before it is named again; 'uservalue' histories pass the value the
            # caller inserted (the two can differ in the last bit when the object re-normalises its knot vector)
            us = stored_knot(o, d, u) if not uservalue else u
            if uservalue:
                ctx.tag('caller-value-removal')
            plans.append({'d': d, 'u': us, 'r': r, 's': s})
            ctx.tag(tag.split('-m')[0])
        if not plans:
            raise Reject()
        if len(plans) == 2:
            ctx.tag('interleaved')
            if plans[0]['d'] == plans[1]['d'] and abs(plans[0]['u'] - plans[1]['u']) < 1e-9:
                raise Reject()
            if rng.random() < 0.5:
                plans.reverse()
        if not verify('after the insertions'):
            return
        full = True
        for pl in plans:
            k = rng.randint(1, pl['r'])
            if rng.random() < 0.6:
                k = pl['r']
            if k < pl['r']:
                full = False
                ctx.tag('partial-removal')
            # remove in one call or one by one
            via = rng.choice(['operations', 'method']) if not case.get('method_only') else 'method'
            if k > 1 and rng.random() < 0.4:
                for _ in range(k):
                    if not do_remove(pl['d'], pl['u'], 1, via, 'insert x%d then remove one by one' % pl['r']):
                        return
            else:
                if not do_remove(pl['d'], pl['u'], k, via, 'insert %r x%d (s=%d) then remove x%d in direction %d'
                                 % (pl['u'], pl['r'], pl['s'], k, pl['d'])):
                    return
            removed_any = True
        if full:
            ctx.tag('full-removal')
            restored('insert/remove history %r' % ([(pl['d'], pl['r']) for pl in plans],))
    big = any(n >= p + 2 for n, p in zip(sd['sizes'], sd['degrees']))
    ctx.nontriv(removed_any and (big or sd['rational']))
