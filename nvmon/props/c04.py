"""C04 — knot insertion never changes the shape."""
import random
from collections import Counter
from fractions import Fraction as F

from .. import gen as G, hooks, ref, shapeops as so
from ..core import Reject

ID = 'C04'
SHARDS = {'quick': 4, 'thorough': 16}
BUDGET = {'quick': 150, 'thorough': 1500}
RULE = ("cases: a random clamped shape (curve/surface/volume, rational or not, normalised or in a non-[0,1] range) and a "
        "seeded history of 1..8 insertions (direction, parameter inside a span or on a stored knot of multiplicity s<p, "
        "count 1..p-s, via operations.insert_knot or the insert_knot method, single direction or several directions in one "
        "call) plus over-multiplicity requests; after every step the live object is evaluated at a fixed probe set and "
        "compared with the exact reference of the ORIGINAL definition, the post-definition is compared exactly too, and "
        "knot vector / net sizes are checked structurally. helpers.knot_insertion(_kv) calls are judged by an all-call hook. "
        "Non-trivial: at least one accepted insertion with count >= 1 on a shape with >= 2 control points more than "
        "degree+1 in some direction or a rational shape; distinct = distinct case hash.")
ASSUMPTIONS = ["nvmon.ref exact reference model", "explored domain of DESIGN.md section 3; tolerance 1e-9*scale",
               "insertion parameters are stored knots or >= 1e-3*range away from every knot"]
FLOORS = {'quick': {'insert-accepted': 400, 'probe-lib': 4000, 'probe-defn': 4000, 'structure': 400, 'reject-intact': 100,
                    'hook:knot_insertion': 300},
          'thorough': {'insert-accepted': 5000, 'probe-lib': 50000}}
MANDATORY_TAGS = ['single-precision-neighbour', 'helper-default:ulp-below', 'helper-default:exact', 'large', 'pdim1', 'pdim2', 'pdim3', 'twins', 'rational', 'on-knot', 'in-span', 'multi-dir', 'via:method', 'via:operations',
                  'r>=2', 'unnormalized', 'dir:u', 'dir:v', 'dir:w', 'same-value-again', 'unclamped', 'on-domain-end', 'short-knot-range']
try:                                   # (the single-precision class needs numpy, which /venv provides with the repository's requirements)
    import numpy as _np_probe          # noqa: F401
except ImportError:
    MANDATORY_TAGS = [t_ for t_ in MANDATORY_TAGS if t_ != 'single-precision-neighbour']
TECHNIQUE = ("runtime monitoring: shadow-model oracle (exact reference of the original definition) evaluated after every step of "
             "a seeded insertion history, plus an all-call post-condition hook on helpers.knot_insertion/_kv")
LEVEL_TEXT = ("Every insertion the workload performs is followed by an exact comparison of the live object and of its new "
              "definition with the original shape at knots, span midpoints and random parameters, and by structural checks of "
              "the knot vector and net; holds on the histories observed.")

_CTX = [None]


# -- all-call hook on the helper -------------------------------------------------------------------------------------------
def flat(pt):
    if pt and isinstance(pt[0], (list, tuple)):
        out = []
        for q in pt:
            out += flat(q)
        return out
    return list(pt)


def install_helper_hooks(ctx):
    from geomdl import helpers
    from .c03 import kv_ok
    _CTX[0] = ctx

    def pre(a, k):
        import copy
        return copy.deepcopy(a[2]) if len(a) >= 3 else None

    def post(hk, a, k, res, pv):
        c = _CTX[0]
        if len(a) < 4:
            return False
        p, U, cp, u = a[0], list(a[1]), pv, a[3]
        num = k.get('num', 1)
        if not kv_ok(p, U, len(cp)) or not (U[p] < u < U[len(cp)]):
            return False
        s = sum(1 for x in U if x == u)
        if 's' in k and k['s'] != s:
            return False
        if num + s > p or num < 1:
            return False
        if any(0 < abs(u - x) < 1e-4 * (U[-1] - U[0]) for x in set(U)):
            return False
        try:
            P0 = [flat(pt) for pt in cp]
            P1 = [flat(pt) for pt in res]
        except Exception:
            return False
        if len(P1) != len(P0) + num:
            c.fail('helper/knot_insertion-size', 'helpers.knot_insertion returned %d control points for %d + %d' %
                   (len(P1), len(P0), num))
            return True
        U1 = sorted(U + [u] * num)
        S0 = ref.Shape((p,), (U,), (len(P0),), {(i,): P0[i] for i in range(len(P0))}, False)
        S1 = ref.Shape((p,), (U1,), (len(P1),), {(i,): P1[i] for i in range(len(P1))}, False)
        sc = max(1.0, max(abs(x) for pt in P0 for x in pt))
        ks = sorted(set(U[p:len(P0) + 1]))
        qs = [ks[0], ks[-1], u] + [0.5 * (x + y) for x, y in zip(ks, ks[1:])][:6]
        for q in qs:
            x, y = S0.point((q,)), S1.point((q,))
            if any(abs(g - e) > F(1e-9) * F(sc) for g, e in zip(x, y)):
                c.fail('helper/knot_insertion', 'helpers.knot_insertion(p=%d, u=%r, num=%d, s=%d): the refined control polygon '
                       'defines a different curve at %r' % (p, u, num, s, q), kv=U)
                return True
        c.ok('hook:knot_insertion')
        return True
    hooks.wrap_function(helpers, 'knot_insertion', post, pre=pre, thin=hooks.thin_default(600))

    def post_kv(hk, a, k, res, pv):
        c = _CTX[0]
        if len(a) < 4:
            return False
        U, u, span, r = list(a[0]), a[1], a[2], a[3]
        if any(x > y for x, y in zip(U, U[1:])) or not (0 <= span < len(U) - 1) or not (U[span] <= u <= U[span + 1]):
            return False
        c.check(list(res) == sorted(U + [u] * r), 'helper/knot_insertion_kv', 'knot_insertion_kv(u=%r, span=%d, r=%d) = %r'
                % (u, span, r, res), what='hook:knot_insertion_kv', kv=U)
        return True
    hooks.wrap_function(helpers, 'knot_insertion_kv', post_kv)


def setup(ctx):
    install_helper_hooks(ctx)


def teardown(ctx):
    ctx.notes['hooks'] = hooks.report()


# -- workload ----------------------------------------------------------------------------------------------------------------
def gen(rng, tier, shard, nshards):
    if shard == 0:
        yield {'kind': 'ambient-suite'}
    n = 75 if tier == 'quick' else 700
    forced = [dict(pdim=3, rational=True), dict(pdim=3, rational=False), dict(pdim=2, normalize=False, lohi=(-3.0, 7.5)),
              dict(pdim=1, kvcls='fullmult'), dict(pdim=2, rational=True)]
    for i in range(n):
        if shard == 0 and i < len(forced):
            kw = dict(forced[i])
        else:
            kw = dict(pdim=rng.choice([1, 1, 2, 2, 3]), normalize=rng.random() < 0.7)
        pd = kw.pop('pdim')
        kw.setdefault('maxextra', {1: 6, 2: 4, 3: 2}[pd])
        if 'lohi' not in kw and rng.random() < 0.1:
            # an un-normalised knot vector on a very short (or long) range: tolerances of the library must be relative to that range
            a_ = rng.choice([0.0, 5.0, -2.0 ** -21])
            kw.update(normalize=False, lohi=(a_, a_ + rng.choice([2.0 ** -20, 2.0 ** -17, 2.0 ** 12])))
        if i % 4 == 0:
            yield {'kind': 'helper-default', 'seed': rng.randrange(1 << 30)}
        if 'lohi' not in kw and 'kvcls' not in kw and not (shard == 0 and i < len(forced)) and rng.random() < 0.06:
            kw['large'] = True         # degree up to 10 / 40 control points; one long, high-degree direction for surfaces and volumes
        unclamped = 'kvcls' not in kw and rng.random() < 0.25
        sd = G.rand_shape(rng, pd, clamped_only=not unclamped, **(dict(kw, kvcls=rng.choice(['unclamped', 'unclamped_rep'])) if unclamped else kw))
        yield {'kind': 'history', 'sd': sd, 'seed': rng.randrange(1 << 30), 'steps': rng.randint(1, 8 if pd < 3 else 4)}
        if i % 3 == 1:
            # histories that insert the caller's own parameter value again (parameters 1e-3..1e-2 of the range from a domain end included)
            sd2 = G.rand_shape(rng, pd, clamped_only=True, mindeg=2, **kw)
            yield {'kind': 'history', 'sd': sd2, 'seed': rng.randrange(1 << 30), 'steps': rng.randint(3, 7), 'reinsert': True}
        if i % 4 == 0:
            yield {'kind': 'twins', 'seed': rng.randrange(1 << 30), 'pdim': rng.choice([1, 1, 2])}
        if i % 5 == 2:
            yield {'kind': 'single-precision-neighbour', 'seed': rng.randrange(1 << 30)}


def structure_ok(ctx, pre, post, d, u, r, step):
    """knot vector gains exactly r copies of u in sorted position; net grows by r in direction d only"""
    ok = post['degrees'] == pre['degrees'] and post['rational'] == pre['rational']
    for e in range(pre['pdim']):
        rng_ = pre['kvs'][e][-1] - pre['kvs'][e][0]
        if e == d:
            ok = ok and post['sizes'][e] == pre['sizes'][e] + r
            ok = ok and so.kv_multiset_equal(post['kvs'][e], pre['kvs'][e] + [u] * r, 1e-12 * max(1.0, abs(rng_)))
        else:
            ok = ok and post['sizes'][e] == pre['sizes'][e]
            ok = ok and len(post['kvs'][e]) == len(pre['kvs'][e]) and \
                all(abs(x - y) <= 1e-12 * max(1.0, abs(rng_)) for x, y in zip(post['kvs'][e], pre['kvs'][e]))
    n = 1
    for s in post['sizes']:
        n *= s
    ok = ok and len(post['hom']) == n
    return ctx.check(ok, 'structure', 'step %d: after inserting %r x%d in direction %d the knot vectors / sizes are not '
                     '"old + r copies, sorted; +r in that direction only": sizes %r -> %r' % (step, u, r, d, pre['sizes'], post['sizes']),
                     what='structure')


def check_twins(case, ctx):
    """two shapes with equal degrees and sizes but different interior knots receive the SAME parameter one after the other: the second
    insertion must not be influenced by the first (memoised coefficients keyed too coarsely would be)"""
    rng = random.Random(case['seed'])
    pdim = case['pdim']
    ctx.tag('twins')
    sdA = G.rand_shape(rng, pdim, clamped_only=True, kvcls='random', maxextra=5 if pdim == 1 else 3, mindeg=2, maxdeg=4, pcls='uniform')
    if min(n - p - 1 for n, p in zip(sdA['sizes'], sdA['degrees'])) < 1:
        raise Reject()
    sdB = dict(sdA)
    sdB['kvs'] = [G.knot_vector(rng, p, n, 'random') for p, n in zip(sdA['degrees'], sdA['sizes'])]
    sdB['ctrlpts'] = [[c + rng.uniform(-1, 1) for c in pt] for pt in sdA['ctrlpts']]
    ctx.nontriv(True)
    for order in ('AB', 'BA'):
        objs = {'A': G.build(sdA), 'B': G.build(sdB)}
        defs = {k: G.defn_of(v) for k, v in objs.items()}
        d = rng.randrange(pdim)
        p = sdA['degrees'][d]
        # a parameter that lies in the span with the same index in both knot vectors and is clear of all knots of both
        UA, UB = G.kvs_of(objs['A'])[d], G.kvs_of(objs['B'])[d]
        u = None
        for _ in range(60):
            x = rng.uniform(0.02, 0.98)
            if all(abs(x - k) > 2e-3 for k in set(UA) | set(UB)) and \
                    ref.find_span(p, [F(k) for k in UA], F(x)) == ref.find_span(p, [F(k) for k in UB], F(x)):
                u = x
                break
        if u is None:
            raise Reject()
        r = rng.randint(1, p)
        for name in order:
            o = objs[name]
            with so.quiet():
                so.call_insert(o, d, u, r, rng.choice(['operations', 'method']))
            S0 = defs[name]
            S1 = G.defn_of(o)
            probes = [q for q in so.probe_params(rng, S0, nrand=5, maxn=16) if so.clear_of_knots(S1, q)]
            ctx.ok('insert-accepted')
            if not so.compare_object(ctx, o, S0, probes, 1e-9 * so.scale_of_defn(S0), 'shape-changed/library-eval',
                                     'twin shapes, order %s: inserting %r x%d into shape %s changed it' % (order, u, r, name), 'probe-lib'):
                return
            so.compare_defns(ctx, S1, S0, probes, 1e-9 * so.scale_of_defn(S0), 'shape-changed/definition',
                             'twin shapes, order %s: definition of shape %s after insertion differs' % (order, name), 'probe-defn')


def check_helper_default(case, ctx):
    """helpers.knot_insertion called as documented, without the optional s / span: it works them out itself - consistently, also for a
    parameter that is an existing knot up to rounding (0.3 * 3 for the knot 0.9)"""
    import math
    from geomdl import helpers
    rng = random.Random(case['seed'])
    p = rng.randint(1, 5)
    n = p + 2 + rng.randint(0, 6)
    U = G.knot_vector(rng, p, n, rng.choice(['uniform', 'random', 'random']), rng.choice([(0.0, 1.0), (0.0, 1.0), (2.0, 5.0)]))
    inner = sorted(set(U[p + 1:n]))
    cnt = Counter(U)
    inner = [k for k in inner if cnt[k] < p]
    if not inner:
        raise Reject()
    k = rng.choice(inner)
    how = rng.choice(['exact', 'ulp-below', 'ulp-above', 'mid'])
    if how == 'mid':
        d = sorted(set(U))
        i_ = rng.randrange(len(d) - 1)
        u = 0.5 * (d[i_] + d[i_ + 1])
        k = None
    else:
        u = k if how == 'exact' else math.nextafter(k, -math.inf if how == 'ulp-below' else math.inf)
    dim = rng.choice([2, 3])
    P = [[rng.uniform(-10, 10) for _ in range(dim)] for _ in range(n)]
    ctx.tag('helper-default', 'helper-default:' + how)
    ctx.nontriv(True)
    with hooks.suspended():
        Q = helpers.knot_insertion(p, list(U), [list(q) for q in P], u)
    if not ctx.check(len(Q) == n + 1, 'helper-default/size', 'helpers.knot_insertion(p=%d, u=%r) without s / span returned %d control points '
                     'for %d + 1' % (p, u, len(Q), n), what='helper-default'):
        return
    S0 = ref.Shape((p,), (U,), (n,), {(i,): P[i] for i in range(n)}, False)
    sc = max(1.0, max(abs(x) for q in P for x in q))
    ks = sorted(set(U[p:n + 1]))
    qs = [ks[0], ks[-1]] + [0.5 * (x + y) for x, y in zip(ks, ks[1:])]
    best = None
    # the caller inserts the same value into the knot vector; a helper that takes the value for the existing knot describes the curve on
    # the vector with that knot repeated - either reading is the same curve
    for cand in ([u] if k is None else [u, k]):
        U1 = sorted(list(U) + [cand])
        S1 = ref.Shape((p,), (U1,), (n + 1,), {(i,): list(Q[i]) for i in range(n + 1)}, False)
        err = max(abs(float(a - b)) for q in qs for a, b in zip(S0.point((q,)), S1.point((q,))))
        best = err if best is None else min(best, err)
    ctx.check(best <= 1e-9 * sc, 'helper-default/shape-changed', 'helpers.knot_insertion(p=%d, kv, P, u=%r) with its own multiplicity / span '
              '(u is %s): the returned polygon defines a different curve (deviation %.3g)'
              % (p, u, {'exact': 'an existing knot', 'mid': 'inside a span'}.get(how, 'one ulp beside the knot %r' % k), best), what='helper-default', kv=U)


def check_f32_neighbour(case, ctx):
    """(sixth hunt) somebody else in the process works in single precision (numpy.float32 knots and parameter, every value exactly
    representable in both precisions): a later insertion into an UNRELATED curve of Python floats with equal knot values is an exact
    insertion in double precision - whatever the first request left behind in a cache"""
    from geomdl import BSpline, operations
    try:
        import numpy as np
    except ImportError:
        raise Reject()
    rng = random.Random(case['seed'])
    p = rng.randint(1, 3)
    n = p + 1 + rng.randint(1, 3)
    inner = sorted(rng.sample([k_ / 16.0 for k_ in range(1, 16)], n - p - 1))
    U = [0.0] * (p + 1) + inner + [1.0] * (p + 1)
    u = rng.choice([k_ / 32.0 for k_ in range(1, 32) if k_ / 32.0 not in inner])
    P = [[round(rng.uniform(-4000, 4000), 3) for _ in range(2)] for _ in range(n)]
    ctx.tag('single-precision-neighbour')
    ctx.nontriv(True)

    def make(kv):
        c_ = BSpline.Curve(normalize_kv=False)
        c_.degree = p
        c_.ctrlpts = [list(q_) for q_ in P]
        c_.knotvector = kv
        return c_
    try:
        with so.quiet():
            operations.insert_knot(make([np.float32(k_) for k_ in U]), [np.float32(u)], [1])
    except Exception:
        pass                     # (single precision input is not supported: whatever it does, it must not affect anybody else)
    c = make(list(U))
    S0 = G.defn_of(c)
    try:
        operations.insert_knot(c, [u], [1])
    except Exception as e:
        ctx.fail('history/single-precision-neighbour', 'insert_knot(%r) into a curve of Python floats raised %s after an unrelated insertion '
                 'with numpy.float32 knots of equal value' % (u, type(e).__name__))
        return
    S1 = G.defn_of(c)
    sc = so.scale_of_defn(S0)
    bad = None
    for q in so.probe_params(rng, S0, nrand=4, maxn=10):
        x, y = S0.point(q), S1.point(q)
        if any(abs(a_ - b_) > F(1e-12) * F(sc) for a_, b_ in zip(x, y)):
            bad = (q, float(max(abs(a_ - b_) for a_, b_ in zip(x, y))))
            break
    ctx.check(bad is None, 'history/single-precision-neighbour', 'insert_knot(%r) into a curve of Python floats after an unrelated insertion with '
              'numpy.float32 knots of equal value: the curve moved by %r at %r (single-precision coefficients served from a cache)'
              % (u, bad and bad[1], bad and bad[0]), what='shape')


def check(case, ctx):
    if case.get('kind') == 'single-precision-neighbour':
        return check_f32_neighbour(case, ctx)
    if case.get('kind') == 'twins':
        return check_twins(case, ctx)
    if case.get('kind') == 'helper-default':
        return check_helper_default(case, ctx)
    if case.get('kind') == 'ambient-suite':
        from .. import ambient
        ctx.nontriv(True)
        return ambient.run_repo_suite(ctx, 'knot or insert or split or decompose')
    from geomdl import operations
    from geomdl.exceptions import GeomdlException
    sd = case['sd']
    rng = random.Random(case['seed'])
    pdim = sd['pdim']
    o = G.build(sd)
    S0 = G.defn_of(o)
    sc = so.scale_of_defn(S0)
    tol = 1e-9 * sc
    probes = so.probe_params(rng, S0, nrand=6, maxn=30 if pdim < 3 else 14)
    if any(kv[0] != kv[p_] or kv[-1] != kv[-p_ - 1] for kv, p_ in zip(sd['kvs'], sd['degrees'])):
        ctx.tag('unclamped')
    if any(abs(kv[-1] - kv[0]) < 1e-4 for kv in sd['kvs']):
        ctx.tag('short-knot-range')
    if sd.get('large'):
        ctx.tag('large')
    ctx.tag('pdim%d' % pdim, 'rational' if sd['rational'] else 'nonrational',
            'normalized' if sd['normalize_kv'] else 'unnormalized')
    accepted = 0
    last_user = {}

    def views_consistent(step):
        # the control net as seen through every public view grew with the knot vector (rational shapes: ctrlpts, weights, ctrlptsw)
        if not sd['rational']:
            return True
        order = ['weights', 'ctrlpts']
        rng.shuffle(order)
        got = {nm: [x if nm == 'weights' else list(x) for x in getattr(o, nm)] for nm in order}
        pw = [list(p) for p in o.ctrlptsw]
        n = 1
        for s_ in G.sizes_of(o):
            n *= s_
        ok = len(got['weights']) == n and len(got['ctrlpts']) == n and len(pw) == n
        if ok:
            ok = all(abs(w - p[-1]) <= 1e-12 * max(1.0, abs(p[-1])) for w, p in zip(got['weights'], pw)) and \
                all(abs(c * p[-1] - h) <= 1e-9 * max(1.0, abs(h)) for pt, p in zip(got['ctrlpts'], pw) for c, h in zip(pt, p[:-1]))
        return ctx.check(ok, 'structure/views', 'step %d: after the insertion the net has %d points but weights / ctrlpts report %d / %d entries '
                         '(or disagree with ctrlptsw)' % (step, n, len(got['weights']), len(got['ctrlpts'])), what='structure')
    if sd['rational'] and rng.random() < 0.7:
        o.weights
        if rng.random() < 0.5:
            o.ctrlpts
    for step in range(case['steps']):
        mode = rng.random()
        pre = G.snapshot(o)
        if mode < 0.18:
            # ---- over-multiplicity request in a single direction: must be rejected, object unchanged -------------------
            d = rng.randrange(pdim)
            pick = so.pick_insertion(rng, o, d, prefer_knot=0.6)
            if pick is None:
                continue
            u, s, tag = pick
            p = pre['degrees'][d]
            r = p - s + rng.randint(1, 2)
            via = rng.choice(['operations', 'method'])
            raised = False
            try:
                with so.quiet():
                    so.call_insert(o, d, u, r, via)
            except GeomdlException:
                raised = True
            post = G.snapshot(o)
            if via == 'operations':
                ctx.check(raised, 'reject/not-raised', 'operations.insert_knot accepted %d insertions of a knot of multiplicity '
                          '%d at degree %d' % (r, s, p), what='reject-raised')
            ctx.check(post == pre, 'reject/object-changed', 'rejected insertion (r=%d > p-s=%d, via %s) modified the object'
                      % (r, p - s, via), what='reject-intact')
            continue
        if mode < 0.32 and pdim > 1:
            # ---- several directions in one call -----------------------------------------------------------------------
            dirs = sorted(rng.sample(range(pdim), rng.randint(2, pdim)))
            prm, num, plan = [None] * pdim, [0] * pdim, []
            for d in dirs:
                pick = so.pick_insertion(rng, o, d)
                if pick is None:
                    continue
                u, s, tag = pick
                r = rng.randint(1, pre['degrees'][d] - s)
                prm[d], num[d] = u, r
                plan.append((d, u, r))
            if len(plan) < 2:
                continue
            ctx.tag('multi-dir')
            if rng.random() < 0.5 or pdim == 3:
                operations.insert_knot(o, prm, num)
            else:
                o.insert_knot(u=prm[0], v=prm[1], num_u=num[0], num_v=num[1])
            post = G.snapshot(o)
            ok = all(post['sizes'][d] == pre['sizes'][d] + num[d] for d in range(pdim))
            for d, u, r in plan:
                ok = ok and so.kv_multiset_equal(post['kvs'][d], pre['kvs'][d] + [u] * r,
                                                 1e-12 * max(1.0, abs(pre['kvs'][d][-1] - pre['kvs'][d][0])))
            ctx.check(ok, 'structure', 'multi-direction insertion %r x %r: sizes %r -> %r' % (prm, num, pre['sizes'], post['sizes']),
                      what='structure')
            accepted += 1
            ctx.ok('insert-accepted')
        else:
            # ---- single direction ----------------------------------------------------------------------------------------
            d = rng.randrange(pdim)
            p = pre['degrees'][d]
            again = None
            if case.get('reinsert') and d in last_user and rng.random() < 0.6:
                # the SAME value the caller passed before (not the knot read back from the object) is inserted again; its current
                # multiplicity is what the stored knot vector holds within 1e-9 of the range
                U = pre['kvs'][d]
                cur = sum(1 for k in U if abs(k - last_user[d]) <= 1e-9 * max(1.0, abs(U[-1] - U[0])))
                if 0 < cur < p:
                    again = (last_user[d], cur)
            if again:
                u, s = again
                tag = 'same-value-again'
            else:
                pick = so.pick_insertion(rng, o, d, small=0.5 if case.get('reinsert') else 0.0)
                if pick is None:
                    continue
                u, s, tag = pick
            r = rng.randint(1, p - s)
            last_user[d] = u
            via = rng.choice(['operations', 'method'])
            ctx.tag(tag.split('-m')[0], 'via:' + via, 'dir:' + 'uvw'[d])
            if r >= 2:
                ctx.tag('r>=2')
            with so.quiet():
                so.call_insert(o, d, u, r, via)
            post = G.snapshot(o)
            if not structure_ok(ctx, pre, post, d, u, r, step):
                return
            accepted += 1
            ctx.ok('insert-accepted')
        if not views_consistent(step):
            return
        # ---- the shape must not have moved (always against the ORIGINAL definition: no drift) -----------------------------
        S1 = G.defn_of_snapshot(post)
        good = [q for q in probes if so.clear_of_knots(S1, q)]
        if not so.compare_object(ctx, o, S0, good, tol, 'shape-changed/library-eval',
                                 'step %d: the object evaluates differently after knot insertion' % step, 'probe-lib'):
            return
        if not so.compare_defns(ctx, S1, S0, good, tol, 'shape-changed/definition',
                                'step %d: knot insertion produced a definition of a different shape' % step, 'probe-defn'):
            return
    big = any(n >= p + 3 for n, p in zip(sd['sizes'], sd['degrees']))
    ctx.nontriv(accepted >= 1 and (big or sd['rational']))
