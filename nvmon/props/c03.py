"""C03 — basis functions, span search and knot-vector utilities satisfy their defining identities."""
import itertools
from collections import Counter
from fractions import Fraction as F

from .. import gen as G, hooks, ref
from ..core import Reject

ID = 'C03'
SHARDS = {'quick': 4, 'thorough': 16}
BUDGET = {'quick': 120, 'thorough': 1200}
RULE = ("cases: (degree 1..7, knot vector by class {clamped uniform/random multiplicities/full multiplicity/"
        "non-[0,1] range/unclamped/unclamped with repeats}, parameters on both domain ends, on every distinct "
        "interior knot, span midpoints, random) for span search + all basis helpers vs the exact Cox-de Boor "
        "definition; (degree,count,clamped) for generate; affine images for normalize; corrupted vectors for check; "
        "thorough additionally enumerates all multiplicity patterns for p<=4 with <=3 distinct interior knots. "
        "A case is non-trivial when the knot vector has at least one interior knot or is unclamped (basis cases), "
        "or is a generate/normalize/check case with more than degree+1 control points; distinct = distinct case hash.")
ASSUMPTIONS = ["CPython float/Fraction arithmetic", "nvmon.ref Cox-de Boor reference model",
               "knot spacing >= 1e-3 of the range, multiplicity <= degree inside the domain (explored domain)"]
FLOORS = {'quick': {'span': 500, 'basis': 500, 'basis_one': 1000, 'ders': 500, 'ders_one': 500, 'generate': 50,
                    'normalize': 50, 'check_reject': 50, 'hook:find_span': 50, 'hook:basis_function': 50},
          'thorough': {'span': 5000, 'basis': 5000, 'basis_one': 10000, 'ders': 5000, 'generate': 100,
                       'normalize': 500, 'check_reject': 500}}
MANDATORY_TAGS = ['kv:tiny-range', 'kv:startknot', 'u:near-start', 'large', 'generate:count<=degree', 'u:near-end', 'kv:unclamped', 'kv:endrep', 'kv:random', 'kv:range', 'u:end', 'u:start', 'u:knot_full', 'deg7', 'deg1']

_CTX = [None]


# ---------------------------------------------------------------------------------------------------------------
def kv_ok(p, U, n=None):
    if n is None:
        n = len(U) - p - 1
    if p < 1 or n < p + 1 or len(U) != n + p + 1:
        return False
    if any(a > b for a, b in zip(U, U[1:])):
        return False
    a, b = U[p], U[n]
    if not a < b:
        return False
    rng_ = b - a
    d = sorted(set(U))
    if any(y - x < 1e-4 * rng_ for x, y in zip(d, d[1:])):
        return False
    c = Counter(U[p + 1:n])
    if any(m > p for m in c.values()):
        return False
    return True


def u_ok(p, U, u):
    n = len(U) - p - 1
    return U[p] <= u <= U[n]


def expected_span(p, U, u):
    return ref.find_span(p, [F(k) for k in U], F(u))


def hmin(U):
    d = sorted(set(U))
    return min(y - x for x, y in zip(d, d[1:]))


# -- the oracles (used by the targeted driver and by the all-call hooks) ---------------------------------------------
def judge_span(ctx, fname, p, U, n, u, got):
    exp = expected_span(p, U, u)
    if got != exp:
        ctx.fail('span/%s' % fname, '%s(p=%d, n=%d, u=%r) returned %r, the span containing u is %d'
                 % (fname, p, n, u, got, exp), kv=list(U))
        return False
    ctx.ok('span')
    return True


def judge_basis(ctx, fname, p, U, span, u, got):
    Uf = [F(k) for k in U]
    ex = ref.basis_span(p, Uf, span, F(u))
    exact = [ex[span - p + j] for j in range(p + 1)]
    ok = len(got) == p + 1 and all(abs(float(g) - float(e)) <= 1e-10 for g, e in zip(got, exact))
    if ok:
        ok = all(g >= -1e-13 for g in got) and abs(sum(got) - 1.0) <= 1e-10
    if not ok:
        ctx.fail('basis/%s' % fname, '%s(p=%d, span=%d, u=%r) = %r; Cox-de Boor gives %r' %
                 (fname, p, span, u, got, [float(e) for e in exact]), kv=list(U))
        return False
    ctx.ok('basis')
    return True


def ders_tol(exact_rows):
    return [1e-9 * max(1.0, max(abs(float(x)) for x in row)) for row in exact_rows]


def judge_ders(ctx, fname, p, U, span, u, order, got):
    Uf = [F(k) for k in U]
    ex = ref.basis_ders(p, Uf, span, F(u), order)
    rows = [[ex[span - p + j][k] for j in range(p + 1)] for k in range(order + 1)]
    tol = ders_tol(rows)
    ok = len(got) >= order + 1
    if ok:
        for k in range(order + 1):
            if len(got[k]) != p + 1 or any(abs(float(g) - float(e)) > tol[k] for g, e in zip(got[k], rows[k])):
                ok = False
                break
            if k >= 1 and abs(sum(got[k])) > 10 * tol[k]:
                ok = False
                break
    if not ok:
        ctx.fail('ders/%s' % fname, '%s(p=%d, span=%d, u=%r, order=%d) disagrees with the exact derivatives of the '
                 'basis polynomials or rows do not sum to 0' % (fname, p, span, u, order), kv=list(U),
                 got=got, expected=[[float(x) for x in r] for r in rows])
        return False
    ctx.ok('ders')
    return True


# -- all-call hooks --------------------------------------------------------------------------------------------------
def install_basis_hooks(ctx):
    from geomdl import helpers
    _CTX[0] = ctx
    thin = hooks.thin_default(300)

    def post_span(fname):
        def post(hk, a, k, res, pv):
            if len(a) < 4:
                return False
            p, U, n, u = a[:4]
            if not isinstance(p, int) or not kv_ok(p, U, n) or not u_ok(p, U, u):
                return False
            rng_ = U[n] - U[p]
            if any(0 < abs(u - kk) < 1e-4 * rng_ for kk in set(U)):
                return False
            judge_span(_CTX[0], fname, p, list(U), n, u, res)
            _CTX[0].count('hook:find_span')
            return True
        return post
    hooks.wrap_function(helpers, 'find_span_linear', post_span('find_span_linear'), thin=thin)
    hooks.wrap_function(helpers, 'find_span_binsearch', post_span('find_span_binsearch'), thin=thin)

    def post_basis(hk, a, k, res, pv):
        if len(a) < 4:
            return False
        p, U, span, u = a[:4]
        if not isinstance(p, int) or not kv_ok(p, U) or not u_ok(p, U, u):
            return False
        if span != expected_span(p, U, u):
            return False  # caller's choice of span is not ours to judge here (find_span hooks do)
        judge_basis(_CTX[0], 'basis_function', p, list(U), span, u, res)
        _CTX[0].count('hook:basis_function')
        return True
    hooks.wrap_function(helpers, 'basis_function', post_basis, thin=thin)

    def post_ders(hk, a, k, res, pv):
        if len(a) < 5:
            return False
        p, U, span, u, order = a[:5]
        if not isinstance(p, int) or not kv_ok(p, U) or not u_ok(p, U, u) or order < 0:
            return False
        if span != expected_span(p, U, u):
            return False
        judge_ders(_CTX[0], 'basis_function_ders', p, list(U), span, u, order, res)
        _CTX[0].count('hook:basis_function_ders')
        return True
    hooks.wrap_function(helpers, 'basis_function_ders', post_ders, thin=thin)


def setup(ctx):
    install_basis_hooks(ctx)


def teardown(ctx):
    ctx.notes['hooks'] = hooks.report()


# -- generators -------------------------------------------------------------------------------------------------------
def gen_basis_case(rng, p=None, cls=None):
    large = p is None and cls is None and rng.random() < 0.08
    p = p or rng.choice([1, 2, 3, 3, 4, 5, 6, 7])
    n = p + 1 + rng.randint(0, 8)
    cls = cls or rng.choice(['uniform', 'random', 'random', 'random', 'fullmult', 'unclamped', 'unclamped_rep', 'range',
                             'fine', 'unclamped_endrep', 'endknot', 'startknot', 'unclamped-wide', 'jump'])
    if large:
        # degrees and knot counts beyond the usual small ones (a binary search takes 5-6 steps, many spans are never end spans)
        p = rng.randint(6, 12)
        n = p + 1 + rng.randint(15, 40)
        cls = rng.choice(['uniform', 'random', 'random', 'fullmult', 'unclamped', 'unclamped_rep', 'range'])
    lohi = (0.0, 1.0)
    kcls = cls
    if cls == 'range':
        # (round 8: ranges far below the absolute constants 1e-7 / 1e-8 - every knot difference there is "small")
        lohi = rng.choice([(2.0, 5.0), (-3.0, 7.5), (10.0, 10.5), (-1e3, 1e3), (0.0, 2.0 ** -30), (5.0, 5.0 + 2.0 ** -24), (-2.0 ** -26, 2.0 ** -26)])
        kcls = 'random'
    fine = False
    if cls == 'fine':
        kcls, fine = 'random', True
    if n == p + 1 and kcls in ('uniform', 'random', 'fullmult'):
        kcls = 'bezier'
    extra = []
    if cls == 'endknot':
        # a genuine knot very close to the end of the domain, and parameters just below it
        n = max(n, p + 3)
        U = G.knot_vector(rng, p, n, 'random', rng.choice([(0.0, 1.0), (0.0, 1.0), (2.0, 5.0)]))
        a_, b_ = U[p], U[n]
        g = rng.choice([3e-6, 5e-7, 8e-6]) * (b_ - a_)
        U[n - 1] = b_ - g
        if not U[n - 2] < U[n - 1]:
            U[n - 2] = a_ + 0.5 * (b_ - a_) if p + 1 <= n - 2 else U[n - 2]
        U = sorted(U)
        extra = [('near-end', b_ - 2 * g), ('near-end', b_ - 1.5 * g), ('near-end', b_ - 0.5 * g)]
    elif cls == 'startknot':
        # (round 10) the mirror image: a genuine knot very close to the START of the domain, and parameters on it and just after it
        n = max(n, p + 3)
        U = G.knot_vector(rng, p, n, 'random', rng.choice([(0.0, 1.0), (0.0, 1.0), (2.0, 5.0), (-1.0, 1.0)]))
        a_, b_ = U[p], U[n]
        g = rng.choice([4e-6, 5e-7, 8e-6]) * (b_ - a_)
        U[p + 1] = a_ + g
        if not U[p + 1] < U[p + 2]:
            U[p + 2] = a_ + 0.5 * (b_ - a_) if p + 2 < n else U[p + 2]
        U = sorted(U)
        extra = [('near-start', a_ + 0.5 * g), ('near-start', a_ + g), ('near-start', a_ + 1.2 * g), ('near-start', a_ + 2 * g)]
    elif cls == 'jump':
        # an interior knot of multiplicity degree + 1 (a valid, discontinuous knot vector), parameters on it and one ulp either side
        import math as _m
        n = max(n, 2 * p + 2)
        m_ = n - p - 1
        v_ = round(rng.uniform(0.3, 0.7), 2)
        others = sorted(set(round(rng.uniform(0.05, 0.95), 3) for _ in range(max(0, m_ - p - 1))) - {v_})
        while len(others) < m_ - p - 1:
            others = sorted(set(others + [round(rng.uniform(0.05, 0.95), 4)]) - {v_})
        U = [0.0] * (p + 1) + sorted(others + [v_] * (p + 1)) + [1.0] * (p + 1)
        extra = [('jump', v_), ('jump-ulp', _m.nextafter(v_, 0.0)), ('jump-ulp', _m.nextafter(v_, 1.0))]
    elif cls == 'unclamped-wide':
        # unclamped, with outer knots far outside the domain (the range of the whole vector is much longer than the domain)
        n = max(n, p + 3)
        inner = sorted(set(round(rng.uniform(0.05, 0.95), 3) for _ in range(n - p - 1)))
        while len(inner) < n - p - 1:
            inner = sorted(set(inner + [round(rng.uniform(0.05, 0.95), 4)]))
        big = rng.choice([100.0, 1000.0])
        U = [-big * (p - i) / p for i in range(p)] + [0.0] + inner + [1.0] + [1.0 + big * (i + 1) / p for i in range(p)]
        extra = [('near-end', 1.0 - 1e-3), ('near-end', inner[-1] + 0.3 * (1.0 - inner[-1])), ('near-end', inner[-1] - 1e-4)]
    else:
        U = G.knot_vector(rng, p, n, kcls, lohi, fine=fine)
    params = G.param_classes(rng, p, U, nrand=4, ulp=True) + [(t_, u_) for t_, u_ in extra if U[p] < u_ < U[n]]
    if cls == 'startknot' and not (U[p] < U[p + 1] < U[p + 2] <= U[n]):
        cls = 'random'
    return {'kind': 'basis', 'p': p, 'n': n, 'kv': U, 'cls': cls, 'params': [[t, u] for t, u in params], 'large': large,
            'order': rng.randint(0, p) if rng.random() < 0.7 else rng.randint(p + 1, p + 3)}


def exhaustive_patterns():
    """all multiplicity patterns, p <= 4, <= 3 distinct interior knots (fixed values), clamped"""
    vals = [0.25, 0.5, 0.8125]
    for p in range(1, 5):
        for k in range(0, 4):
            for mults in itertools.product(range(1, p + 1), repeat=k):
                interior = []
                for v, m in zip(vals, mults):
                    interior += [v] * m
                U = [0.0] * (p + 1) + interior + [1.0] * (p + 1)
                n = len(U) - p - 1
                params = [['start', 0.0], ['end', 1.0]] + [['knot_m%d' % m, v] for v, m in zip(vals, mults)]
                d = sorted(set(U))
                params += [['mid', 0.5 * (x + y)] for x, y in zip(d, d[1:])]
                yield {'kind': 'basis', 'p': p, 'n': n, 'kv': U, 'cls': 'exhaustive', 'params': params, 'order': p}


def gen(rng, tier, shard, nshards):
    if shard == 0:
        yield {'kind': 'ambient-suite'}
    nb = 150 if tier == 'quick' else 1500       # per shard
    # mandatory classes first
    if shard == 0:
        yield gen_basis_case(rng, 7, 'random')
        yield gen_basis_case(rng, 1, 'random')
        yield gen_basis_case(rng, 3, 'fullmult')
        yield gen_basis_case(rng, 3, 'unclamped')
        yield gen_basis_case(rng, 2, 'unclamped_rep')
        yield gen_basis_case(rng, 4, 'range')
        yield gen_basis_case(rng, 3, 'unclamped_endrep')
    # generate(): all (degree, count) pairs — enumerated
    # all (degree, count) pairs up to count = degree + 130 (float accumulation errors in the spacing only show at larger counts)
    pairs = [(p, n, c) for p in range(1, 9) for n in list(range(p + 1, p + 14)) + list(range(p + 14, p + 131, 1 if tier != 'quick' else 3))
             for c in (True, False)]
    for i, (p, n, c) in enumerate(pairs):
        if i % nshards == shard:
            yield {'kind': 'generate', 'p': p, 'n': n, 'clamped': c}
    # fewer control points than degree + 1: no clamped vector of the documented length exists
    if shard == 0:
        for p in range(1, 8):
            for n in range(1, p + 1):
                yield {'kind': 'generate-few', 'p': p, 'n': n}
    for i in range(nb):
        yield gen_basis_case(rng)
        if i % 3 == 0:
            p = rng.randint(1, 7)
            n = p + 1 + rng.randint(1, 9)
            U = G.knot_vector(rng, p, n, rng.choice(['uniform', 'random', 'fullmult', 'unclamped', 'unclamped_rep']))
            a = rng.choice([0.0, -3.0, 2.0, 100.0, -1e-3, 1e6])
            s = rng.choice([1.0, 3.0, 0.5, 10.5, 1e-3, 1e4, 7.0 / 3.0])
            yield {'kind': 'normalize', 'p': p, 'n': n, 'kv': [a + s * k for k in U]}
        if i % 3 == 1:
            p = rng.randint(1, 7)
            n = p + 1 + rng.randint(1, 9)
            U = G.knot_vector(rng, p, n, rng.choice(['uniform', 'random', 'fullmult', 'unclamped']))
            yield {'kind': 'check', 'p': p, 'n': n, 'kv': U, 'mut': rng.choice(['drop', 'dup', 'swap', 'append', 'dec_end']),
                   'pos': rng.randrange(len(U))}
        if i % 4 == 2:
            yield {'kind': 'ambient', 'seed': rng.randrange(1 << 30)}
    if tier == 'thorough':
        for i, c in enumerate(exhaustive_patterns()):
            if i % nshards == shard:
                yield c


# -- checkers ---------------------------------------------------------------------------------------------------------
def check(case, ctx):
    if case.get('kind') == 'ambient-suite':
        from .. import ambient
        ctx.nontriv(True)
        return ambient.run_repo_suite(ctx, None)
    kind = case['kind']
    if kind == 'basis':
        return check_basis(case, ctx)
    if kind == 'generate-few':
        return check_generate_few(case, ctx)
    if kind == 'generate':
        return check_generate(case, ctx)
    if kind == 'normalize':
        return check_normalize(case, ctx)
    if kind == 'check':
        return check_check(case, ctx)
    if kind == 'ambient':
        return check_ambient(case, ctx)
    raise Reject()


def check_basis(case, ctx):
    from geomdl import helpers
    p, n, U = case['p'], case['n'], case['kv']
    Uf = [F(k) for k in U]
    interior = len(U) > 2 * (p + 1) or U[0] != U[p]
    ctx.nontriv(interior)
    ctx.tag('kv:' + ('endrep' if case['cls'] == 'unclamped_endrep' else 'range' if case['cls'] == 'range' else 'unclamped' if U[0] != U[p] else
                     'random' if case['cls'] in ('random', 'fine') else case['cls']), 'deg%d' % p)
    if case.get('large'):
        ctx.tag('large')
    if U[-1] - U[0] < 1e-6:
        ctx.tag('kv:tiny-range')
    cnt = Counter(U)
    with hooks.suspended():
        spans_l, us = [], []
        for tag, u in case['params']:
            ctx.tag('u:' + ('knot_full' if tag == 'knot_m%d' % p else tag.split('_')[0] if tag.startswith('knot') else tag))
            exp = ref.find_span(p, Uf, F(u))
            for fname in ('find_span_linear', 'find_span_binsearch'):
                got = getattr(helpers, fname)(p, U, n, u)
                judge_span(ctx, fname, p, U, n, u, got)
            span = exp
            spans_l.append(span)
            us.append(u)
            # span is non-empty, half-open and contains u (definitional, independent of ref.find_span)
            b = U[n]
            ctx.check(U[span] < U[span + 1] and (U[span] <= u < U[span + 1] or (u == b and U[span + 1] == b)),
                      'span/reference-selfcheck', 'reference span inconsistent', what='selfcheck')
            N = helpers.basis_function(p, U, span, u)
            judge_basis(ctx, 'basis_function', p, U, span, u, N)
            # single-function variant for every function index
            exb = ref.basis_span(p, Uf, span, F(u))
            at_end = (u == U[n])
            for j in range(n):
                g = helpers.basis_function_one(p, U, j, u)
                e = float(exb.get(j, 0))
                if abs(g - e) > 1e-10:
                    ctx.fail('basis/basis_function_one', 'basis_function_one(p=%d, i=%d, u=%r)=%r, Cox-de Boor gives %r'
                             % (p, j, u, g, e), kv=U)
                else:
                    ctx.ok('basis_one')
            # all-degrees variant
            A = helpers.basis_function_all(p, U, span, u)
            exa = ref.basis_all_degrees(p, Uf, span, F(u))
            okA = True
            for d in range(p + 1):
                for j in range(d + 1):
                    if A[j][d] is None or abs(A[j][d] - float(exa[d][span - d + j])) > 1e-10:
                        okA = False
            ctx.check(okA, 'basis/basis_function_all', 'basis_function_all(p=%d, span=%d, u=%r) disagrees with '
                      'Cox-de Boor for some degree' % (p, span, u), what='basis_all', kv=U)
            # derivatives of any order (orders above the degree are identically zero)
            order = case['order']
            D = helpers.basis_function_ders(p, U, span, u, order)
            judge_ders(ctx, 'basis_function_ders', p, U, span, u, order, D)
            ctx.check(all(abs(a - b) <= 1e-12 for a, b in zip(D[0], N)), 'ders/row0-vs-basis_function',
                      'row 0 of basis_function_ders differs from basis_function', what='ders_row0')
            exd = ref.basis_ders(p, Uf, span, F(u), order)
            interior_knot = cnt.get(u, 0) > 0 and not at_end and u != U[p]
            # single-function derivative variant (A2.5)
            # at the end of the domain the last span is closed (as in the span search, basis_function and basis_function_ders), whether
            # the knot vector is clamped or not: the one-function variant must describe the same (left) polynomial piece there
            for j in range(n):
                g = helpers.basis_function_ders_one(p, U, j, u, order)
                e = exd.get(j, [F(0)] * (order + 1))
                tol = [1e-9 * max(1.0, max(abs(float(exd[i][k])) for i in exd)) for k in range(order + 1)]
                bad = len(g) != order + 1 or any(abs(g[k] - float(e[k])) > tol[k] for k in range(order + 1))
                if bad:
                    ctx.fail('ders/basis_function_ders_one', 'basis_function_ders_one(p=%d, i=%d, u=%r, order=%d)=%r, '
                             'exact %r' % (p, j, u, order, g, [float(x) for x in e]), kv=U)
                else:
                    ctx.ok('ders_one')
            # multiplicity
            # (documented as equality "within a tolerance": 1e-7, scaled down for knot ranges shorter than 1; knots at 0.5 .. 2 tolerances are
            # left undecided)
            tolm = 1e-7 * min(1.0, abs(U[-1] - U[0]))
            if not any(0.5 * tolm < abs(k - u) < 2 * tolm for k in U):
                expm = sum(1 for k in U if abs(k - u) <= tolm)
                m = helpers.find_multiplicity(u, U)
                ctx.check(m == expm, 'multiplicity', 'find_multiplicity(%r) = %r, %d knots lie within the tolerance' % (u, m, expm), what='multiplicity', kv=U)
                ctx.check(helpers.find_multiplicity(u, U, tol=0.0) == cnt.get(u, 0), 'multiplicity', 'find_multiplicity(%r, tol=0) != exact count %d'
                          % (u, cnt.get(u, 0)), what='multiplicity', kv=U)
        # list wrappers equal the single-parameter calls
        sl = helpers.find_spans(p, U, n, us)
        ctx.check(list(sl) == spans_l, 'span/find_spans', 'find_spans %r != per-parameter spans %r' % (sl, spans_l),
                  what='wrappers')
        sb = helpers.find_spans(p, U, n, us, helpers.find_span_binsearch)
        ctx.check(list(sb) == spans_l, 'span/find_spans', 'find_spans(binsearch) %r != %r' % (sb, spans_l),
                  what='wrappers')
        bl = helpers.basis_functions(p, U, spans_l, us)
        ctx.check(all(list(b) == list(helpers.basis_function(p, U, s, u)) for b, s, u in zip(bl, spans_l, us))
                  and len(bl) == len(us), 'basis/basis_functions', 'basis_functions differs from basis_function',
                  what='wrappers')
        dl = helpers.basis_functions_ders(p, U, spans_l, us, case['order'])
        ctx.check(len(dl) == len(us) and all(d == helpers.basis_function_ders(p, U, s, u, case['order'])
                                             for d, s, u in zip(dl, spans_l, us)),
                  'ders/basis_functions_ders', 'basis_functions_ders differs from basis_function_ders', what='wrappers')


def check_generate_few(case, ctx):
    from geomdl import knotvector
    p, n = case['p'], case['n']
    ctx.nontriv(True)
    ctx.tag('generate:count<=degree')
    try:
        U = knotvector.generate(p, n)
    except (ValueError, Exception) as e:   # any explicit refusal
        if type(e).__name__ in ('ValueError', 'GeomdlException'):
            ctx.ok('generate')
            return
        raise
    ok = len(U) == n + p + 1 and knotvector.check(p, U, n) and len(set(U[:p + 1])) == 1 and len(set(U[-(p + 1):])) == 1
    ctx.check(ok, 'generate/too-few-ctrlpts', 'knotvector.generate(%d, %d) neither refuses (a clamped vector needs degree + 1 control points) nor '
              'returns a vector of length %d with end multiplicities %d that passes check(): %r' % (p, n, n + p + 1, p + 1, U), what='generate')


def check_generate(case, ctx):
    from geomdl import knotvector, utilities
    p, n, clamped = case['p'], case['n'], case['clamped']
    ctx.nontriv(n > p + 1)
    for fn, nm in ((knotvector.generate, 'knotvector.generate'), (utilities.generate_knot_vector, 'utilities.generate')):
        U = fn(p, n, clamped=clamped) if not clamped else (fn(p, n) if nm.startswith('util') else fn(p, n, clamped=True))
        ok = len(U) == n + p + 1 and knotvector.check(p, U, n) and all(a <= b for a, b in zip(U, U[1:]))
        if ok:
            ok = U[0] == 0.0 and U[-1] == 1.0
            if ok and clamped:
                ok = len(set(U[:p + 1])) == 1 and len(set(U[-(p + 1):])) == 1 and \
                    all(a < b for a, b in zip(U[p:n], U[p + 1:n + 1]))
            elif ok:
                ok = all(a < b for a, b in zip(U, U[1:]))
        ctx.check(ok, 'generate', '%s(%d, %d, clamped=%s) = %r: wrong length, order or end multiplicities'
                  % (nm, p, n, clamped, U), what='generate')
    # a generated vector must be accepted by a curve of that degree/size
    from geomdl import BSpline
    c = BSpline.Curve()
    c.degree = p
    c.ctrlpts = [[float(i), float(i * i % 7)] for i in range(n)]
    c.knotvector = knotvector.generate(p, n, clamped=clamped)
    a, b = c.domain
    pt = c.evaluate_single(0.5 * (a + b))
    ctx.check(len(pt) == 2, 'generate/usable', 'generated knot vector not usable', what='generate')
    for bad in ((0, n), (p, 0)):
        try:
            knotvector.generate(*bad)
            ctx.fail('generate/zero-accepted', 'generate%r accepted' % (bad,))
        except ValueError:
            ctx.ok('generate')


def check_normalize(case, ctx):
    from geomdl import knotvector
    U = case['kv']
    ctx.nontriv(True)
    out = knotvector.normalize(U)
    a, b = U[0], U[-1]
    ok = len(out) == len(U) and out[0] == 0.0 and out[-1] == 1.0
    if ok:
        for x, y, ox, oy in zip(U, U[1:], out, out[1:]):
            if (x == y and ox != oy) or (x < y and not ox < oy):
                ok = False
        for x, o in zip(U, out):
            if abs(F(o) - (F(x) - F(a)) / (F(b) - F(a))) > F(1, 10 ** 15) + abs(F(x)) * F(1, 10 ** 15) / abs(F(b) - F(a)):
                ok = False
    ctx.check(ok, 'normalize', 'normalize(%r) = %r is not the order-preserving affine map onto [0,1]' % (U, out),
              what='normalize')
    # through a shape
    from geomdl import BSpline
    p, n = case['p'], case['n']
    c = BSpline.Curve()
    c.degree = p
    c.ctrlpts = [[float(i), 1.0] for i in range(n)]
    c.knotvector = list(U)
    kv = list(c.knotvector)
    ctx.check(len(kv) == len(U) and kv[0] == 0.0 and kv[-1] == 1.0 and all(abs(x - y) <= 1e-15 for x, y in zip(kv, out)),
              'normalize/setter', 'knot vector stored by a normalising curve is not the normalised vector', what='normalize')
    c2 = BSpline.Curve(normalize_kv=False)
    c2.degree = p
    c2.ctrlpts = [[float(i), 1.0] for i in range(n)]
    c2.knotvector = list(U)
    ctx.check(list(c2.knotvector) == list(U), 'normalize/off', 'normalize_kv=False altered the knot vector',
              what='normalize')


def check_check(case, ctx):
    from geomdl import knotvector, utilities, BSpline
    p, n, U = case['p'], case['n'], list(case['kv'])
    ctx.nontriv(True)
    ctx.check(knotvector.check(p, U, n) is True and utilities.check_knot_vector(p, U, n) is True, 'check/valid-rejected',
              'valid knot vector rejected', what='check_accept', kv=U)
    mut, pos = case['mut'], case['pos']
    V = list(U)
    if mut == 'drop':
        del V[pos]
    elif mut == 'dup':
        V.insert(pos, V[pos])
    elif mut == 'append':
        V.append(V[-1])
    elif mut == 'dec_end':
        V[-1] = V[-2] - 0.25 if V[-2] == V[-1] else V[0] - 1.0
    else:  # swap two adjacent distinct knots -> decreasing
        idx = [i for i in range(len(V) - 1) if V[i] < V[i + 1]]
        i = idx[pos % len(idx)]
        V[i], V[i + 1] = V[i + 1], V[i]
    r = knotvector.check(p, V, n)
    ctx.check(r is False, 'check/invalid-accepted', 'check(p=%d, n=%d) accepted %s-corrupted vector %r' % (p, n, mut, V),
              what='check_reject')
    for norm in (True, False):
        c = BSpline.Curve(normalize_kv=norm)
        c.degree = p
        c.ctrlpts = [[float(i), 1.0] for i in range(n)]
        try:
            c.knotvector = list(V)
            ctx.fail('check/setter-accepted', 'knotvector setter accepted %s-corrupted vector (normalize_kv=%s)' % (mut, norm),
                     kv=V)
        except Exception:
            ctx.ok('check_reject')


def check_ambient(case, ctx):
    """library-level usage with the all-call hooks listening: evaluation, derivatives, insertion"""
    import random
    from geomdl import operations
    rng = random.Random(case['seed'])
    pdim = rng.choice([1, 1, 2, 3])
    sd = G.rand_shape(rng, pdim, span=rng.choice(['linear', 'binary']), normalize=rng.random() < 0.7)
    ctx.nontriv(True)
    try:
        o = G.build(sd)
        for _, prm in G.param_tuples(rng, o, 5):
            G.evaluate_single(o, prm)
            if pdim == 1:
                o.derivatives(prm[0], rng.randint(0, sd['degrees'][0]))
            elif pdim == 2:
                o.derivatives(prm[0], prm[1], rng.randint(0, min(sd['degrees'])))
        if sd['normalize_kv']:
            o.sample_size = 7 if pdim == 1 else 3
            o.evalpts
        ctx.count('ambient')
    except Exception as e:  # failures of the carrier API are other properties' business (C01/C02/C17)
        ctx.count('ambient_carrier_exception:%s' % type(e).__name__)

TECHNIQUE = ("runtime monitoring: post-condition oracles (exact Cox-de Boor reference in rational arithmetic) on every "
             "span-search / basis-function / knot-vector helper call, driven by a class-enumerating generator, plus all-call "
             "hooks on helpers.* while library-level workloads run")
LEVEL_TEXT = ("Each helper call made by the workload is judged against the mathematical definition computed exactly; holds on "
              "the thousands of (degree, knot vector, parameter) triples observed, incl. an exhaustively enumerated sub-space "
              "in the thorough tier; not a proof for all inputs.")
