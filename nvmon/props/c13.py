"""C13 — one control-net layout convention (v fastest, then u, then w) across all modules."""
import copy
import random
from fractions import Fraction as F

from .. import gen as G, hooks, ref, shapeops as so
from ..core import Reject

ID = 'C13'
SHARDS = {'quick': 4, 'thorough': 16}
BUDGET = {'quick': 150, 'thorough': 1500}
RULE = ("cases: the harness owns a control net P[(i,j,k)] with pairwise different sizes and degrees per direction (surface or "
        "volume, rational or not) and pushes it through every route: set_ctrlpts, ctrlpts2d get/set, ctrlptsw/ctrlpts setters, "
        "control_points.*Manager get/set, compatibility.flip_ctrlpts/flip_ctrlpts_u/flip_ctrlpts2d, operations.transpose/flip, "
        "construct.construct_surface/construct_volume in every direction, extract_curves/extract_surfaces/extract_isosurface, "
        "sweeping.sweep_vector; each resulting object must evaluate to the exact reference of the harness-owned net "
        "(behavioural, not index peeking), extract∘construct must be the identity, transposing must swap u and v. "
        "Non-trivial: every case (sizes and degrees differ per direction, so any mix-up changes the shape); distinct = case hash.")
ASSUMPTIONS = ["nvmon.ref exact reference model evaluated on the harness-owned net", "tolerance 1e-9*scale"]
FLOORS = {'quick': {'route-eval': 3000, 'ctrlpts2d': 300, 'manager': 300, 'flip-helpers': 200, 'transpose': 100, 'flip': 100,
                    'extract-construct': 200, 'sweep': 60},
          'thorough': {'route-eval': 30000, 'extract-construct': 2000}}
MANDATORY_TAGS = ['surface', 'volume', 'rational', 'construct:u', 'construct:v', 'construct:w', 'cs:u', 'cs:v', 'sweep:curve',
                  'sweep:surface', 'extract:uv', 'extract:uw', 'extract:vw', 'transpose:trimmed', 'transpose:trim-container', 'set_ctrlpts:inconsistent-count']
TECHNIQUE = ("runtime monitoring: behavioural oracle - every route of putting a harness-owned control net into / getting it out of "
             "a shape is judged by exact evaluation against the reference model of that net")
LEVEL_TEXT = ("Every layout-dependent API route the workload exercises is judged by evaluating the resulting shape against the "
              "harness-owned net, with pairwise different sizes/degrees so that an index mix-up cannot cancel; holds on the calls observed.")


def gen(rng, tier, shard, nshards):
    n = 70 if tier == 'quick' else 600
    for i in range(n):
        yield {'kind': 'surface', 'seed': rng.randrange(1 << 30), 'rational': rng.random() < 0.5}
        yield {'kind': 'volume', 'seed': rng.randrange(1 << 30), 'rational': rng.random() < 0.5}
        if i % 3 == 0:
            yield {'kind': 'sweep', 'seed': rng.randrange(1 << 30), 'rational': rng.random() < 0.4, 'pdim': rng.choice([1, 2])}


def distinct_layout(rng, pdim, maxdeg=3):
    for _ in range(200):
        degs = [rng.randint(1, maxdeg) for _ in range(pdim)]
        sizes = [d + 1 + rng.randint(0, 3) for d in degs]
        if len(set(degs)) == pdim and len(set(sizes)) == pdim:
            return degs, sizes
    raise Reject()


def make_net(rng, sizes, rational, dim=3):
    idxs = [()]
    for s in sizes:
        idxs = [t + (i,) for t in idxs for i in range(s)]
    P = {t: [rng.uniform(-10, 10) for _ in range(dim)] for t in idxs}
    W = {t: (rng.uniform(0.3, 4) if rational else 1.0) for t in idxs}
    return P, W


def hom(P, W, t, rational):
    return [c * W[t] for c in P[t]] + [W[t]] if rational else list(P[t])


def reference(degs, kvs, sizes, P, W, rational, perm=None):
    """reference shape; perm maps reference index tuple -> harness index tuple (for transposed / re-ordered results)"""
    net = {}
    idxs = [()]
    for s in sizes:
        idxs = [t + (i,) for t in idxs for i in range(s)]
    for t in idxs:
        src = perm(t) if perm else t
        net[t] = hom(P, W, src, rational)
    return ref.Shape(degs, kvs, sizes, net, rational)


def judge(ctx, rng, o, S, key, msg, n=8, what='route-eval'):
    sc = so.scale_of_defn(S)
    for q in so.probe_params(rng, S, nrand=4, maxn=n):
        if not ctx.near(G.evaluate_single(o, q), S.point(q), 1e-9 * sc, key, msg + ' (at %r)' % (q,), what=what):
            return False
    return True


def check(case, ctx):
    return {'surface': check_surface, 'volume': check_volume, 'sweep': check_sweep}[case['kind']](case, ctx)


def mod_for(rational):
    from geomdl import BSpline, NURBS
    return NURBS if rational else BSpline


def close(a, b, tol=1e-12):
    if isinstance(a, (list, tuple)):
        return isinstance(b, (list, tuple)) and len(a) == len(b) and all(close(x, y, tol) for x, y in zip(a, b))
    return abs(a - b) <= tol * max(1.0, abs(a), abs(b))


def check_surface(case, ctx):
    from geomdl import operations, compatibility, control_points, construct
    rng = random.Random(case['seed'])
    rational = case['rational']
    ctx.tag('surface', 'rational' if rational else 'nonrational')
    ctx.nontriv(True)
    (p, q), (nu, nv) = distinct_layout(rng, 2)
    P, W = make_net(rng, (nu, nv), rational)
    U = G.knot_vector(rng, p, nu, 'bezier' if nu == p + 1 else 'random')
    V = G.knot_vector(rng, q, nv, 'bezier' if nv == q + 1 else 'random')
    mod = mod_for(rational)
    flat = [hom(P, W, (i, j), rational) for i in range(nu) for j in range(nv)]      # v fastest, then u
    S = reference((p, q), (U, V), (nu, nv), P, W, rational)

    def new(**kw):
        s = mod.Surface(**kw)
        s.degree_u, s.degree_v = p, q
        return s

    def finish(s):
        s.knotvector_u, s.knotvector_v = list(U), list(V)
        return s
    # route 1: set_ctrlpts(flat, nu, nv)
    s1 = new()
    s1.set_ctrlpts(copy.deepcopy(flat), nu, nv)
    finish(s1)
    if not judge(ctx, rng, s1, S, 'route/set_ctrlpts', 'surface built with set_ctrlpts(flat v-fastest list) is not the harness net'):
        return
    # a flat list whose length is not size_u * size_v cannot be laid out: it must be refused, leaving the surface as it was
    from geomdl.exceptions import GeomdlException
    extra = rng.choice([-2, -1, 1, 2, nv])
    bad = (copy.deepcopy(flat) + [list(flat[0])] * max(extra, 0))[:len(flat) + extra]
    before_ = G.snapshot(s1)
    ctx.tag('set_ctrlpts:inconsistent-count')
    try:
        s1.set_ctrlpts(bad, nu, nv)
    except (ValueError, GeomdlException):
        ctx.check(G.snapshot(s1) == before_, 'route/set_ctrlpts-refusal-destroys', 'set_ctrlpts(%d points, %d, %d) was refused but the surface lost / '
                  'changed its control points' % (len(bad), nu, nv), what='ctrlpts2d')
    except IndexError:
        ctx.fail('route/set_ctrlpts-inconsistent-count', 'set_ctrlpts(%d points, %d, %d) fails with a bare IndexError after the surface was already '
                 'modified' % (len(bad), nu, nv))
        return
    else:
        ctx.fail('route/set_ctrlpts-inconsistent-count', 'set_ctrlpts(%d points, %d, %d) accepted a list that is not size_u * size_v long: flat list '
                 'has %d points, the 2-D grid %d' % (len(bad), nu, nv, len(s1.ctrlpts), sum(len(r_) for r_ in s1.ctrlpts2d)))
        return
    # ctrlpts2d getter
    g2 = s1.ctrlpts2d
    ctx.check(len(g2) == nu and all(len(r) == nv for r in g2) and
              all(close(list(g2[i][j]), hom(P, W, (i, j), rational)) for i in range(nu) for j in range(nv)),
              'route/ctrlpts2d-get', 'ctrlpts2d[i][j] is not the control point (u=i, v=j)', what='ctrlpts2d')
    # the sizes re-declared on a surface that has its points (the same flat list read as another layout nv x nu; degrees permitting): the
    # 2-D view follows the declared sizes, as the evaluator and every other module do
    s5 = copy.deepcopy(s1)
    dg5 = G.degrees_of(s5)
    if nv >= dg5[0] + 1 and nu >= dg5[1] + 1 and nu != nv:
        from geomdl import knotvector as _KV
        s5.ctrlpts_size_u, s5.ctrlpts_size_v = nv, nu
        s5.knotvector_u, s5.knotvector_v = _KV.generate(dg5[0], nv), _KV.generate(dg5[1], nu)
        ctx.tag('sizes-redeclared')
        g5 = s5.ctrlpts2d
        fl5 = [list(p_) for p_ in (s5.ctrlptsw if rational else s5.ctrlpts)]
        ok5 = len(g5) == nv and all(len(r_) == nu for r_ in g5) and all(close(list(g5[i][j]), fl5[j + nu * i]) for i in range(nv) for j in range(nu))
        ctx.check(ok5, 'route/ctrlpts2d-stale-after-size-setters', 'after ctrlpts_size_u, ctrlpts_size_v = %d, %d on a %d x %d surface the 2-D view is %d x %s '
                  'and not flat[v + size_v * u]' % (nv, nu, nu, nv, len(g5), sorted(set(len(r_) for r_ in g5))), what='ctrlpts2d')
    # route 2: ctrlpts2d setter
    s2 = new()
    s2.ctrlpts2d = [[hom(P, W, (i, j), rational) for j in range(nv)] for i in range(nu)]
    finish(s2)
    ctx.check(G.sizes_of(s2) == [nu, nv], 'route/ctrlpts2d-set-sizes', 'ctrlpts2d setter derived sizes %r' % (G.sizes_of(s2),),
              what='ctrlpts2d')
    if not judge(ctx, rng, s2, S, 'route/ctrlpts2d-set', 'surface built through the ctrlpts2d setter is not the harness net',
                 what='ctrlpts2d'):
        return
    # route 3: sizes first, then ctrlpts (+ weights) property setters
    s3 = new()
    s3.ctrlpts_size_u, s3.ctrlpts_size_v = nu, nv
    if rational:
        s3.ctrlptsw = copy.deepcopy(flat)
    else:
        s3.ctrlpts = copy.deepcopy(flat)
    finish(s3)
    if not judge(ctx, rng, s3, S, 'route/ctrlpts-property', 'surface built with the ctrlpts/ctrlptsw property is not the harness net'):
        return
    # managers
    mgr = control_points.SurfaceManager(nu, nv)
    for i in range(nu):
        for j in range(nv):
            mgr.set_ctrlpt(hom(P, W, (i, j), rational), i, j)
    ctx.check(all(mgr.get_ctrlpt(i, j) == hom(P, W, (i, j), rational) for i in range(nu) for j in range(nv)),
              'route/manager-roundtrip', 'SurfaceManager.get_ctrlpt(i,j) != what set_ctrlpt(.,i,j) stored', what='manager')
    s4 = new()
    s4.set_ctrlpts([list(x) for x in mgr.ctrlpts], nu, nv)
    finish(s4)
    if not judge(ctx, rng, s4, S, 'route/manager-layout', 'SurfaceManager.ctrlpts is not in the surface\'s flat layout', what='manager'):
        return
    # (sixth hunt) a manager loaded with the points of a surface (mgr.ctrlpts = surf.ctrlpts) and reset afterwards: the surface keeps them
    mgr2 = control_points.SurfaceManager(nu, nv)
    held = s4.ctrlptsw if rational else s4.ctrlpts
    snap_ = [list(x) for x in held]
    mgr2.ctrlpts = held
    mgr2.reset()
    ctx.tag('manager:reset-after-loading-a-surface')
    ctx.check([list(x) for x in (s4.ctrlptsw if rational else s4.ctrlpts)] == snap_, 'route/manager-reset-wipes-source',
              'SurfaceManager.ctrlpts = surf.ctrlpts; manager.reset(): the SURFACE has lost its control points (the list is emptied in place)',
              what='manager')
    # flip helpers: u-row order (u fastest) <-> v-row order (v fastest)
    urow = [hom(P, W, (i, j), rational) for j in range(nv) for i in range(nu)]
    ctx.check(close(compatibility.flip_ctrlpts_u(copy.deepcopy(urow), nu, nv), flat), 'route/flip_ctrlpts_u',
              'flip_ctrlpts_u does not turn u-fastest order into the library\'s v-fastest order', what='flip-helpers')
    ctx.check(close(compatibility.flip_ctrlpts(copy.deepcopy(flat), nu, nv), urow), 'route/flip_ctrlpts',
              'flip_ctrlpts does not turn v-fastest order into u-fastest order', what='flip-helpers')
    f2 = compatibility.flip_ctrlpts2d([[hom(P, W, (i, j), rational) for j in range(nv)] for i in range(nu)])
    ctx.check(len(f2) == nv and all(len(r) == nu for r in f2) and
              all(close(f2[j][i], hom(P, W, (i, j), rational)) for i in range(nu) for j in range(nv)), 'route/flip_ctrlpts2d',
              'flip_ctrlpts2d is not the [u][v] -> [v][u] transposition', what='flip-helpers')
    # transpose: S'(u, v) = S(v, u)
    for inplace in (False, True):
        src = copy.deepcopy(s1)
        # the directions are sampled differently: the sampling settings belong to the directions and change places with them
        ssu, ssv = rng.sample([3, 4, 5, 6, 7], 2)
        src.sample_size_u, src.sample_size_v = ssu, ssv
        grid0 = [list(pt) for pt in src.evalpts]
        t = operations.transpose(src, inplace=inplace)
        ctx.tag('transpose:sampling-per-direction')
        grid1 = [list(pt) for pt in t.evalpts]
        exp_grid = [grid0[j + ssv * i] for j in range(ssv) for i in range(ssu)] if len(grid0) == ssu * ssv else None
        ctx.check(exp_grid is not None and len(grid1) == len(exp_grid) and (t.sample_size_u, t.sample_size_v) == (ssv, ssu) and
                  all(close(a_, b_) for a_, b_ in zip(grid1, exp_grid)), 'transpose/sampling-not-swapped',
                  'transpose of a surface sampled %d x %d: the result is sampled %r x %r and its sampled points are not the transposed '
                  'grid of the input (the direction that was sampled %d times is now sampled %r times)'
                  % (ssu, ssv, t.sample_size_u, t.sample_size_v, ssu, t.sample_size_v), what='transpose')
        St = reference((q, p), (V, U), (nv, nu), P, W, rational, perm=lambda t_: (t_[1], t_[0]))
        ctx.check(G.degrees_of(t) == [q, p] and G.sizes_of(t) == [nv, nu], 'route/transpose-structure',
                  'transpose: degrees %r sizes %r' % (G.degrees_of(t), G.sizes_of(t)), what='transpose')
        if not judge(ctx, rng, t, St, 'route/transpose', 'transpose(inplace=%s) is not S\'(u,v) = S(v,u)' % inplace, what='transpose'):
            return
    # a container of two distinct surfaces with equal data (a patch and its copy): both are transposed
    from geomdl import multi as _multi
    twins = _multi.SurfaceContainer(copy.deepcopy(s1), copy.deepcopy(s1))
    shared_trim = None
    if rng.random() < 0.5:
        # ... that share ONE trim curve object: it is transposed once (not once per surface it belongs to)
        from geomdl import BSpline as _BS, knotvector as _KV2
        (ua_, ub_), (va_, vb_) = G.domains_of(s1)
        shared_trim = _BS.Curve()
        shared_trim.degree = 1
        tl_ = [[ua_ + x_ * (ub_ - ua_), va_ + y_ * (vb_ - va_)] for x_, y_ in ((0.2, 0.3), (0.7, 0.3), (0.7, 0.6), (0.2, 0.6), (0.2, 0.3))]
        shared_trim.ctrlpts = [list(p_) for p_ in tl_]
        shared_trim.knotvector = _KV2.generate(1, 5)
        for e_ in twins:
            e_.add_trim(shared_trim)
        ctx.tag('transpose:container-shared-trim')
    shared_loop = None
    if shared_trim is None and rng.random() < 0.6:
        # (fifth hunt) ... or whose trim loops are two CurveContainer objects built from the SAME three curves: every curve is
        # transposed once, whatever number of loops it belongs to
        from geomdl import BSpline as _BS, knotvector as _KV2
        (ua_, ub_), (va_, vb_) = G.domains_of(s1)
        corners_ = [(0.1, 0.2), (0.6, 0.2), (0.3, 0.7)]
        shared_loop = []
        for k_ in range(3):
            c_ = _BS.Curve()
            c_.degree = 1
            c_.ctrlpts = [[ua_ + x_ * (ub_ - ua_), va_ + y_ * (vb_ - va_)] for x_, y_ in (corners_[k_], corners_[(k_ + 1) % 3])]
            c_.knotvector = [0.0, 0.0, 1.0, 1.0]
            shared_loop.append(c_)
        loop_pts_ = [[list(p_) for p_ in c_.ctrlpts] for c_ in shared_loop]
        for e_ in twins:
            e_.add_trim(_multi.CurveContainer(*shared_loop))
        ctx.tag('transpose:container-shared-loop-curves')
    cont_ss = None
    if rng.random() < 0.5:
        # (fifth hunt) the CONTAINER's sampling per direction changes places as well: it is what the elements are sampled with
        cont_ss = rng.sample([3, 4, 5, 6], 2)
        twins.sample_size_u, twins.sample_size_v = cont_ss
        if rng.random() < 0.5:
            _ = twins.evalpts
        ctx.tag('transpose:container-sampling-per-direction')
    tt_ = operations.transpose(twins, inplace=rng.random() < 0.5)
    if cont_ss is not None:
        n_pts = len(tt_.evalpts)
        got_ss = [(e_.sample_size_u, e_.sample_size_v) for e_ in tt_]
        ctx.check((tt_.sample_size_u, tt_.sample_size_v) == (cont_ss[1], cont_ss[0]) and all(g_ == (cont_ss[1], cont_ss[0]) for g_ in got_ss) and
                  n_pts == 2 * cont_ss[0] * cont_ss[1], 'transpose/container-sampling-not-swapped', 'transpose of a container sampled %d x %d: the result '
                  'is sampled %r x %r, its surfaces (after its points were read) %r' % (cont_ss[0], cont_ss[1], tt_.sample_size_u, tt_.sample_size_v, got_ss),
                  what='transpose')
    if shared_loop is not None:
        exp_loop = [[[p_[1], p_[0]] for p_ in reversed(cp_)] for cp_ in reversed(loop_pts_)]
        for k_, e_ in enumerate(tt_):
            got_loop = [[[round(c_, 9) for c_ in p_] for p_ in c2_.ctrlpts] for c2_ in e_.trims[0]]
            ctx.check(len(got_loop) == 3 and all(close(a_, b_) for a_, b_ in zip(got_loop, exp_loop)), 'transpose/shared-trim-transposed-twice',
                      'transpose of a container whose two surfaces carry trim loops built from the same three curves: the loop of surface %d is %r, '
                      'the (v, u)-swapped and reversed loop is %r' % (k_, got_loop, exp_loop), what='transpose')
    if shared_trim is not None:
        got_ = [sorted([round(c_, 9) for c_ in p_] for p_ in e_.trims[0].ctrlpts) for e_ in tt_]
        exp_ = sorted([round(p_[1], 9), round(p_[0], 9)] for p_ in tl_)
        ctx.check(all(g_ == exp_ for g_ in got_), 'transpose/shared-trim-transposed-twice', 'transpose of a container whose two surfaces share one trim '
                  'curve: the trim of the result is %r, the (v, u)-swapped loop is %r' % (got_[0], exp_), what='transpose')
    ctx.tag('transpose:container-of-equal-twins')
    St = reference((q, p), (V, U), (nv, nu), P, W, rational, perm=lambda t_: (t_[1], t_[0]))
    for k_, e_ in enumerate(tt_):
        if not ctx.check(G.degrees_of(e_) == [q, p] and G.sizes_of(e_) == [nv, nu], 'route/transpose-container-element-skipped',
                         'transpose(container of two equal surfaces): element %d has degrees %r sizes %r, expected %r %r'
                         % (k_, G.degrees_of(e_), G.sizes_of(e_), [q, p], [nv, nu]), what='transpose'):
            return
        if not judge(ctx, rng, e_, St, 'route/transpose', 'transpose(container): element %d is not S\'(u,v) = S(v,u)' % k_, what='transpose'):
            return
    # the bound method is the same operation, in place
    tm = copy.deepcopy(s1)
    r_ = tm.transpose()
    St = reference((q, p), (V, U), (nv, nu), P, W, rational, perm=lambda t_: (t_[1], t_[0]))
    ctx.check(G.degrees_of(tm) == [q, p] and G.sizes_of(tm) == [nv, nu], 'route/transpose-method-structure',
              'Surface.transpose(): degrees %r sizes %r, expected %r %r' % (G.degrees_of(tm), G.sizes_of(tm), [q, p], [nv, nu]), what='transpose')
    if G.degrees_of(tm) == [q, p] and G.sizes_of(tm) == [nv, nu]:
        if not judge(ctx, rng, tm, St, 'route/transpose-method', 'Surface.transpose() is not S\'(u,v) = S(v,u)', what='transpose'):
            return
    # a trimmed surface: trim curves live in the (u, v) parameter space, so swapping the roles of u and v swaps their coordinates too
    if rng.random() < 0.4:
        from geomdl import freeform
        ts = copy.deepcopy(s1)
        (ua, ub), (va, vb) = G.domains_of(ts)
        loop = [[ua + x * (ub - ua), va + y * (vb - va)] for x, y in ((0.15, 0.55), (0.35, 0.55), (0.35, 0.9), (0.15, 0.9), (0.15, 0.55))]
        kind_ = rng.choice(['freeform', 'spline', 'rational-spline', 'container'])
        if kind_ == 'freeform':
            tr = freeform.Freeform()
            tr.evaluate(points=loop)
        else:
            from geomdl import BSpline, NURBS, knotvector, multi

            def spl(pts_, rat):
                c_ = (NURBS if rat else BSpline).Curve()
                c_.degree = 1
                c_.ctrlpts = [list(p_) for p_ in pts_]
                c_.knotvector = knotvector.generate(1, len(pts_))
                if rat:
                    c_.weights = [1.0, 2.0, 0.5, 1.5, 1.0][:len(pts_)]
                return c_
            if kind_ == 'container':
                if rng.random() < 0.5:
                    tr = multi.CurveContainer(spl(loop[:3], False), spl(loop[2:], False))
                else:
                    # three or four pieces (with two, reversing each piece happens to give a loop again)
                    tr = multi.CurveContainer(spl(loop[0:2], False), spl(loop[1:3], False), spl(loop[2:4], False), spl(loop[3:5], False))
            else:
                tr = spl(loop, kind_ == 'rational-spline')
        ts.trims = [tr]
        ctx.tag('transpose:trimmed', 'transpose:trim-' + kind_)
        before = [list(ts.evaluate_single((x, y))) for x, y in loop]

        def tpts0(t_):
            if t_.type == 'container':
                return [p_ for e_ in t_ for p_ in tpts0(e_)]
            return [list(p_) for p_ in (t_.evalpts if t_.type == 'freeform' else t_.ctrlpts)]
        trims_before = [p_ for t_ in ts.trims for p_ in tpts0(t_)]
        tt = operations.transpose(ts, inplace=False)
        (ua2, ub2), (va2, vb2) = G.domains_of(tt)
        def tpts(t_):
            if t_.type == 'container':
                return [p_ for e_ in t_ for p_ in tpts(e_)]
            return [list(p_) for p_ in (t_.evalpts if t_.type == 'freeform' else t_.ctrlpts)]
        pts_after = [p_ for t_ in tt.trims for p_ in tpts(t_)]
        ok_t = len(pts_after) >= len(loop) and all(ua2 - 1e-9 <= x <= ub2 + 1e-9 and va2 - 1e-9 <= y <= vb2 + 1e-9 for x, y in pts_after)
        if ok_t:
            after = [list(tt.evaluate_single((x, y))) for x, y in pts_after]
            sc_ = max(1.0, max(abs(c) for q_ in before for c in q_))
            # same boundary as a point set (either orientation)
            ok_t = all(min(max(abs(a - b) for a, b in zip(q_, r_)) for r_ in after) <= 1e-9 * sc_ for q_ in before)
        ctx.check([list(p_) for t_ in ts.trims for p_ in tpts(t_)] == trims_before,
                  'transpose/input-trims-modified', 'transpose(inplace=False) changed the trim curves of its input', what='transpose')
        if ok_t and kind_ in ('freeform', 'spline'):
            # the sense of a trim whose 'reversed' flag is unset is derived from its orientation (trimming.fix_trim_curves): the same region
            # must be kept before and after the transposition (not its complement)
            from geomdl import trimming, tessellate
            na_nb = []
            for surf_ in (copy.deepcopy(ts), operations.transpose(copy.deepcopy(ts))):
                surf_.sample_size = 12
                trimming.fix_trim_curves(surf_)
                surf_.tessellator = tessellate.TrimTessellate()
                na_nb.append(len(surf_.faces))
            ctx.check(abs(na_nb[0] - na_nb[1]) <= 0.2 * max(na_nb), 'transpose/trim-sense-flipped', 'trimmed tessellation keeps %d faces before and %d '
                      'after transposition (sense derived from the trim orientation): the complement region is kept' % tuple(na_nb), what='transpose')
        if kind_ == 'container' and tt.trims and tt.trims[0].type == 'container':
            # a loop made of several curves is still a loop: every piece starts where the previous one ended (in either sense of traversal)
            pcs = [[list(p_) for p_ in e_.ctrlpts] for e_ in tt.trims[0]]
            gaps = [max(abs(a - b) for a, b in zip(pcs[k_][-1], pcs[(k_ + 1) % len(pcs)][0])) for k_ in range(len(pcs))]
            ctx.check(max(gaps) <= 1e-9 * max(1.0, abs(ub2), abs(vb2)), 'transpose/trim-loop-broken', 'transpose of a surface trimmed by a loop of %d '
                      'curves: consecutive curves of the transposed loop no longer join end to start (gaps %r)' % (len(pcs), gaps), what='transpose')
        ctx.check(ok_t, 'transpose/trims-not-transposed', 'transpose of a trimmed surface: the trim boundary no longer bounds the same region of the '
                  'surface (its curves keep their (u, v) coordinates while u and v swap roles)', what='transpose')
    # flip: net reversed in both directions
    fl = operations.flip(copy.deepcopy(s1), inplace=rng.random() < 0.5)
    g2 = fl.ctrlpts2d
    ctx.check(all(close(list(g2[i][j]), hom(P, W, (nu - 1 - i, nv - 1 - j), rational)) for i in range(nu) for j in range(nv)),
              'route/flip', 'flip: ctrlpts2d\'[i][j] != P[nu-1-i][nv-1-j]', what='flip')
    # extract_curves / construct_surface
    ex = construct.extract_curves(s1)
    ok = len(ex['u']) == nv and len(ex['v']) == nu
    ctx.check(ok, 'route/extract_curves-count', 'extract_curves: %d u-curves, %d v-curves for sizes %r' % (len(ex['u']), len(ex['v']), (nu, nv)),
              what='extract-construct')
    if ok:
        # curve obtained by fixing u = index i runs along v
        for i in (0, nu - 1, rng.randrange(nu)):
            Sc = ref.Shape((q,), (V,), (nv,), {(j,): hom(P, W, (i, j), rational) for j in range(nv)}, rational)
            if not judge(ctx, rng, ex['v'][i], Sc, 'route/extract_curves-v', 'extract_curves()[\'v\'][%d] is not the control-net row u=%d' % (i, i),
                         n=5, what='extract-construct'):
                return
        for j in (0, nv - 1, rng.randrange(nv)):
            Sc = ref.Shape((p,), (U,), (nu,), {(i,): hom(P, W, (i, j), rational) for i in range(nu)}, rational)
            if not judge(ctx, rng, ex['u'][j], Sc, 'route/extract_curves-u', 'extract_curves()[\'u\'][%d] is not the control-net column v=%d' % (j, j),
                         n=5, what='extract-construct'):
                return
        # rebuild: rows (fixed u) stacked along u; columns (fixed v) stacked along v
        ctx.tag('cs:u', 'cs:v')
        r1 = construct.construct_surface('u', *ex['v'], degree=p, knotvector=list(U))
        if not judge(ctx, rng, r1, S, 'route/construct_surface-u', 'construct_surface("u", rows) does not rebuild the surface',
                     what='extract-construct'):
            return
        r2 = construct.construct_surface('v', *ex['u'], degree=q, knotvector=list(V))
        if not judge(ctx, rng, r2, S, 'route/construct_surface-v', 'construct_surface("v", columns) does not rebuild the surface',
                     what='extract-construct'):
            return


def check_volume(case, ctx):
    from geomdl import construct, control_points
    rng = random.Random(case['seed'])
    rational = case['rational']
    ctx.tag('volume', 'rational' if rational else 'nonrational')
    ctx.nontriv(True)
    degs, sizes = distinct_layout(rng, 3)
    nu, nv, nw = sizes
    P, W = make_net(rng, sizes, rational)
    kvs = [G.knot_vector(rng, d, n, 'bezier' if n == d + 1 else 'random') for d, n in zip(degs, sizes)]
    mod = mod_for(rational)
    flat = [None] * (nu * nv * nw)
    for i in range(nu):
        for j in range(nv):
            for k in range(nw):
                flat[j + nv * (i + nu * k)] = hom(P, W, (i, j, k), rational)
    S = reference(degs, kvs, sizes, P, W, rational)
    v1 = mod.Volume()
    v1.degree_u, v1.degree_v, v1.degree_w = degs
    v1.set_ctrlpts(copy.deepcopy(flat), nu, nv, nw)
    v1.knotvector_u, v1.knotvector_v, v1.knotvector_w = [list(k) for k in kvs]
    if not judge(ctx, rng, v1, S, 'route/volume-set_ctrlpts', 'volume built with set_ctrlpts(flat: v fastest, then u, then w) is not the '
                 'harness net', n=6):
        return
    mgr = control_points.VolumeManager(nu, nv, nw)
    for t in P:
        mgr.set_ctrlpt(hom(P, W, t, rational), *t)
    ctx.check(all(mgr.get_ctrlpt(*t) == hom(P, W, t, rational) for t in P), 'route/manager-roundtrip',
              'VolumeManager.get_ctrlpt != set_ctrlpt', what='manager')
    v2 = mod.Volume()
    v2.degree_u, v2.degree_v, v2.degree_w = degs
    v2.set_ctrlpts([list(x) for x in mgr.ctrlpts], nu, nv, nw)
    v2.knotvector_u, v2.knotvector_v, v2.knotvector_w = [list(k) for k in kvs]
    if not judge(ctx, rng, v2, S, 'route/manager-layout', 'VolumeManager.ctrlpts is not in the volume\'s flat layout', n=6, what='manager'):
        return
    # extraction
    ex = construct.extract_surfaces(v1)
    plan = {'uv': (2, (0, 1), nw), 'uw': (1, (0, 2), nv), 'vw': (0, (1, 2), nu)}
    for key, (fixed, free, count) in plan.items():
        ctx.tag('extract:' + key)
        if not ctx.check(len(ex[key]) == count, 'route/extract_surfaces-count', 'extract_surfaces()[%r] has %d surfaces, expected %d'
                         % (key, len(ex[key]), count), what='extract-construct'):
            return
        for f in sorted(set([0, count - 1, rng.randrange(count)])):
            a, b = free
            net = {}
            for i in range(sizes[a]):
                for j in range(sizes[b]):
                    t = [0, 0, 0]
                    t[a], t[b], t[fixed] = i, j, f
                    net[(i, j)] = hom(P, W, tuple(t), rational)
            Ss = ref.Shape((degs[a], degs[b]), (kvs[a], kvs[b]), (sizes[a], sizes[b]), net, rational)
            if not judge(ctx, rng, ex[key][f], Ss, 'route/extract_surfaces-%s' % key,
                         'extract_surfaces()[%r][%d] is not the net section %s=%d' % (key, f, 'uvw'[fixed], f), n=5, what='extract-construct'):
                return
    iso = construct.extract_isosurface(v1)
    ctx.check(len(iso) == 6, 'route/extract_isosurface', 'extract_isosurface returned %d surfaces' % len(iso), what='extract-construct')
    # construct ∘ extract = identity along the matching direction
    for key, direction, d in (('uv', 'w', 2), ('uw', 'v', 1), ('vw', 'u', 0)):
        ctx.tag('construct:' + direction)
        r = construct.construct_volume(direction, *ex[key], degree=degs[d], knotvector=list(kvs[d]))
        ctx.check(G.sizes_of(r) == list(sizes) and G.degrees_of(r) == list(degs), 'route/construct_volume-%s-structure' % direction,
                  'construct_volume(%r): sizes %r degrees %r, expected %r %r' % (direction, G.sizes_of(r), G.degrees_of(r), sizes, degs),
                  what='extract-construct')
        if G.sizes_of(r) == list(sizes) and G.degrees_of(r) == list(degs):
            if not judge(ctx, rng, r, S, 'route/construct_volume-%s' % direction,
                         'construct_volume(%r, extract_surfaces()[%r]) does not rebuild the volume' % (direction, key), n=6,
                         what='extract-construct'):
                return


def check_sweep(case, ctx):
    from geomdl import sweeping, construct
    rng = random.Random(case['seed'])
    rational = case['rational']
    pdim = case['pdim']
    ctx.nontriv(True)
    dim_ = 3 if pdim == 2 or rng.random() < 0.6 else 2
    sd = G.rand_shape(rng, pdim, rational=rational, dim=dim_, clamped_only=True, maxextra=3, maxdeg=3)
    o = G.build(sd)
    S = G.defn_of(o)
    vec = [rng.uniform(-5, 5) for _ in range(dim_)]
    if rng.random() < 0.25:
        # a vector of another dimension than the shape (e.g. a planar profile extruded along z): either refused, or the far section is the
        # input moved by the WHOLE vector - not a silently truncated one
        from geomdl.exceptions import GeomdlException
        wrong = vec + [rng.uniform(1, 5)] if rng.random() < 0.6 or dim_ == 2 else vec[:-1]
        ctx.tag('sweep:vector-of-other-dimension')
        try:
            r_ = sweeping.sweep_vector(o, wrong)
        except (GeomdlException, ValueError, TypeError):
            ctx.ok('sweep')
        else:
            ok_ = r_.dimension == max(len(wrong), dim_)
            ctx.check(ok_, 'sweep/vector-truncated', 'sweep_vector(%d-D shape, %d-component vector) returned a %d-D shape: the vector was silently '
                      'cut down to the dimension of the shape (or the shape to that of the vector)' % (dim_, len(wrong), r_.dimension), what='sweep')
    ctx.tag('sweep:curve' if pdim == 1 else 'sweep:surface', 'rational' if rational else 'nonrational')
    r = sweeping.sweep_vector(o, vec)
    if not ctx.check(r.pdimension == pdim + 1, 'sweep/pdimension', 'sweep_vector returned pdimension %d' % r.pdimension, what='sweep'):
        return
    sc = so.scale_of_defn(S) + max(abs(v) for v in vec)
    doms = G.domains_of(r)
    # the two opposite boundary sections in the sweep direction are the input and its translate
    if pdim == 1:
        # curves stacked along u: boundary u = start is the input, u = end the translate
        sweep_dir = 0
    else:
        sweep_dir = 2
    for q in so.probe_params(rng, S, nrand=4, maxn=8):
        base = S.point(q)
        for end, shift in ((0, 0), (1, 1)):
            prm = list(q)
            prm.insert(sweep_dir, doms[sweep_dir][end])
            # map the free parameters onto the result's domain of that direction (identical knot vectors expected)
            got = G.evaluate_single(r, prm)
            exp = [a + F(v) * shift for a, v in zip(base, vec)]
            if not ctx.near(got, exp, 1e-9 * sc, 'sweep/boundary-section', 'sweep_vector: boundary section %d at %r is not the %s'
                            % (end, q, 'input' if shift == 0 else 'translated input'), what='sweep'):
                return
