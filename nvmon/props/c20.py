"""C20 — planar predicates and spatial queries agree with exact arithmetic."""
import math
import random
from fractions import Fraction as F

from .. import gen as G, hooks, ref, shapeops as so
from ..core import Reject

ID = 'C20'
SHARDS = {'quick': 4, 'thorough': 16}
BUDGET = {'quick': 150, 'thorough': 1500}
RULE = ("cases on integer / small-rational grids so that exact arithmetic decides: (a) 2-D/3-D ray pairs, classes crossing, "
        "parallel, coincident, skew (constructed, not hoped for) -> status, exact parameters, coinciding points; (b) is_left vs "
        "exact orientation; (c) wn_poly on simple polygons (star-shaped and orthogonal, both orientations) for ALL half-integer "
        "query points of the bounding grid that are off the boundary (exhaustive per polygon) vs exact crossing parity; (d) "
        "convex_hull by the definitional test incl. collinear boundary points and duplicates; (e) voxelize of surfaces/volumes, "
        "grid sizes 2..8 per axis, cuboids and cubes: len(filled) == len(grid), every sampled point covered, filled[i] iff a "
        "sampled point lies in voxel i (points within 2*tol of a face are don't-care); (f) find_ctrlpts == control points "
        "span-p..span (superset of the points with non-zero basis). Non-trivial: every case (each class is constructed "
        "non-degenerate); distinct = case hash.")
ASSUMPTIONS = ["exact rational arithmetic (fractions) for all predicates", "query points off polygon boundaries; voxel faces: 2*tol band is don't-care"]
FLOORS = {'quick': {'ray-status': 1500, 'ray-params': 500, 'is_left': 1500, 'wn_poly': 5000, 'hull': 300, 'voxel-fill': 1500,
                    'voxel-cover': 500, 'find_ctrlpts': 300},
          'thorough': {'ray-status': 15000, 'wn_poly': 50000, 'hull': 3000, 'voxel-fill': 15000}}
MANDATORY_TAGS = ['ray:near-parallel-skew', 'ray:near-parallel-generic', 'vox:container-sizes-differ', 'vox:other-unit-of-length', 'ray:shared-far-end', 'vox:lattice', 'vox:padding=0.0', 'ray:cross2d', 'ray:cross3d', 'ray:parallel', 'ray:coincident', 'ray:skew', 'vox:planar-axis-aligned', 'vox:padding', 'ray:near-parallel', 'is_left:near-collinear', 'hull:float-near-collinear', 'ray:generic-cross2d', 'ray:generic-cross3d', 'ray:coords<=1000', 'ray:scale=2^-24', 'ray:scale=2^20', 'poly:star', 'poly:orthogonal',
                  'poly:cw', 'poly:ccw', 'hull:collinear', 'vox:surface', 'vox:volume', 'vox:cubes', 'find:unnormalized']
TECHNIQUE = ("runtime monitoring: exact-arithmetic oracles (orientation, crossing parity, definitional hull test, exact line "
             "intersection, point-in-box) on every predicate / query call of a constructed-class workload")
LEVEL_TEXT = ("Each call is decided by rational arithmetic on integer-grid inputs; wn_poly is checked exhaustively over the "
              "half-integer grid of each polygon; holds on the calls observed.")


def gen(rng, tier, shard, nshards):
    n = 60 if tier == 'quick' else 500
    for i in range(n):
        yield {'kind': 'rays', 'seed': rng.randrange(1 << 30)}
        yield {'kind': 'rays-generic', 'seed': rng.randrange(1 << 30)}
        yield {'kind': 'poly', 'seed': rng.randrange(1 << 30), 'cls': rng.choice(['star', 'orthogonal'])}
        yield {'kind': 'hull', 'seed': rng.randrange(1 << 30)}
        if i % 2 == 0:
            yield {'kind': 'voxel', 'seed': rng.randrange(1 << 30)}
        if i % 4 == 1:
            yield {'kind': 'voxel-container', 'seed': rng.randrange(1 << 30)}
        if i % 4 == 3:
            yield {'kind': 'voxel-lattice', 'seed': rng.randrange(1 << 30)}
        if i % 3 == 0:
            yield {'kind': 'find_ctrlpts', 'seed': rng.randrange(1 << 30)}


def check_voxel_lattice(case, ctx):
    """a bilinear patch whose samples fall on an integer lattice, voxelised on that lattice with an explicit padding (0.0, 0.25, the default):
    every coordinate is exact, so the filled flags are decided exactly - a sampled point lies in the voxel [m, m + step) padded by `padding`
    on both sides, lower face included"""
    from geomdl import BSpline, voxelize
    rng = random.Random(case['seed'])
    n = rng.choice([3, 3, 5])                    # samples per direction; corner coordinates are multiples of (n - 1)^2: samples are integers
    k = n - 1
    a_, b_ = rng.randint(1, 2), rng.randint(1, 2)
    zs = [float(k * k * rng.randint(0, 2)) for _ in range(4)]
    if len(set(zs)) == 1:
        zs[rng.randrange(4)] += float(k * k)
    # control points in library order (v fastest): (u0,v0), (u0,v1), (u1,v0), (u1,v1)
    corners = [[0.0, 0.0, zs[0]], [0.0, float(k * a_), zs[1]], [float(k * b_), 0.0, zs[2]], [float(k * b_), float(k * a_), zs[3]]]
    if rng.random() < 0.5:
        corners = [[p_[2], p_[0], p_[1]] for p_ in corners]      # another axis carries the height
    s = BSpline.Surface()
    s.degree_u = s.degree_v = 1
    s.set_ctrlpts(corners, 2, 2)
    s.knotvector_u = s.knotvector_v = [0.0, 0.0, 1.0, 1.0]
    s.sample_size = n
    pts = [list(p) for p in s.evalpts]
    bb = s.bbox
    ext = [bb[1][i] - bb[0][i] for i in range(3)]
    if any(e == 0.0 for e in ext) or any(c != round(c) for p in pts for c in p):
        raise Reject()
    gs = tuple(int(e) + 1 for e in ext)          # step 1.0 per axis: voxel m covers [m, m + 1)
    if any(g < 2 for g in gs):
        raise Reject()
    pad = rng.choice([0.0, 0.0, 0, 0.25, None])
    ctx.tag('vox:lattice', 'vox:padding=%r' % (pad,))
    kw = {} if pad is None else {'padding': pad}
    grid, filled = voxelize.voxelize(s, grid_size=gs, **kw)
    tolp = F(1, 10 ** 7) if pad is None else F(pad)
    if not ctx.check(len(grid) == gs[0] * gs[1] * gs[2] and len(filled) == len(grid), 'voxel/grid-count', 'lattice patch: %d voxels for grid_size %r'
                     % (len(grid), gs), what='voxel-cover'):
        return
    bad = []
    for i, v in enumerate(grid):
        lo = [F(c) - tolp for c in v[0]]
        hi = [F(c) + tolp for c in v[1]]
        exp = any(all(lo[a] <= F(p[a]) < hi[a] for a in range(3)) for p in pts)
        if bool(filled[i]) != exp:
            bad.append((i, v[0], bool(filled[i]), exp))
    ctx.check(not bad, 'voxel/lattice-fill', 'voxelize(grid_size=%r, padding=%r) of a patch whose samples are lattice points: %d of %d voxels have '
              'the wrong filled flag, first: voxel %r at %r is %r, exact arithmetic says %r' %
              ((gs, pad, len(bad), len(grid)) + (bad[0] if bad else (None,) * 4)), what='voxel-fill')


def check(case, ctx):
    ctx.nontriv(True)
    if case['kind'] == 'voxel-lattice':
        return check_voxel_lattice(case, ctx)
    return {'rays': check_rays, 'rays-generic': check_rays_generic, 'voxel-container': check_voxel_container, 'poly': check_poly, 'hull': check_hull, 'voxel': check_voxel,
            'find_ctrlpts': check_find}[case['kind']](case, ctx)


# -- rays -------------------------------------------------------------------------------------------------------------------
def cross3(a, b):
    return [a[1] * b[2] - a[2] * b[1], a[2] * b[0] - a[0] * b[2], a[0] * b[1] - a[1] * b[0]]


def check_rays(case, ctx):
    from geomdl import ray
    rng = random.Random(case['seed'])
    RI = ray.RayIntersection
    for rep in range(30):
        dim = rng.choice([2, 3])
        cls = rng.choice(['cross', 'cross', 'parallel', 'coincident', 'skew', 'random'])
        if dim == 2 and cls == 'skew':
            cls = 'cross'

        def P():
            return [rng.randint(-6, 6) for _ in range(dim)]
        a, b = P(), P()
        if a == b:
            continue
        d1 = [y - x for x, y in zip(a, b)]
        if cls == 'cross':
            # second ray through a point of the first line (rational point t1 = k/4), non-parallel direction
            t1 = F(rng.randint(-8, 12), 4)
            X = [F(x) + t1 * F(d) for x, d in zip(a, d1)]
            d2 = P()
            if not any(cross3(d1 + [0] * (3 - dim), d2 + [0] * (3 - dim))):
                continue
            t2 = F(rng.randint(-8, 12), 4)
            c = [X[i] - t2 * d2[i] for i in range(dim)]
            d = [c[i] + d2[i] for i in range(dim)]
            c, d = [float(x) for x in c], [float(x) for x in d]   # multiples of 1/4: exact in binary
        elif cls == 'parallel':
            k = rng.choice([-2, -1, 1, 2, 3])
            off = P()
            if not any(cross3(d1 + [0] * (3 - dim), off + [0] * (3 - dim))):
                continue
            c = [x + o for x, o in zip(a, off)]
            d = [x + k * dd for x, dd in zip(c, d1)]
        elif cls == 'coincident':
            s, k = rng.randint(-3, 3), rng.choice([-2, -1, 1, 2])
            c = [x + s * dd for x, dd in zip(a, d1)]
            d = [x + k * dd for x, dd in zip(c, d1)]
        elif cls == 'skew':
            d2 = P()
            n = cross3(d1, d2)
            if not any(n):
                continue
            t1 = rng.randint(-2, 3)
            X = [x + t1 * dd for x, dd in zip(a, d1)]
            c = [x + nn for x, nn in zip(X, n)]          # offset along the common normal: lines do not meet
            d = [x + dd for x, dd in zip(c, d2)]
        else:
            c, d = P(), P()
            if c == d:
                continue
        r1, r2 = ray.Ray(a, b), ray.Ray(c, d)
        t1g, t2g, st = ray.intersect(r1, r2)
        e1 = [F(y) - F(x) for x, y in zip(a, b)] + [F(0)] * (3 - dim)
        e2 = [F(y) - F(x) for x, y in zip(c, d)] + [F(0)] * (3 - dim)
        pd = [F(y) - F(x) for x, y in zip(a, c)] + [F(0)] * (3 - dim)
        cr = cross3(e1, e2)
        if not any(cr):
            exp = RI.COLINEAR
            on_line = not any(cross3(pd, e1))
            ctx.tag('ray:coincident' if on_line else 'ray:parallel')
        else:
            triple = sum(p * q for p, q in zip(pd, cr))
            exp = RI.INTERSECT if triple == 0 else RI.SKEW
            ctx.tag(('ray:cross%dd' % dim) if exp == RI.INTERSECT else 'ray:skew')
        if not ctx.check(st == exp, 'ray/status', 'intersect(Ray(%r,%r), Ray(%r,%r)): status %r, exact arithmetic says %r'
                         % (a, b, c, d, st, exp), what='ray-status'):
            continue
        if exp == RI.INTERSECT:
            n2 = sum(x * x for x in cr)
            x1 = sum(p * q for p, q in zip(cross3(pd, e2), cr)) / n2
            x2 = sum(p * q for p, q in zip(cross3(pd, e1), cr)) / n2
            ok = abs(F(t1g) - x1) <= F(1, 10 ** 9) and abs(F(t2g) - x2) <= F(1, 10 ** 9)
            p1, p2 = r1.eval(t1g), r2.eval(t2g)
            ok = ok and all(abs(u - v) <= 1e-9 for u, v in zip(p1, p2))
            ctx.check(ok, 'ray/params', 'intersect(Ray(%r,%r), Ray(%r,%r)) = (%r, %r); exact parameters (%s, %s)'
                      % (a, b, c, d, t1g, t2g, x1, x2), what='ray-params')
        # orientation predicate on the same integer data (2-D part)
        from geomdl import linalg
        q = [rng.randint(-6, 6), rng.randint(-6, 6)]
        got = linalg.is_left(a[:2], b[:2], q)
        ex = ref.orient(a[:2], b[:2], q)
        ctx.check((got > 0) == (ex > 0) and (got < 0) == (ex < 0), 'is_left/sign', 'is_left(%r,%r,%r) = %r, exact orientation %s'
                  % (a[:2], b[:2], q, got, ex), what='is_left')
        qf = [rng.uniform(-6, 6), rng.uniform(-6, 6)]
        got = linalg.is_left([float(x) for x in a[:2]], [float(x) for x in b[:2]], qf)
        ex = ref.orient(a[:2], b[:2], qf)
        if abs(ex) > F(1, 10 ** 6):
            ctx.check((got > 0) == (ex > 0), 'is_left/sign', 'is_left sign wrong for float query %r' % (qf,), what='is_left')
        # a float query within a few ulps of the line: off the boundary unless exact arithmetic says "on" - the sign must be the exact one
        af, bf = [rng.uniform(-2, 2), rng.uniform(-2, 2)], [rng.uniform(-2, 2), rng.uniform(-2, 2)]
        t_ = rng.choice([0.5, 1.5, rng.uniform(-1, 2)])
        qn = [af[0] + t_ * (bf[0] - af[0]), af[1] + t_ * (bf[1] - af[1])]
        if rng.random() < 0.5:
            qn[1] = math.nextafter(qn[1], rng.choice([-10.0, 10.0]))
        got = linalg.is_left(af, bf, qn)
        ex = ref.orient(af, bf, qn)
        ctx.tag('is_left:near-collinear')
        ctx.check((got > 0) == (ex > 0) and (got < 0) == (ex < 0), 'is_left/sign', 'is_left(%r,%r,%r) = %r, exact orientation has sign %d'
                  % (af, bf, qn, got, (ex > 0) - (ex < 0)), what='is_left')


def check_rays_generic(case, ctx):
    """integer end points up to 10 / 100 / 1000 (times an exact power-of-two scale): lines that plainly cross at an integer point
    with generic (non-dyadic) parameters, generic 2-D pairs (which can never be skew), skew pairs, and coincident rays whose
    documented parameters are checked (ray1.eval(t1) == ray2.p, ray2.eval(t2) == ray1.p)"""
    from geomdl import ray
    import math
    rng = random.Random(case['seed'])
    RI = ray.RayIntersection
    for rep in range(30):
        dim = rng.choice([2, 3])
        M = rng.choice([10, 100, 1000])
        sc = 2.0 ** rng.choice([0, 0, 0, -24, -10, 10, 20])
        cls = rng.choice(['cross-int', 'cross-int', 'generic', 'skew', 'coincident', 'near-parallel', 'near-parallel', 'shared-far-end',
                          'near-parallel-generic', 'near-parallel-skew'])

        def P(m=M):
            return [rng.randint(-m, m) for _ in range(dim)]
        if cls == 'near-parallel':
            # two lines through one (dyadic) point whose directions differ by a tiny dyadic amount: they intersect, at an angle of
            # 2^-8 .. 2^-24 rad - far above the COLINEAR threshold of 256 eps
            M = 10
            X = [rng.randint(-40, 40) / 8.0 for _ in range(dim)]
            d1 = [float(rng.randint(-8, 8)) for _ in range(dim)]
            if not any(d1):
                continue
            perp = [float(rng.randint(-4, 4)) for _ in range(dim)]
            e_ = 2.0 ** -rng.choice([8, 12, 16, 20, 24])
            d2 = [x + e_ * y for x, y in zip(d1, perp)]
            if not any(cross3([F(x) for x in d1] + [F(0)] * (3 - dim), [F(x) for x in d2] + [F(0)] * (3 - dim))):
                continue
            k1, k2 = rng.choice([-1.25, 0.5, 2.0, 3.75]), rng.choice([0.0, -0.5, 1.5])
            a = [x - k1 * e for x, e in zip(X, d1)]
            b = [x + e for x, e in zip(a, d1)]
            c = [x - k2 * e for x, e in zip(X, d2)]
            d = [x + e for x, e in zip(c, d2)]
            if any(F(u_) + F(v_) != F(u_ + v_) for u_, v_ in zip(a, d1)) or any(F(u_) + F(v_) != F(u_ + v_) for u_, v_ in zip(c, d2)) or \
                    any(F(x) - F(k2) * F(e) != F(cc) for x, e, cc in zip(X, d2, c)) or any(F(x) - F(k1) * F(e) != F(aa) for x, e, aa in zip(X, d1, a)):
                continue          # (keep only data where every end point is exactly what the construction says)
        elif cls == 'near-parallel-generic':
            # (fifth hunt) two lines through the origin - Ray(d1, 2 d1) and Ray(-d2, -2 d2), exact whatever the floats - whose directions
            # are ordinary floats 1e-3 .. 1e-5 rad apart (the dyadic class above is computed without any rounding): they cross
            M = 1
            d1 = [round(rng.uniform(-1, 1), 3) for _ in range(dim)]
            rel_ = 10.0 ** -rng.uniform(3, 5)
            d2 = [x * (1.0 + rel_ * rng.uniform(-1, 1)) for x in d1]
            if not any(cross3([F(x) for x in d1] + [F(0)] * (3 - dim), [F(x) for x in d2] + [F(0)] * (3 - dim))):
                continue
            a, b = list(d1), [2.0 * x for x in d1]
            c, d = [-x for x in d2], [-2.0 * x for x in d2]
        elif cls == 'near-parallel-skew':
            # (sixth hunt) two almost parallel lines (3e-6 .. 1e-3 rad) in the parallel planes z = 0 and z = 1e-8 .. 1e-6 of a model of
            # size 1: they are 1e-8 .. 1e-6 apart, thousands of times the round-off of the computed distance - SKEW
            if dim == 2:
                continue
            M = 1
            ang_ = 10.0 ** -rng.uniform(3.0, 5.5)
            off_ = 10.0 ** -rng.uniform(6.0, 8.0)
            cs_, sn_ = math.cos(ang_), math.sin(ang_)
            a, b = [0.0, 0.0, 0.0], [1.0, 0.0, 0.0]
            c, d = [0.5 - 0.5 * cs_, -0.5 * sn_, off_], [0.5 + 0.5 * cs_, 0.5 * sn_, off_]
        elif cls == 'shared-far-end':
            # two rays from ordinary decimal points near the origin to ONE far point (both are given by their end points, so they cross
            # there exactly, at t1 = t2 = 1, whatever the rounding of the directions)
            L_ = rng.choice([1e2, 1e3, 1e4])
            a = [round(rng.uniform(-1, 1), 3) for _ in range(dim)]
            c = [round(rng.uniform(-1, 1), 3) for _ in range(dim)]
            X = [round(rng.uniform(0.3, 1.0) * L_ * rng.choice([-1, 1]), 1) + 0.1 for _ in range(dim)]
            b, d = list(X), list(X)
            if a == c:
                continue
        elif cls == 'cross-int':
            X = P()
            d1, d2 = P(max(2, M // 10)), P(max(2, M // 10))
            if not any(cross3(d1 + [0] * (3 - dim), d2 + [0] * (3 - dim))):
                continue
            k1, m1, k2, m2 = rng.randint(-5, 5), rng.choice([1, 2, 3, 5, 7]), rng.randint(-5, 5), rng.choice([1, 2, 3, 5, 7])
            a = [x - k1 * e for x, e in zip(X, d1)]
            b = [x + m1 * e for x, e in zip(a, d1)]
            c = [x - k2 * e for x, e in zip(X, d2)]
            d = [x + m2 * e for x, e in zip(c, d2)]
        elif cls == 'generic':
            a, b, c, d = P(), P(), P(), P()
            if a == b or c == d:
                continue
            if dim == 3 and rng.random() < 0.5:
                # coplanar on purpose: d on the plane through a, b, c (integer combination)
                i, j = rng.randint(-3, 3), rng.randint(-3, 3)
                d = [cc + i * (bb - aa) + j * (cc - aa) for aa, bb, cc in zip(a, b, c)]
                if c == d:
                    continue
        elif cls == 'skew':
            if dim == 2:
                continue
            a, b, c, d = P(), P(), P(), P()
            if a == b or c == d:
                continue
        else:
            a, b = P(), P()
            if a == b:
                continue
            d1 = [y - x for x, y in zip(a, b)]
            if rng.random() < 0.5:
                # axis-parallel in a random coordinate (first component of the direction is often zero)
                ax = rng.randrange(dim)
                b = [x if i != ax else x + rng.choice([-3, -1, 2, 5]) for i, x in enumerate(a)]
                d1 = [y - x for x, y in zip(a, b)]
            s_, k = rng.randint(-3, 3), rng.choice([-2, -1, 1, 2])
            c = [x + s_ * dd for x, dd in zip(a, d1)]
            d = [x + k * dd for x, dd in zip(c, d1)]
        fa, fb, fc, fd = ([x * sc for x in v] for v in (a, b, c, d))     # exact: integers times a power of two
        r1, r2 = ray.Ray(fa, fb), ray.Ray(fc, fd)
        t1g, t2g, st = ray.intersect(r1, r2)
        e1 = [F(y) - F(x) for x, y in zip(a, b)] + [F(0)] * (3 - dim)
        e2 = [F(y) - F(x) for x, y in zip(c, d)] + [F(0)] * (3 - dim)
        pd = [F(y) - F(x) for x, y in zip(a, c)] + [F(0)] * (3 - dim)
        cr = cross3(e1, e2)
        desc = 'intersect(Ray(%r,%r), Ray(%r,%r)) [integers x %r]' % (a, b, c, d, sc)
        ctx.tag('ray:coords<=%d' % M, 'ray:scale=2^%d' % round(math.log2(sc)))
        if not any(cr):
            on_line = not any(cross3(pd, e1))
            ctx.tag('ray:coincident' if on_line else 'ray:parallel')
            if not ctx.check(st == RI.COLINEAR, 'ray/status', '%s: status %r, exact arithmetic says COLINEAR' % (desc, st), what='ray-status'):
                continue
            if on_line:
                p1, p2 = r1.eval(t1g), r2.eval(t2g)
                tolp = 1e-9 * sc * M
                ok = all(abs(u - v) <= tolp for u, v in zip(p1, fc)) and all(abs(u - v) <= tolp for u, v in zip(p2, fa))
                ctx.check(ok, 'ray/colinear-params', '%s = (%r, %r, COLINEAR): documented ray1.eval(t1) == ray2.p and ray2.eval(t2) == ray1.p, '
                          'got %r vs %r and %r vs %r' % (desc, t1g, t2g, p1, fc, p2, fa), what='ray-colinear-params')
            continue
        triple = sum(p_ * q_ for p_, q_ in zip(pd, cr))
        exp = RI.INTERSECT if triple == 0 else RI.SKEW
        ctx.tag(('ray:generic-cross%dd' % dim) if exp == RI.INTERSECT else 'ray:skew')
        if cls == 'near-parallel':
            ctx.tag('ray:near-parallel')
        if cls == 'shared-far-end':
            ctx.tag('ray:shared-far-end')
        if cls == 'near-parallel-generic':
            ctx.tag('ray:near-parallel-generic')
        if cls == 'near-parallel-skew':
            ctx.tag('ray:near-parallel-skew')
        if not ctx.check(st == exp, 'ray/status', '%s: status %r, exact arithmetic says %r' % (desc, st, exp), what='ray-status'):
            continue
        if exp == RI.INTERSECT:
            n2 = sum(x * x for x in cr)
            x1 = sum(p_ * q_ for p_, q_ in zip(cross3(pd, e2), cr)) / n2
            x2 = sum(p_ * q_ for p_, q_ in zip(cross3(pd, e1), cr)) / n2
            # conditioning of the parameters: |p_diff| / (|d| sin(angle))
            l1, l2, lp = (math.sqrt(float(sum(x * x for x in v))) for v in (e1, e2, pd))
            sin_ = math.sqrt(float(n2)) / (l1 * l2)
            # (the end points themselves carry a rounding error of eps*|point| into p_diff: the magnitude that matters is that of the points)
            pm = max(lp, math.sqrt(float(sum(F(x) ** 2 for x in a))), math.sqrt(float(sum(F(x) ** 2 for x in c))))
            tol1, tol2 = 1e-9 * max(1.0, pm / l1 / sin_), 1e-9 * max(1.0, pm / l2 / sin_)
            ok = abs(F(t1g) - x1) <= tol1 and abs(F(t2g) - x2) <= tol2
            X_ = [float(F(x) + x1 * F(e)) * sc for x, e in zip(a, e1)]
            p1, p2 = r1.eval(t1g), r2.eval(t2g)
            tolp = 1e-9 * sc * max(M, max(abs(x) for x in X_) / sc) * max(1.0, 1e-3 / sin_)
            ok = ok and all(abs(u - v) <= tolp for u, v in zip(p1, p2)) and all(abs(u - v) <= tolp for u, v in zip(p1, X_))
            ctx.check(ok, 'ray/params', '%s = (%r, %r); exact parameters (%s, %s)' % (desc, t1g, t2g, x1, x2), what='ray-params')


# -- polygons -----------------------------------------------------------------------------------------------------------------
def star_polygon(rng):
    for _ in range(100):
        n = rng.randint(3, 10)
        angs = sorted(rng.uniform(0, 2 * math.pi) for _ in range(n))
        pts = []
        for a in angs:
            r = rng.randint(3, 9)
            p = (round(r * math.cos(a)), round(r * math.sin(a)))
            if not pts or pts[-1] != p:
                pts.append(p)
        if len(pts) > 2 and pts[0] == pts[-1]:
            pts.pop()
        if len(pts) >= 3 and ref.is_simple(pts):
            return pts
    return [(0, 0), (4, 0), (0, 4)]


def orthogonal_polygon(rng):
    """staircase-like rectilinear simple polygon: union of columns with varying heights (histogram)"""
    w = rng.randint(2, 6)
    hs = [rng.randint(1, 6) for _ in range(w)]
    x0, y0 = rng.randint(-4, 0), rng.randint(-4, 0)
    pts = [(x0, y0), (x0 + w, y0)]
    x = x0 + w
    for i in reversed(range(w)):
        h = hs[i]
        if pts[-1] != (x, y0 + h):
            pts.append((x, y0 + h))
        x -= 1
        pts.append((x, y0 + h))
    # remove collinear duplicates
    out = []
    for p in pts:
        if len(out) >= 2 and ref.orient(out[-2], out[-1], p) == 0:
            out[-1] = p
        elif not out or out[-1] != p:
            out.append(p)
    if ref.orient(out[-2], out[-1], out[0]) == 0:
        out.pop()
    return out if ref.is_simple(out) else [(0, 0), (3, 0), (3, 2), (0, 2)]


def check_poly(case, ctx):
    from geomdl import linalg
    rng = random.Random(case['seed'])
    poly = star_polygon(rng) if case['cls'] == 'star' else orthogonal_polygon(rng)
    ctx.tag('poly:' + case['cls'])
    area2 = sum(poly[i][0] * poly[(i + 1) % len(poly)][1] - poly[(i + 1) % len(poly)][0] * poly[i][1] for i in range(len(poly)))
    if rng.random() < 0.5:
        poly = poly[::-1]
        area2 = -area2
    ctx.tag('poly:ccw' if area2 > 0 else 'poly:cw')
    start = rng.randrange(len(poly))
    poly = poly[start:] + poly[:start]
    closed = [[float(x), float(y)] for x, y in poly] + [[float(poly[0][0]), float(poly[0][1])]]
    xs = [p[0] for p in poly]
    ys = [p[1] for p in poly]
    # ALL half-integer points of the bounding grid (+1 margin), skipping boundary points
    for x2 in range(2 * min(xs) - 2, 2 * max(xs) + 3):
        for y2 in range(2 * min(ys) - 2, 2 * max(ys) + 3):
            q = (F(x2, 2), F(y2, 2))
            if any(ref.on_segment(poly[i], poly[(i + 1) % len(poly)], q) for i in range(len(poly))):
                continue
            got = linalg.wn_poly([float(q[0]), float(q[1])], closed)
            exp = ref.inside_parity(q, poly)
            ctx.check(bool(got) == exp, 'wn_poly', 'wn_poly(%r, %r) = %r, exact crossing parity says %r'
                      % ([float(q[0]), float(q[1])], poly, got, exp), what='wn_poly')


def check_hull(case, ctx):
    from geomdl import linalg
    rng = random.Random(case['seed'])
    for rep in range(6):
        n = rng.randint(1, 14)
        cls = rng.choice(['random', 'random', 'collinear-boundary', 'all-collinear', 'duplicates', 'float-near-collinear', 'float-near-collinear'])
        if cls == 'float-near-collinear':
            # float points within a few ulps of a common line (tenths, sums of tenths): only exact arithmetic tells which side they are on
            ax_, ay_, dx_, dy_ = rng.uniform(-1, 1), rng.uniform(-1, 1), rng.uniform(0.2, 1), rng.uniform(-1, 1)
            pts = []
            for _k in range(max(n, 4)):
                t_ = rng.choice([0.1 * rng.randint(-9, 9), rng.uniform(-1, 1)])
                x_, y_ = ax_ + t_ * dx_, ay_ + t_ * dy_
                if rng.random() < 0.3:
                    y_ = math.nextafter(y_, rng.choice([-10.0, 10.0]))
                pts.append([x_, y_])
            pts += [[rng.uniform(-1, 1), rng.uniform(-1, 1)] for _ in range(rng.randint(0, 2))]
            ctx.tag('hull:float-near-collinear')
        elif cls == 'all-collinear':
            dx, dy = rng.choice([(1, 0), (0, 1), (1, 1), (2, -1)])
            pts = [[k * dx, k * dy] for k in (rng.randint(-4, 4) for _ in range(n))]
        else:
            pts = [[rng.randint(-5, 5), rng.randint(-5, 5)] for _ in range(n)]
            if cls == 'collinear-boundary':
                pts += [[-6, -6], [6, -6], [6, 6], [-6, 6], [0, -6], [3, -6], [6, 0], [-6, 2]]
                ctx.tag('hull:collinear')
            if cls == 'duplicates':
                pts += [list(p) for p in pts[:3]]
        inp = [list(p) for p in pts]
        h = linalg.convex_hull(pts)
        ok = h is not None and all(list(p) in inp for p in h)
        m = len(h) if ok else 0
        distinct = [list(x) for x in set(map(tuple, inp))]
        noncol = len(distinct) >= 3 and any(ref.orient(distinct[0], distinct[1], p) != 0 for p in distinct)
        if ok and noncol:
            ok = m >= 3 and all(ref.orient(h[i], h[(i + 1) % m], h[(i + 2) % m]) > 0 for i in range(m))      # strictly convex, CCW
            ok = ok and all(ref.orient(h[i], h[(i + 1) % m], p) >= 0 for i in range(m) for p in inp)           # contains every input point
            ok = ok and len(set(map(tuple, h))) == m
        elif ok:
            # degenerate input: the hull is the set of extreme points of a segment (or a single point)
            ext = [min(distinct), max(distinct)] if len(distinct) > 1 else distinct
            ok = sorted(map(tuple, h)) == sorted(set(map(tuple, ext)))
        ctx.check(ok, 'convex_hull', 'convex_hull(%r) = %r fails the definitional test (subset of input, strictly convex CCW, contains '
                  'all points)' % (inp, h), what='hull')


# -- voxels ---------------------------------------------------------------------------------------------------------------------
def check_voxel(case, ctx):
    from geomdl import voxelize
    rng = random.Random(case['seed'])
    pdim = rng.choice([2, 3])
    sd = G.rand_shape(rng, pdim, dim=3, clamped_only=True, maxextra=2, maxdeg=3, pcls='uniform')
    f_ = 1.0
    if rng.random() < 0.25:
        # the same model in another unit of length (an exact power of two): the same voxels are filled
        f_ = 2.0 ** rng.choice([-20, -24, -30, 20, 32, 36])        # (seventh hunt: 2^32, 2^36 - the default padding must not vanish beside the coordinates)
        sd['ctrlpts'] = [[c * f_ for c in p_] for p_ in sd['ctrlpts']]
        ctx.tag('vox:other-unit-of-length')
    o = G.build(sd)
    o.sample_size = rng.randint(3, 6) if pdim == 2 else rng.randint(2, 3)
    gs = tuple(rng.randint(2, 8) for _ in range(3))
    cubes = rng.random() < 0.3
    ctx.tag('vox:surface' if pdim == 2 else 'vox:volume')
    if cubes:
        ctx.tag('vox:cubes')
    planar = pdim == 2 and rng.random() < 0.25
    if planar:
        # a planar, axis-aligned surface: the bounding box has zero extent along one axis
        ax0, c0 = rng.randrange(3), float(rng.randint(-3, 3)) * f_
        for pt in sd['ctrlpts']:
            pt[ax0] = c0
        o = G.build(sd)
        o.sample_size = rng.randint(3, 6)
        ctx.tag('vox:planar-axis-aligned')
        ext = o.bbox[1][ax0] - o.bbox[0][ax0]
        if ext != 0.0:
            # rational: Pw/w leaves rounding noise of ~1e-16 in the flat coordinate - the box is flat for every practical purpose and the
            # cube edge must come from the other two directions
            ctx.tag('vox:planar-up-to-rounding')
    import signal
    from ..core import CaseTimeout, CASE_TIMEOUT_S
    signal.alarm(30)
    try:
        grid, filled = voxelize.voxelize(o, grid_size=gs, use_cubes=cubes)
    except CaseTimeout:
        ctx.fail('voxel/no-termination', 'voxelize(grid_size=%r, use_cubes=%r) of a %s did not return within 30 s (a few dozen sampled '
                 'points, at most 512 voxels)' % (gs, cubes, 'planar axis-aligned surface' if planar else 'shape'))
        return
    finally:
        signal.alarm(CASE_TIMEOUT_S)
    if not planar and rng.random() < 0.3:
        # the documented padding keyword: a padding larger than the shape puts every sampled point inside every (padded) voxel
        bbx = o.bbox
        big = 10.0 * max(1.0, max(abs(c_) for c_ in bbx[0] + bbx[1]))
        g2, f2 = voxelize.voxelize(o, grid_size=gs, padding=big)
        ctx.tag('vox:padding')
        ctx.check(all(f2), 'voxel/padding-ignored', 'voxelize(padding=%r), a padding larger than the bounding box: %d of %d voxels filled (the documented '
                  'keyword has no effect)' % (big, sum(1 for x in f2 if x), len(f2)), what='voxel-fill')
    pts = [list(p) for p in o.evalpts]
    bb = o.bbox
    # slack of the containment oracles: relative to the voxel (2e-6 of its edge; the library pads a voxel by 1e-7 of a unit-sized model),
    # for an axis along which the box is flat 2e-7 of the model size
    emax_ = max(bb[1][ax] - bb[0][ax] for ax in range(3))
    if len(grid) > 0:
        slack = [2e-6 * (grid[0][1][ax] - grid[0][0][ax]) if grid[0][1][ax] - grid[0][0][ax] > 1e-9 * emax_ else 2e-7 * min(1.0, emax_)
                 for ax in range(3)]
        # (never below a few ulps of the coordinates themselves: a model 2^36 times as large has coordinates whose ulp is 1e-5)
        cmax_ = max(abs(c_) for c_ in list(bb[0]) + list(bb[1]))
        slack = [max(s_, 16.0 * math.ulp(cmax_)) for s_ in slack]
    tol = 1e-7 * min(1.0, emax_)
    if not ctx.check(len(grid) == len(filled) and len(grid) > 0, 'voxel/length', 'len(grid)=%d len(filled)=%d' % (len(grid), len(filled)),
                     what='voxel-cover'):
        return
    if not cubes:
        # grid_size voxels per axis (one where the box is flat): filled reshapes to grid_size, no two layers a rounding error apart
        per_axis = [len(set(v[0][ax] for v in grid)) for ax in range(3)]
        emax = max(bb[1][ax] - bb[0][ax] for ax in range(3))
        # (an extent of a few ulps - a planar rational surface - is flat for every practical purpose: that axis is not judged)
        exp_axis = [gs[ax] if bb[1][ax] - bb[0][ax] > 1e-9 * emax else 1 if bb[1][ax] == bb[0][ax] else per_axis[ax] for ax in range(3)]
        nearflat = any(0.0 < bb[1][ax] - bb[0][ax] <= 1e-9 * emax for ax in range(3))
        ctx.check(per_axis == exp_axis and (nearflat or len(grid) == exp_axis[0] * exp_axis[1] * exp_axis[2]), 'voxel/grid-count',
                  'voxelize(grid_size=%r): %r voxel layers per axis, %d voxels (bounding box %r)' % (gs, per_axis, len(grid), bb), what='voxel-cover')
    # the grid covers the bounding box: per axis the union of voxel extents contains [bbmin, bbmax]
    for ax in range(3):
        lo = min(v[0][ax] for v in grid)
        hi = max(v[1][ax] for v in grid)
        ctx.check(lo <= bb[0][ax] + tol and hi >= bb[1][ax] - tol, 'voxel/grid-does-not-cover-bbox',
                  'axis %d: voxels span [%r, %r], bounding box [%r, %r]' % (ax, lo, hi, bb[0][ax], bb[1][ax]), what='voxel-cover')
    for p in pts:
        cov = any(all(v[0][i] - slack[i] <= p[i] <= v[1][i] + slack[i] for i in range(3)) for v in grid)
        if not ctx.check(cov, 'voxel/point-not-covered', 'sampled point %r lies in no voxel of the grid' % (p,), what='voxel-cover'):
            break
    for i, v in enumerate(grid):
        # (along an axis on which the voxel is flat - a planar shape - a point is inside when it has that very coordinate: seventh hunt)
        def inside_strictly(p, k):
            if v[1][k] - v[0][k] <= 1e-9 * emax_:
                return abs(p[k] - v[0][k]) <= 4.0 * math.ulp(max(abs(v[0][k]), 1e-300))
            return v[0][k] + slack[k] < p[k] < v[1][k] - slack[k]
        strict = any(all(inside_strictly(p, k) for k in range(3)) for p in pts)
        loose = any(all(v[0][k] - slack[k] <= p[k] <= v[1][k] + slack[k] for k in range(3)) for p in pts)
        if strict and not filled[i]:
            ctx.fail('voxel/not-filled', 'voxel %d [%r, %r] contains a sampled point but filled = %r' % (i, v[0], v[1], filled[i]))
            return
        if filled[i] and not loose:
            ctx.fail('voxel/spuriously-filled', 'voxel %d [%r, %r] is marked filled but no sampled point lies in it' % (i, v[0], v[1]))
            return
        ctx.ok('voxel-fill')


def check_voxel_container(case, ctx):
    """a container of two or three overlapping shapes: every shape gets its own grid over its own bounding box, and a voxel of that grid
    is filled exactly when a sampled point of THAT shape lies in it"""
    from geomdl import voxelize, multi
    rng = random.Random(case['seed'])
    pdim = rng.choice([2, 2, 3])
    k = rng.randint(2, 3)
    sds = [G.rand_shape(rng, pdim, dim=3, clamped_only=True, maxextra=2, maxdeg=3, pcls='uniform') for _ in range(k)]
    if rng.random() < 0.4:
        # (round 8) the later elements are models in another unit (2^-20 .. 2^-24 times as large): whatever is worked out per shape
        # - the default padding - is worked out for every element, not carried over from the first
        ctx.tag('vox:container-sizes-differ')
        for sd in sds[1:]:
            f_ = 2.0 ** -rng.choice([20, 22, 24])
            sd['ctrlpts'] = [[c * f_ for c in p_] for p_ in sd['ctrlpts']]
    els = [G.build(sd) for sd in sds]
    ss = rng.randint(3, 5) if pdim == 2 else 3
    for e in els:
        e.sample_size = ss
    cont = (multi.SurfaceContainer if pdim == 2 else multi.VolumeContainer)(*els)
    gs = tuple(rng.randint(2, 5) for _ in range(3))
    ctx.tag('vox:container')
    grid, filled = voxelize.voxelize(cont, grid_size=gs)
    # shape by shape (each judged on its own by the single-shape cases): the container result is their concatenation
    exp_g, exp_f = [], []
    for sd in sds:
        e2 = G.build(sd)
        e2.sample_size = ss
        g_, f_ = voxelize.voxelize(e2, grid_size=gs)
        exp_g += [[list(v[0]), list(v[1])] for v in g_]
        exp_f += list(f_)
    got_g = [[list(v[0]), list(v[1])] for v in grid]
    ctx.check(got_g == exp_g, 'voxel/container-grid', 'voxelize(container of %d shapes): the grid is not the concatenation of the grids of its shapes (%d vs %d voxels)'
              % (k, len(got_g), len(exp_g)), what='voxel-cover')
    bad = [i_ for i_, (a_, b_) in enumerate(zip(filled, exp_f)) if bool(a_) != bool(b_)]
    ctx.check(len(filled) == len(exp_f) and not bad, 'voxel/container-fill', 'voxelize(container of %d overlapping shapes): %d voxels are flagged differently from the '
              'voxelisation of the shape they belong to (first: voxel %r) - a voxel is filled exactly when a point of ITS shape lies in it'
              % (k, len(bad), bad[:1]), what='voxel-fill')


def check_find(case, ctx):
    from geomdl import operations
    rng = random.Random(case['seed'])
    pdim = rng.choice([1, 2])
    sd = G.rand_shape(rng, pdim, rational=rng.random() < 0.3 and pdim == 1, maxextra=4, normalize=rng.random() < 0.5)
    o = G.build(sd)
    S = G.defn_of(o)
    ctx.tag('find:normalized' if sd['normalize_kv'] else 'find:unnormalized')
    plist = list(G.param_tuples(rng, o, 6))
    # parameters one ulp either side of an interior knot: the control points are those of the span the parameter really lies in
    for d_, (p_, U_) in enumerate(zip(S.p, G.kvs_of(o))):
        inner = sorted(set(k for k in U_[p_ + 1:len(U_) - p_ - 1] if U_[p_] < k < U_[len(U_) - p_ - 1]))
        for k in inner[:3]:
            for nb in (math.nextafter(k, -math.inf), math.nextafter(k, math.inf)):
                base_prm = list(plist[0][1])
                base_prm[d_] = nb
                plist.append((('knot-ulp',), tuple(base_prm)))
                ctx.tag('find:knot-ulp')
    for tags, prm in plist:
        act = S.active(prm)
        spans = S.spans(prm)
        bas = [ref.basis_span(p, U, sp, F(u)) for p, U, sp, u in zip(S.p, S.U, spans, prm)]
        if pdim == 1:
            got = [list(x) for x in operations.find_ctrlpts(o, prm[0])]
        else:
            got = [list(x) for row in operations.find_ctrlpts(o, prm[0], prm[1]) for x in row]
        exp = [[float(c) for c in (S.cart(t) if (S.rational and pdim == 1) else S.net[t])] for t in act]
        ok = len(got) == len(exp) and all(all(abs(a - b) <= 1e-12 * max(1.0, abs(b)) for a, b in zip(g, e)) for g, e in zip(got, exp))
        ctx.check(ok, 'find_ctrlpts', 'find_ctrlpts%r does not return control points span-p..span' % (prm,), what='find_ctrlpts')
        # the returned set contains every point whose basis function is non-zero at the parameter
        nz = [t for t in S.net if all(b.get(t[d], 0) != 0 for d, b in enumerate(bas))]
        ctx.check(all(t in act for t in nz), 'find_ctrlpts/misses-nonzero-basis', 'a control point with non-zero basis is not returned',
                  what='find_ctrlpts')
