"""C10 — translation, rotation and scaling act on the shape as on its points."""
import copy
import math
import random
from fractions import Fraction as F

from .. import gen as G, hooks, ref, shapeops as so
from ..core import Reject

ID = 'C10'
SHARDS = {'quick': 4, 'thorough': 16}
BUDGET = {'quick': 150, 'thorough': 1500}
RULE = ("cases: a curve/surface/volume (rational or not, 2-D or 3-D) or a container of 1..3 of them, one of translate(vector) / "
        "rotate(angle in {0, 90, -45, random}, axis 0..2) / scale(factor in {negative, 0.5, integer, random}), inplace or not; "
        "judged: each result element evaluated at probe parameters equals the exact reference point of the input mapped by the "
        "exact affine map (rotation: rigid rotation by +-angle about the chosen axis through the first element's start point; "
        "the sense is inferred from the first non-degenerate probe and then required of all others), weights unchanged, input "
        "untouched / same object returned as the option says, container aggregate evalpts equal the elements' points. "
        "Non-trivial: the map is not the identity and the shape has >= 1 interior knot or is rational; distinct = distinct case hash.")
ASSUMPTIONS = ["nvmon.ref exact reference model for the input points; cos/sin of the angle from the math module (tolerance 1e-9*scale)"]
FLOORS = {'quick': {'mapped-point': 3000, 'weights-unchanged': 150, 'inplace-semantics': 300, 'aggregate': 100},
          'thorough': {'mapped-point': 30000}}
MANDATORY_TAGS = ['container:lifted-to-3d', 'small-unit-of-length', 'container:pattern', 'partial-evaluate-before', 'container:shape-listed-twice', 'container:equal-twins', 'unclamped', 'coarse-precision', 'translate', 'rotate', 'scale', 'container', 'single', 'inplace', 'copy', 'rational', 'axis0', 'axis1', 'axis2',
                  'dim2', 'pdim3', 'read-before-inplace', 'null-map', 'partially-iterated']
TECHNIQUE = ("runtime monitoring: exact reference points of the input mapped by the exact affine map vs library evaluation of the "
             "result, plus object-identity / input-digest checks, under a seeded workload incl. containers")
LEVEL_TEXT = ("Each transform call is judged at probe parameters on every element against the mapped exact points of the input and "
              "for its inplace/copy semantics; holds on the calls observed.")


def gen(rng, tier, shard, nshards):
    n = 110 if tier == 'quick' else 900
    for i in range(n):
        pdim = rng.choice([1, 1, 2, 2, 3])
        dim = 3 if pdim == 3 else rng.choice([2, 3, 3, 3, 4])     # 4: one more coordinate (say, time): rotation about a coordinate axis leaves it alone
        nel = rng.choice([0, 0, 1, 2, 3])  # 0 = plain shape, else container with nel elements
        uncl = rng.random() < 0.25      # unclamped shapes: the start point is not the first control point
        shapes = [G.rand_shape(rng, pdim, dim=dim, clamped_only=not uncl, maxextra=3, maxdeg=3,
                               **(dict(kvcls=rng.choice(['unclamped', 'unclamped_rep'])) if uncl else {})) for _ in range(max(1, nel))]
        if rng.random() < 0.2:
            # shapes created with a coarse precision= (knot vectors kept as given, so that only the transformation is at stake)
            for sd_ in shapes:
                sd_['precision'] = rng.choice([3, 6])
                sd_['normalize_kv'] = False
        yield {'kind': 'transform', 'shapes': shapes, 'container': nel > 0, 'op': rng.choice(['translate', 'rotate', 'scale']),
               'inplace': rng.random() < 0.5, 'seed': rng.randrange(1 << 30)}
        if i % 6 == 4:
            # the same in other units of length: a shape 2^-20 .. 2^-36 times as large (exact powers of two) is transformed exactly alike;
            # every tolerance of this check is relative to the size of the shape
            f_ = 2.0 ** -rng.choice([20, 30, 36])
            shp = [G.rand_shape(rng, pdim, dim=dim, clamped_only=True, maxextra=3, maxdeg=3, pcls='uniform') for _ in range(max(1, nel))]
            for sd_ in shp:
                sd_['ctrlpts'] = [[c * f_ for c in p_] for p_ in sd_['ctrlpts']]
            yield {'kind': 'transform', 'shapes': shp, 'container': nel > 0, 'op': rng.choice(['translate', 'rotate', 'scale', 'rotate']),
                   'inplace': rng.random() < 0.5, 'seed': rng.randrange(1 << 30), 'unit': f_}
        if i % 6 == 1 and pdim in (1, 2):
            # (fifth hunt) planar shapes put into a container and lifted to 3-D there (add_dimension, in place, element by element): the
            # container holds 3-D shapes now - translated by 3-vectors, rotated about any of the three axes
            shp = [G.rand_shape(rng, pdim, dim=2, clamped_only=True, maxextra=3, maxdeg=3) for _ in range(rng.randint(1, 3))]
            yield {'kind': 'transform', 'shapes': shp, 'container': True, 'op': rng.choice(['translate', 'rotate', 'rotate']), 'lift': True,
                   'inplace': rng.random() < 0.5, 'seed': rng.randrange(1 << 30)}
        if i % 6 == 2:
            # a pattern: copies of one shape a step apart (or doubled in size), transformed by exactly that step - afterwards element k
            # coincides with what element k + 1 was (distinct objects whose data become equal DURING the operation)
            sd0 = G.rand_shape(rng, pdim, dim=dim, clamped_only=True, maxextra=2, maxdeg=3, pcls='lattice')
            yield {'kind': 'transform', 'shapes': [sd0], 'container': True, 'op': rng.choice(['translate', 'scale']),
                   'pattern': rng.randint(3, 5), 'inplace': rng.random() < 0.5, 'seed': rng.randrange(1 << 30)}


def check(case, ctx):
    from geomdl import operations, multi
    rng = random.Random(case['seed'])
    sds = case['shapes']
    pdim, dim = sds[0]['pdim'], len(sds[0]['ctrlpts'][0])
    forced = None
    if case.get('pattern'):
        ctx.tag('container:pattern')
        if case['op'] == 'translate':
            forced = [float(rng.choice([-3, -1, 1, 2, 4])) for _ in range(dim)]
            sds = [dict(sds[0], ctrlpts=[[c + k * v for c, v in zip(p, forced)] for p in sds[0]['ctrlpts']]) for k in range(case['pattern'])]
        else:
            forced = 2
            sds = [dict(sds[0], ctrlpts=[[c * 2 ** k for c in p] for p in sds[0]['ctrlpts']]) for k in range(case['pattern'])]
    elems = [G.build(sd) for sd in sds]
    defs = [G.defn_of(e) for e in elems]
    ctx.tag(case['op'], 'container' if case['container'] else 'single', 'inplace' if case['inplace'] else 'copy',
            'dim%d' % dim, 'pdim%d' % pdim)
    if any(sd['rational'] for sd in sds):
        ctx.tag('rational')
    if any(sd['kvs'][0][0] != sd['kvs'][0][sd['degrees'][0]] for sd in sds):
        ctx.tag('unclamped')
    if any(sd.get('precision') for sd in sds):
        ctx.tag('coarse-precision')
    if case['container']:
        cls = {1: multi.CurveContainer, 2: multi.SurfaceContainer, 3: multi.VolumeContainer}[pdim]
        if case.get('pattern'):
            pass
        elif case['seed'] % 6 == 0:
            # the same shape listed twice in the container (add() accepts it): every point still moves once
            elems = elems + [elems[0]]
            defs = defs + [defs[0]]
            ctx.tag('container:shape-listed-twice')
        elif case['seed'] % 6 == 1:
            # two distinct objects with equal data (a shape and its copy): both move
            import copy as _copy
            elems = elems + [_copy.deepcopy(elems[0])]
            defs = defs + [defs[0]]
            ctx.tag('container:equal-twins')
        obj = cls(*elems)
        obj.sample_size = {1: 6, 2: 4, 3: 3}[pdim]
        if case.get('lift'):
            ctx.tag('container:lifted-to-3d')
            for e_ in {id(x_): x_ for x_ in elems}.values():     # (a shape listed twice is lifted once)
                operations.add_dimension(e_, inplace=True, offset=rng.choice([0.0, 1.0, -2.5]))
            defs = [G.defn_of(e) for e in elems]
            dim = 3
    else:
        obj = elems[0]
    sc = max(so.scale_of_defn(S) for S in defs)
    unit = case.get('unit')
    if unit:
        ctx.tag('small-unit-of-length')
        sc = max(abs(float(c)) for S in defs for t in S.net for c in S.cart(t))       # the true size (not floored at 1)
    # ---- the exact map ---------------------------------------------------------------------------------------------------
    op = case['op']
    if op == 'translate':
        vec = [rng.choice([0.0, 1.0, -2.5, rng.uniform(-10, 10)]) * (unit or 1.0) for _ in range(dim)]
        if rng.random() < 0.12:
            vec = [rng.choice([0, 0.0]) for _ in range(dim)]      # the identity map is a translation too
            ctx.tag('null-map')
        if forced is not None:
            vec = forced
        maps = [lambda x, vec=vec: [a + F(b) for a, b in zip(x, vec)]]
        args, kw = (vec,), {}
        nontrivial_map = any(vec)
        outscale = sc + max(abs(v) for v in vec)
    elif op == 'scale':
        m = rng.choice([-1.5, 0.5, 2, 3, 1, 1.0, rng.uniform(0.1, 4)])
        if forced is not None:
            m = forced
        maps = [lambda x, m=m: [a * F(m) for a in x]]
        args, kw = (m,), {}
        nontrivial_map = m != 1
        outscale = sc * max(1.0, abs(m))
    else:
        angle = rng.choice([0, 90, -45, 180, rng.uniform(-180, 180)])
        axis = rng.randrange(3)
        ctx.tag('axis%d' % axis)
        eff_axis = 2 if dim == 2 else axis
        O = defs[0].point([a for a, b in defs[0].domain()])
        c, s = math.cos(math.radians(angle)), math.sin(math.radians(angle))
        i, j = [(1, 2), (0, 2), (0, 1)][eff_axis]

        def mk(sign):
            def f(x, sign=sign):
                y = [a - b for a, b in zip(x, O)]
                r = list(y)
                r[i] = y[i] * F(c) - F(sign) * y[j] * F(s)
                r[j] = y[j] * F(c) + F(sign) * y[i] * F(s)
                return [a + b for a, b in zip(r, O)]
            return f
        maps = [mk(1), mk(-1)]
        args, kw = (angle,), {'axis': axis}
        nontrivial_map = angle != 0
        outscale = 3 * sc
    kw['inplace'] = case['inplace']
    # ---- before ------------------------------------------------------------------------------------------------------------
    before = [G.snapshot(e) for e in elems]
    if not case['container']:
        obj.sample_size = {1: 6, 2: 4, 3: 3}[pdim]
    if rng.random() < 0.3:
        # the first shape was sampled on a part of its domain only (its cached points do not start at the domain start)
        ctx.tag('partial-evaluate-before')
        e0 = elems[0]
        kwe = {}
        for nm_, (a_, b_) in zip(['', ] if pdim == 1 else ['_u', '_v', '_w'], G.domains_of(e0)):
            kwe['start' + nm_] = a_ + rng.uniform(0.2, 0.4) * (b_ - a_)
            kwe['stop' + nm_] = a_ + rng.uniform(0.6, 0.9) * (b_ - a_)
        e0.evaluate(**kwe)
    read_before = rng.random() < 0.5
    input_views = None
    kept_w = None
    if read_before:
        if case['container']:
            input_views = {'evalpts': [list(p) for p in obj.evalpts]}
        else:
            input_views = {'evalpts': [list(p) for p in obj.evalpts], 'ctrlpts': [list(p) for p in obj.ctrlpts]}
            if obj.rational:
                kept_w = obj.weights                    # the caller keeps the list it was handed: "weights unchanged" is read off it later
                input_views['weights'] = list(kept_w)
        if case['inplace']:
            ctx.tag('read-before-inplace')
    if case['container'] and len(elems) > 1 and rng.random() < 0.5:
        # user code that looked at the container before and stopped early (any(), next(iter()), a loop with break)
        ctx.tag('partially-iterated')
        which = rng.randrange(3)
        if which == 0:
            any(True for e_ in obj)
        elif which == 1:
            next(iter(obj))
        else:
            for e_ in obj:
                break
    res = getattr(operations, op)(obj, *args, **kw)
    # ---- inplace / copy semantics ----------------------------------------------------------------------------------------------
    if case['inplace']:
        ctx.check(res is obj, 'inplace/other-object-returned', '%s(inplace=True) returned a different object' % op,
                  what='inplace-semantics')
    else:
        ctx.check(res is not obj, 'copy/same-object-returned', '%s(inplace=False) returned the input object' % op,
                  what='inplace-semantics')
        ctx.check([G.snapshot(e) for e in elems] == before, 'copy/input-modified', '%s(inplace=False) modified its input' % op,
                  what='inplace-semantics')
    if not case['inplace'] and res is obj:
        return
    relems = list(res) if case['container'] else [res]
    if not ctx.check(len(relems) == len(elems), 'result/element-count', 'result has %d elements, input %d' % (len(relems), len(elems)),
                     what='inplace-semantics'):
        return
    # ---- mapped points --------------------------------------------------------------------------------------------------------
    tol = 1e-9 * outscale
    chosen = None if len(maps) > 1 else maps[0]
    for k, (r, S0, b) in enumerate(zip(relems, defs, before)):
        post = G.snapshot(r)
        ctx.check(post['degrees'] == b['degrees'] and post['kvs'] == b['kvs'] and post['sizes'] == b['sizes'],
                  'result/structure-changed', '%s changed degrees / knot vectors / sizes of element %d' % (op, k), what='structure')
        if S0.rational:
            ctx.check(all(abs(p[-1] - q[-1]) <= 1e-12 * max(1.0, abs(q[-1])) for p, q in zip(post['hom'], b['hom'])),
                      'weights-changed', '%s changed the weights of element %d' % (op, k), what='weights-unchanged')
        for q in so.probe_params(rng, S0, nrand=4, maxn=10 if pdim < 3 else 6):
            x0 = S0.point(q)
            got = G.evaluate_single(r, q)
            if chosen is None:
                # infer the sense of rotation from the first probe that distinguishes the two
                e1, e2 = maps[0](x0), maps[1](x0)
                if max(abs(float(a - b_)) for a, b_ in zip(e1, e2)) > 1e-6 * outscale:
                    d1 = max(abs(g - float(a)) for g, a in zip(got, e1))
                    d2 = max(abs(g - float(a)) for g, a in zip(got, e2))
                    chosen = maps[0] if d1 <= d2 else maps[1]
                else:
                    ctx.near(got, e1, tol, 'mapped-point/%s' % op, '%s: element %d at %r is not the mapped input point' % (op, k, q),
                             what='mapped-point')
                    continue
            ctx.near(got, chosen(x0), tol, 'mapped-point/%s' % op, '%s%r: element %d evaluated at %r is not the image of the input '
                     'point under the map' % (op, args, k, q), what='mapped-point')
    # ---- aggregate of a container -------------------------------------------------------------------------------------------------
    if case['container']:
        try:
            agg = res.evalpts
        except KeyError as e:
            ctx.fail('container/copy-has-no-evalpts', 'evalpts of the container returned by %s(inplace=%s) raised KeyError(%s)'
                     % (op, case['inplace'], e))
            return
        exp = []
        for r in relems:
            exp += [list(p) for p in r.evalpts]
        ok = len(agg) == len(exp) and all(abs(a - b_) <= tol for p, q_ in zip(agg, exp) for a, b_ in zip(p, q_))
        if not ok and case['inplace'] and read_before:
            ctx.fail('container/aggregate-stale-after-inplace-edit', 'container.evalpts read before %s(inplace=True) is returned '
                     'unchanged afterwards (the elements moved, the aggregate did not)' % op)
        else:
            ctx.check(ok, 'container/aggregate', 'container evalpts differ from the concatenation of its elements\' points after %s' % op,
                      what='aggregate')
    elif read_before and case['inplace']:
        pts = res.evalpts
        S0 = defs[0]
        ss = [res.sample_size] if pdim == 1 else list(res.sample_size)
        first = [a for a, b in S0.domain()]
        exact = (chosen or maps[0])(S0.point(first))
        ctx.near(pts[0], exact, tol, 'single/evalpts-stale-after-inplace-edit', 'evalpts[0] read after %s(inplace=True) is not the '
                 'mapped start point (stale sampled points)' % op, what='aggregate')
    # ---- without the in-place option the input's derived views are untouched too (read - transform copy - read both) -----------------
    if not case['inplace'] and input_views is not None:
        if not case['container']:
            # the returned copy must report ITS OWN unweighted points, and a later in-place edit of it must not leak back
            got_c = [list(p) for p in res.ctrlpts]
            exp_c = [[float(c) for c in (chosen or maps[0])([F(x) for x in p])] for p in input_views['ctrlpts']] if op != 'rotate' or chosen \
                else None
            if exp_c is not None:
                ctx.check(all(abs(a - b_) <= tol for p, q_ in zip(got_c, exp_c) for a, b_ in zip(p, q_)), 'copy/result-views-stale',
                          '%s(inplace=False): ctrlpts of the result are not the mapped control points of the input' % op, what='inplace-semantics')
            # ... and READING the copy's views must not change what the input reports (checked before the copy is edited again: an
            # edit would empty a cache the two objects share and hide it)
            if res.rational:
                _ = list(res.weights)
            for nm, old in input_views.items():
                if nm == 'evalpts':
                    continue
                now = [list(p) for p in getattr(obj, nm)] if nm != 'weights' else list(getattr(obj, nm))
                same = len(now) == len(old) and all((abs(a - b_) <= 1e-12 * max(1.0, abs(b_))) if not isinstance(a, list) else
                                                    all(abs(x - y) <= 1e-12 * max(1.0, abs(y)) for x, y in zip(a, b_)) for a, b_ in zip(now, old))
                ctx.check(same, 'copy/input-views-changed', '%s(inplace=False): %s of the INPUT changed after the views of the copy were read'
                          % (op, nm), what='inplace-semantics')
            res.ctrlpts = [[c + 1.0 for c in p] for p in res.ctrlpts]
        for nm, old in input_views.items():
            now = [list(p) for p in getattr(obj, nm)] if nm != 'weights' else list(getattr(obj, nm))
            same = len(now) == len(old) and all((abs(a - b_) <= 1e-12 * max(1.0, abs(b_))) if not isinstance(a, list) else
                                                all(abs(x - y) <= 1e-12 * max(1.0, abs(y)) for x, y in zip(a, b_)) for a, b_ in zip(now, old))
            ctx.check(same, 'copy/input-views-changed', '%s(inplace=False): %s of the INPUT changed after transforming / reading the copy'
                      % (op, nm), what='inplace-semantics')
    if kept_w is not None:
        ctx.check(list(kept_w) == input_views['weights'], 'weights-changed/kept-list-emptied', '%s(inplace=%s): the weights list handed out before the '
                  'transformation now reads %r (was %d weights)' % (op, case['inplace'], list(kept_w)[:4], len(input_views['weights'])),
                  what='weights-unchanged')
    interior = any(len(kv) > 2 * (p + 1) for sd in sds for kv, p in zip(sd['kvs'], sd['degrees']))
    ctx.nontriv(nontrivial_map and (interior or any(sd['rational'] for sd in sds)))
