"""./check <ID> [--tier quick|thorough] [--replay file]   — launcher, sharding, verdicts."""
import argparse
import importlib
import json
import os
import random
import shutil
import subprocess
import sys
import tempfile
import time

from . import core

PY = os.environ.get('NV_PYTHON', '/venv/bin/python')


def load_prop(pid):
    return importlib.import_module('nvmon.props.%s' % pid.lower())


def child_env():
    env = dict(os.environ)
    env['PYTHONPATH'] = core.REPO + os.pathsep + core.VERIF_DIR
    env['PYTHONHASHSEED'] = '0'
    env['PYTHONDONTWRITEBYTECODE'] = '1'
    env['NV_REPO'] = core.REPO
    env.pop('GEOMDL_CACHE_SIZE', None)
    return env


def assert_repo():
    import geomdl
    here = os.path.realpath(os.path.dirname(geomdl.__file__))
    want = os.path.realpath(os.path.join(core.REPO, 'geomdl'))
    if here != want:
        print('INTERNAL geomdl imported from %s, expected %s' % (here, want))
        sys.exit(2)


# ---------------------------------------------------------------------------------------------------------------
def worker_main(a):
    assert_repo()
    mod = load_prop(a.prop)
    ctx = core.Ctx(a.prop, a.tier, a.seed, a.shard)
    rng = random.Random('%s/%d/%d/%s' % (a.prop, a.seed, a.shard, a.tier))
    t0 = time.time()
    budget = float(os.environ.get('NV_BUDGET_S', mod.BUDGET[a.tier] if hasattr(mod, 'BUDGET') else
                                  (150 if a.tier == 'quick' else 1500)))
    if hasattr(mod, 'setup'):
        mod.setup(ctx)
    stopped = False
    for case in mod.gen(rng, a.tier, a.shard, a.nshards):
        core.run_case(mod, case, ctx)
        if time.time() - t0 > budget:
            stopped = True
            break
    if hasattr(mod, 'teardown'):
        mod.teardown(ctx)
    ctx.notes['stopped_by_time_budget'] = stopped
    res = core.worker_result(ctx, time.time() - t0)
    with open(a.out, 'w') as f:
        json.dump(res, f, default=repr)
    return 0


def replay_main(a):
    assert_repo()
    mod = load_prop(a.prop)
    with open(a.replay) as f:
        rep = json.load(f)
    ctx = core.Ctx(a.prop, 'quick', 0, 0)
    if hasattr(mod, 'setup'):
        mod.setup(ctx)
    core.run_case(mod, rep['case'], ctx)
    if hasattr(mod, 'teardown'):
        mod.teardown(ctx)
    known = core.load_known()
    rc = 0
    for v in ctx.violations:
        k = core.classify(a.prop, v['key'], known)
        if k:
            print('KNOWN-FINDING: property=%s %s [%s]' % (a.prop, k['what_fails'], v['key']))
        else:
            print('  key=%s  %s' % (v['key'], v['msg']))
            print('VIOLATION property=%s replay=%s' % (a.prop, a.replay))
            rc = 1
    if not ctx.violations:
        print('replay: property held on this case (%d oracle evaluations)' % ctx.evaluations)
    return rc


def main(argv=None):
    ap = argparse.ArgumentParser()
    ap.add_argument('prop')
    ap.add_argument('--tier', default=os.environ.get('VERIF_TIER') or 'quick', choices=['quick', 'thorough'])
    ap.add_argument('--seed', type=int, default=int(os.environ.get('VERIF_SEED') or 0))
    ap.add_argument('--replay')
    ap.add_argument('--worker', action='store_true')
    ap.add_argument('--shard', type=int, default=0)
    ap.add_argument('--nshards', type=int, default=1)
    ap.add_argument('--out')
    a = ap.parse_args(argv)
    a.prop = a.prop.upper()
    if a.worker:
        return worker_main(a)
    if a.replay:
        if os.environ.get('NV_CHILD') != '1':
            env = child_env()
            env['NV_CHILD'] = '1'
            return subprocess.call([PY, '-m', 'nvmon.cli', a.prop, '--replay', a.replay], env=env,
                                   cwd=core.VERIF_DIR)
        return replay_main(a)
    return parent_main(a)


def parent_main(a):
    t0 = time.time()
    sys.path.insert(0, core.VERIF_DIR)
    mod = load_prop(a.prop)
    nshards = int(os.environ.get('NV_SHARDS') or mod.SHARDS[a.tier])
    tmp = tempfile.mkdtemp(prefix='nvmon_%s_' % a.prop)
    env = child_env()
    procs = []
    hard = float(os.environ.get('NV_HARD_TIMEOUT_S') or (900 if a.tier == 'quick' else 7200))
    try:
        for i in range(nshards):
            out = os.path.join(tmp, 'shard%d.json' % i)
            log = open(os.path.join(tmp, 'shard%d.log' % i), 'w')
            p = subprocess.Popen([PY, '-X', 'faulthandler', '-m', 'nvmon.cli', a.prop, '--worker', '--tier', a.tier,
                                  '--seed', str(a.seed), '--shard', str(i), '--nshards', str(nshards), '--out', out],
                                 env=env, cwd=tmp, stdout=log, stderr=subprocess.STDOUT)
            procs.append((p, out, log))
        results = []
        dead = []
        for i, (p, out, log) in enumerate(procs):
            try:
                rc = p.wait(timeout=max(1.0, hard - (time.time() - t0)))
            except subprocess.TimeoutExpired:
                p.kill()
                p.wait()
                rc = 'watchdog'
            log.close()
            if rc == 0 and os.path.exists(out):
                with open(out) as f:
                    results.append(json.load(f))
            else:
                with open(log.name) as f:
                    dead.append((i, rc, f.read()[-3000:]))
        return finish(a, mod, results, dead, nshards, time.time() - t0)
    finally:
        shutil.rmtree(tmp, ignore_errors=True)


def finish(a, mod, results, dead, nshards, wall):
    pid = a.prop
    merged = core.merge(results) if results else None
    known = core.load_known()
    reasons = []
    if dead:
        for i, rc, tail in dead:
            reasons.append('shard %d ended with %r' % (i, rc))
            sys.stdout.write('--- shard %d output tail ---\n%s\n' % (i, tail))
    if merged is None:
        print('INCONCLUSIVE property=%s reason=%s' % (pid, '; '.join(reasons) or 'no shard produced a result'))
        return 3
    # floors
    floors = getattr(mod, 'FLOORS', {}).get(a.tier, {})
    for k, mn in floors.items():
        have = merged['counters'].get(k, 0)
        if have < mn:
            reasons.append('monitor %s evaluated %d < floor %d' % (k, have, mn))
    for t in getattr(mod, 'MANDATORY_TAGS', []):
        if merged['tags'].get(t, 0) == 0:
            reasons.append('mandatory case class %s never generated' % t)
    if len(merged['nontrivial']) < 2:
        reasons.append('fewer than 2 distinct non-trivial cases')
    # classify violations
    new, hits = [], {}
    seen_keys = {}
    for v in merged['violations']:
        k = core.classify(pid, v['key'], known)
        if k:
            v['known'] = True
            hits[k['key']] = hits.get(k['key'], 0) + 1
        else:
            new.append(v)
            seen_keys.setdefault(v['key'], v)
    for key, n in sorted(hits.items()):
        k = next(x for x in known if x['key'] == key and x['property'] == pid)
        print('KNOWN-FINDING: property=%s %s [key=%s, %d witnesses this run]' % (pid, k['what_fails'], key, n))
    verdict = 'violated' if new else ('inconclusive' if reasons else 'held_on_observed')
    core.write_evidence(pid, a.tier, a.seed, merged, wall, mod.RULE, mod.ASSUMPTIONS, verdict,
                        extra={'violation_keys': sorted(seen_keys), 'inconclusive_reasons': reasons},
                        known_hits=hits)
    print('%s tier=%s seed=%d shards=%d cases=%d oracle_evaluations=%d distinct_nontrivial=%d wall=%.1fs' % (
        pid, a.tier, a.seed, nshards, merged['cases'], merged['evaluations'], len(merged['nontrivial']), wall))
    if new:
        for key, v in sorted(seen_keys.items()):
            path = core.write_replay(pid, v)
            n = sum(1 for x in new if x['key'] == key)
            print('  key=%s witnesses=%d: %s' % (key, n, v['msg'][:300]))
            print('VIOLATION property=%s replay=%s' % (pid, os.path.relpath(path, core.VERIF_DIR)))
        return 1
    if reasons:
        print('INCONCLUSIVE property=%s reason=%s' % (pid, '; '.join(reasons)))
        return 3
    print('HELD property=%s on everything observed' % pid)
    return 0


if __name__ == '__main__':
    sys.exit(main())
