"""Deterministic scenario used by C17 for cross-configuration runs in separate interpreters (GEOMDL_CACHE_SIZE is read at
import time). Prints one JSON document: a list of [step name, result-or-exception] pairs."""
import json
import random
import sys


def run(seed):
    out = []

    def step(name, fn):
        try:
            out.append([name, fn()])
        except Exception as e:  # the exception record is part of the digest
            out.append([name, 'EXC:%s' % type(e).__name__])
    try:
        from nvmon import gen as G
        from geomdl import operations, linalg, helpers
    except Exception as e:
        return [['import', 'EXC:%s:%s' % (type(e).__name__, e)]]
    out.append(['import', 'ok'])
    rng = random.Random(seed)
    for k in range(6):
        pdim = [1, 2, 3, 1, 2, 1][k]
        sd = G.rand_shape(rng, pdim, clamped_only=True, maxextra=3, maxdeg=3, pcls='uniform', wcls='uniform')
        o = G.build(sd)
        tag = 's%d' % k
        prm = [0.37] * pdim
        step(tag + ':eval', lambda: G.evaluate_single(o, prm))
        if pdim == 1:
            step(tag + ':ders', lambda: o.derivatives(0.41, 3))
        elif pdim == 2:
            step(tag + ':ders', lambda: o.derivatives(0.41, 0.63, 2))

        def ins():
            p = [None] * pdim
            n = [0] * pdim
            d = k % pdim
            p[d], n[d] = 0.53, 1
            operations.insert_knot(o, p, n)
            return G.hom_pts_of(o)
        step(tag + ':insert', ins)

        def ins2():
            p = [None] * pdim
            n = [0] * pdim
            d = (k + 1) % pdim
            p[d], n[d] = 0.29, G.degrees_of(o)[d]
            operations.insert_knot(o, p, n)
            return G.hom_pts_of(o)
        step(tag + ':insert-full', ins2)

        def rem():
            p = [None] * pdim
            n = [0] * pdim
            d = k % pdim
            p[d], n[d] = 0.53, 1
            operations.remove_knot(o, p, n)
            return G.hom_pts_of(o)
        step(tag + ':remove', rem)

        def refine():
            p = [0] * pdim
            p[k % pdim] = 1
            operations.refine_knotvector(o, p)
            return [G.kvs_of(o), G.hom_pts_of(o)]
        step(tag + ':refine', refine)
        if pdim == 1:
            step(tag + ':split', lambda: [G.hom_pts_of(c) for c in operations.split_curve(o, 0.45)])
            step(tag + ':decompose', lambda: len(operations.decompose_curve(o)))
            if not sd['rational']:
                def elev():
                    c = G.build(sd)
                    operations.degree_operations(c, [1])
                    return [c.degree, G.hom_pts_of(c)]
                step(tag + ':degree-elevate', elev)
        step(tag + ':eval-after', lambda: G.evaluate_single(o, prm))
    for n in (2, 3, 4, 5, 3, 2, 6, 3):
        A = [[float(rng.randint(-9, 9)) for _ in range(n)] for _ in range(n)]
        for i in range(n):
            A[i][i] += 25.0
        step('inv%d' % n, lambda: linalg.matrix_inverse(A))
        step('det%d' % n, lambda: linalg.matrix_determinant(A))
        step('ident%d' % n, lambda: linalg.matrix_identity(n))
    # matrices that need row exchanges, sizes alternating (a cache of one entry forgets size 3 while size 4 is worked on, a larger one
    # does not: whatever is memoised per size must not carry anything over from the previous matrix of that size)
    for j, n in enumerate((3, 4, 3, 5, 4, 3, 5, 4)):
        A = [[float(rng.randint(-2, 2)) for _ in range(n)] for _ in range(n)]
        perm = list(range(n))
        rng.shuffle(perm)
        if perm == sorted(perm):
            perm = perm[1:] + perm[:1]
        for i in range(n):
            A[i][perm[i]] = float(rng.choice([-9, 9, 8, -8]))
        b = [[float(rng.randint(-9, 9))] for _ in range(n)]
        step('swap-inv%d.%d' % (n, j), lambda: linalg.matrix_inverse(A))
        step('swap-factor%d.%d' % (n, j), lambda: linalg.lu_factor(A, b))
        step('swap-pivot%d.%d' % (n, j), lambda: linalg.matrix_pivot(A, sign=True))
    for kk in range(12):
        step('binom%d' % kk, lambda: [linalg.binomial_coefficient(kk, i) for i in range(kk + 2)])
    # (round 10) a request in single precision first, the equal request in doubles afterwards: what is memoised for the first must not be
    # served to the second in single precision (coefficients 1/2, 1/3, 1/6, 2/3, ... are not exact in single precision)
    try:
        import numpy as np
    except Exception:
        np = None
    if np is not None:
        from geomdl import BSpline
        for j, (kv, u) in enumerate([([0, 0, 0, 0, 2, 3, 6, 6, 6, 6], 1.0), ([0, 0, 0, 1, 3, 4, 7, 7, 7], 2.0),
                                     ([0.0, 0.0, 0.0, 0.0, 0.375, 0.75, 1.0, 1.0, 1.0, 1.0], 0.25)]):
            deg = 3 if len(kv) == 10 else 2
            pts = [[rng.uniform(-5, 5) for _ in range(3)] for _ in range(len(kv) - deg - 1)]

            def mk():
                c = BSpline.Curve(normalize_kv=False)
                c.degree = deg
                c.ctrlpts = [list(p_) for p_ in pts]
                c.knotvector = [float(k_) for k_ in kv]
                return c

            def f32_then_double():
                a_ = mk()
                operations.insert_knot(a_, [np.float32(u)], [1])
                b_ = mk()
                operations.insert_knot(b_, [u], [1])
                return [[[float(x_) for x_ in p_] for p_ in a_.ctrlpts], [list(p_) for p_ in b_.ctrlpts]]
            step('f32-then-double%d' % j, f32_then_double)
    P = [[rng.uniform(-5, 5) for _ in range(3)] for _ in range(5)]
    step('elev', lambda: helpers.degree_elevation(4, P, num=3))
    return out


if __name__ == '__main__':
    seed = int(sys.argv[1]) if len(sys.argv) > 1 else 0
    json.dump(run(seed), sys.stdout)
