"""Exact reference model of B-spline / NURBS mathematics (fractions.Fraction).

Deliberately *definitional* (Cox-de Boor recursion, power-series division for rational derivatives) and
independent of every algorithm of The NURBS Book that geomdl implements.  Nothing here imports geomdl.
"""
from fractions import Fraction as F
from math import factorial


def fr(x):
    return x if isinstance(x, F) else F(x)


def domain(p, U):
    n = len(U) - p - 1
    return U[p], U[n]


def find_span(p, U, u):
    """Index i of the non-empty half-open span [U[i],U[i+1]) containing u; the last non-empty span of the
    domain at the domain end."""
    n = len(U) - p - 1
    a, b = U[p], U[n]
    if not (a <= u <= b):
        raise ValueError("parameter outside domain: %r not in [%r, %r]" % (u, a, b))
    if u == b:
        i = n - 1
        while i > p and U[i] == U[i + 1]:
            i -= 1
        return i
    i = p
    while not (U[i] <= u < U[i + 1]):
        i += 1
    return i


def basis_span(p, U, i, u):
    """Exact values of N_{i-p..i,p}(u) by the Cox-de Boor definition restricted to span i (u in its closure).
    Returns dict index -> value."""
    N = {i: F(1)}
    for d in range(1, p + 1):
        M = {}
        for j in range(i - d, i + 1):
            v = F(0)
            if j in N and U[j + d] != U[j]:
                v += (u - U[j]) / (U[j + d] - U[j]) * N[j]
            if (j + 1) in N and U[j + d + 1] != U[j + 1]:
                v += (U[j + d + 1] - u) / (U[j + d + 1] - U[j + 1]) * N[j + 1]
            M[j] = v
        N = M
    return N


def basis_all_degrees(p, U, i, u):
    """dict d -> {j: N_{j,d}(u)} for d = 0..p on span i."""
    out = {0: {i: F(1)}}
    N = out[0]
    for d in range(1, p + 1):
        M = {}
        for j in range(i - d, i + 1):
            v = F(0)
            if j in N and U[j + d] != U[j]:
                v += (u - U[j]) / (U[j + d] - U[j]) * N[j]
            if (j + 1) in N and U[j + d + 1] != U[j + 1]:
                v += (U[j + d + 1] - u) / (U[j + d + 1] - U[j + 1]) * N[j + 1]
            M[j] = v
        out[d] = M
        N = M
    return out


def basis_one(p, U, j, u):
    """N_{j,p}(u) straight from the recursive definition over the whole knot vector (half-open supports,
    last non-empty span of the domain closed at the domain end)."""
    i = find_span(p, U, u)
    return basis_span(p, U, i, u).get(j, F(0))


# -- polynomials: lists of Fractions, lowest degree first, in the local variable t = u - u0 -----------------
def padd(a, b):
    n = max(len(a), len(b))
    return [(a[k] if k < len(a) else 0) + (b[k] if k < len(b) else 0) for k in range(n)]


def pmul(a, b):
    r = [F(0)] * (len(a) + len(b) - 1)
    for i, x in enumerate(a):
        if x == 0:
            continue
        for j, y in enumerate(b):
            r[i + j] += x * y
    return r


def basis_polys(p, U, i, u0):
    """Polynomials (in t = u - u0) of N_{i-p..i,p} on span i."""
    N = {i: [F(1)]}
    for d in range(1, p + 1):
        M = {}
        for j in range(i - d, i + 1):
            v = [F(0)]
            if j in N and U[j + d] != U[j]:
                den = U[j + d] - U[j]
                v = padd(v, pmul([(u0 - U[j]) / den, F(1) / den], N[j]))
            if (j + 1) in N and U[j + d + 1] != U[j + 1]:
                den = U[j + d + 1] - U[j + 1]
                v = padd(v, pmul([(U[j + d + 1] - u0) / den, F(-1) / den], N[j + 1]))
            M[j] = v
        N = M
    return N


def basis_ders(p, U, i, u, order):
    """dict j -> [N^(k)_{j,p}(u) for k=0..order] on span i (exact, derivative of the piece polynomial)."""
    polys = basis_polys(p, U, i, u)
    out = {}
    for j, poly in polys.items():
        out[j] = [factorial(k) * (poly[k] if k < len(poly) else F(0)) for k in range(order + 1)]
    return out


def series_div(A, W, order):
    """A: list of vectors (Taylor coefficients), W: list of scalars; coefficients of A/W up to order."""
    C = []
    dim = len(A[0])
    for k in range(order + 1):
        v = list(A[k]) if k < len(A) else [F(0)] * dim
        for j in range(1, k + 1):
            wj = W[j] if j < len(W) else F(0)
            if wj:
                v = [x - wj * c for x, c in zip(v, C[k - j])]
        C.append([x / W[0] for x in v])
    return C


class Shape(object):
    """degrees: tuple; kvs: tuple of knot lists; sizes: tuple; net: dict index-tuple -> point (homogeneous
    (x*w,..,w) when rational); rational flag."""

    def __init__(self, degrees, kvs, sizes, net, rational):
        self.p = tuple(degrees)
        self.U = tuple([fr(k) for k in kv] for kv in kvs)
        self.n = tuple(sizes)
        self.net = {k: [fr(c) for c in v] for k, v in net.items()}
        self.rational = bool(rational)
        self.dim = len(next(iter(self.net.values())))
        self.pdim = len(self.p)

    def domain(self):
        return [domain(p, U) for p, U in zip(self.p, self.U)]

    def spans(self, params):
        params = [fr(x) for x in params]
        return [find_span(p, U, u) for p, U, u in zip(self.p, self.U, params)]

    def point_h(self, params):
        params = [fr(x) for x in params]
        spans = [find_span(p, U, u) for p, U, u in zip(self.p, self.U, params)]
        bas = [basis_span(p, U, i, u) for p, U, i, u in zip(self.p, self.U, spans, params)]
        acc = [F(0)] * self.dim
        net = self.net
        npar = len(self.p)

        def rec(d, idx, coef):
            if d == npar:
                P = net[idx]
                for k in range(len(acc)):
                    acc[k] += coef * P[k]
                return
            for j, v in bas[d].items():
                if v:
                    rec(d + 1, idx + (j,), coef * v)
        rec(0, (), F(1))
        return acc

    def point(self, params):
        h = self.point_h(params)
        if self.rational:
            return [c / h[-1] for c in h[:-1]]
        return h

    def active(self, params):
        """index tuples of the (p+1)^d control points active on the span of params"""
        spans = self.spans(params)
        out = [()]
        for p, s in zip(self.p, spans):
            out = [o + (j,) for o in out for j in range(s - p, s + 1)]
        return out

    def cart(self, idx):
        P = self.net[idx]
        if self.rational:
            return [c / P[-1] for c in P[:-1]]
        return list(P)

    def curve_ders(self, u, order):
        """Exact derivatives 0..order of a curve at u (right derivative at knots, left at the domain end)."""
        u = fr(u)
        p, U = self.p[0], self.U[0]
        i = find_span(p, U, u)
        polys = basis_polys(p, U, i, u)
        A = [[F(0)] * self.dim for _ in range(max(p, order) + 1)]
        for j, poly in polys.items():
            P = self.net[(j,)]
            for k, c in enumerate(poly):
                if c:
                    A[k] = [a + c * x for a, x in zip(A[k], P)]
        if not self.rational:
            return [[factorial(k) * x for x in A[k]] for k in range(order + 1)]
        Av = [a[:-1] for a in A]
        W = [a[-1] for a in A]
        C = series_div(Av, W, order)
        return [[factorial(k) * x for x in C[k]] for k in range(order + 1)]

    def surface_ders(self, u, v, order):
        """Exact mixed derivatives {(k,l): vector}, k+l <= order."""
        u, v = fr(u), fr(v)
        (p, q), (U, V) = self.p, self.U
        i = find_span(p, U, u)
        j = find_span(q, V, v)
        pu = basis_polys(p, U, i, u)
        pv = basis_polys(q, V, j, v)
        K = max(p, order) + 1
        L = max(q, order) + 1
        zero = [F(0)] * self.dim
        A = [[list(zero) for _ in range(L)] for _ in range(K)]
        for a, polya in pu.items():
            for b, polyb in pv.items():
                P = self.net[(a, b)]
                for k, ck in enumerate(polya):
                    if not ck:
                        continue
                    for l, cl in enumerate(polyb):
                        if cl:
                            c = ck * cl
                            A[k][l] = [x + c * y for x, y in zip(A[k][l], P)]

        def get(k, l):
            return A[k][l] if k < K and l < L else zero
        if not self.rational:
            return {(k, l): [factorial(k) * factorial(l) * x for x in get(k, l)]
                    for k in range(order + 1) for l in range(order + 1 - k)}
        C = {}
        w00 = get(0, 0)[-1]
        for s in range(order + 1):
            for k in range(s + 1):
                l = s - k
                val = list(get(k, l)[:-1])
                for a in range(k + 1):
                    for b in range(l + 1):
                        if a == 0 and b == 0:
                            continue
                        w = get(a, b)[-1]
                        if w:
                            val = [x - w * c for x, c in zip(val, C[(k - a, l - b)])]
                C[(k, l)] = [x / w00 for x in val]
        return {(k, l): [factorial(k) * factorial(l) * x for x in C[(k, l)]] for (k, l) in C}


# -- Bezier ------------------------------------------------------------------------------------------------
def bernstein_point(P, t):
    """de Casteljau in exact arithmetic; P list of points (lists of numbers)."""
    t = fr(t)
    Q = [[fr(c) for c in pt] for pt in P]
    while len(Q) > 1:
        Q = [[(1 - t) * a + t * b for a, b in zip(Q[i], Q[i + 1])] for i in range(len(Q) - 1)]
    return Q[0]


# -- exact linear algebra ----------------------------------------------------------------------------------
def det(M):
    """Bareiss / Gaussian elimination determinant in Fractions."""
    A = [[fr(x) for x in row] for row in M]
    n = len(A)
    d = F(1)
    for c in range(n):
        piv = None
        for r in range(c, n):
            if A[r][c] != 0:
                piv = r
                break
        if piv is None:
            return F(0)
        if piv != c:
            A[c], A[piv] = A[piv], A[c]
            d = -d
        d *= A[c][c]
        for r in range(c + 1, n):
            f = A[r][c] / A[c][c]
            if f:
                A[r] = [x - f * y for x, y in zip(A[r], A[c])]
    return d


def det_leibniz(M):
    """Leibniz formula (n <= 6)."""
    from itertools import permutations
    A = [[fr(x) for x in row] for row in M]
    n = len(A)
    tot = F(0)
    for perm in permutations(range(n)):
        inv = sum(1 for i in range(n) for j in range(i + 1, n) if perm[i] > perm[j])
        t = F(-1 if inv % 2 else 1)
        for i in range(n):
            t *= A[i][perm[i]]
            if not t:
                break
        tot += t
    return tot


def matmul(A, B):
    A = [[fr(x) for x in r] for r in A]
    B = [[fr(x) for x in r] for r in B]
    return [[sum(A[i][k] * B[k][j] for k in range(len(B))) for j in range(len(B[0]))] for i in range(len(A))]


def solve(A, B):
    """Exact solution of A X = B (B matrix)."""
    n = len(A)
    M = [[fr(x) for x in ra] + [fr(x) for x in rb] for ra, rb in zip(A, B)]
    for c in range(n):
        piv = next((r for r in range(c, n) if M[r][c] != 0), None)
        if piv is None:
            raise ZeroDivisionError("singular")
        M[c], M[piv] = M[piv], M[c]
        pv = M[c][c]
        M[c] = [x / pv for x in M[c]]
        for r in range(n):
            if r != c and M[r][c]:
                f = M[r][c]
                M[r] = [x - f * y for x, y in zip(M[r], M[c])]
    return [row[n:] for row in M]


def inf_norm(A):
    return max(sum(abs(fr(x)) for x in r) for r in A)


# -- planar predicates ---------------------------------------------------------------------------------------
def orient(p, q, r):
    return (fr(q[0]) - fr(p[0])) * (fr(r[1]) - fr(p[1])) - (fr(r[0]) - fr(p[0])) * (fr(q[1]) - fr(p[1]))


def on_segment(a, b, q):
    return orient(a, b, q) == 0 and min(a[0], b[0]) <= q[0] <= max(a[0], b[0]) and \
        min(a[1], b[1]) <= q[1] <= max(a[1], b[1])


def inside_parity(q, poly):
    """crossing parity; q must not lie on the boundary."""
    c = False
    n = len(poly)
    for i in range(n):
        a, b = poly[i], poly[(i + 1) % n]
        if (a[1] > q[1]) != (b[1] > q[1]):
            x = fr(a[0]) + (fr(q[1]) - fr(a[1])) * (fr(b[0]) - fr(a[0])) / (fr(b[1]) - fr(a[1]))
            if x > q[0]:
                c = not c
    return c


def segments_intersect(a, b, c, d):
    o1, o2, o3, o4 = orient(a, b, c), orient(a, b, d), orient(c, d, a), orient(c, d, b)
    if o1 * o2 < 0 and o3 * o4 < 0:
        return True
    return on_segment(a, b, c) or on_segment(a, b, d) or on_segment(c, d, a) or on_segment(c, d, b)


def is_simple(poly):
    n = len(poly)
    if len(set(map(tuple, poly))) != n or n < 3:
        return False
    for i in range(n):
        a, b = poly[i], poly[(i + 1) % n]
        for j in range(i + 1, n):
            c, d = poly[j], poly[(j + 1) % n]
            if j == i + 1 or (i == 0 and j == n - 1):
                # adjacent edges share exactly one vertex; reject collinear overlap
                shared = b if j == i + 1 else a
                other1 = a if j == i + 1 else b
                other2 = d if j == i + 1 else c
                if orient(other1, shared, other2) == 0:
                    # collinear: overlap iff the two others are on the same side of shared
                    v1 = (other1[0] - shared[0], other1[1] - shared[1])
                    v2 = (other2[0] - shared[0], other2[1] - shared[1])
                    if v1[0] * v2[0] + v1[1] * v2[1] > 0:
                        return False
                continue
            if segments_intersect(a, b, c, d):
                return False
    return True
