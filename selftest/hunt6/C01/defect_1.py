"""BORDERLINE: evaluators.*.evaluate(datadict) called without start/stop samples [0, 1] instead of the domain of the
knot vectors in the datadict (un-normalised knot vectors, or normalised unclamped ones): the returned grid does not start /
end on the domain corners, its points are extrapolations outside the domain."""
import sys
from geomdl import BSpline, NURBS

msgs = []

# 1) un-normalised clamped curve on [2, 4]
c = BSpline.Curve(normalize_kv=False)
c.degree = 1
c.ctrlpts = [[0.0, 0.0], [1.0, 0.0], [2.0, 0.0]]
c.knotvector = [2, 2, 3, 4, 4]
c.sample_size = 3
direct = c.evaluator.evaluate(c.data)
if direct != c.evalpts:
    msgs.append("curve on [2,4]: evaluator.evaluate(data) = %s, evalpts = %s" % (direct, c.evalpts))

# 2) normalised, unclamped rational surface: domain [0.25, 0.75]^2
s = NURBS.Surface()
s.degree_u = s.degree_v = 1
s.ctrlpts_size_u = s.ctrlpts_size_v = 3
s.ctrlpts = [[float(i), float(j), 0.0] for i in range(3) for j in range(3)]
s.knotvector_u = s.knotvector_v = [0, 0.25, 0.5, 0.75, 1.0]
s.sample_size = 3
direct = s.evaluator.evaluate(s.data)
if direct != s.evalpts:
    msgs.append("unclamped surface: evaluator grid corners %s / %s, domain corners %s / %s"
                % (direct[0], direct[-1], s.evalpts[0], s.evalpts[-1]))

if msgs:
    print("DEFECT: evaluator.evaluate(datadict) without start/stop does not sample the domain: " + "; ".join(msgs))
    sys.exit(1)
sys.exit(0)
