"""SurfaceContainer.tessellate(num_procs=2) replaces the curves INSIDE a trim which is a curve container by the copies
which came back from the worker processes (trim.__dict__.update(tmp_trim.__dict__) overwrites trim._elements). The trim
container does not contain the user's curves any more: an edit of such a curve is not seen by the trim container (evalpts)
nor by any later tessellation, whereas with num_procs=1 it is."""
import sys
from geomdl import BSpline, multi, tessellate, knotvector


def build():
    s = BSpline.Surface()
    s.degree_u = s.degree_v = 2
    s.set_ctrlpts([[float(i), float(j), 0.1 * i * j] for i in range(4) for j in range(4)], 4, 4)
    s.knotvector_u = knotvector.generate(2, 4)
    s.knotvector_v = knotvector.generate(2, 4)
    s.tessellator = tessellate.TrimTessellate()
    pts = [[.3, .3], [.7, .3], [.7, .7], [.3, .7], [.3, .3]]
    curves = []
    for i in range(4):
        c = BSpline.Curve()
        c.degree = 1
        c.ctrlpts = [pts[i], pts[i + 1]]
        c.knotvector = [0, 0, 1, 1]
        curves.append(c)
    trim = multi.CurveContainer(curves)
    trim.delta = 0.1
    s.trims = [trim]
    cont = multi.SurfaceContainer(s)
    cont.sample_size = 12
    return cont, trim, curves


def history(num_procs):
    cont, trim, curves = build()
    cont.tessellate(num_procs=num_procs)
    same = all(a is b for a, b in zip(trim, curves))
    # public edit of a curve of the trim: shrink the hole towards the origin
    for c in curves:
        c.ctrlpts = [[0.5 * x for x in p] for p in c.ctrlpts]
    first_pt = list(trim.evalpts[0])        # container aggregate of the trim; a fresh container reports [0.15, 0.15]
    cont.tessellate(num_procs=num_procs, force=True)
    return same, first_pt, len(cont.faces)


if __name__ == '__main__':
    ref = history(1)
    tst = history(2)
    if not tst[0] or tst[1] != ref[1] or tst[2] != ref[2]:
        print("DEFECT: after tessellate(num_procs=2) the trim container holds copies of its curves (same objects: %s); "
              "after editing the curves trim.evalpts[0] = %s (expected %s), faces after force = %d (expected %d)"
              % (tst[0], tst[1], ref[1], tst[2], ref[2]))
        sys.exit(1)
    sys.exit(0)
