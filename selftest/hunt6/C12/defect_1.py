"""SurfaceContainer.tessellate(vertex_spacing=2) on surfaces which share one tessellation component collects the
vertex_spacing=1 meshes: Surface.vertices / Surface.faces re-tessellate with default arguments (not with the arguments of
the request) when the shared component holds the mesh of the other surface."""
import sys
from geomdl import BSpline, multi, tessellate, knotvector


def surface(z):
    s = BSpline.Surface()
    s.degree_u = s.degree_v = 2
    s.set_ctrlpts([[float(i), float(j), z * i * j] for i in range(4) for j in range(4)], 4, 4)
    s.knotvector_u = knotvector.generate(2, 4)
    s.knotvector_v = knotvector.generate(2, 4)
    return s


def container(shared):
    s1, s2 = surface(1.0), surface(-1.0)
    if shared:
        tsl = tessellate.TriangularTessellate()
        for s in (s1, s2):
            s.tessellator = tsl  # one configured component for all surfaces
    c = multi.SurfaceContainer(s1, s2)
    c.sample_size = 7
    c.tessellate(vertex_spacing=2)
    return c


ref = container(shared=False)   # 2 x 16 vertices, 2 x 18 triangles
tst = container(shared=True)
rv = [v.data for v in ref.vertices]
tv = [v.data for v in tst.vertices]
if len(rv) != len(tv) or len(ref.faces) != len(tst.faces) or \
        any(abs(a - b) > 1e-12 for p, q in zip(rv, tv) for a, b in zip(p, q)):
    print("DEFECT: container.tessellate(vertex_spacing=2) with a shared tessellation component: %d vertices / %d faces, "
          "expected %d / %d" % (len(tv), len(tst.faces), len(rv), len(ref.faces)))
    sys.exit(1)
sys.exit(0)
