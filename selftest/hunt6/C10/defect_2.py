# C10 / state after an exception: operations.rotate(obj, angle, inplace=True) with an angle which math.radians refuses
# ("90", None, [90], float('inf')) raises - but only after the shape has been translated to the origin: the object which
# is "updated in place" is left moved (a container: its first geometry moved, the others not), and a second, valid
# call then rotates the moved shape.
import sys, copy
from geomdl import BSpline, operations, multi

def curve(dx=0.0):
    c = BSpline.Curve(); c.degree = 2
    c.ctrlpts = [[5.0 + dx, 5.0, 1.0], [6.0 + dx, 7.0, 2.0], [8.0 + dx, 6.0, 0.0], [9.0 + dx, 9.0, 3.0]]
    c.knotvector = [0, 0, 0, 0.5, 1, 1, 1]
    return c

msgs = []
for bad in ("90", None, float('inf')):
    c = curve(); before = copy.deepcopy(c.ctrlpts); p0 = c.evaluate_single(0.3)
    try:
        operations.rotate(c, bad, axis=2, inplace=True)
    except (TypeError, ValueError):
        pass
    if c.ctrlpts != before:
        msgs.append("curve moved by the refused rotate(%r): C(0.3) %s -> %s" % (bad, p0, c.evaluate_single(0.3)))
        break

a, b = curve(), curve(20.0)
cont = multi.CurveContainer(a, b)
ca, cb = copy.deepcopy(a.ctrlpts), copy.deepcopy(b.ctrlpts)
try:
    operations.rotate(cont, "90", inplace=True)
except TypeError:
    pass
if a.ctrlpts != ca or b.ctrlpts != cb:
    msgs.append("container half updated: first curve moved=%s, second moved=%s" % (a.ctrlpts != ca, b.ctrlpts != cb))

if msgs:
    print("DEFECT: a refused in-place rotate leaves the shape translated to the origin: " + "; ".join(msgs))
    sys.exit(1)
sys.exit(0)
