# C10: after translate / rotate / scale (in place or on the copy) the mesh of a surface which was tessellated with
# arguments (vertex_spacing=2) is not the mapped mesh: Surface.vertices / faces re-tessellate with the DEFAULT arguments,
# whereas SurfaceContainer.vertices re-tessellates with the arguments of the request it served last.
import sys
from geomdl import BSpline, operations, multi

def surf():
    s = BSpline.Surface()
    s.degree_u = 2; s.degree_v = 2
    s.set_ctrlpts([[float(i), float(j), float((i * j) % 3)] for i in range(4) for j in range(4)], 4, 4)
    s.knotvector_u = [0, 0, 0, 0.5, 1, 1, 1]; s.knotvector_v = [0, 0, 0, 0.5, 1, 1, 1]
    s.sample_size = 9
    return s

vec = [1.0, 2.0, 3.0]
msgs = []
for inplace in (True, False):
    s = surf()
    s.tessellate(vertex_spacing=2)
    v0 = [list(v.data) for v in s.vertices]; f0 = len(s.faces)
    r = operations.translate(s, vec, inplace=inplace)
    v1 = [list(v.data) for v in r.vertices]; f1 = len(r.faces)
    exp = [[a + b for a, b in zip(p, vec)] for p in v0]
    if len(v1) != len(exp) or f1 != f0 or max(abs(a - b) for p, q in zip(v1, exp) for a, b in zip(p, q)) > 1e-12:
        msgs.append("inplace=%s: %d vertices / %d faces before, %d / %d after translate" % (inplace, len(v0), f0, len(v1), f1))

# the container of the same surface keeps the request (reference behaviour of the library itself)
s = surf(); c = multi.SurfaceContainer(s); c.sample_size = 9
c.tessellate(vertex_spacing=2); n0 = len(c.vertices)
operations.translate(c, vec, inplace=True); n1 = len(c.vertices)
assert n0 == n1, "container reference behaviour changed"

# same mechanism: a tessellation component shared by two surfaces of a container -> the arguments of
# container.tessellate(vertex_spacing=2) are ignored for the collected mesh
a, b = surf(), operations.translate(surf(), [5.0, 0.0, 0.0])
a.tessellate(vertex_spacing=2); n_single = len(a.vertices)
a, b = surf(), operations.translate(surf(), [5.0, 0.0, 0.0])
tsl = a.tessellator
b.tessellator = tsl
c = multi.SurfaceContainer(a, b); c.sample_size = 9
c.tessellate(vertex_spacing=2)
if len(c.vertices) != 2 * n_single:
    msgs.append("shared component: container mesh has %d vertices, expected %d" % (len(c.vertices), 2 * n_single))

if msgs:
    print("DEFECT: mesh after the operation is not the mapped mesh (tessellation arguments forgotten): " + "; ".join(msgs))
    sys.exit(1)
sys.exit(0)
