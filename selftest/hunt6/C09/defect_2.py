# GridWeighted.bumps() which fails half-way (second bump height is not a number) has already raised the first bump on the
# grid points but does not drop the cached weighted grid: `grid` keeps showing the grid without the bump until an unrelated
# call (assigning the very same weights again) clears the cache - then the weighted grid changes although neither the weights
# nor (by any successful call) the grid points were changed.
import sys, random
from geomdl import CPGen

random.seed(0)
g = CPGen.GridWeighted(10, 10)
g.generate(12, 12)
g.weight = [2.0] * 169
before = [list(p) for row in g.grid for p in row]
try:
    g.bumps(2, bump_height=[3.0, None], base_extent=1)
except Exception:
    pass
after_fail = [list(p) for row in g.grid for p in row]
g.weight = [2.0] * 169          # the same weights once more
after_same_weights = [list(p) for row in g.grid for p in row]

if after_fail != after_same_weights:
    print("DEFECT: GridWeighted.grid changes when the same weights are assigned again after a failed bumps(): "
          "the cached weighted grid was stale (failed call changed the grid: %s)" % (before != after_same_weights))
    sys.exit(1)
print("ok")
