# NURBS.Curve.reverse() which fails (no knot vector assigned yet) leaves the homogeneous control points reversed while
# the cached ctrlpts / weights views keep the old order: the three views are no longer related by the weight, and the next
# `curve.ctrlpts = ...` pairs the new points with the weights in the wrong order.
import sys
from geomdl import NURBS

c = NURBS.Curve()
c.degree = 2
c.ctrlpts = [[0.0, 0.0, 0.0], [1.0, 2.0, 0.0], [3.0, 1.0, 0.0], [4.0, 0.0, 1.0]]
c.weights = [1.0, 2.0, 3.0, 4.0]
c.ctrlpts, c.weights  # the views are read (and cached)

try:
    c.reverse()   # the knot vector has not been set yet -> IndexError
except Exception:
    pass

msgs = []
for p, w, pw in zip(c.ctrlpts, c.weights, c.ctrlptsw):
    if pw[-1] != w or any(abs(x * w - y) > 1e-12 for x, y in zip(p, pw)):
        msgs.append("ctrlptsw %s is not ctrlpts %s times weight %s" % (pw, p, w))
        break

# a second, valid call: new points with the same count keep "the" weights - which ones?
w_hom = [pw[-1] for pw in c.ctrlptsw]
c.ctrlpts = [[float(i), 0.0, 0.0] for i in range(4)]
if [pw[-1] for pw in c.ctrlptsw] != w_hom:
    msgs.append("ctrlpts setter after the failed reverse() re-ordered the weights: %s -> %s" % (w_hom, [pw[-1] for pw in c.ctrlptsw]))

if msgs:
    print("DEFECT: after a failed NURBS.Curve.reverse(): " + "; ".join(msgs))
    sys.exit(1)
print("ok")
