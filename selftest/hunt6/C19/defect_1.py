""" A refused request to the list setters ``degree`` / ``knotvector`` of surfaces and volumes (geomdl/abstract.py) leaves
the shape half-changed: the shape no longer equals the deep copy taken before the request, although the request raised.

Run: PYTHONPATH=<tree> /venv/bin/python defect_1.py   (exit 1 = defect present, exit 0 = fixed)
"""
import copy
import sys
from geomdl import BSpline, NURBS


def surface(mod):
    s = mod.Surface()
    s.degree_u = 2
    s.degree_v = 2
    w = [1.0] if s.rational else []
    s.set_ctrlpts([[float(i), float(j), float(i * j)] + w for i in range(4) for j in range(3)], 4, 3)
    s.knotvector_u = [0, 0, 0, 0.5, 1, 1, 1]
    s.knotvector_v = [0, 0, 0, 1, 1, 1]
    return s


def volume(mod):
    v = mod.Volume()
    v.degree_u = v.degree_v = v.degree_w = 1
    w = [1.0] if v.rational else []
    v.set_ctrlpts([[float(i), float(j), float(k)] + w for k in range(2) for i in range(3) for j in range(2)], 3, 2, 2)
    v.knotvector_u = [0, 0, 0.5, 1, 1]
    v.knotvector_v = [0, 0, 1, 1]
    v.knotvector_w = [0, 0, 1, 1]
    return v


problems = []
for mod in (BSpline, NURBS):
    for make, nm in ((surface, "Surface"), (volume, "Volume")):
        pd = 2 if nm == "Surface" else 3
        # (a) knot vectors: the first one is valid (and new), the last one is not a valid knot vector
        s = make(mod)
        s.evalpts
        snap = copy.deepcopy(s)
        new_u = [0, 0, 0, 0.25, 1, 1, 1] if nm == "Surface" else [0, 0, 0.25, 1, 1]
        req = [new_u] + [list(kv) for kv in snap.knotvector[1:]]
        req[-1] = req[-1][:-1]  # too short
        try:
            s.knotvector = req
            raised = False
        except Exception:
            raised = True
        if raised and not (s == snap):
            problems.append("%s.%s.knotvector" % (mod.__name__.split('.')[-1], nm))
        # (b) degrees: the first one is valid (and new), the last one is refused
        s = make(mod)
        snap = copy.deepcopy(s)
        req = [1] + [0] * (pd - 1) if nm == "Surface" else [2] + [1] * (pd - 2) + [0]
        try:
            s.degree = req
            raised = False
        except Exception:
            raised = True
        if raised and not (s == snap):
            problems.append("%s.%s.degree" % (mod.__name__.split('.')[-1], nm))

if problems:
    print("DEFECT: a refused list-setter request left the shape half-changed (shape != its earlier deep copy): "
          + ", ".join(problems))
    sys.exit(1)
print("ok")
sys.exit(0)
