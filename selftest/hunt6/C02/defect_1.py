"""A refused remove_knot request leaves the curve corrupted: derivatives() silently returns other values afterwards.

operations.remove_knot(curve, [u], [num]) with u = the start knot of a clamped curve and 2 <= num <= degree + 1 passes the
"num <= multiplicity" check, replaces the control points (helpers.knot_removal indexes ctrlpts_new[first - 1] with first = 0,
the negative index wraps around and the list GROWS) and only then fails in the knot vector setter (ValueError).  The curve is
left with the new control points and the old knot vector.
"""
import sys
from geomdl import BSpline, operations

c = BSpline.Curve()
c.degree = 2
c.ctrlpts = [[0, 0], [1, 2], [2, -1], [3, 3], [4, 0]]
c.knotvector = [0, 0, 0, 0.3, 0.6, 1, 1, 1]
state = ([list(p) for p in c.ctrlpts], list(c.knotvector))
before = [c.derivatives(t, 2) for t in (0.0, 0.5, 1.0)]
pt, tan = operations.tangent(c, 0.5)

raised = None
try:
    operations.remove_knot(c, [0.0], [2])
except Exception as e:  # the request is refused ...
    raised = e

consistent = len(c.knotvector) == len(c.ctrlpts) + c.degree + 1
if raised is not None:
    # ... so the curve must be what it was, and a second (valid) request must still be answered correctly
    unchanged = ([list(p) for p in c.ctrlpts], list(c.knotvector)) == state
    try:
        after = [c.derivatives(t, 2) for t in (0.0, 0.5, 1.0)]
        tan2 = operations.tangent(c, 0.5)[1]
    except Exception as e:
        after, tan2 = repr(e), None
    if not unchanged or after != before or tan2 != tan:
        print("DEFECT: remove_knot raised %s(%s) but left %d control points with %d knots (degree 2); "
              "derivatives(0.5, 2) was %s, is now %s" % (type(raised).__name__, raised, len(c.ctrlpts), len(c.knotvector),
                                                         before[1], after[1] if isinstance(after, list) else after))
        sys.exit(1)
elif not consistent:
    print("DEFECT: remove_knot returned an inconsistent curve")
    sys.exit(1)
print("OK")
sys.exit(0)
