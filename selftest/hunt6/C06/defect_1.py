"""A refused remove_knot request on a surface / volume is executed half-way.

operations.remove_knot (and Surface/Volume.remove_knot) validate and execute direction after direction. When the request for
a later direction is refused (count above the multiplicity, parameter which is not a knot, ...) the earlier directions have been
removed already although the call raised (the method route only prints the message). The caller, who has been told that the
request was refused, repeats it with the corrected count: the u-knot is removed a SECOND time - now the copy which was there
before the insertion and which is not removable - and the surface changes its shape without any notice.
"""
import sys
import random
from geomdl import BSpline, operations

rng = random.Random(1)
s = BSpline.Surface()
s.degree_u = 2
s.degree_v = 2
s.set_ctrlpts([[float(i), float(j), rng.uniform(-1, 1)] for i in range(4) for j in range(4)], 4, 4)
s.knotvector_u = [0, 0, 0, 0.5, 1, 1, 1]
s.knotvector_v = [0, 0, 0, 0.5, 1, 1, 1]
prm = [[0.4, 0.6], [0.1, 0.9], [0.77, 0.23]]
ref = [s.evaluate_single(p) for p in prm]

# one insertion in each direction: u = 0.5 (an existing knot, multiplicity 1 -> 2), v = 0.3 (new)
operations.insert_knot(s, [0.5, 0.3], [1, 1])
state = (list(s.knotvector_u), list(s.knotvector_v), s.ctrlpts_size_u, s.ctrlpts_size_v, [list(p) for p in s.ctrlpts])

# the inverse request with a wrong count for v is refused ...
refused = False
try:
    operations.remove_knot(s, [0.5, 0.3], [1, 2])
except Exception:
    refused = True
after = (list(s.knotvector_u), list(s.knotvector_v), s.ctrlpts_size_u, s.ctrlpts_size_v, [list(p) for p in s.ctrlpts])

# ... and is repeated with the right one (removal counts = insertion counts)
operations.remove_knot(s, [0.5, 0.3], [1, 1])
dev = max(abs(a - b) for p, r in zip(prm, ref) for a, b in zip(s.evaluate_single(p), r))

if refused and after != state:
    print("DEFECT: the refused remove_knot request changed the surface (u: %d -> %d control points); the repeated, valid "
          "request then changed the shape by %.3g" % (state[2], after[2], dev))
    sys.exit(1)
if dev > 1e-9:
    print("DEFECT: insert [1, 1] / remove [1, 1] changed the shape by %.3g" % dev)
    sys.exit(1)
print("ok")
sys.exit(0)
