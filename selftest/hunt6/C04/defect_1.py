"""C04 / history: helpers.knot_insertion_alpha is memoised (lru_cache) on arguments which compare EQUAL, not on their types.
An insertion carried out with numpy float32 knots leaves float32 coefficients in the cache; a later insertion of the same
knot into a plain double-precision curve with the same knot vector gets those coefficients and is computed in single
precision: the shape moves by ~1e-8..1e-7 relative instead of ~1e-16."""
import sys
from fractions import Fraction as F
import numpy as np
from geomdl import BSpline, operations

KV = [0.0, 0.0, 0.0, 0.75, 1.0, 1.0, 1.0]          # all knots are exact in float32
PTS = [[1234.567, -20.25], [2345.678, 3141.592], [-271.828, 1618.033], [4000.1, 1000.7]]


def make(knots):
    c = BSpline.Curve(normalize_kv=False)
    c.degree = 2
    c.ctrlpts = [list(p) for p in PTS]
    c.knotvector = knots
    return c


# 1. somebody works in single precision (a documented limitation for THAT curve only)
single = make([np.float32(k) for k in KV])
operations.insert_knot(single, [np.float32(0.25)], [1])

# 2. an unrelated double-precision curve, plain Python floats everywhere
curve = make(list(KV))
us = [i / 32.0 for i in range(33)]
before = [curve.evaluate_single(u) for u in us]
operations.insert_knot(curve, [0.25], [1])
after = [curve.evaluate_single(u) for u in us]

scale = max(abs(c) for p in PTS for c in p)
dev = max(abs(a - b) for p, q in zip(before, after) for a, b in zip(p, q)) / scale
# exact new control point Q1 = (1 - 1/3) P0 + 1/3 P1
q1 = [F(2, 3) * F(a) + F(1, 3) * F(b) for a, b in zip(PTS[0], PTS[1])]
cdev = max(abs(float(F(g) - e)) for g, e in zip(curve.ctrlpts[1], q1)) / scale
if dev > 1e-9 or cdev > 1e-9:
    print("DEFECT: double-precision knot insertion after a float32 one: shape moved by %.2e, control point off by %.2e "
          "(relative to the model size)" % (dev, cdev))
    sys.exit(1)
print("ok: deviation %.2e / %.2e" % (dev, cdev))
sys.exit(0)
