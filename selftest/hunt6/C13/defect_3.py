"""AbstractManager.reset() empties the control point list IN PLACE (self._points[:] = ...).  The documented way of reading
the control points of a geometry through a manager is `manager.ctrlpts = spline.ctrlpts`; resetting (re-using) that manager
then wipes the control points of the surface itself - the same 'reset empties a shared list in place' pattern which was
repaired in Surface.reset, the tessellators, the containers, GridWeighted and NURBS.Curve.reset."""
import sys
from geomdl import BSpline, knotvector, control_points

s = BSpline.Surface()
s.degree_u, s.degree_v = 1, 1
s.set_ctrlpts([[float(u), float(v), float(u * v)] for u in range(3) for v in range(4)], 3, 4)
s.knotvector_u = knotvector.generate(1, 3)
s.knotvector_v = knotvector.generate(1, 4)
before = [list(p) for p in s.ctrlpts]

m = control_points.SurfaceManager(3, 4)
m.ctrlpts = s.ctrlpts                    # as in the class documentation ("Getting the control points")
assert m.get_ctrlpt(2, 3) == before[3 + 4 * 2]
m.reset()                                # the manager is re-initialized for its next use

after = [list(p) for p in s.ctrlpts]
if after != before:
    print("DEFECT: SurfaceManager.reset() wiped the control points of the surface it had read: ctrlpts[11] %s -> %s"
          % (before[11], after[11]))
    sys.exit(1)
sys.exit(0)
