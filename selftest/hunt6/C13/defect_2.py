"""7cad816 / 27b13c9 one step further: transposition swaps the coordinates of the trim curve OBJECTS in place.  Two surfaces
which share a trim curve are handled when they are transposed through one container (the `done` set), but not when each
of them is transposed by itself (Surface.transpose() / operations.transpose(s, inplace=True)): the first call mirrors the
trim of the OTHER, untouched surface, the second call swaps the shared curve back, and both transposed surfaces end with
the trim in the un-transposed coordinates (u and v of the trimmed region exchanged)."""
import sys
from geomdl import BSpline, knotvector, multi, operations, trimming


def surface(off):
    s = BSpline.Surface()
    s.degree_u, s.degree_v = 1, 2
    s.set_ctrlpts([[float(u), float(v), off + 0.1 * u * v * v] for u in range(3) for v in range(4)], 3, 4)
    s.knotvector_u = knotvector.generate(1, 3)
    s.knotvector_v = knotvector.generate(2, 4)
    return s


def trim():
    t = BSpline.Curve()
    t.degree = 1
    t.ctrlpts = [[0.2, 0.3], [0.6, 0.3], [0.6, 0.9], [0.2, 0.9], [0.2, 0.3]]     # not symmetric in u and v
    t.knotvector = knotvector.generate(1, 5)
    t.delta = 0.25
    return t


def image(s):
    # the 3-dimensional image of the trim curve on the surface, as a sorted set of points
    return sorted(tuple(round(c, 9) for c in p) for p in trimming.map_trim_to_geometry(s)[0].evalpts)


msgs = []
# route A: each surface is transposed by itself
s1, s2, tr = surface(0.0), surface(5.0), trim()
s1.trims = [tr]
s2.trims = [tr]
before1, before2 = image(s1), image(s2)
s1.transpose()
if image(s2) != before2:
    msgs.append("transposing s1 moved the trimmed region of the untouched surface s2")
s2.transpose()
if image(s1) != before1 or image(s2) != before2:
    msgs.append("after s1.transpose(); s2.transpose() the shared trim is back in the un-transposed coordinates "
                "(trim ctrlpts %s)" % tr.ctrlpts[:2])

# route B (reference, works): the same two surfaces through one container
s1, s2, tr = surface(0.0), surface(5.0), trim()
s1.trims = [tr]
s2.trims = [tr]
before1, before2 = image(s1), image(s2)
operations.transpose(multi.SurfaceContainer(s1, s2), inplace=True)
assert image(s1) == before1 and image(s2) == before2

if msgs:
    print("DEFECT: " + "; ".join(msgs))
    sys.exit(1)
sys.exit(0)
