"""f77a416 one step further: the control point SIZE SETTERS (ctrlpts_size_u / _v / _w) still write into the size list in
place.  A surface whose sizes were given to another surface (new.cpsize = old.cpsize - the scenario of f77a416) loses its
own layout as soon as the other surface declares ITS sizes through ctrlpts_size_u / ctrlpts_size_v (the documented way to
prepare `new.ctrlpts = ...`, used by construct.construct_surface itself)."""
import sys
from geomdl import BSpline, knotvector

old = BSpline.Surface()
old.degree_u, old.degree_v = 1, 1
pts = [[float(u), float(v), float(u * v)] for u in range(3) for v in range(4)]          # 3 x 4 net, v fastest
old.set_ctrlpts(pts, 3, 4)
old.knotvector_u = knotvector.generate(1, 3)
old.knotvector_v = knotvector.generate(1, 4)
before = (old.ctrlpts_size_u, old.ctrlpts_size_v, old.evaluate_single((0.5, 1.0)), [list(p) for p in old.ctrlpts2d[1]])

new = BSpline.Surface()
new.degree_u, new.degree_v = 1, 1
new.cpsize = old.cpsize          # "same sizes as the old one" (scenario named in the message of f77a416)
new.ctrlpts_size_u = 6           # ... then the new surface turns out to be a 6 x 2 net
new.ctrlpts_size_v = 2
new.ctrlpts = [[float(u), float(v), 0.0] for u in range(6) for v in range(2)]

after = (old.ctrlpts_size_u, old.ctrlpts_size_v, old.evaluate_single((0.5, 1.0)), [list(p) for p in old.ctrlpts2d[1]])
if before != after:
    print("DEFECT: declaring the sizes of another surface changed the layout of this one: sizes %s -> %s, S(0.5,1) %s -> %s"
          % (before[:2], after[:2], before[2], after[2]))
    sys.exit(1)
sys.exit(0)
