# ray.intersect reports INTERSECT for rays which are skew by 1e-8 of the model size when their directions are
# 3e-6 rad apart: the 1/sin(angle) term of the skew tolerance carries the factor 256 eps although the round-off
# error of the line distance is below 0.5 eps * pt_scale / sin(angle).
import sys, math
from fractions import Fraction as F
from geomdl import ray
from geomdl.ray import Ray, RayIntersection

ang, off = 3e-6, 1e-8
p1, p2 = [0.0, 0.0, 0.0], [1.0, 0.0, 0.0]
q1 = [0.5 - 0.5 * math.cos(ang), -0.5 * math.sin(ang), off]
q2 = [0.5 + 0.5 * math.cos(ang), 0.5 * math.sin(ang), off]
r1, r2 = Ray(p1, p2), Ray(q1, q2)
t1, t2, status = ray.intersect(r1, r2)

# exact distance between the two lines (ray 1 lies in the plane z = 0, ray 2 in the plane z = off, not parallel)
d1 = [F(b) - F(a) for a, b in zip(p1, p2)]; d2 = [F(b) - F(a) for a, b in zip(q1, q2)]
dc = [d1[1]*d2[2]-d1[2]*d2[1], d1[2]*d2[0]-d1[0]*d2[2], d1[0]*d2[1]-d1[1]*d2[0]]
pd = [F(b) - F(a) for a, b in zip(p1, q1)]
dist = abs(float(sum(a * b for a, b in zip(pd, dc)))) / math.sqrt(float(sum(a * a for a in dc)))
gap = math.dist(r1.eval(t1), r2.eval(t2))
if status == RayIntersection.INTERSECT and dist > 1e-9:
    print("DEFECT: rays %.1e rad apart and skew by %.3g (model size 1) reported INTERSECT; the points at the "
          "returned parameters are %.3g apart" % (ang, dist, gap))
    sys.exit(1)
print("ok: status", status)
sys.exit(0)
