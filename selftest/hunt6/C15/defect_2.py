# elements.Triangle.add_vertex / Quad.add_vertex ("Adds vertices to the ... object", "takes a single or a list of
# vertices") REPLACE the stored vertices instead of adding to them: a triangle built one vertex at a time - e.g. in a
# custom tessellate_func handed to make_triangle_mesh / Surface.tessellate, the documented extension point - ends up with
# ONE vertex, and the mesh / the OBJ, OFF, STL exports are no triangulation any more. The guard "Cannot add more vertices"
# (len > 2) shows that accumulation is what is meant. The same replace-instead-of-add also lets Triangle(v1, v2, v3, v4)
# hold four vertices, and makes the documented data setter unusable on a complete triangle.
import sys
from geomdl import BSpline, exchange
from geomdl.elements import Vertex, Triangle


def my_tessellate(v1, v2, v3, v4, vidx, tidx, trim_curves, tessellate_args):
    tris = []
    for k, corners in enumerate(((v1, v2, v3), (v1, v3, v4))):
        tri = Triangle()
        tri.id = tidx + k
        for v in corners:          # one vertex at a time
            tri.add_vertex(v)
        tris.append(tri)
    return [], tris


s = BSpline.Surface()
s.degree_u = 1
s.degree_v = 1
s.set_ctrlpts([[0, 0, 0], [0, 1, 0], [1, 0, 0], [1, 1, 1]], 2, 2)
s.knotvector_u = [0, 0, 1, 1]
s.knotvector_v = [0, 0, 1, 1]
s.sample_size = 3
s.tessellate(tessellate_func=my_tessellate)
sizes = sorted(set(len(f.data) for f in s.faces))
nverts = len(s.vertices)

t = Triangle()
t.add_vertex(Vertex(0, 0, 0, id=0))
t.add_vertex(Vertex(1, 0, 0, id=1))
t.add_vertex(Vertex(0, 1, 0, id=2))

if sizes != [3] or nverts != 9 or t.data != [0, 1, 2]:
    print("DEFECT: Triangle.add_vertex replaces instead of adding: incremental triangle holds %s (expected [0, 1, 2]); "
          "mesh from a tessellate_func using it has faces with %s vertices and %d of 9 vertices" % (t.data, sizes, nverts))
    sys.exit(1)
sys.exit(0)
