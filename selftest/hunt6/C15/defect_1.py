# SurfaceContainer.tessellate(vertex_spacing=k) / .vertices / .faces drop the arguments of the request for the surfaces
# which share one tessellation component (for s in surfaces: s.tessellator = tsl - the case of fix 06edfe3): the container
# mesh is not the mesh that was asked for and differs from what export_obj/off/stl(container, vertex_spacing=k) write.
import sys
from geomdl import BSpline, multi, tessellate, exchange


def surf(z):
    s = BSpline.Surface()
    s.degree_u = 2
    s.degree_v = 2
    s.set_ctrlpts([[float(i), float(j), z + 0.1 * i * j] for i in range(3) for j in range(3)], 3, 3)
    s.knotvector_u = [0, 0, 0, 1, 1, 1]
    s.knotvector_v = [0, 0, 0, 1, 1, 1]
    return s


surfs = [surf(0.0), surf(1.0), surf(2.0)]
tsl = tessellate.TriangularTessellate()
for s in surfs:
    s.tessellator = tsl          # one configured component for all surfaces

c = multi.SurfaceContainer(surfs)
c.sample_size = 9                # 9 x 9 points per surface
c.tessellate(vertex_spacing=2)   # -> 5 x 5 vertices and 32 triangles per surface
nv, nf = len(c.vertices), len(c.faces)

obj = exchange.export_obj_str(c, vertex_spacing=2)
nv_obj = sum(1 for l in obj.splitlines() if l.startswith("v "))
nf_obj = sum(1 for l in obj.splitlines() if l.startswith("f "))

# reference: the same request on surfaces with their own components
ref = multi.SurfaceContainer([surf(0.0), surf(1.0), surf(2.0)])
ref.sample_size = 9
ref.tessellate(vertex_spacing=2)

ok = (nv, nf) == (len(ref.vertices), len(ref.faces)) == (nv_obj, nf_obj) == (75, 96)
if not ok:
    print("DEFECT: container.tessellate(vertex_spacing=2) with a shared tessellator holds %d vertices / %d faces; "
          "expected 75 / 96 (own tessellators: %d / %d, export_obj of the same container: %d / %d)"
          % (nv, nf, len(ref.vertices), len(ref.faces), nv_obj, nf_obj))
    sys.exit(1)
sys.exit(0)
