"""C07: a valid split / decomposition of a plain float64 curve fails (TypeError) or loses single precision after an
unrelated request on a shape with a float32 knot vector: helpers.knot_insertion_alpha is memoised by lru_cache and
(0.3, (np.float32(0.25), ...)) and (0.3, (0.25, ...)) are the same cache key."""
import sys
import numpy as np
from geomdl import BSpline, operations

pts = [[0.0, 0.0, 0.0], [1.0, 2.0, 0.5], [2.0, -1.0, 1.0], [3.0, 3.0, -1.0], [4.0, 0.0, 2.0], [5.0, 1.0, 0.0], [6.0, -2.0, 1.0]]
kv = [0.0, 0.0, 0.0, 0.0, 0.25, 0.5, 0.75, 1.0, 1.0, 1.0, 1.0]


def curve(knots, degree=3, normalize=True):
    c = BSpline.Curve(normalize_kv=normalize)
    c.degree = degree
    c.ctrlpts = pts[:len(knots) - degree - 1]
    c.knotvector = knots
    return c


def deviation(c, u):
    a, b = operations.split_curve(c, u)
    w = 0.0
    for t in (0.1, 0.5, 0.9):
        for piece, x in ((a, t * u), (b, u + t * (1.0 - u))):
            w = max(w, max(abs(p - q) for p, q in zip(c.evaluate_single(x), piece.evaluate_single(t))))
    return w


msgs = []
# (a) degree 3: the float64 request raises after a float32 request (which fails itself - float32 is a known limitation)
c64 = curve(list(kv))
try:
    operations.split_curve(curve(np.array(kv, dtype=np.float32), normalize=False), 0.3)
except Exception:
    pass
try:
    d = deviation(c64, 0.3)
    if d > 1e-9:
        msgs.append("degree 3: deviation %.2e" % d)
    n = len(operations.decompose_curve(c64))
except Exception as e:
    msgs.append("degree 3: %r" % e)

# (b) degree 1 (one insertion): no exception anywhere, the float64 split silently drops to single precision
kv1 = [0.0, 0.0, 0.25, 0.5, 0.75, 1.0, 1.0]
c64 = curve(list(kv1), degree=1)
d0 = deviation(c64, 0.6)
from geomdl import helpers
helpers.knot_insertion_alpha.cache_clear()
operations.split_curve(curve(np.array(kv1, dtype=np.float32), degree=1, normalize=False), 0.6)
d1 = deviation(c64, 0.6)
if d1 > 1e-9:
    msgs.append("degree 1: deviation %.2e (was %.2e before the float32 request)" % (d1, d0))

# (c) the same curve, the same parameter: the request with a numpy.float32 parameter fails (known limitation) - and the valid
# request with the Python float 0.375 fails for the rest of the process, too
helpers.knot_insertion_alpha.cache_clear()
c64 = curve([0.0, 0.0, 0.0, 0.0, 0.3, 0.5, 0.7, 1.0, 1.0, 1.0, 1.0])
try:
    operations.split_curve(c64, np.float32(0.375))
except Exception:
    pass
try:
    d = deviation(c64, 0.375)
    if d > 1e-9:
        msgs.append("same curve after split at float32(0.375): deviation %.2e" % d)
except Exception as e:
    msgs.append("same curve after split at float32(0.375): %r" % e)

if msgs:
    print("DEFECT: float64 split after a float32 request on equal knot values: " + "; ".join(msgs))
    sys.exit(1)
print("ok")
