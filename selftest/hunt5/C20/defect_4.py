# C20 / ray.intersect (borderline: extreme units): the parameters are quotients of quantities of the 4th power of the
# coordinates, and the colinearity test squares a 2nd-power quantity; for coordinates of 1e-100 (well inside the double
# range, above the 1e-150 limit) two PERPENDICULAR crossing rays are silently reported COLINEAR, at 1e-80 the parameters
# are wrong in the 6th digit.
import sys
from geomdl import ray
msgs = []
for sc in (1e-80, 1e-100):
    pts = [[c * sc for c in p] for p in ([0, 0, 0], [2, 2, 0], [0, 2, 0], [2, 0, 0])]
    t1, t2, st = ray.intersect(ray.Ray(pts[0], pts[1]), ray.Ray(pts[2], pts[3]))
    if st != ray.RayIntersection.INTERSECT or abs(t1 - 0.5) > 1e-9 or abs(t2 - 0.5) > 1e-9:
        msgs.append("scale %g: (t1, t2, status) = %r" % (sc, (t1, t2, st)))
if msgs:
    print("DEFECT: diagonals of a square, expected (0.5, 0.5, 1): " + "; ".join(msgs))
    sys.exit(1)
sys.exit(0)
