# C20 / voxel grid does not cover the bounding box (borderline: only visible with padding=0): neighbouring voxels are
# generated as [x0 + i*step, (x0 + i*step) + step] and [x0 + (i+1)*step, ...]; the two roundings differ by one ulp, so
# the half-open voxels leave a seam inside the bounding box.  With the padding switched off a sampled point inside the
# bounding box lies in no voxel at all and no voxel is marked for it.
import sys
from geomdl import BSpline, voxelize

vol = BSpline.Volume()
vol.degree_u = vol.degree_v = vol.degree_w = 1
lo, hi = (2.0, 0.3, 2.0), (3.1, 1.2, 2.9)
vol.set_ctrlpts([[x, y, z] for z in (lo[2], hi[2]) for x in (lo[0], hi[0]) for y in (lo[1], hi[1])], 2, 2, 2)
vol.knotvector_u = vol.knotvector_v = vol.knotvector_w = [0.0, 0.0, 1.0, 1.0]
vol.sample_size = 4

grid, filled = voxelize.voxelize(vol, grid_size=(3, 3, 3), padding=0.0)

# seams between consecutive layers of the grid in every direction
seams = []
for d in range(3):
    layers = sorted(set((bb[0][d], bb[1][d]) for bb in grid))
    for (a0, a1), (b0, b1) in zip(layers, layers[1:]):
        if a1 < b0:
            seams.append((d, a1, b0))
bbox = vol.bbox
orphans = [p for p in vol.evalpts
           if all(bbox[0][d] <= p[d] <= bbox[1][d] for d in range(3))
           and not any(all(bb[0][d] <= p[d] < bb[1][d] for d in range(3)) for bb in grid)]
if seams or orphans:
    print("DEFECT: %d seam(s) between neighbouring voxel layers, e.g. %r; %d of %d sampled points inside the bounding box "
          "lie in no voxel" % (len(seams), seams[:1], len(orphans), len(vol.evalpts)))
    sys.exit(1)
sys.exit(0)
