# C20 / ray.intersect: two 3-D rays which cross EXACTLY (both pass through the origin at t = -1) at an angle of
# 1.2e-3 rad are reported SKEW: the line-distance tolerance (256 eps * |points|) ignores that the round-off of the
# distance |p_diff . (d1 x d2)| / |d1 x d2| grows with 1 / sin(angle).
import sys
from fractions import Fraction as F
from geomdl import ray

d1 = [0.9, -0.8, -0.7]
d2 = [0.901, -0.803, -0.701]
r1 = ray.Ray(d1, [2 * c for c in d1])                       # r1(t) = (1 + t) * d1  -> origin at t = -1
r2 = ray.Ray([-c for c in d2], [-2 * c for c in d2])        # r2(t) = -(1 + t) * d2 -> origin at t = -1

# exact check on the very floats handed to the library: the rays are coplanar and not parallel
P1, P2 = [[F(c) for c in p] for p in r1.points]
Q1, Q2 = [[F(c) for c in p] for p in r2.points]
e1 = [b - a for a, b in zip(P1, P2)]
e2 = [b - a for a, b in zip(Q1, Q2)]
cr = [e1[1] * e2[2] - e1[2] * e2[1], e1[2] * e2[0] - e1[0] * e2[2], e1[0] * e2[1] - e1[1] * e2[0]]
pd = [b - a for a, b in zip(P1, Q1)]
assert any(c != 0 for c in cr) and sum(a * b for a, b in zip(pd, cr)) == 0

t1, t2, status = ray.intersect(r1, r2)
if status != ray.RayIntersection.INTERSECT:
    print("DEFECT: exactly crossing rays (angle 1.2e-3 rad) reported as status %d (SKEW), t1=%r t2=%r" % (status, t1, t2))
    sys.exit(1)
gap = max(abs(a - b) for a, b in zip(r1.eval(t1), r2.eval(t2)))
if gap > 1e-9:
    print("DEFECT: points at the reported parameters do not coincide", gap)
    sys.exit(1)
sys.exit(0)
