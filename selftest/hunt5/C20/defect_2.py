# C20 / voxelize: the default padding (10e-8 * min(1, LARGEST extent of the shape), commit f5fe94c) is not relative to the
# voxel size of the other directions.  For a thin shape (1 x 1 x 1e-6, coordinate ratio 1e6) the z-step of an 8-layer grid
# is 1.43e-7, so the padding of 1e-7 reaches 0.7 of a voxel into both neighbouring layers: voxels are marked filled
# although no sampled point is inside them or anywhere near their boundary.
import sys
from fractions import Fraction as F
from geomdl import BSpline, voxelize

vol = BSpline.Volume()
vol.degree_u = vol.degree_v = vol.degree_w = 1
H = 1e-6
vol.set_ctrlpts([[x, y, z] for z in (0.0, H) for x in (0.0, 1.0) for y in (0.0, 1.0)], 2, 2, 2)
vol.knotvector_u = vol.knotvector_v = vol.knotvector_w = [0.0, 0.0, 1.0, 1.0]
vol.sample_size_u = vol.sample_size_v = 2
vol.sample_size_w = 3            # sampled z: 0, 5e-7, 1e-6

grid, filled = voxelize.voxelize(vol, grid_size=(2, 2, 8))
pts = [[F(c) for c in p] for p in vol.evalpts]

wrong = []
for bb, f in zip(grid, filled):
    lo = [F(c) for c in bb[0]]
    hi = [F(c) for c in bb[1]]
    size = [h - l for l, h in zip(lo, hi)]
    # generous reference: a voxel may be filled if a sampled point is inside it or within 1 % of the voxel size of it
    slack = [s / 100 for s in size]
    near = any(all(l - e <= c <= h + e for c, l, h, e in zip(p, lo, hi, slack)) for p in pts)
    if f and not near:
        wrong.append(bb)

if wrong:
    layers = sorted(set(round(bb[0][2] / (H / 7)) for bb in wrong))
    print("DEFECT: %d of %d voxels are marked filled without a sampled point within 1 %% of the voxel size (z-layers %s)"
          % (len(wrong), len(grid), layers))
    sys.exit(1)
sys.exit(0)
