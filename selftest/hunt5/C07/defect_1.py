"""decompose_curve / decompose_surface crash on a shape whose (un-normalised) knot vector is a numpy array,
although split_curve / split_surface_* and evaluation accept the same shape and give the list-of-floats result."""
import sys, warnings
import numpy as np
from geomdl import BSpline, operations
warnings.simplefilter('ignore')

def curve(kv):
    c = BSpline.Curve(normalize_kv=False)
    c.degree = 2
    c.ctrlpts = [[0., 0.], [1., 2.], [2., -1.], [3., 3.], [4., 0.], [5., 1.]]
    c.knotvector = kv
    return c

kv = [0., 0., 0., 1., 2., 3., 4., 4., 4.]
ref = operations.decompose_curve(curve(kv))
c = curve(np.array(kv))
# the same object can be evaluated and split
assert c.evaluate_single(1.5) == curve(kv).evaluate_single(1.5)
assert [p.ctrlpts for p in operations.split_curve(c, 1.5)] == [p.ctrlpts for p in operations.split_curve(curve(kv), 1.5)]
try:
    got = operations.decompose_curve(c)
except Exception as e:
    print("DEFECT: decompose_curve on a curve with a numpy knot vector raises %s: %s" % (type(e).__name__, e))
    sys.exit(1)
if [p.ctrlpts for p in got] != [p.ctrlpts for p in ref] or len(got) != 4:
    print("DEFECT: decompose_curve on a curve with a numpy knot vector gives different pieces")
    sys.exit(1)
sys.exit(0)
