"""C12: a tessellation component which is set on two surfaces serves the mesh of one surface for the other.

Surface.tessellator = comp resets the component when it is assigned (fix 5e2c983: "the component can hold the vertices
and faces ... of another surface"), but nothing remembers which surface the cached mesh belongs to afterwards:
Surface.vertices / faces / tessellate() only ask comp.is_tessellated().
"""
import sys
from geomdl import BSpline, tessellate, multi


def make(z):
    s = BSpline.Surface()
    s.degree_u = 1
    s.degree_v = 1
    s.set_ctrlpts([[0.0, 0.0, z], [0.0, 1.0, z], [1.0, 0.0, z], [1.0, 1.0, z]], 2, 2)
    s.knotvector_u = [0.0, 0.0, 1.0, 1.0]
    s.knotvector_v = [0.0, 0.0, 1.0, 1.0]
    s.delta = 0.5
    return s


s1, s2 = make(0.0), make(10.0)
tsl = tessellate.TriangularTessellate()
for s in (s1, s2):          # the natural loop: one configured component for all surfaces
    s.tessellator = tsl
z1 = sorted(set(v.z for v in s1.vertices))
z2 = sorted(set(v.z for v in s2.vertices))     # a freshly built s2 reports z = 10.0

# the same through a container: both surfaces are tessellated, the aggregate holds the second mesh twice
c1, c2 = make(0.0), make(10.0)
c1.tessellator = c2.tessellator = tessellate.TriangularTessellate()
cont = multi.SurfaceContainer(c1, c2)
cont.delta = 0.5
zc = sorted(set(v.z for v in cont.vertices))   # expected [0.0, 10.0]

if z1 != [0.0] or z2 != [10.0] or zc != [0.0, 10.0]:
    print("DEFECT: shared tessellation component: s1 z=%s, s2 z=%s (expected [10.0]), container z=%s (expected [0.0, 10.0])"
          % (z1, z2, zc))
    sys.exit(1)
sys.exit(0)
