"""helpers.knot_refinement silently ignores add_knot_list when it is a one-element numpy array holding 0.0
(`if add_knot_list:` tests the truth value of the argument instead of its length)."""
import sys
import numpy as np
from geomdl import helpers

degree = 2
kv = [-1.0, -1.0, -1.0, -0.5, 1.0, 1.0, 1.0]           # clamped, 0.0 is an interior parameter
cp = [[0.0, 0.0], [1.0, 2.0], [2.0, -1.0], [3.0, 3.0]]

_, kv_list = helpers.knot_refinement(degree, kv, cp, knot_list=[-0.5], add_knot_list=[0.0])
try:
    _, kv_np = helpers.knot_refinement(degree, kv, cp, knot_list=[-0.5], add_knot_list=np.array([0.0]))
except Exception:
    sys.exit(0)  # a clean refusal of numpy arrays would be acceptable

if [float(k) for k in kv_np] != [float(k) for k in kv_list]:
    print("DEFECT: add_knot_list=np.array([0.0]) is silently ignored: %d knots instead of %d (0.0 x%d instead of x%d)"
          % (len(kv_np), len(kv_list), [float(k) for k in kv_np].count(0.0), kv_list.count(0.0)))
    sys.exit(1)
sys.exit(0)
