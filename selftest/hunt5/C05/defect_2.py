"""helpers.knot_refinement: two LISTED knots which coincide with each other up to round-off (0.3 and 0.1 + 0.2) are both
raised to the full multiplicity: the refined knot vector carries 2 * degree copies of 'the same' knot (spread over two
values one ulp apart) and degree superfluous control points; the derivative of the refined curve at that knot is zero.
9ca20d6 only matches the listed values with the EXISTING knots, not with each other."""
import sys
from geomdl import helpers, BSpline

degree = 2
kv = [0.0, 0.0, 0.0, 0.5, 1.0, 1.0, 1.0]
cp = [[0.0, 0.0], [1.0, 2.0], [2.0, -1.0], [3.0, 3.0]]

ncp, nkv = helpers.knot_refinement(degree, kv, cp, knot_list=[0.3], add_knot_list=[0.1 + 0.2])
ref_cp, ref_kv = helpers.knot_refinement(degree, kv, cp, knot_list=[0.3])

mult = helpers.find_multiplicity(0.3, nkv)       # the library's own (toleranced) count
orig = BSpline.Curve(); orig.degree = degree; orig.ctrlpts = cp; orig.knotvector = kv
crv = BSpline.Curve(); crv.degree = degree; crv.ctrlpts = ncp; crv.knotvector = nkv
d0 = orig.derivatives(0.3, 1)[1]
d1 = crv.derivatives(0.3, 1)[1]
derr = max(abs(a - b) for a, b in zip(d0, d1))

if mult > degree or len(ncp) != len(ref_cp) or derr > 1e-9:
    print("DEFECT: knot 0.3 listed twice up to round-off gets multiplicity %d > degree %d (%d control points instead "
          "of %d); C'(0.3) = %s instead of %s" % (mult, degree, len(ncp), len(ref_cp), d1, d0))
    sys.exit(1)
sys.exit(0)
