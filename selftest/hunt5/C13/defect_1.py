"""transpose(SurfaceContainer) swaps the evaluation deltas of the contained surfaces but not the container's own
delta_u / delta_v, which the container pushes down to its surfaces on the next evalpts / tessellate: the direction
which was sampled with 10 points is sampled with 4 after transposition (for a single surface c077842 repaired this)."""
import sys
from geomdl import BSpline, multi, operations, knotvector

def surf(su, sv, du, dv, off):
    s = BSpline.Surface()
    s.degree_u, s.degree_v = du, dv
    s.set_ctrlpts([[float(u) + off, float(v), float((u * u + 2 * v) % 3)] for u in range(su) for v in range(sv)], su, sv)
    s.knotvector_u = knotvector.generate(du, su)
    s.knotvector_v = knotvector.generate(dv, sv)
    return s

key = lambda pts: sorted(tuple(round(c, 9) for c in p) for p in pts)

# reference: the single surface
s = surf(3, 5, 2, 3, 0.0)
s.delta = (0.1, 0.25)
st = operations.transpose(s)
assert st.sample_size == (s.sample_size[1], s.sample_size[0]) and key(st.evalpts) == key(s.evalpts)

# the container: nothing has been read from it before it is transposed
mc = multi.SurfaceContainer(surf(3, 5, 2, 3, 0.0), surf(4, 3, 2, 2, 10.0))
mc.delta = (0.1, 0.25)
mt = operations.transpose(mc)                      # a transposed copy
before, after = key(mc.evalpts), key(mt.evalpts)
ssz_before, ssz_after = [list(e.sample_size) for e in mc], [list(e.sample_size) for e in mt]
ok = before == after and all(a == b[::-1] for a, b in zip(ssz_before, ssz_after)) \
    and list(mt.sample_size) == list(mc.sample_size)[::-1]
if not ok:
    print("DEFECT: transposed container samples its surfaces %s (u, v) like the original %s; container delta %s, "
          "same point set: %s" % (ssz_after, ssz_before, mt.delta, before == after))
    sys.exit(1)
sys.exit(0)
