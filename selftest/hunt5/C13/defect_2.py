"""transpose(SurfaceContainer): the 'transposed once' bookkeeping (trims_done) only knows the top-level trim objects.
Two surfaces whose trim loops are two CurveContainer objects built from the SAME curve objects get every curve swapped
and reversed twice, i.e. the transposed surfaces carry the un-transposed trim curves (in reversed container order)."""
import sys
from geomdl import BSpline, multi, operations, knotvector

def surf(off):
    s = BSpline.Surface()
    s.degree_u, s.degree_v = 1, 2
    s.set_ctrlpts([[float(u) + off, float(v), 0.0] for u in range(2) for v in range(4)], 2, 4)
    s.knotvector_u = knotvector.generate(1, 2)
    s.knotvector_v = knotvector.generate(2, 4)
    return s

def line(a, b):
    c = BSpline.Curve()
    c.degree = 1
    c.ctrlpts = [a, b]
    c.knotvector = [0, 0, 1, 1]
    return c

def loop_points(trim):
    return [list(p) for crv in trim for p in crv.ctrlpts]

c1, c2, c3 = line([0.1, 0.2], [0.6, 0.2]), line([0.6, 0.2], [0.3, 0.7]), line([0.3, 0.7], [0.1, 0.2])
A, B = surf(0.0), surf(5.0)
A.trims = [multi.CurveContainer(c1, c2, c3)]
B.trims = [multi.CurveContainer(c1, c2, c3)]      # another loop object made of the same curves
orig = loop_points(A.trims[0])

# reference: a single surface with such a loop
ref = loop_points(operations.transpose(A).trims[0])
assert sorted([p[1], p[0]] for p in ref) == sorted(orig)   # u and v of the loop have changed places

mt = operations.transpose(multi.SurfaceContainer(A, B))
for i, s in enumerate(mt):
    got = loop_points(s.trims[0])
    if got != ref:
        print("DEFECT: surface %d of the transposed container has the trim loop %s, a transposed single surface has %s"
              % (i, got, ref))
        sys.exit(1)
sys.exit(0)
