# C10: a container remembers the spatial dimension of its first element at add() time; translate() / rotate() consult
# container.dimension instead of the geometries. After the elements were lifted to 3-D (operations.add_dimension, inplace)
# rotate(container, angle, axis=0) silently rotates about the z-axis and translate(container, 3-vector) is refused.
import sys, math
from geomdl import BSpline, multi, operations

def curve2d(shift):
    c = BSpline.Curve()
    c.degree = 2
    c.ctrlpts = [[0.0 + shift, 0.0], [1.0 + shift, 2.0], [3.0 + shift, 1.0], [4.0 + shift, 3.0]]
    c.knotvector = [0, 0, 0, 0.5, 1, 1, 1]
    c.sample_size = 7
    return c

cont = multi.CurveContainer(curve2d(0.0), curve2d(5.0))
for crv in cont:                       # lift the planar curves to 3-D, z = 1
    operations.add_dimension(crv, inplace=True, offset=1.0)
assert all(crv.dimension == 3 for crv in cont)

msgs = []
# rotation by 90 degrees about the x-axis through the start point of the first curve
origin = cont[0].evaluate_single(0.0)
before = [list(p) for crv in cont for p in crv.evalpts]
res = operations.rotate(cont, 90, axis=0)
after = [list(p) for crv in res for p in crv.evalpts]
a = math.radians(90)
err = 0.0
for p, q in zip(before, after):
    d = [x - o for x, o in zip(p, origin)]
    e = [d[0], d[1] * math.cos(a) - d[2] * math.sin(a), d[2] * math.cos(a) + d[1] * math.sin(a)]
    e = [x + o for x, o in zip(e, origin)]
    err = max(err, max(abs(x - y) for x, y in zip(e, q)))
if err > 1e-9:
    msgs.append("rotate(container, 90, axis=0) is not the rotation about the x-axis (max deviation %.3g)" % err)

# translation by a 3-D vector
try:
    res = operations.translate(cont, [1.0, 2.0, 3.0])
    after = [list(p) for crv in res for p in crv.evalpts]
    err = max(abs(q[i] - p[i] - v) for p, q in zip(before, after) for i, v in enumerate([1.0, 2.0, 3.0]))
    if err > 1e-9:
        msgs.append("translate(container, 3-vector) deviates by %.3g" % err)
except Exception as e:
    msgs.append("translate(container of 3-D curves, [1, 2, 3]) raises %s: %s" % (type(e).__name__, e))

if msgs:
    print("DEFECT (container.dimension=%d, elements are 3-D): " % cont.dimension + "; ".join(msgs))
    sys.exit(1)
print("ok")
sys.exit(0)
