# BORDERLINE: a shape created with precision >= 324 is not equal to itself nor to its deep copy:
# 10 ** -precision underflows to 0.0 and __eq__ tests abs(s - o) < 0.0
import copy, sys
from geomdl import BSpline
c = BSpline.Curve(precision=324)
c.degree = 2
c.ctrlpts = [[0, 0], [1, 1], [2, 0], [3, 1]]
c.knotvector = [0, 0, 0, 0.5, 1, 1, 1]
if not (c == c and copy.deepcopy(c) == c):
    print("defect: precision=324 curve: c == c is %s, deepcopy(c) == c is %s" % (c == c, copy.deepcopy(c) == c))
    sys.exit(1)
sys.exit(0)
