"""helpers.knot_insertion does not reject a number of insertions beyond degree - multiplicity: it returns a control
polygon with empty / wrong points instead of refusing (operations.insert_knot refuses the same request)."""
import sys
from geomdl import helpers

degree = 2
kv = [0.0, 0.0, 0.0, 0.5, 1.0, 1.0, 1.0]
pts = [[0.0, 0.0], [1.0, 1.0], [2.0, 0.0], [3.0, 1.0]]
problems = []
for u, num in ((0.5, 2), (0.3, 3), (0.0, 1), (1.0, 1)):
    s = kv.count(u)
    try:
        new = helpers.knot_insertion(degree, kv, [list(p) for p in pts], u, num=num)
    except Exception:
        continue  # refused: fine
    problems.append("u=%s num=%d (multiplicity %d, degree %d) accepted -> %s" % (u, num, s, degree, new))
if problems:
    print("DEFECT: helpers.knot_insertion accepts more insertions than degree - multiplicity: " + problems[0])
    sys.exit(1)
sys.exit(0)
