"""compatibility.combine_ctrlpts_weights silently drops control points (or weights) when the two arrays differ in length.

The NURBS ctrlpts / weights setters were repaired for exactly this (5f733be); the public helper which the
documentation (docs/compatibility.rst) tells users to call directly still pairs the arrays with zip().
"""
import sys
from geomdl import NURBS, compatibility

P = [[0.0, 0.0], [1.0, 2.0], [2.0, 0.0], [3.0, 1.0]]
W = [1.0, 2.0, 3.0]                       # one weight is missing

problems = []
for label, p, w in (("short weights", P, W), ("short ctrlpts", P[:3], [1.0, 2.0, 3.0, 4.0])):
    try:
        pw = compatibility.combine_ctrlpts_weights(p, w)
    except (ValueError, IndexError, TypeError):
        continue                          # a clean refusal is fine
    if len(pw) != max(len(p), len(w)):
        problems.append("%s: %d points + %d weights -> %d weighted points" % (label, len(p), len(w), len(pw)))

# what the user ends up with, following docs/compatibility.rst for a curve
crv = NURBS.Curve()
crv.degree = 2
try:
    crv.set_ctrlpts(compatibility.combine_ctrlpts_weights(P, W))
    if crv.ctrlpts_size != len(P):
        problems.append("curve silently has %d instead of %d control points" % (crv.ctrlpts_size, len(P)))
except (ValueError, IndexError, TypeError):
    pass

if problems:
    print("DEFECT: combine_ctrlpts_weights truncates silently: " + "; ".join(problems))
    sys.exit(1)
sys.exit(0)
