# trimming.fix_trim_curves / detect_sense decide the sense ("reversed") of a closed trim curve from the FIRST local
# turn of its evaluated points instead of from its orientation (signed area). For a concave loop the result depends
# on where the loop starts: the same L-shaped loop, same orientation, trims its inside or its outside.
import sys
from geomdl import BSpline, knotvector, trimming, tessellate

def poly_trim(pts):
    c = BSpline.Curve(); c.degree = 1; c.ctrlpts = [list(p) for p in pts]
    c.knotvector = knotvector.generate(1, len(pts)); c.sample_size = len(pts)
    return c

def surf():
    s = BSpline.Surface(); s.degree_u = 1; s.degree_v = 1
    s.set_ctrlpts([[0, 0, 0], [0, 1, 0], [1, 0, 0], [1, 1, 0]], 2, 2)
    s.knotvector_u = [0, 0, 1, 1]; s.knotvector_v = [0, 0, 1, 1]
    s.sample_size = 21
    s.tessellator = tessellate.TrimTessellate()
    return s

def kept_area(s):
    a = 0.0
    for f in s.faces:
        uv = [v.uv for v in f.vertices]
        a += 0.5 * ((uv[1][0]-uv[0][0])*(uv[2][1]-uv[0][1]) - (uv[2][0]-uv[0][0])*(uv[1][1]-uv[0][1]))
    return a

L = [(.2, .2), (.8, .2), (.8, .5), (.5, .5), (.5, .8), (.2, .8)]  # counter-clockwise L-shape, area 0.27
res = []
for start in range(len(L)):
    P = L[start:] + L[:start]            # the same loop, same orientation, another start vertex
    s = surf(); s.trims = [poly_trim(P + [P[0]])]
    trimming.fix_trim_curves(s)
    res.append((start, s.trims[0].opt_get('reversed'), round(kept_area(s), 3)))
senses = set(r[1] for r in res)
if len(senses) != 1:
    print("DEFECT: sense of the same ccw loop depends on its start vertex (start, reversed, kept area): %r" % res)
    sys.exit(1)
print("ok", res)
