# tessellate.surface_trim_tessellate is documented as "can be directly used as an input to make_triangle_mesh using the
# tessellate_func keyword argument", and make_triangle_mesh documents the ``trims`` keyword. The documented route raises
# KeyError('reversed') for a trim curve whose sense has not been set (the default of every curve), because the function
# reads trim.opt['reversed'] instead of trim.opt_get('reversed').
import sys
from geomdl import BSpline, knotvector, tessellate

c = BSpline.Curve(); c.degree = 1
P = [[.3, .3], [.7, .3], [.7, .7], [.3, .7], [.3, .3]]
c.ctrlpts = P; c.knotvector = knotvector.generate(1, len(P)); c.sample_size = len(P)

n = 6
pts = [[i / (n - 1.0), j / (n - 1.0), 0.0] for i in range(n) for j in range(n)]
try:
    verts, tris = tessellate.make_triangle_mesh(pts, n, n, trims=[c], tessellate_func=tessellate.surface_trim_tessellate)
except KeyError as e:
    print("DEFECT: documented route make_triangle_mesh(..., trims=[curve], tessellate_func=surface_trim_tessellate) raises KeyError(%s)" % e)
    sys.exit(1)
area = 0.0
for t in tris:
    uv = [v.uv for v in t.vertices]
    area += 0.5 * ((uv[1][0]-uv[0][0])*(uv[2][1]-uv[0][1]) - (uv[2][0]-uv[0][0])*(uv[1][1]-uv[0][1]))
if abs(area - (1 - 0.16)) > 0.1:
    print("DEFECT: wrong trimmed area", area); sys.exit(1)
print("ok", area)
