# TrimTessellate.tessellate() writes its DEFAULT sense (opt['reversed'] = 0) into the user's trim curves. Reading the mesh
# of a trimmed surface is therefore not read-only: a later trimming.fix_trim_curves() takes the written default for a
# sense chosen by the user and no longer derives it from the orientation of the loop. The same request
# (fix_trim_curves + tessellate) trims the opposite region when the mesh has been read once before.
import sys
from geomdl import BSpline, knotvector, trimming, tessellate

def poly_trim(pts):
    c = BSpline.Curve(); c.degree = 1; c.ctrlpts = [list(p) for p in pts]
    c.knotvector = knotvector.generate(1, len(pts)); c.sample_size = len(pts)
    return c

def surf():
    s = BSpline.Surface(); s.degree_u = 1; s.degree_v = 1
    s.set_ctrlpts([[0, 0, 0], [0, 1, 0], [1, 0, 0], [1, 1, 0]], 2, 2)
    s.knotvector_u = [0, 0, 1, 1]; s.knotvector_v = [0, 0, 1, 1]
    s.sample_size = 21
    s.tessellator = tessellate.TrimTessellate()
    return s

def kept_area(s):
    a = 0.0
    for f in s.faces:
        uv = [v.uv for v in f.vertices]
        a += 0.5 * ((uv[1][0]-uv[0][0])*(uv[2][1]-uv[0][1]) - (uv[2][0]-uv[0][0])*(uv[1][1]-uv[0][1]))
    return a

CW = [(.2, .2), (.2, .8), (.8, .8), (.8, .2)]   # clockwise square (convex, so the sense detection itself is reliable)

t1 = poly_trim(CW + [CW[0]]); s1 = surf(); s1.trims = [t1]
before = t1.opt_get('reversed')
trimming.fix_trim_curves(s1)
a1, r1 = kept_area(s1), t1.opt_get('reversed')

t2 = poly_trim(CW + [CW[0]]); s2 = surf(); s2.trims = [t2]
_ = s2.vertices                                   # only reads the mesh ...
r_after_read = t2.opt_get('reversed')             # ... but the trim curve of the user has been edited
trimming.fix_trim_curves(s2)
a2, r2 = kept_area(s2), t2.opt_get('reversed')

if before is None and (r_after_read is not None or r1 != r2 or abs(a1 - a2) > 1e-9):
    print("DEFECT: reading the mesh stored reversed=%r in the trim; fix_trim_curves+tessellate keeps area %.3f "
          "(sense %r) on a fresh surface but %.3f (sense %r) after the mesh was read once" % (r_after_read, a1, r1, a2, r2))
    sys.exit(1)
print("ok")
