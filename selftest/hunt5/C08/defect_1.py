# operations.degree_operations(curve, [-k]) ignores the count of a reduction request: it always reduces by one degree,
# whereas [+k] elevates k times. Elevating a Bezier curve by k and asking for the inverse, [-k], does not give the original back.
import sys
from geomdl import BSpline, operations

P = [[0.0, 0.0], [1.0, 2.0], [3.0, 0.0]]
for k in (2, 3, 4):
    c = BSpline.Curve()
    c.degree = 2
    c.ctrlpts = [list(p) for p in P]
    c.knotvector = [0, 0, 0, 1, 1, 1]
    operations.degree_operations(c, [k])       # degree 2 -> 2 + k (exact elevation)
    assert c.degree == 2 + k
    try:
        operations.degree_operations(c, [-k])  # inverse request: k reductions
    except Exception:
        continue                               # a clean refusal of counts other than -1 would be acceptable too
    ok = c.degree == 2 and all(abs(a - b) < 1e-12 for p, q in zip(c.ctrlpts, P) for a, b in zip(p, q))
    if not ok:
        print("DEFECT: degree_operations(curve, [%d]) after [%d] leaves degree %d with %d control points "
              "(expected degree 2 and the original polygon, or a refusal)" % (-k, k, c.degree, c.ctrlpts_size))
        sys.exit(1)
sys.exit(0)
