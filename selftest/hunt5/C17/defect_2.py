"""C17: decompose_curve / decompose_surface work for a shape whose knot vector was given as a numpy array when the shape
normalizes its knot vectors, and fail (ValueError from 'while knots:') for the same shape created with normalize_kv=False."""
import sys
import numpy as np
from geomdl import BSpline, operations

def curve(normalize):
    c = BSpline.Curve(normalize_kv=normalize)
    c.degree = 2
    c.ctrlpts = [[0.0, 0.0], [1.0, 2.0], [2.0, 0.0], [3.0, 3.0], [4.0, 0.0]]
    c.knotvector = np.array([0.0, 0.0, 0.0, 1.0, 2.0, 3.0, 3.0, 3.0])
    return c

def surface(normalize):
    s = BSpline.Surface(normalize_kv=normalize)
    s.degree_u = s.degree_v = 2
    s.set_ctrlpts([[float(i), float(j), float(i * j % 3)] for i in range(5) for j in range(5)], 5, 5)
    s.knotvector_u = np.array([0.0, 0.0, 0.0, 1.0, 2.0, 3.0, 3.0, 3.0])
    s.knotvector_v = np.array([0.0, 0.0, 0.0, 1.0, 2.0, 3.0, 3.0, 3.0])
    return s

out = {}
for name, make, func in (("curve", curve, operations.decompose_curve), ("surface", surface, operations.decompose_surface)):
    for normalize in (True, False):
        try:
            out[(name, normalize)] = len(func(make(normalize)))
        except Exception as e:
            out[(name, normalize)] = "%s: %s" % (type(e).__name__, str(e)[:60])
bad = [k for k in (("curve", False), ("surface", False)) if out[k] != out[(k[0], True)]]
if bad:
    print("DEFECT: normalize_kv=False makes a valid decomposition fail:", out)
    sys.exit(1)
print("ok", out)
sys.exit(0)
