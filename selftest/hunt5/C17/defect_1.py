"""C17: trimmed tessellation of the same surface differs between normalize_kv=True and normalize_kv=False (knots kept on
[1, 2], trim curve mapped by the same translation): a triangle whose centroid lies exactly on the trim curve is kept or
dropped depending on the round-off of the centroid, which depends on the parametric range."""
import sys
from geomdl import BSpline, tessellate

def build(normalize, off):
    s = BSpline.Surface(normalize_kv=normalize)
    s.degree_u = s.degree_v = 2
    s.set_ctrlpts([[float(i), float(j), float((i * j) % 3)] for i in range(4) for j in range(4)], 4, 4)
    kv = [0.0, 0.0, 0.0, 0.5, 1.0, 1.0, 1.0]
    s.knotvector_u = [off + k for k in kv]
    s.knotvector_v = [off + k for k in kv]
    s.sample_size = 6                                  # sample grid 0, 0.2, ..., 1 in both directions
    (u0, u1), (v0, v1) = s.domain                      # (0, 1) when normalized, (off, off + 1) otherwise
    t = BSpline.Curve()                                # square hole [0.25, 0.5] x [0.25, 0.5] of the unit domain
    t.degree = 1
    t.ctrlpts = [[u0 + x, v0 + y] for x, y in ((0.25, 0.5), (0.5, 0.5), (0.5, 0.25), (0.25, 0.25), (0.25, 0.5))]
    t.knotvector = [0.0, 0.0, 0.25, 0.5, 0.75, 1.0, 1.0]
    t.sample_size = 21
    t.opt = ['reversed', 0]
    s.tessellator = tessellate.TrimTessellate()
    s.trims = [t]
    s.tessellate()
    area = 0.0
    for f in s.faces:
        p = [((v.uv[0] - u0) / (u1 - u0), (v.uv[1] - v0) / (v1 - v0)) for v in f.vertices]
        area += 0.5 * abs((p[1][0] - p[0][0]) * (p[2][1] - p[0][1]) - (p[2][0] - p[0][0]) * (p[1][1] - p[0][1]))
    return len(s.faces), area

res = {}
for normalize, off in ((True, 0.0), (True, 1.0), (False, 0.0), (False, 1.0), (False, -1.0), (False, 4.0)):
    res[(normalize, off)] = build(normalize, off)
ref = res[(True, 0.0)]
diff = dict((k, v) for k, v in res.items() if v[0] != ref[0] or abs(v[1] - ref[1]) > 1e-9)
if diff:
    print("DEFECT: trimmed tessellation depends on the knot range: normalized (faces, uv-area) = %s, differing twins: %s" % (ref, diff))
    sys.exit(1)
print("ok", ref)
sys.exit(0)
