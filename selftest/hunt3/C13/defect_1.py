"""operations.transpose / Surface.transpose() swap degrees, knot vectors, control net and trims of u and v, but leave the
per-direction sampling settings (delta_u/delta_v = sample_size_u/sample_size_v) where they were: the direction that was
sampled with 11 points is sampled with 4 points after the transposition, so the evaluated grid of the transposed surface
is not the transposed evaluated grid of the original surface."""
import sys
from geomdl import BSpline, operations

s = BSpline.Surface()
s.degree_u, s.degree_v = 3, 2
s.set_ctrlpts([[float(u), float(v), float(u * u - v)] for u in range(6) for v in range(3)], 6, 3)
s.knotvector_u = [0, 0, 0, 0, 0.3, 0.7, 1, 1, 1, 1]
s.knotvector_v = [0, 0, 0, 1, 1, 1]
s.sample_size_u, s.sample_size_v = 11, 4      # fine along u, coarse along v
nu, nv = s.sample_size_u, s.sample_size_v
grid = [[s.evalpts[j + i * nv] for j in range(nv)] for i in range(nu)]      # grid[i_u][j_v]

msgs = []
for name, t in (("operations.transpose", operations.transpose(s)), ("Surface.transpose()", None)):
    if t is None:
        import copy
        t = copy.deepcopy(s); t.transpose()
    if (t.sample_size_u, t.sample_size_v) != (nv, nu):
        msgs.append("%s: sample sizes (u, v) = %r, expected %r" % (name, (t.sample_size_u, t.sample_size_v), (nv, nu)))
        continue
    tg = [[t.evalpts[i + j * nu] for i in range(nu)] for j in range(nv)]      # tg[j_v(old)][i_u(old)]
    if any(max(abs(a - b) for a, b in zip(tg[j][i], grid[i][j])) > 1e-12 for i in range(nu) for j in range(nv)):
        msgs.append("%s: evaluated grid is not the transposed grid" % name)
if msgs:
    print("DEFECT: transposition does not swap the per-direction sampling settings: " + "; ".join(msgs))
    sys.exit(1)
sys.exit(0)
