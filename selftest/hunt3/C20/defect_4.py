# is_left (and with it convex_hull / wn_poly) raises OverflowError for coordinates of magnitude >= ~1e154:
# the floating point filter yields nan/inf, the exact fallback is taken and float(det_exact) overflows
import sys
from geomdl import linalg

msgs = []
for m in (1e150, 1e155, 1e200, 1e300):
    sq = [[0.0, 0.0], [m, 0.0], [m, m], [0.0, m]]
    try:
        d = linalg.is_left(sq[0], sq[1], sq[2])
        if not d > 0:
            msgs.append("is_left at scale %g = %r" % (m, d))
        h = linalg.convex_hull(sq + [[m / 2, m / 4]])
        if sorted(h) != sorted(sq):
            msgs.append("convex_hull at scale %g = %r" % (m, h))
        if linalg.wn_poly([m / 2, m / 4], sq + [sq[0]]) is not True or linalg.wn_poly([2 * m, m / 4], sq + [sq[0]]) is not False:
            msgs.append("wn_poly at scale %g wrong" % m)
    except Exception as e:
        msgs.append("scale %g: %s: %s" % (m, type(e).__name__, e))
if msgs:
    print("DEFECT: " + "; ".join(msgs))
    sys.exit(1)
sys.exit(0)
