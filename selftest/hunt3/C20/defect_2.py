# is_left / wn_poly: the exact-arithmetic fallback is silently skipped for numpy.float32 coordinates (Fraction(np.float32)
# raises TypeError, which is swallowed), and the float64 error bound is applied to a float32 computation
import sys
from fractions import Fraction
import numpy as np
from geomdl import linalg

def sign(x):
    return int(x > 0) - int(x < 0)

def exact(p0, p1, p2):
    p0, p1, p2 = [[Fraction(float(c)) for c in p] for p in (p0, p1, p2)]
    return (p1[0] - p0[0]) * (p2[1] - p0[1]) - (p2[0] - p0[0]) * (p1[1] - p0[1])

f = np.float32
p0, p1, p2 = [f(0.0), f(0.1)], [f(0.4), f(0.5)], [f(0.5), f(0.6)]   # every float32 is an exact rational number
ex = exact(p0, p1, p2)                       # 1.27e-08 > 0: p2 is LEFT of the line
res32 = linalg.is_left(p0, p1, p2)           # 0.0 ("on the line")
res64 = linalg.is_left(*[[float(c) for c in p] for p in (p0, p1, p2)])   # same numbers as Python floats: correct

# the same through the winding number test: CCW triangle A-B-D, the query point P is (barely, but exactly) inside
poly = np.array([[0.0, 0.1], [0.4, 0.5], [0.0, 1.0], [0.0, 0.1]], dtype=np.float32)
P = np.array([0.1, 0.2], dtype=np.float32)
ex_in = exact(poly[0], poly[1], P) > 0 and exact(poly[1], poly[2], P) > 0 and exact(poly[2], poly[0], P) > 0
wn32 = linalg.wn_poly(P, poly)
wn64 = linalg.wn_poly([float(c) for c in P], [[float(c) for c in v] for v in poly])
msgs = []
if sign(res32) != sign(ex):
    msgs.append("is_left(float32 points) = %r, exact determinant = %.3e, is_left(same values as float) = %r"
                % (float(res32), float(ex), res64))
if wn32 != ex_in:
    msgs.append("wn_poly(float32 point, float32 polygon) = %r, exact = %r, same values as floats = %r" % (wn32, ex_in, wn64))
if msgs:
    print("DEFECT: " + "; ".join(msgs))
    sys.exit(1)
sys.exit(0)
