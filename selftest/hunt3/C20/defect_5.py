# voxelize: the default voxel padding (1e-7) is an absolute length, so the result is not invariant under a change of the unit
# of length; for a shape smaller than ~1e-6 voxels which contain no sampled point are reported as filled (all of them at 1e-7)
import sys
from geomdl import BSpline, voxelize

def make(sc):
    s = BSpline.Surface()
    s.degree_u = 1
    s.degree_v = 1
    s.set_ctrlpts([[0, 0, 0], [0, sc, 0.5 * sc], [sc, 0, 0.5 * sc], [sc, sc, sc]], 2, 2)
    s.knotvector_u = [0, 0, 1, 1]
    s.knotvector_v = [0, 0, 1, 1]
    s.sample_size = 9
    return s

def strictly_inside_count(grid, pts):
    cnt = 0
    for bmin, bmax in grid:
        if any(all(lo <= c < hi for lo, c, hi in zip(bmin, p, bmax)) for p in pts):
            cnt += 1
    return cnt

msgs = []
ref = None
for sc in (1.0, 2.0 ** -10, 2.0 ** -20, 2.0 ** -23, 2.0 ** -30):      # powers of two: the scaled problem is bit-for-bit similar
    surf = make(sc)
    grid, filled = voxelize.voxelize(surf, grid_size=(8, 8, 8))
    if ref is None:
        ref = list(filled)
    elif list(filled) != ref:
        msgs.append("scale %.3g: %d of %d voxels filled (voxels containing a sampled point: %d; scale 1: %d filled)"
                    % (sc, sum(filled), len(filled), strictly_inside_count(grid, surf.evalpts), sum(ref)))
if msgs:
    print("DEFECT: " + "; ".join(msgs))
    sys.exit(1)
sys.exit(0)
