# voxelize(): the number of voxels along an axis depends on round-off (grid_size n gives n+1 layers for many bounding boxes)
import sys
from geomdl import BSpline, voxelize

surf = BSpline.Surface()
surf.degree_u = 1
surf.degree_v = 1
surf.set_ctrlpts([[0.0, 0.0, 0.0], [0.0, 1.0, 0.5], [0.9, 0.0, 0.5], [0.9, 1.0, 1.0]], 2, 2)
surf.knotvector_u = [0.0, 0.0, 1.0, 1.0]
surf.knotvector_v = [0.0, 0.0, 1.0, 1.0]
surf.sample_size = 5

msgs = []
for gs in [(4, 2, 2), (6, 2, 2), (7, 3, 2), (3, 2, 2), (5, 2, 2)]:
    grid, filled = voxelize.voxelize(surf, grid_size=gs)
    xs = sorted(set(v[0][0] for v in grid))
    ys = sorted(set(v[0][1] for v in grid))
    zs = sorted(set(v[0][2] for v in grid))
    if (len(xs), len(ys), len(zs)) != gs or len(grid) != gs[0] * gs[1] * gs[2] or len(filled) != len(grid):
        msgs.append("grid_size=%s -> %dx%dx%d = %d voxels (x layers start at %s)" % (gs, len(xs), len(ys), len(zs), len(grid), xs[-2:]))

if msgs:
    print("DEFECT: voxel grid does not have the requested size: " + "; ".join(msgs))
    sys.exit(1)
sys.exit(0)
