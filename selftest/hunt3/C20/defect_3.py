# ray.intersect is not invariant under a uniform scaling of the rays: squares of |d1 x d2| underflow / overflow
import sys
from geomdl import ray
from geomdl.ray import Ray, RayIntersection

def case(m, dim):
    z = [0.0] if dim == 3 else []
    r1 = Ray([0.0, 0.0] + z, [3 * m, 1 * m] + z)
    r2 = Ray([1 * m, -1 * m] + z, [1.5 * m, 2 * m] + z)
    return ray.intersect(r1, r2)

# the two rays cross at t1 = 7/17, t2 = 8/17 whatever the unit of length is
t1x, t2x = 7.0 / 17.0, 8.0 / 17.0
msgs = []
for m in (1.0, 1e-40, 1e40, 1e-79, 1e-80, 1e-82, 1e-100, 1e77, 1e100):
    for dim in (2, 3):
        try:
            t1, t2, st = case(m, dim)
        except Exception as e:
            msgs.append("scale %g (%d-D): %s" % (m, dim, type(e).__name__))
            continue
        if st != RayIntersection.INTERSECT or abs(t1 - t1x) > 1e-9 or abs(t2 - t2x) > 1e-9:
            msgs.append("scale %g (%d-D): status %d, t1 = %.12g, t2 = %.12g" % (m, dim, st, t1, t2))
if msgs:
    print("DEFECT: crossing rays (t1 = 0.411764705882, t2 = 0.470588235294, INTERSECT = 1) -> " + "; ".join(msgs))
    sys.exit(1)
sys.exit(0)
