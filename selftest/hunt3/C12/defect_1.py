"""C12 - the vertex / face lists handed out by Surface.vertices / Surface.faces are emptied in place by any later edit.

AbstractTessellate.reset() does `self._vertices[:] = []; self._faces[:] = []`, and every mutator of a surface goes through
Surface.reset() -> tessellator.reset().  A result which the caller obtained earlier is therefore silently destroyed by
a later, unrelated edit of the surface (sample size, control points, trims, knot insertion, ...), whereas the evaluated
points obtained the same way survive (Surface.reset re-binds the evalpts list).  The same pattern was repaired for the
containers, for NURBS.Curve.reset and for CPGen.GridWeighted.
"""
import sys
from geomdl import BSpline

s = BSpline.Surface()
s.degree_u = 2
s.degree_v = 2
s.set_ctrlpts([[float(i), float(j), float((i * j) % 3)] for i in range(4) for j in range(4)], 4, 4)
s.knotvector_u = [0, 0, 0, 0.5, 1, 1, 1]
s.knotvector_v = [0, 0, 0, 0.5, 1, 1, 1]

meshes = []
points = []
for n in (3, 4, 5):                      # collect the tessellations / sampled points for three sampling densities
    s.sample_size = n
    points.append(s.evalpts)
    meshes.append((s.vertices, s.faces))

got_pts = [len(p) for p in points]
got_vrt = [len(v) for v, f in meshes]
got_fcs = [len(f) for v, f in meshes]
exp_vrt = [9, 16, 25]
exp_fcs = [8, 18, 32]
if got_pts != exp_vrt:
    print("unexpected: evalpts lists changed", got_pts)
    sys.exit(1)
if got_vrt != exp_vrt or got_fcs != exp_fcs:
    print("DEFECT: vertices/faces returned earlier were emptied by a later edit: #vertices %s (expected %s), "
          "#faces %s (expected %s)" % (got_vrt, exp_vrt, got_fcs, exp_fcs))
    sys.exit(1)
print("ok")
sys.exit(0)
