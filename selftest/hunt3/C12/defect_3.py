"""C12 - Surface.reset(ctrlpts=True) zeroes the list behind Surface.cpsize in place.

abstract.Surface.reset does `self._control_points_size[0] = 0; self._control_points_size[1] = 0` (Volume.reset re-binds a
new list, Curve.reset does not touch the sizes) and SplineGeometry.set_ctrlpts re-binds a new list afterwards.  Every edit
of the control points of a surface (set_ctrlpts, ctrlpts/ctrlptsw/weights/ctrlpts2d setters, knot insertion / removal /
refinement, transforms, transpose, flip) therefore turns
 (a) the list which the caller obtained from `surf.cpsize` before the edit into [0, 0], and
 (b) the sizes of ANOTHER surface into [0, 0] when that list is shared through the public cpsize setter
     (`new.cpsize = old.cpsize; new.ctrlpts = ...` - the edit of the new surface corrupts the old one).
"""
import sys
from geomdl import BSpline, operations


def make():
    s = BSpline.Surface()
    s.degree_u = 2
    s.degree_v = 1
    s.set_ctrlpts([[float(i), float(j), float((i * j) % 3)] for i in range(4) for j in range(3)], 4, 3)
    s.knotvector_u = [0, 0, 0, 0.5, 1, 1, 1]
    s.knotvector_v = [0, 0, 0.5, 1, 1]
    return s


msg = []

# (a) a result obtained earlier is destroyed by a later edit
s = make()
size_before = s.cpsize
operations.refine_knotvector(s, [1, 0])
if list(size_before) != [4, 3]:
    msg.append("cpsize obtained before refine_knotvector became %s (was [4, 3]; surface is now %s)"
               % (size_before, s.cpsize))

# (b) editing a surface which was built from the public properties of another one corrupts the other one
old = make()
new = BSpline.Surface()
new.degree = old.degree
new.cpsize = old.cpsize
new.ctrlpts = [[2.0 * c for c in p] for p in old.ctrlpts]
new.knotvector = old.knotvector
if list(old.cpsize) != [4, 3] or old.ctrlpts_size_u != 4:
    msg.append("setting the control points of the new surface changed the sizes of the old surface to %s" % old.cpsize)

if msg:
    print("DEFECT: " + "; ".join(msg))
    sys.exit(1)
print("ok")
sys.exit(0)
