"""C12 - a cached tessellation is reused for tessellation requests with other options (history dependent results).

abstract.Surface.tessellate() returns immediately when the tessellation component holds vertices and faces, without
looking at the keyword arguments of the request (e.g. vertex_spacing); the exporters request their tessellation through
this method.  Consequences on one and the same surface definition:
 (1) exchange.export_obj_str(surf, vertex_spacing=2, update_delta=False) writes 25 vertices on a fresh surface but
     81 vertices when surf.vertices has been read before (the option is silently ignored);
 (2) an explicit surf.tessellate(vertex_spacing=1) after surf.tessellate(vertex_spacing=2) does nothing;
 (3) after an export with vertex_spacing=2 the reader surf.vertices reports the coarse mesh of the exporter, a fresh
     surface reports the full one.
"""
import sys
from geomdl import BSpline, exchange


def make():
    s = BSpline.Surface()
    s.degree_u = 2
    s.degree_v = 2
    s.set_ctrlpts([[float(i), float(j), float((i * j) % 3)] for i in range(4) for j in range(4)], 4, 4)
    s.knotvector_u = [0, 0, 0, 0.5, 1, 1, 1]
    s.knotvector_v = [0, 0, 0, 0.5, 1, 1, 1]
    s.sample_size = 9
    return s


msg = []

# (1) same request, same definition, different history
fresh = make()
hist = make()
hist.vertices                                        # a reader
a = exchange.export_obj_str(fresh, vertex_spacing=2, update_delta=False)
b = exchange.export_obj_str(hist, vertex_spacing=2, update_delta=False)
if a != b:
    msg.append("export_obj_str(vertex_spacing=2, update_delta=False) writes %d vertices for a fresh surface and %d after "
               "surf.vertices has been read" % (a.count("v "), b.count("v ")))

# (2) explicit request with other options is ignored
s = make()
s.tessellate(vertex_spacing=2)
n2 = len(s.vertices)
s.tessellate(vertex_spacing=1)
n1 = len(s.vertices)
if n1 != 81:
    msg.append("tessellate(vertex_spacing=1) after tessellate(vertex_spacing=2) leaves %d vertices (expected 81)" % n1)

# (3) an exporter (reader) leaves its own tessellation behind
s = make()
exchange.export_obj_str(s, vertex_spacing=2)
note = ""
if len(s.vertices) != len(make().vertices):
    note = ("after export_obj_str(vertex_spacing=2) surf.vertices has %d vertices, a fresh surface %d"
            % (len(s.vertices), len(make().vertices)))

# (3) is only reported as a note: whether a reader of the surface should see the mesh of the last explicit request is a
# design decision; (1) and (2) decide
if msg:
    print("DEFECT: " + "; ".join(msg) + (" [note: " + note + "]" if note else ""))
    sys.exit(1)
print("ok")
sys.exit(0)
