"""C12 - the control point count of a CURVE is stale after reset(ctrlpts=True); a REJECTED ctrlpts assignment gets there.

(a) abstract.Curve.reset(ctrlpts=True) empties the control points (and the bounding box) but keeps
    self._control_points_size, whereas Surface.reset / Volume.reset zero it: ctrlpts_size, cpsize and data['size'] of a
    curve keep reporting the old number of control points of a curve which has none.
(b) Curve/Surface/Volume.set_ctrlpts() call self.reset(ctrlpts=True, evalpts=True) BEFORE the per-point validation of
    SplineGeometry.set_ctrlpts() runs.  An assignment which is rejected with a ValueError (a numpy array - its rows are
    neither list nor tuple -, or one point with a wrong number of coordinates) therefore destroys the existing shape and,
    for a curve, leaves it in the inconsistent state of (a).
"""
import sys
import numpy as np
from geomdl import BSpline


def make():
    c = BSpline.Curve()
    c.degree = 2
    c.ctrlpts = [[0.0, 0.0], [1.0, 2.0], [2.0, -1.0], [3.0, 0.0], [4.0, 1.0]]
    c.knotvector = [0, 0, 0, 0.3, 0.6, 1, 1, 1]
    c.sample_size = 5
    return c


msg = []

# (a)
c = make()
c.reset(ctrlpts=True)
if len(c.ctrlpts) != c.ctrlpts_size or c.data['size'] != (len(c.ctrlpts),):
    msg.append("after reset(ctrlpts=True): len(ctrlpts) = %d but ctrlpts_size = %d, cpsize = %s, data['size'] = %s"
               % (len(c.ctrlpts), c.ctrlpts_size, c.cpsize, c.data['size']))

# (b)
for bad in (np.array(make().ctrlpts) + 1.0, [[0.0, 0.0], [1.0, 2.0], [2.0, -1.0, 5.0], [3.0, 0.0], [4.0, 1.0]]):
    c = make()
    pts_before = [list(p) for p in c.evalpts]
    try:
        c.ctrlpts = bad
        continue  # accepted: nothing to check
    except ValueError:
        pass
    problems = []
    if len(c.ctrlpts) != c.ctrlpts_size:
        problems.append("len(ctrlpts) = %d but ctrlpts_size = %d" % (len(c.ctrlpts), c.ctrlpts_size))
    try:
        if [list(p) for p in c.evalpts] != pts_before:
            problems.append("evalpts changed")
    except Exception as e:
        problems.append("evalpts raises %s" % type(e).__name__)
    if problems:
        msg.append("after a rejected ctrlpts assignment (%s): %s" % (type(bad).__name__, ", ".join(problems)))

if msg:
    print("DEFECT: " + "; ".join(msg))
    sys.exit(1)
print("ok")
sys.exit(0)
