"""C12 - the tessellation of a trimmed surface is not invalidated when one of its trim curves is edited.

Surface.vertices / Surface.faces are cached in the tessellation component; the cache is reset by the mutators of the
surface itself (and by add_trim / the trims setter), but the trim curves handed out by `surf.trims` are live objects: an
edit of a trim curve through its own public mutators (control points, in-place scale/translate, sample size) - or through
the library's own trimming.map_trim_to_geometry(surf, delta=...), which sets the delta of the trims - leaves the cached
tessellation of the surface as it was.  A freshly built surface with the same definition (same trims) reports a
different tessellation.
"""
import sys, copy
from geomdl import BSpline, tessellate, operations, trimming


def make_trim(a, b):
    c = BSpline.Curve()
    c.degree = 1
    c.ctrlpts = [[a, a], [b, a], [b, b], [a, b], [a, a]]
    c.knotvector = [0, 0, 0.25, 0.5, 0.75, 1, 1]
    c.sample_size = 9
    return c


def make_surface(trims):
    s = BSpline.Surface()
    s.degree_u = 2
    s.degree_v = 2
    s.set_ctrlpts([[float(i), float(j), float((i * j) % 3)] for i in range(4) for j in range(4)], 4, 4)
    s.knotvector_u = [0, 0, 0, 0.5, 1, 1, 1]
    s.knotvector_v = [0, 0, 0, 0.5, 1, 1, 1]
    s.sample_size = 11
    s.tessellator = tessellate.TrimTessellate()
    s.trims = trims
    return s


def mesh(s):
    return (sorted(tuple(v.uv) for v in s.vertices), len(s.faces))


msg = []

# 1. the user edits the trim curve of the surface
surf = make_surface([make_trim(0.35, 0.65)])
before = mesh(surf)
operations.scale(surf.trims[0], 0.5, inplace=True)            # the hole is now [0.175, 0.325]^2
cached = mesh(surf)
fresh = mesh(make_surface([copy.deepcopy(t) for t in surf.trims]))
if cached != fresh:
    msg.append("after scaling the trim curve the surface reports %d faces (as before the edit: %s), a fresh surface "
               "with the same trims reports %d" % (cached[1], cached == before, fresh[1]))

# 2. the library edits the trim curve of the surface (sampling density of the trim)
surf = make_surface([make_trim(0.35, 0.65)])
before = mesh(surf)
trimming.map_trim_to_geometry(surf, delta=0.3)                # trim polygon is now sampled with 3 points only
cached = mesh(surf)
fresh = mesh(make_surface([copy.deepcopy(t) for t in surf.trims]))
if cached != fresh:
    msg.append("after map_trim_to_geometry(delta=0.3) the surface reports %d faces, a fresh surface with the same trims "
               "reports %d" % (cached[1], fresh[1]))

if msg:
    print("DEFECT: " + "; ".join(msg))
    sys.exit(1)
print("ok")
sys.exit(0)
