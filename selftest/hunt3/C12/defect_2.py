"""C12 - a control grid returned by CPGen.Grid.grid is emptied and refilled in place by a later generate() / reset().

Grid.reset() does `self._grid_points[:] = []` and generate() (which calls reset()) appends the new rows to the very same
list object, so a grid which the caller obtained earlier silently turns into the later grid (or into an empty list).
(The same pattern in GridWeighted - the cached weighted grid - , the containers and NURBS.Curve.reset was repaired by
re-binding the lists.)
"""
import sys, copy
from geomdl import CPGen, BSpline

gen = CPGen.Grid(10, 10)
gen.generate(3, 3)
grid_a = gen.grid                      # 4 x 4 control grid for the first surface
snap_a = copy.deepcopy(grid_a)
gen.generate(5, 2)                     # the generator is re-used for a second control grid
grid_b = gen.grid

msg = []
if grid_a != snap_a:
    msg.append("grid returned by the first generate() changed from %dx%d to %dx%d points after the second generate()"
               % (len(snap_a), len(snap_a[0]), len(grid_a), len(grid_a[0]) if grid_a else 0))
gen.reset()
if not grid_b:
    msg.append("grid returned before reset() was emptied by reset()")
if msg:
    print("DEFECT: " + "; ".join(msg))
    sys.exit(1)
print("ok")
sys.exit(0)
