# helpers.degree_reduction returns the caller's own end point lists inside its result (pts_red[0] = ctrlpts[0],
# pts_red[-1] = ctrlpts[-1]): editing the reduced polygon edits the elevated input polygon (and vice versa).
import sys, copy
from geomdl import helpers, BSpline

P = [[0.0, 0.0], [1.0, 2.0], [3.0, 1.0]]
E = helpers.degree_elevation(2, P, num=1)           # fresh lists, fine
E_before = copy.deepcopy(E)
R = helpers.degree_reduction(3, E)                  # == P
shared = [i for i, r in enumerate(R) if any(r is e for e in E)]
for pt in R:                                        # caller moves the reduced polygon by (10, 10)
    pt[0] += 10.0
    pt[1] += 10.0
msg = []
if shared:
    msg.append("result shares point lists %s with the input" % shared)
if E != E_before:
    msg.append("editing the result changed the input polygon: %s -> %s" % (E_before[0], E[0]))

# same thing through a curve: the curve's control points are edited behind its back
c = BSpline.Curve(); c.degree = 3; c.ctrlpts = E_before; c.knotvector = [0, 0, 0, 0, 1, 1, 1, 1]
start = list(c.evaluate_single(0.0))
R2 = helpers.degree_reduction(c.degree, c.ctrlpts)
R2[0][0] += 5.0
if list(c.evaluate_single(0.0)) != start:
    msg.append("curve start point moved from %s to %s" % (start, c.evaluate_single(0.0)))
if msg:
    print("DEFECT degree_reduction aliasing: " + "; ".join(msg))
    sys.exit(1)
sys.exit(0)
