"""STL facet normals are written as raw cross products, not as unit vectors."""
import sys, math, struct
from geomdl import exchange
from common_surf import make_surface

s = make_surface(4)
txt = exchange.export_stl_str(s, binary=False)
norms = [[float(x) for x in l.split()[2:]] for l in txt.split("\n") if l.strip().startswith("facet normal")]
blob = exchange.export_stl_str(s, binary=True)
nb = struct.unpack('<I', blob[80:84])[0]
norms_b = [struct.unpack('<3f', blob[84 + 50 * k: 96 + 50 * k]) for k in range(nb)]
bad = [n for n in norms + norms_b if abs(math.sqrt(sum(c * c for c in n)) - 1.0) > 1e-5 and any(n)]
if bad:
    print("DEFECT: %d of %d STL facet normals are not unit vectors, e.g. %s (length %g)"
          % (len(bad), len(norms) + len(norms_b), bad[0], math.sqrt(sum(c * c for c in bad[0]))))
    sys.exit(1)
sys.exit(0)
