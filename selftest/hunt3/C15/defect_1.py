"""The lists returned by surf.vertices / surf.faces are emptied in place by any later reset of the surface."""
import sys
from common_surf import make_surface

s = make_surface(4)
coarse_v, coarse_f = s.vertices, s.faces      # 16 vertices, 18 triangles
nv, nf = len(coarse_v), len(coarse_f)
s.sample_size = 8                             # any setter: delta, ctrlpts, knotvector, add_trim, tessellator, ...
fine_v = s.vertices                           # new tessellation (new list objects)
if len(coarse_v) != nv or len(coarse_f) != nf:
    print("DEFECT: tessellation result obtained earlier (%d vertices, %d faces) was emptied in place: now %d vertices, "
          "%d faces" % (nv, nf, len(coarse_v), len(coarse_f)))
    sys.exit(1)
sys.exit(0)
