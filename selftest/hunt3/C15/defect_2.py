"""Trimmed tessellation numbers its faces with duplicate / missing ids (Triangle equality is by id)."""
import sys
from geomdl import tessellate
from common_surf import make_surface, polygon_trim

for n in (5, 9, 10, 12):
    s = make_surface(n)
    s.tessellator = tessellate.TrimTessellate()
    s.trims = [polygon_trim([[0.3, 0.3], [0.7, 0.35], [0.6, 0.8], [0.25, 0.6]])]
    s.tessellate()
    f = s.faces
    ids = [t.id for t in f]
    if ids != list(range(len(ids))):
        dup = sorted(set(i for i in ids if ids.count(i) > 1))
        missing = sorted(set(range(len(ids))) - set(ids))
        msg = ""
        if dup:
            a, b = [t for t in f if t.id == dup[0]][:2]
            msg = "; triangles %s and %s both carry id %d (a == b: %s, faces.index(b) -> %d)" \
                  % (a.data, b.data, dup[0], a == b, f.index(b))
        print("DEFECT: sample size %d: the %d faces of the trimmed tessellation are not numbered 0..%d: duplicate ids %s, "
              "missing ids %s%s" % (n, len(ids), len(ids) - 1, dup, missing, msg))
        sys.exit(1)
sys.exit(0)
