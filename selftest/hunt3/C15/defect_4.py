"""One tessellator object assigned to two surfaces: the second surface reports the mesh of the first one."""
import sys
from geomdl import tessellate, operations
from common_surf import make_surface

tsl = tessellate.TriangularTessellate()
a = make_surface(4)
b = operations.translate(make_surface(4), (10.0, 0.0, 0.0))
a.tessellator = tsl
b.tessellator = tsl
va = [v.data for v in a.vertices]
worst = 0.0
for v in b.vertices:
    p = b.evaluate_single(v.uv)
    worst = max(worst, max(abs(x - y) for x, y in zip(p, v.data)))
if worst > 1e-9:
    print("DEFECT: b.vertices are not on surface b (max deviation %g): the shared tessellator still holds the mesh of a" % worst)
    sys.exit(1)
sys.exit(0)
