from geomdl import BSpline, knotvector


def make_surface(sample_size=5):
    s = BSpline.Surface()
    s.degree_u = 2
    s.degree_v = 2
    pts = [[float(i), float(j), float((i * j) % 3)] for i in range(4) for j in range(4)]
    s.set_ctrlpts(pts, 4, 4)
    s.knotvector_u = knotvector.generate(2, 4)
    s.knotvector_v = knotvector.generate(2, 4)
    s.sample_size = sample_size
    return s


def polygon_trim(pts):
    c = BSpline.Curve()
    c.degree = 1
    c.ctrlpts = [list(p) for p in pts] + [list(pts[0])]
    c.knotvector = knotvector.generate(1, len(pts) + 1)
    c.sample_size = len(pts) + 1
    return c
