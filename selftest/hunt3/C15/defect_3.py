"""Exporters silently ignore vertex_spacing (update_delta=False) when the surface has been tessellated before."""
import sys
from geomdl import exchange, multi
from common_surf import make_surface


def count_off(txt):
    return [int(x) for x in txt.split("\n")[1].split()[:2]]


fresh = make_surface(9)
expected = count_off(exchange.export_off_str(fresh, vertex_spacing=2, update_delta=False))   # 5 x 5 vertices, 32 triangles

s = make_surface(9)
_ = s.vertices                                    # e.g. the surface has been rendered / inspected before (spacing 1)
got = count_off(exchange.export_off_str(s, vertex_spacing=2, update_delta=False))
c = multi.SurfaceContainer(make_surface(9), make_surface(9))
c.tessellate(delta=False)
got_c = count_off(exchange.export_off_str(c, vertex_spacing=2, update_delta=False))
if got != expected or got_c != [2 * expected[0], 2 * expected[1]]:
    print("DEFECT: export_off_str(vertex_spacing=2, update_delta=False) of an already tessellated surface writes %s "
          "vertices/faces (container: %s), a fresh surface writes %s" % (got, got_c, expected))
    sys.exit(1)
sys.exit(0)
