"""(outside the formats named in C15) VTK polydata export of a quad tessellation writes 4 indices with a count of 3."""
import sys
from geomdl import tessellate, exchange_vtk
from common_surf import make_surface

s = make_surface(3)
s.tessellator = tessellate.QuadTessellate()
L = exchange_vtk.export_polydata_str(s, tessellate=True).split("\n")
i = [k for k, l in enumerate(L) if l.startswith("POLYGONS")][0]
n, size = [int(x) for x in L[i].split()[1:]]
cells = [[int(x) for x in l.split()] for l in L[i + 1:i + 1 + n]]
if any(c[0] != len(c) - 1 for c in cells) or size != sum(len(c) for c in cells):
    print("DEFECT: POLYGONS header '%s', first cell '%s': cell count field %d but %d indices; size field %d but %d numbers"
          % (L[i], L[i + 1], cells[0][0], len(cells[0]) - 1, size, sum(len(c) for c in cells)))
    sys.exit(1)
sys.exit(0)
