# basis_function_one / basis_function_ders_one at the END of the domain of an UNCLAMPED knot vector:
# the single-function variants evaluate the right-hand piece (outside of the domain), the span based variants
# (find_span_* + basis_function / basis_function_ders) the last knot span of the domain.
import sys
from geomdl import helpers

msgs = []

# (a) degree 1, simple knots: first derivatives at the domain end u = 2 of U = [0, 1, 2, 3] (domain [1, 2])
p, U, nc, u = 1, [0.0, 1.0, 2.0, 3.0], 2, 2.0
span = helpers.find_span_linear(p, U, nc, u)
assert span == helpers.find_span_binsearch(p, U, nc, u) == 1
ders = helpers.basis_function_ders(p, U, span, u, 1)            # [[0, 1], [-1, 1]]
ones = [helpers.basis_function_ders_one(p, U, i, u, 1) for i in range(nc)]
d1 = [o[1] for o in ones]
if ders[1] != d1:
    msgs.append("degree 1: ders %r != ders_one %r (sum %r)" % (ders[1], d1, sum(d1)))

# (b) degree 2, end knot of multiplicity 3: function VALUES at the domain end u = 3 of U = [0,1,2,3,3,3,4]
p, U, nc, u = 2, [0.0, 1.0, 2.0, 3.0, 3.0, 3.0, 4.0], 4, 3.0
span = helpers.find_span_linear(p, U, nc, u)
assert span == helpers.find_span_binsearch(p, U, nc, u) == 2
N = [0.0] * nc
N[span - p:span + 1] = helpers.basis_function(p, U, span, u)     # [0, 0, 1, 0]
one = [helpers.basis_function_one(p, U, i, u) for i in range(nc)]
one_d = [helpers.basis_function_ders_one(p, U, i, u, 0)[0] for i in range(nc)]
if N != one or N != one_d:
    msgs.append("degree 2: basis_function %r, basis_function_one %r, basis_function_ders_one %r" % (N, one, one_d))

if msgs:
    print("DEFECT: single-function basis variants disagree at the end of an unclamped domain: " + "; ".join(msgs))
    sys.exit(1)
sys.exit(0)
