# basis_function_one returns 1 for the first / last basis function at the first / last knot without looking at the
# knot vector: with an end knot of multiplicity > degree + 1 (accepted by knotvector.check and by the shape classes)
# that function is identically zero and another one is 1, so the single-function values do not sum to one.
import sys
from geomdl import helpers, knotvector

p, U, nc = 2, [0.0, 0.0, 0.0, 0.0, 1.0, 1.0, 1.0], 4
assert knotvector.check(p, U, nc)
u = 0.0
span = helpers.find_span_linear(p, U, nc, u)
assert span == helpers.find_span_binsearch(p, U, nc, u) == 3
N = [0.0] * nc
N[span - p:span + 1] = helpers.basis_function(p, U, span, u)     # [0, 1, 0, 0]
one = [helpers.basis_function_one(p, U, i, u) for i in range(nc)]
one_d = [helpers.basis_function_ders_one(p, U, i, u, 0)[0] for i in range(nc)]   # [0, 1, 0, 0]
if one != N or abs(sum(one) - 1.0) > 1e-12:
    print("DEFECT: basis_function_one %r (sum %r) != basis_function %r / basis_function_ders_one %r" % (one, sum(one), N, one_d))
    sys.exit(1)
sys.exit(0)
