# vector_angle_between raises ValueError (math domain error) for parallel / anti-parallel vectors
import sys, math
from geomdl import linalg
cases = [([1, 1, 1], [1, 1, 1], 0.0), ([1, 1, 1], [-1, -1, -1], 180.0), ([27, -19, -17], [54, -38, -34], 0.0),
         ([1, 1, 1], [1, 1, 0], math.degrees(math.acos(2 / math.sqrt(6))))]
for a, b, expected in cases:
    try:
        r = linalg.vector_angle_between(a, b)
    except ValueError as e:
        print("DEFECT: vector_angle_between(%s, %s) raised ValueError(%s), expected %s" % (a, b, e, expected))
        sys.exit(1)
    if abs(r - expected) > 1e-5:
        print("DEFECT: vector_angle_between(%s, %s) = %r, expected %s" % (a, b, r, expected))
        sys.exit(1)
sys.exit(0)
