# A numpy float32 matrix is factorised in float32 arithmetic (numpy scalar - python float stays float32), so
# lu_solve / lu_factor / matrix_inverse / matrix_determinant are only accurate to ~1e-7 although the same matrix given
# as a list (A.tolist()) or as float64 is solved to ~1e-16
import sys
import numpy as np
from fractions import Fraction as F
from geomdl import linalg
A = np.array([[3, 1], [1, 2]], dtype=np.float32)   # exactly representable, cond ~ 2.6
b = [[1.0], [1.0]]
exact = [F(1, 5), F(2, 5)]
for name, fn in (("lu_solve", linalg.lu_solve), ("lu_factor", linalg.lu_factor)):
    x_np = fn(A, b)
    x_list = fn(A.tolist(), b)
    e_np = max(abs(F(float(x_np[i][0])) - exact[i]) for i in range(2))
    e_list = max(abs(F(float(x_list[i][0])) - exact[i]) for i in range(2))
    if e_np > 1e-12:
        print("DEFECT: %s(float32 array) error %.3g, same matrix as list error %.3g" % (name, float(e_np), float(e_list)))
        sys.exit(1)
d = linalg.matrix_determinant(np.array([[3, 1], [1, 2]], dtype=np.float32))
if abs(d - 5.0) > 1e-12:
    print("DEFECT: matrix_determinant(float32 array) = %r, expected 5.0" % d)
    sys.exit(1)
sys.exit(0)
