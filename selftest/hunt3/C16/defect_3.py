# vector_magnitude (and vector_normalize / point_distance built on it) squares the components naively:
# the norm of a representable vector under-flows to 0.0 or raises OverflowError
import sys
from geomdl import linalg
for s in (1e-200, 1e-170, 1e-160, 1e160, 1e200):
    v = [3 * s, 4 * s, 0.0]
    try:
        r = linalg.vector_magnitude(v)
        d = linalg.point_distance([0.0, 0.0, 0.0], v)
        u = linalg.vector_normalize(v)
    except (OverflowError, ValueError) as e:
        print("DEFECT: norm/normalize of %s raised %s(%s); the norm is %r" % (v, type(e).__name__, e, 5 * s))
        sys.exit(1)
    if abs(r - 5 * s) > 1e-9 * 5 * s or abs(d - 5 * s) > 1e-9 * 5 * s or max(abs(a - b) for a, b in zip(u, (0.6, 0.8, 0.0))) > 1e-9:
        print("DEFECT: vector_magnitude(%s) = %r, expected %r; normalize = %s" % (v, r, 5 * s, u))
        sys.exit(1)
sys.exit(0)
