# frange yields a value beyond `stop` when the last remainder is bigger than step / 2
import sys
from geomdl import linalg
for start, stop, step in ((0, 1, 0.6), (0, 2, 0.7), (-1, 7.57, 1.0), (0.0, 10.0, 4.0), (0, 1, 0.3), (0, 1, 0.1)):
    vals = list(linalg.frange(start, stop, step))
    if max(vals) > stop or vals[0] != start or vals[-1] != stop or any(b <= a for a, b in zip(vals, vals[1:])):
        print("DEFECT: frange(%s, %s, %s) = %s leaves [start, stop] or does not end at stop" % (start, stop, step, vals))
        sys.exit(1)
    # every value except the last one is start + i * step
    if any(abs(v - (start + i * step)) > 1e-12 for i, v in enumerate(vals[:-1])):
        print("DEFECT: frange(%s, %s, %s) = %s is not start + i * step" % (start, stop, step, vals))
        sys.exit(1)
sys.exit(0)
