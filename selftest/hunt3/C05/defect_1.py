"""C05: helpers.knot_refinement with a knot of knot_list / add_knot_list that coincides with an existing knot
up to rounding (0.1 + 0.2 vs 0.3): the existing knot is matched with a tolerance when its multiplicity is counted,
but the rounded value itself is inserted (and bisected against the existing one), so the refined knot vector holds
more than degree (even more than degree + 1) copies of "the same" interior knot, separated by a zero-length span."""
import sys
from geomdl import helpers, BSpline

p = 3
kv = [0.0, 0.0, 0.0, 0.0, 0.3, 0.5, 1.0, 1.0, 1.0, 1.0]
cp = [[0.0, 0.0], [1.0, 2.0], [2.0, -1.0], [3.0, 3.0], [4.0, 0.5], [5.0, 1.0]]
msgs = []

# (a) additional knot: 0.1 + 0.2 = 0.30000000000000004 is "the knot 0.3" for find_multiplicity
ncp, nkv = helpers.knot_refinement(p, kv, cp, add_knot_list=[0.1 + 0.2])
m = helpers.find_multiplicity(0.3, nkv)
if m != p:
    msgs.append("add_knot_list=[0.1+0.2]: knot 0.3 has multiplicity %d after refinement of a degree %d curve" % (m, p))
# reference: the same call with the exact value
rcp, rkv = helpers.knot_refinement(p, kv, cp, add_knot_list=[0.3])
if len(nkv) != len(rkv):
    msgs.append("add_knot_list=[0.1+0.2] gives %d knots, add_knot_list=[0.3] gives %d" % (len(nkv), len(rkv)))

# (b) explicit knot list: the refined knot vector must not contain two different values for one knot
ncp2, nkv2 = helpers.knot_refinement(p, kv, cp, knot_list=[0.1 + 0.2])
vals = sorted(set(k for k in nkv2 if abs(k - 0.3) < 1e-7))
if len(vals) != 1:
    msgs.append("knot_list=[0.1+0.2]: the refined knot vector holds the knot 0.3 as %d different values %r" % (len(vals), vals))

# consequence: derivatives at the knot of the curve built from the result
c0 = BSpline.Curve(); c0.degree = p; c0.ctrlpts = cp; c0.knotvector = kv
c1 = BSpline.Curve(); c1.degree = p; c1.ctrlpts = ncp; c1.knotvector = nkv
d0 = c0.derivatives(0.3, 1)[1]; d1 = c1.derivatives(0.3, 1)[1]
err = max(abs(a - b) for a, b in zip(d0, d1))
if err > 1e-6:
    msgs.append("first derivative at u=0.3 changed by %g" % err)

# (c) no rounded user input at all: the bisection of an explicit knot_list lands on an existing knot which is not in the list
kv3 = [0.0, 0.0, 0.0, 0.2, 0.4, 0.6, 0.8, 1.0, 1.0, 1.0]
cp3 = [[0.0, 0.0], [1.0, 2.0], [2.0, -1.0], [3.0, 3.0], [4.0, 0.5], [5.0, 1.0], [6.0, -2.0]]
ncp3, nkv3 = helpers.knot_refinement(2, kv3, cp3, knot_list=[0.4, 0.8])   # 0.4 + (0.8 - 0.4) / 2 = 0.6000000000000001
vals = sorted(set(k for k in nkv3 if abs(k - 0.6) < 1e-7))
if len(vals) != 1:
    msgs.append("knot_list=[0.4, 0.8]: the refined knot vector holds the knot 0.6 as %d different values %r" % (len(vals), vals))
c2 = BSpline.Curve(); c2.degree = 2; c2.ctrlpts = cp3; c2.knotvector = kv3
c3 = BSpline.Curve(); c3.degree = 2; c3.ctrlpts = ncp3; c3.knotvector = nkv3
e = max(abs(a - b) for a, b in zip(c2.derivatives(0.6, 1)[1], c3.derivatives(0.6, 1)[1]))
if e > 1e-6:
    msgs.append("(c) first derivative at u=0.6 changed by %g" % e)

if msgs:
    print("DEFECT: " + "; ".join(msgs))
    sys.exit(1)
sys.exit(0)
