"""C09 defect 5: CPGen.GridWeighted empties and refills its cached weighted grid IN PLACE, so the list returned by an
earlier read of `grid` is the very list returned by every later read: changing the weights (or calling bumps / reset /
generate) silently rewrites -- or empties -- the weighted control points the caller obtained before.  Two weighted grids
taken from one generator with different weights end up identical.

exit 1 while the defect is present, 0 once fixed."""
import sys, copy
from geomdl import CPGen

msgs = []
G = CPGen.GridWeighted(4.0, 6.0, z_value=1.0)
G.generate(2, 3)
n = 3 * 4

G.weight = [0.5 + 0.25 * i for i in range(n)]
first = G.grid                      # weighted control points for a first surface
first_copy = copy.deepcopy(first)

G.weight = 2.0                      # the generator is re-used with other weights
second = G.grid

if first != first_copy:
    msgs.append("the weighted grid read before `weight = 2.0` was rewritten: first point %r -> %r" % (first_copy[0][1], first[0][1]))
if first is second:
    msgs.append("both reads return the same list object")

G.reset()
if second == []:
    msgs.append("reset() emptied the weighted grid which had been handed out")

if msgs:
    print("DEFECT PRESENT: " + "; ".join(msgs))
    sys.exit(1)
print("ok")
sys.exit(0)
