"""C09 defect 4: construct.construct_surface / construct_volume decide from the FIRST input only whether the result is
rational.  With a non-rational first curve and rational further curves the weights of the rational inputs are silently
discarded (their unweighted control points are used as if all weights were 1), so the constructed surface does not
contain the rational curve it was constructed from; with the inputs in the other order the call raises.  A B-spline curve
and its bspline_to_nurbs() conversion (unit weights, identically evaluating) therefore give different results.

exit 1 while the defect is present, 0 once fixed."""
import sys, math
from geomdl import BSpline, NURBS, construct, convert

msgs = []

line = BSpline.Curve()
line.degree = 2
line.ctrlpts = [[0, 0, 0], [1, 0, 0], [2, 0, 0]]
line.knotvector = [0, 0, 0, 1, 1, 1]

arc = NURBS.Curve()          # quarter of the unit circle in the plane z = 1
arc.degree = 2
arc.ctrlpts = [[1, 0, 1], [1, 1, 1], [0, 1, 1]]
arc.weights = [1, math.sqrt(0.5), 1]
arc.knotvector = [0, 0, 0, 1, 1, 1]


def dist(a, b):
    return max(abs(x - y) for x, y in zip(a, b))


def check_surface(first, second, tag):
    try:
        srf = construct.construct_surface('u', first, second, degree=1)
    except Exception as e:
        msgs.append("%s: raises %s" % (tag, str(e).strip()))
        return
    for t in (0.25, 0.5, 0.75):
        d0 = dist(srf.evaluate_single((0.0, t)), first.evaluate_single(t))
        d1 = dist(srf.evaluate_single((1.0, t)), second.evaluate_single(t))
        if max(d0, d1) > 1e-12:
            msgs.append("%s: boundary curve is off by %.3g at t=%g (weights of the rational input dropped)" % (tag, max(d0, d1), t))
            return


check_surface(line, arc, "construct_surface(bspline, nurbs)")
check_surface(arc, line, "construct_surface(nurbs, bspline)")
# reference: the same with the identically evaluating rational form of the line works
check_surface(convert.bspline_to_nurbs(line), arc, "construct_surface(bspline_to_nurbs(bspline), nurbs)")

# volumes from surfaces
flat = BSpline.Surface()
flat.degree_u = 1
flat.degree_v = 2
flat.set_ctrlpts([[0, 0, 0], [0, 1, 0], [0, 2, 0], [1, 0, 0], [1, 1, 0], [1, 2, 0]], 2, 3)
flat.knotvector_u = [0, 0, 1, 1]
flat.knotvector_v = [0, 0, 0, 1, 1, 1]
bent = NURBS.Surface()
bent.degree_u = 1
bent.degree_v = 2
bent.ctrlpts_size_u = 2
bent.ctrlpts_size_v = 3
bent.ctrlpts = [[0, 1, 1], [0, 1, 2], [0, 0, 2], [1, 1, 1], [1, 1, 2], [1, 0, 2]]
bent.weights = [1, math.sqrt(0.5), 1, 1, math.sqrt(0.5), 1]
bent.knotvector_u = [0, 0, 1, 1]
bent.knotvector_v = [0, 0, 0, 1, 1, 1]
for first, second, tag in ((flat, bent, "construct_volume(bspline, nurbs)"), (bent, flat, "construct_volume(nurbs, bspline)")):
    try:
        vol = construct.construct_volume('w', first, second, degree=1)
    except Exception as e:
        msgs.append("%s: raises %s" % (tag, str(e).strip()))
        continue
    d = max(dist(vol.evaluate_single((0.5, 0.5, 0.0)), first.evaluate_single((0.5, 0.5))),
            dist(vol.evaluate_single((0.5, 0.5, 1.0)), second.evaluate_single((0.5, 0.5))))
    if d > 1e-12:
        msgs.append("%s: boundary surface is off by %.3g" % (tag, d))

if msgs:
    print("DEFECT PRESENT: " + "; ".join(msgs))
    sys.exit(1)
print("ok")
sys.exit(0)
