"""C09 defect 2 (aliasing): the `ctrlpts` / `weights` getters of the NURBS classes hand out the internal cache lists and the
`ctrlpts` / `weights` setters read those caches back.  Editing a list obtained from a getter therefore
  (a) makes the three views disagree (P * w != Pw), and
  (b) is applied to the shape later by an unrelated operation (translate / scale / rotate / any `ctrlpts =` or `weights =`).
Editing `ctrlptsw` (the storage itself) in place leaves `ctrlpts` / `weights` stale in the same way.

exit 1 while the defect is present, 0 once fixed."""
import sys
from geomdl import NURBS, operations

msgs = []


def make():
    crv = NURBS.Curve()
    crv.degree = 2
    crv.ctrlpts = [[0.0, 0.0, 0.0], [1.0, 2.0, 0.0], [3.0, 1.0, 1.0], [4.0, 0.0, 2.0]]
    crv.weights = [1.0, 2.0, 0.5, 1.0]
    crv.knotvector = [0, 0, 0, 0.5, 1, 1, 1]
    return crv


def consistent(o):
    for pw, p, w in zip(o.ctrlptsw, o.ctrlpts, o.weights):
        if pw[-1] != w or any(abs(a * w - b) > 1e-12 * max(1.0, abs(b)) for a, b in zip(p, pw)):
            return False
    return True


# (a)+(b): edit of a kept weights list
crv = make()
w = crv.weights            # caller keeps the list he has read
w[1] = 10.0                # ... and uses it for something else
if not consistent(crv):
    msgs.append("editing the list returned by `weights` makes weights/ctrlptsw disagree")
before = crv.evaluate_single(0.3)
operations.translate(crv, [0.0, 0.0, 0.0], inplace=True)   # identity translation
after = crv.evaluate_single(0.3)
if max(abs(a - b) for a, b in zip(before, after)) > 1e-12:
    msgs.append("a null translation moved the curve from %r to %r (stale edit of the weights list applied)" % (before, after))

# same through the control points
crv = make()
p = crv.ctrlpts
p[2][0] = 100.0
if not consistent(crv):
    msgs.append("editing the list returned by `ctrlpts` makes ctrlpts/ctrlptsw disagree")
before = crv.evaluate_single(0.6)
crv.weights = [1.0, 2.0, 0.5, 1.0]      # the same weights again
after = crv.evaluate_single(0.6)
if max(abs(a - b) for a, b in zip(before, after)) > 1e-12:
    msgs.append("re-assigning the same weights moved the curve from %r to %r" % (before, after))

# storage edited in place: the other two views stay stale
crv = make()
_ = crv.ctrlpts, crv.weights
crv.ctrlptsw[1][-1] = 4.0
crv.ctrlptsw[1][0] = 4.0
if not consistent(crv):
    msgs.append("after an in-place edit of ctrlptsw the weights/ctrlpts getters return stale values")

if msgs:
    print("DEFECT PRESENT: " + "; ".join(msgs))
    sys.exit(1)
print("ok")
sys.exit(0)
