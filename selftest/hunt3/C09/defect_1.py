"""C09 defect 1: weights (or control points) given as numpy float32 numbers make the library compute P*w in single
precision, so setting the weights moves the control points by ~1e-8 .. 1e-7 (relative); setting `weights` and reading
`ctrlpts` back does not round-trip and the shape moves, even for weights like 0.5 / 2.0 / 4.0 for which P*w is exact.

exit 1 while the defect is present, 0 once fixed."""
import sys
from fractions import Fraction as F
import numpy as np
from geomdl import NURBS, compatibility

P = [[0.1, 0.2, 0.3], [1.1, 2.3, 0.7], [3.3, 1.9, 2.2], [4.7, -0.9, 1.3]]
W64 = [0.5, 2.0, 4.0, 0.3]                      # python floats
W32 = np.array(W64, dtype=np.float32)           # what a caller holding a float32 array passes
msgs = []


def worst(got, exact):
    return max(abs(F(a) - b) / abs(b) for p, q in zip(got, exact) for a, b in zip(p, q))


# 1) weights setter
crv = NURBS.Curve()
crv.degree = 3
crv.ctrlpts = P
crv.knotvector = [0, 0, 0, 0, 1, 1, 1, 1]
before = crv.evaluate_single(0.5)
crv.weights = W32
# exact homogeneous points for the numbers which were passed (a float32 is an exact rational number)
exact_pw = [[F(c) * F(float(w)) for c in p] for p, w in zip(P, W32)]
e1 = worst([pw[:-1] for pw in crv.ctrlptsw], exact_pw)
e2 = worst(crv.ctrlpts, [[F(c) for c in p] for p in P])
if e1 > 1e-12:
    msgs.append("weights=float32 array: ctrlptsw off by %.1e (relative)" % e1)
if e2 > 1e-12:
    msgs.append("weights=float32 array: ctrlpts read back off by %.1e (relative)" % e2)

# 2) ctrlpts setter with rows of float32 and python float weights
crv2 = NURBS.Curve()
crv2.degree = 3
P32 = np.array(P, dtype=np.float32)
crv2.ctrlpts = P32
crv2.weights = W64
crv2.ctrlpts = P32          # existing weights are multiplied with float32 coordinates
e3 = worst(crv2.ctrlpts, [[F(float(c)) for c in p] for p in P32])
if e3 > 1e-12:
    msgs.append("ctrlpts=float32 array: ctrlpts read back off by %.1e (relative)" % e3)

# 3) helper functions
pw = compatibility.combine_ctrlpts_weights(P, list(W32))
e4 = worst([q[:-1] for q in pw], exact_pw)
if e4 > 1e-12:
    msgs.append("combine_ctrlpts_weights off by %.1e" % e4)
pw = compatibility.generate_ctrlptsw([p + [w] for p, w in zip(P, W32)])
e5 = worst([q[:-1] for q in pw], exact_pw)
if e5 > 1e-12:
    msgs.append("generate_ctrlptsw off by %.1e" % e5)

if msgs:
    print("DEFECT PRESENT: " + "; ".join(msgs))
    sys.exit(1)
print("ok")
sys.exit(0)
