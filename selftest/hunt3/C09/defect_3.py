"""C09 defect 3: convert.bspline_to_nurbs / nurbs_to_bspline drop the evaluation settings (delta / sample size) of the
input, so the converted shape does not evaluate identically: `evalpts` of the result is sampled with the class default
(100 points for a curve, 20 x 20 for a surface ...) instead of the sampling of the input.

exit 1 while the defect is present, 0 once fixed."""
import sys
from geomdl import BSpline, convert

msgs = []


def same_pts(a, b):
    return len(a) == len(b) and all(max(abs(x - y) for x, y in zip(p, q)) < 1e-12 for p, q in zip(a, b))


crv = BSpline.Curve()
crv.degree = 2
crv.ctrlpts = [[0, 0, 0], [1, 2, 0], [3, 1, 1], [4, 0, 2]]
crv.knotvector = [0, 0, 0, 0.5, 1, 1, 1]
crv.sample_size = 5
ncrv = convert.bspline_to_nurbs(crv)
if not same_pts(crv.evalpts, ncrv.evalpts):
    msgs.append("curve: %d evaluated points before, %d after bspline_to_nurbs" % (len(crv.evalpts), len(ncrv.evalpts)))
ncrv.sample_size = 7
bcrv = convert.nurbs_to_bspline(ncrv)
if not same_pts(ncrv.evalpts, bcrv.evalpts):
    msgs.append("curve: %d evaluated points before, %d after nurbs_to_bspline" % (len(ncrv.evalpts), len(bcrv.evalpts)))

srf = BSpline.Surface()
srf.degree_u = 1
srf.degree_v = 2
srf.set_ctrlpts([[0, 0, 0], [0, 1, 1], [0, 2, 0], [1, 0, 0], [1, 1, 2], [1, 2, 1]], 2, 3)
srf.knotvector_u = [0, 0, 1, 1]
srf.knotvector_v = [0, 0, 0, 1, 1, 1]
srf.sample_size_u = 3
srf.sample_size_v = 7
nsrf = convert.bspline_to_nurbs(srf)
if not same_pts(srf.evalpts, nsrf.evalpts):
    msgs.append("surface: %d evaluated points before, %d after bspline_to_nurbs" % (len(srf.evalpts), len(nsrf.evalpts)))

vol = BSpline.Volume()
vol.degree_u = vol.degree_v = vol.degree_w = 1
vol.set_ctrlpts([[float(u), float(v), float(w)] for w in range(2) for u in range(2) for v in range(2)], 2, 2, 2)
vol.knotvector_u = vol.knotvector_v = vol.knotvector_w = [0, 0, 1, 1]
vol.sample_size = 3
nvol = convert.bspline_to_nurbs(vol)
if not same_pts(vol.evalpts, nvol.evalpts):
    msgs.append("volume: %d evaluated points before, %d after bspline_to_nurbs" % (len(vol.evalpts), len(nvol.evalpts)))

if msgs:
    print("DEFECT PRESENT: " + "; ".join(msgs))
    sys.exit(1)
print("ok")
sys.exit(0)
