"""C14: the sampling density of a container trim is lost by export_json / import_json.

The trim is a curve container (two arcs closing a loop) sampled with the container's delta; the exporter writes the
deltas of the element curves, the importer restores them on the elements but leaves the container at its default delta
(0.01), and the container overwrites the deltas of its elements whenever it is evaluated. The trimmed surface read back
is therefore trimmed (tessellated) with another polygon than the one written.
"""
import os
import sys
import tempfile
from geomdl import BSpline, multi, exchange, tessellate


def arc(p0, p1, p2):
    c = BSpline.Curve()
    c.degree = 2
    c.ctrlpts = [p0, p1, p2]
    c.knotvector = [0, 0, 0, 1, 1, 1]
    return c


surf = BSpline.Surface()
surf.degree_u, surf.degree_v = 1, 1
surf.set_ctrlpts([[0, 0, 0], [0, 1, 0], [1, 0, 0], [1, 1, 1]], 2, 2)
surf.knotvector_u = [0, 0, 1, 1]
surf.knotvector_v = [0, 0, 1, 1]
surf.sample_size = 12

loop = multi.CurveContainer()
loop.add(arc([0.3, 0.5], [0.5, 0.9], [0.7, 0.5]))
loop.add(arc([0.7, 0.5], [0.5, 0.1], [0.3, 0.5]))
loop.sample_size = 5           # sampling density of the trim: 5 points per element
loop.opt = ['reversed', 0]
surf.trims = [loop]

fn = os.path.join(tempfile.mkdtemp(), "trimmed.json")
exchange.export_json(surf, fn)
back = exchange.import_json(fn)[0]

t0, t1 = surf.trims[0], back.trims[0]
n0, n1 = len(t0.evalpts), len(t1.evalpts)

# effect on the geometry of the trimmed surface
surf.tessellator = tessellate.TrimTessellate()
back.tessellator = tessellate.TrimTessellate()
surf.tessellate()
back.tessellate()
f0, f1 = len(surf.faces), len(back.faces)

if (t0.delta, n0) != (t1.delta, n1) or f0 != f1:
    print("DEFECT: container trim written with delta %g (%d trim points, %d faces), read back with delta %g "
          "(%d trim points, %d faces)" % (t0.delta, n0, f0, t1.delta, n1, f1))
    sys.exit(1)
print("ok")
