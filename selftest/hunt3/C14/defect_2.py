"""C14: a container trim holding a freeform curve (documented JSON layout: "data: a list of freeform and/or spline
geometries"; also what export_dict_multi_crv writes for such a container) cannot be read back: import_json fails with
AttributeError because multi.AbstractContainer.add() asks the freeform geometry for a 'pdimension' it does not have.
"""
import json
import os
import sys
import tempfile
from geomdl import exchange, multi, freeform, BSpline, _exchange

# what the exporter writes for a container trim with a spline and a freeform element
line = BSpline.Curve()
line.degree = 1
line.ctrlpts = [[0.2, 0.2], [0.8, 0.2]]
line.knotvector = [0, 0, 1, 1]
ff = freeform.Freeform()
ff.evaluate(points=[[0.8, 0.2], [0.5, 0.8], [0.2, 0.2]])
trim_data = dict(type="container", count=2, data=[_exchange.export_dict_crv(line), _exchange.export_dict_ff(ff)],
                 reversed=0)

surf_data = dict(type="spline", rational=False, dimension=3, degree_u=1, degree_v=1,
                 knotvector_u=[0, 0, 1, 1], knotvector_v=[0, 0, 1, 1], size_u=2, size_v=2,
                 control_points=dict(points=[[0, 0, 0], [0, 1, 0], [1, 0, 0], [1, 1, 1]]), delta=[0.1, 0.1],
                 trims=dict(count=1, data=[trim_data]))
fn = os.path.join(tempfile.mkdtemp(), "s.json")
with open(fn, "w") as fp:
    json.dump(dict(shape=dict(type="surface", count=1, data=[surf_data])), fp)

try:
    surf = exchange.import_json(fn)[0]
    trim = surf.trims[0]
    pts = [list(p) for p in trim[1].evalpts]
except Exception as e:
    print("DEFECT: import_json of a container trim with a freeform element: %s: %s" % (type(e).__name__, e))
    sys.exit(1)
if len(trim) != 2 or pts != [[0.8, 0.2], [0.5, 0.8], [0.2, 0.2]]:
    print("DEFECT: freeform element of the container trim not restored")
    sys.exit(1)
print("ok")
