"""C17 / defect 2: trimming.fix_trim_curves decides the sense of a trim curve (and whether the trim is kept at all) with
ABSOLUTE tolerances (10e-8) on cross products / distances measured in the parametric space of the surface, so its result
depends on the range of the knot vectors (normalize_kv=True vs normalize_kv=False with the trims mapped affinely).

Case A (open trim from the left to the right edge of the domain, knot range [0, 0.01]):
  normalised surface   -> the region above the trim is removed, remaining parametric area 0.438
  knot range [0, 0.01] -> the other side is removed, remaining parametric area 0.568
Case B (closed trim, knot range [0, 0.001]): the trim curve is silently dropped (sense "cannot be determined"), the surface
  is not trimmed at all; the normalised twin keeps the trim with 'reversed' = 0.
"""
import sys
from geomdl import BSpline, tessellate, trimming


def build(a, b, norm, closed):
    s = BSpline.Surface(normalize_kv=norm)
    s.degree_u = s.degree_v = 2
    cp = [[float(i), float(j), float((i * i + j) % 3)] for i in range(4) for j in range(4)]
    s.set_ctrlpts(cp, 4, 4)
    kv = [0, 0, 0, 0.5, 1, 1, 1]
    s.knotvector_u = [a + (b - a) * k for k in kv]
    s.knotvector_v = [a + (b - a) * k for k in kv]
    s.sample_size = 9
    (u0, u1), (v0, v1) = s.domain
    t = BSpline.Curve()
    t.degree = 2
    if closed:
        pts = [[0.5, 0.2], [0.8, 0.2], [0.8, 0.8], [0.2, 0.8], [0.2, 0.2], [0.5, 0.2]]
    else:
        pts = [[0.0, 0.4], [0.5, 0.9], [1.0, 0.4]]
    t.ctrlpts = [[u0 + (u1 - u0) * p[0], v0 + (v1 - v0) * p[1]] for p in pts]
    t.knotvector = [0, 0, 0, 0.25, 0.5, 0.75, 1, 1, 1] if closed else [0, 0, 0, 1, 1, 1]
    t.delta = 0.01
    s.trims = [t]
    trimming.fix_trim_curves(s)
    s.tessellator = tessellate.TrimTessellate()
    s.tessellate()
    return s


def norm_area(s):
    (u0, u1), (v0, v1) = s.domain
    total = 0.0
    for f in s.faces:
        (a, b), (c, d), (e, g) = [((v.uv[0] - u0) / (u1 - u0), (v.uv[1] - v0) / (v1 - v0)) for v in f.vertices]
        total += abs((c - a) * (g - b) - (e - a) * (d - b)) / 2.0
    return total


def senses(s):
    out = []
    for t in s.trims:
        out.append([c.opt_get('reversed') for c in t] if t.type == "container" else t.opt_get('reversed'))
    return out


msgs = []
for closed, rng in ((False, (0.0, 0.01)), (True, (0.0, 0.001))):
    ref = build(0.0, 1.0, True, closed)
    oth = build(rng[0], rng[1], False, closed)
    a1, a2 = norm_area(ref), norm_area(oth)
    if abs(a1 - a2) > 1e-3 or senses(ref) != senses(oth):
        msgs.append("%s trim, knot range %s: senses %s area %.4f; normalised: senses %s area %.4f"
                    % ("closed" if closed else "open", rng, senses(oth), a2, senses(ref), a1))
if msgs:
    print("DEFECT: fix_trim_curves depends on the knot range: " + "; ".join(msgs))
    sys.exit(1)
print("OK")
sys.exit(0)
