"""C17 / defect 1: trimmed tessellation depends on the knot range of the surface (normalize_kv=True vs False).

The same bi-quadratic surface is built twice: with knot vectors normalised to [0, 1] and with the knot vectors kept on
[0, 200] (normalize_kv=False). The trim curve is the square [0.25, 0.75]^2 of the parametric space (mapped affinely for the
second surface) with sense 'reversed' = 1 (keep the inside). The sample grid (5 x 5) has grid lines on the trim edges.
Expected: the same triangles (in normalised parameters), covering a parametric area of 0.25.
Observed: normalised -> 9 triangles, area 0.25; range [0, 200] -> 8 triangles, area 0.21875.
Cause: _tessellate.surface_trim_tessellate moves a vertex by an ABSOLUTE parametric offset of (10e-8)**2 = 1e-14 before the
point-in-trim test; the offset is lost by rounding when the parameter values are >= 128.
"""
import sys
from geomdl import BSpline, tessellate


def build(a, b, norm, rev):
    s = BSpline.Surface(normalize_kv=norm)
    s.degree_u = s.degree_v = 2
    cp = [[float(i), float(j), float((i * i + j) % 3)] for i in range(4) for j in range(4)]
    s.set_ctrlpts(cp, 4, 4)
    kv = [0, 0, 0, 0.5, 1, 1, 1]
    s.knotvector_u = [a + (b - a) * k for k in kv]
    s.knotvector_v = [a + (b - a) * k for k in kv]
    s.sample_size = 5
    (u0, u1), (v0, v1) = s.domain
    t = BSpline.Curve()
    t.degree = 1
    box = [[0.25, 0.25], [0.75, 0.25], [0.75, 0.75], [0.25, 0.75], [0.25, 0.25]]
    t.ctrlpts = [[u0 + (u1 - u0) * p[0], v0 + (v1 - v0) * p[1]] for p in box]
    t.knotvector = [0, 0, 0.25, 0.5, 0.75, 1, 1]
    t.sample_size = 21  # the corners of the square are sampled exactly
    t.opt = ['reversed', rev]
    s.trims = [t]
    s.tessellator = tessellate.TrimTessellate()
    s.tessellate()
    return s


def norm_area(s):
    (u0, u1), (v0, v1) = s.domain
    total = 0.0
    for f in s.faces:
        (a, b), (c, d), (e, g) = [((v.uv[0] - u0) / (u1 - u0), (v.uv[1] - v0) / (v1 - v0)) for v in f.vertices]
        total += abs((c - a) * (g - b) - (e - a) * (d - b)) / 2.0
    return total


msgs = []
for rev in (1, 0):
    ref = build(0.0, 1.0, True, rev)
    for rng in ((0.0, 200.0), (1000.0, 5000.0)):
        oth = build(rng[0], rng[1], False, rev)
        a1, a2 = norm_area(ref), norm_area(oth)
        if abs(a1 - a2) > 1e-9 or len(ref.faces) != len(oth.faces):
            msgs.append("reversed=%d knot range %s: %d faces / area %.6f, normalised: %d faces / area %.6f"
                        % (rev, rng, len(oth.faces), a2, len(ref.faces), a1))
if msgs:
    print("DEFECT: trimmed tessellation depends on the knot range: " + "; ".join(msgs))
    sys.exit(1)
print("OK")
sys.exit(0)
