"""C17 / defect 3: with the default normalize_kv=True a curve cannot be evaluated at a parameter given as a numpy scalar
other than float64 (numpy.float32, numpy.int64, ...) or any other real number type (fractions.Fraction), although the same
call works when the knot vector is kept in its original range (normalize_kv=False) and although derivatives(), evaluate(),
insert_knot() and the surface/volume classes accept such parameters in both modes.

Expected: evaluate_single(np.float32(0.5)) == evaluate_single(0.5) for both settings of normalize_kv.
Observed: TypeError("'numpy.float32' object is not iterable") for normalize_kv=True only.
Cause: abstract.Curve.evaluate_single converts only int/float instances to a list and then hands the bare scalar to
utilities.check_params(), which iterates over it; the check is skipped when normalize_kv=False.
"""
import sys
from fractions import Fraction
import numpy as np
from geomdl import BSpline

msgs = []
for norm in (True, False):
    c = BSpline.Curve(normalize_kv=norm)
    c.degree = 2
    c.ctrlpts = [[0, 0], [1, 2], [3, 1], [4, 4], [6, 0]]
    c.knotvector = [0, 0, 0, 1, 2, 3, 3, 3]
    mid = 0.5 if norm else 1.5
    ref = c.evaluate_single(mid)
    for val in (np.float32(mid), np.float64(mid), Fraction(mid), np.int64(0)):
        for name, fn in (("evaluate_single", lambda v: c.evaluate_single(v)), ("evaluate_list", lambda v: c.evaluate_list([v])[0])):
            try:
                pt = fn(val)
                exp = ref if float(val) == mid else c.evaluate_single(float(val))
                if max(abs(a - b) for a, b in zip(pt, exp)) > 1e-12:
                    msgs.append("normalize_kv=%s %s(%r) wrong point" % (norm, name, val))
            except Exception as e:
                msgs.append("normalize_kv=%s %s(%s(%s)) raises %s" % (norm, name, type(val).__name__, val, type(e).__name__))
if msgs:
    print("DEFECT: curve evaluation fails for some parameter types only when normalize_kv=True: " + "; ".join(msgs))
    sys.exit(1)
print("OK")
sys.exit(0)
