"""proposed repair: choose the meeting point of the two recursions of Eq. 5.28 by the size of alpha (well conditioned side)"""
def stable_remove(p, U, P, u, num):
    U=list(U); P=[list(q) for q in P]
    for _ in range(num):
        r=max(i for i in range(len(U)) if U[i]==u)
        s=U.count(u)
        first=r-p; last=r-s
        al=lambda i:(u-U[i])/(U[i+p+1]-U[i])
        m=first
        while m<last and al(m)>=0.5: m+=1
        Q=[None]*(len(P)-1)
        for i in range(0,first): Q[i]=P[i]
        for i in range(last,len(P)-1): Q[i]=P[i+1]
        for i in range(first,m):
            a=al(i); Q[i]=[(x-(1-a)*y)/a for x,y in zip(P[i],Q[i-1])]
        for i in range(last,m,-1):
            a=al(i); Q[i-1]=[(x-a*y)/(1-a) for x,y in zip(P[i],Q[i])]
        P=Q; del U[r]
    return U,P
if __name__=='__main__':
    import random, copy
    from geomdl import helpers
    rng=random.Random(1)
    for p in (8,10,12):
        for u in (0.99,0.01,0.002):
            for r in (1,p//2,p):
                kv=[0.0]*(p+1)+[1.0]*(p+1)
                P=[[rng.uniform(-1,1) for _ in range(3)] for _ in range(p+1)]
                Q=helpers.knot_insertion(p,kv,P,u,num=r); kvQ=helpers.knot_insertion_kv(kv,u,p,r)
                R=helpers.knot_removal(p,kvQ,Q,u,num=r)
                _,S=stable_remove(p,kvQ,Q,u,r)
                e1=max(abs(a-b) for x,y in zip(P,R) for a,b in zip(x,y))
                e2=max(abs(a-b) for x,y in zip(P,S) for a,b in zip(x,y))
                print(p,u,r,"library %.1e  stable %.1e"%(e1,e2))
