"""C06 defect 1: knot removal (helpers.knot_removal / operations.remove_knot) is numerically unstable for degrees >= ~9 when the
removed knot is 1e-2 .. 2e-3 of the range away from its neighbour knot; a knot that was just inserted is not removed exactly
(errors 1e-7 .. 1e-4) and, when the round-off exceeds the removability tolerance, the control points are dropped without being
updated (error O(1), no exception)."""
import sys, math, copy
from geomdl import BSpline, NURBS, operations, knotvector

def curve(p, n, kv=None, rational=False):
    c = (NURBS.Curve if rational else BSpline.Curve)()
    c.degree = p
    c.ctrlpts = [[math.cos(1.3 * i), math.sin(2.1 * i + 0.4), 0.5 * math.cos(0.7 * i * i)] for i in range(n)]
    if rational:
        c.weights = [1.0 + 0.5 * math.sin(i) for i in range(n)]
    c.knotvector = kv if kv else knotvector.generate(p, n)
    return c

def roundtrip(c, u, r, k=None):
    """insert u r times, remove it r times; relative deviation of control points and evaluated points from the original"""
    cp0 = copy.deepcopy(c.ctrlptsw if c.rational else c.ctrlpts)
    kv0 = list(c.knotvector)
    c.sample_size = 101
    ev0 = copy.deepcopy(c.evalpts)
    operations.insert_knot(c, [u], [r])
    operations.remove_knot(c, [u], [r])
    cp1 = c.ctrlptsw if c.rational else c.ctrlpts
    assert list(c.knotvector) == kv0 and len(cp1) == len(cp0)
    scale = max(abs(x) for p in cp0 for x in p)
    e_cp = max(abs(a - b) for p, q in zip(cp0, cp1) for a, b in zip(p, q)) / scale
    e_ev = max(abs(a - b) for p, q in zip(ev0, c.evalpts) for a, b in zip(p, q)) / scale
    return e_cp, e_ev

cases = [
    ("degree 12 Bezier curve, u=0.99 (1e-2 from the end knot), 12 insertions/removals", curve(12, 13), 0.99, 12),
    ("degree 12 Bezier curve, u=0.99, 1 insertion/removal", curve(12, 13), 0.99, 1),
    ("degree 10 Bezier curve, u=0.01, 10 insertions/removals", curve(10, 11), 0.01, 10),
    ("degree 10 NURBS curve, two Bezier segments joined at 0.5 (multiplicity 10), u=0.505, 4 insertions/removals",
     curve(10, 21, kv=[0.0] * 11 + [0.5] * 10 + [1.0] * 11, rational=True), 0.505, 4),
    ("degree 11 curve, 20 control points, uniform knots, u=0.995, 3 insertions/removals", curve(11, 20), 0.995, 3),
]
bad = []
for name, c, u, r in cases:
    e_cp, e_ev = roundtrip(c, u, r)
    print("%-90s ctrlpts err %.1e  evalpts err %.1e" % (name, e_cp, e_ev))
    if e_cp > 1e-9 or e_ev > 1e-9:
        bad.append(name)
if bad:
    print("DEFECT: insert+remove of a removable knot does not restore the shape to 1e-9 in %d of %d cases" % (len(bad), len(cases)))
    sys.exit(1)
sys.exit(0)
