"""helpers.knot_insertion fails with a TypeError for control points whose coordinates are integers (or whose first
coordinate is an integer) and for control points given as tuples.

The helper accepts two layouts (a list of points, or rows of points for surfaces/volumes) and tells them apart with
isinstance(temp[i][0], float): a point [0, 0.5] or [1, 2] is therefore taken for a row of points and iterated
("'int' object is not iterable"); a point (0.0, 0.5) is updated by slice assignment ("'tuple' object does not support item
assignment"). The same data is accepted when it is wrapped in rows (integers) and by the other routes
(BSpline.Curve + operations.insert_knot convert to float), so the routes do not agree.
"""
import sys
from geomdl import helpers

kv = [0, 0, 0, 0.5, 1, 1, 1]
u = 0.25
reference = helpers.knot_insertion(2, kv, [[0.0, 0.0], [1.0, 1.0], [2.0, 0.0], [3.0, 1.0]], u)

cases = {
    "integer coordinates": [[0, 0], [1, 1], [2, 0], [3, 1]],
    "integer first coordinate": [[0, 0.0], [1, 1.0], [2, 0.0], [3, 1.0]],
    "tuple points": [(0.0, 0.0), (1.0, 1.0), (2.0, 0.0), (3.0, 1.0)],
}
problems = []
for name, pts in cases.items():
    try:
        res = helpers.knot_insertion(2, kv, pts, u)
    except Exception as e:
        problems.append("%s: %s: %s" % (name, type(e).__name__, e))
        continue
    if len(res) != 5 or any(max(abs(a - b) for a, b in zip(p, q)) > 1e-12 for p, q in zip(res, reference)):
        problems.append("%s: wrong result %r" % (name, res))

if problems:
    print("DEFECT: helpers.knot_insertion rejects valid control points -> " + " | ".join(problems))
    sys.exit(1)
print("ok")
sys.exit(0)
