"""helpers.knot_insertion with its default keyword arguments changes the shape when the parameter is an existing knot up to
round-off from below (e.g. 0.3 * 3 = 0.8999999999999999 for the knot 0.9).

The default multiplicity is counted with a tolerance (s = 1: "this is the knot 0.9") but the default span is found by exact
comparisons (span = 5: "the parameter is in [0.6, 0.9)"), and Algorithm A5.1 is run with this inconsistent pair.
operations.insert_knot was repaired for exactly this input class (it snaps the parameter to the knot first); the helper,
which is a public entry point of its own, was not.
"""
import sys
from fractions import Fraction as F
from geomdl import helpers


def de_boor(p, U, P, t):
    """exact B-spline curve point (independent reference)"""
    U = [F(x) for x in U]
    t = F(t)
    n = len(P)
    k = p
    while k < n - 1 and not (U[k] <= t < U[k + 1]):
        k += 1
    d = [[F(c) for c in P[j + k - p]] for j in range(p + 1)]
    for r in range(1, p + 1):
        for j in range(p, r - 1, -1):
            den = U[j + 1 + k - r] - U[j + k - p]
            a = (t - U[j + k - p]) / den if den != 0 else F(0)
            d[j] = [(1 - a) * x + a * y for x, y in zip(d[j - 1], d[j])]
    return [float(x) for x in d[p]]


p = 3
kv = [0.0, 0.0, 0.0, 0.0, 0.3, 0.6, 0.9, 1.0, 1.0, 1.0, 1.0]
P = [[0.0, 0.0], [1.0, 2.0], [2.0, -1.0], [3.0, 3.0], [4.0, 0.0], [5.0, 2.0], [6.0, 0.0]]
u = 0.3 * 3  # 0.8999999999999999; the knot 0.9 up to a round-off error

Q = helpers.knot_insertion(p, kv, P, u)  # default s and span
span = helpers.find_span_linear(p, kv, len(P), u)
kvq = helpers.knot_insertion_kv(kv, u, span, 1)

worst = 0.0
for i in range(101):
    t = i / 100.0
    a, b = de_boor(p, kv, P, t), de_boor(p, kvq, Q, t)
    worst = max(worst, max(abs(x - y) for x, y in zip(a, b)))

if len(Q) != len(P) + 1 or worst > 1e-9:
    print("DEFECT: helpers.knot_insertion(3, kv, P, 0.3 * 3) moved the curve by %.3g (default s=%d, default span=%d)"
          % (worst, helpers.find_multiplicity(u, kv), span))
    sys.exit(1)
print("ok: shape kept (max deviation %.3g)" % worst)
sys.exit(0)
