"""helpers.knot_insertion does not reject an insertion count which exceeds degree - multiplicity: it silently returns a
corrupted control polygon (original points at wrong positions and empty points []).

operations.insert_knot rejects these requests (GeomdlException, object unchanged); the helper, a public entry point which
computes the multiplicity itself, returns garbage without any error, e.g. for the knot 0.5 of multiplicity 1 in a degree-2
curve inserted 2 times, or for the end knot 0.0 of multiplicity degree + 1 inserted once.
"""
import sys
from geomdl import helpers

kv = [0.0, 0.0, 0.0, 0.5, 1.0, 1.0, 1.0]
P = [[0.0, 0.0], [1.0, 1.0], [2.0, 0.0], [3.0, 1.0]]

problems = []
for u, num in ((0.5, 2), (0.25, 3), (0.0, 1), (1.0, 1)):
    try:
        res = helpers.knot_insertion(2, kv, [list(p) for p in P], u, num=num)
    except Exception:
        continue  # rejected: fine
    problems.append("u=%s num=%d -> %r" % (u, num, res))

if problems:
    print("DEFECT: helpers.knot_insertion accepts more insertions than degree - multiplicity: " + " | ".join(problems))
    sys.exit(1)
print("ok: rejected")
sys.exit(0)
