from geomdl import BSpline, operations
import copy
def mk():
    s = BSpline.Surface()
    s.degree_u = 2; s.degree_v = 2
    s.set_ctrlpts([[float(i), float(j), float((i*j) % 3)] for i in range(5) for j in range(4)], 5, 4)
    s.knotvector_u = [0,0,0,.3,.6,1,1,1]; s.knotvector_v = [0,0,0,.5,1,1,1]
    return s
for prm, num in [([1.0, None], [1, 0]), ([1.0, None], [2, 0]), ([0.0, None], [1, 0]), ([0.0, None], [2,0]), ([None, 1.0], [0, 2]), ([None, 0.0], [0, 3]), ([1.0,None],[3,0])]:
    s = mk(); ref = s.evaluate_single([.4, .4])
    try:
        operations.remove_knot(s, prm, num)
        r = 'ok'
    except Exception as e:
        r = repr(e)[:90]
    try:
        ev = s.evaluate_single([.4, .4])
    except Exception as e:
        ev = repr(e)[:60]
    print(prm, num, r, '| sizes', s.cpsize, [len(k) for k in s.knotvector], 'consistent', all(len(k) == n + 3 for k, n in zip(s.knotvector, s.cpsize)), ref, ev)
# curve for comparison
c = BSpline.Curve(); c.degree = 2; c.ctrlpts = [[float(i), float(i*i % 3)] for i in range(5)]; c.knotvector = [0,0,0,.3,.6,1,1,1]
for u, n in [(1.0,1),(1.0,2),(0.0,1),(0.0,2),(0.0,3),(1.0,3)]:
    d = copy.deepcopy(c)
    try:
        operations.remove_knot(d, [u], [n]); r='ok'
    except Exception as e:
        r = repr(e)[:80]
    print('curve', u, n, r, d.ctrlpts_size, len(d.knotvector), d.knotvector)
