# Trimmed tessellation hands out face ids with gaps and DUPLICATES (two different triangles compare equal).
import sys
from geomdl import BSpline, tessellate, freeform, multi

s = BSpline.Surface()
s.degree_u = s.degree_v = 1
s.set_ctrlpts([[0, 0, 0], [0, 1, 0], [1, 0, 0], [1, 1, 0]], 2, 2)
s.knotvector_u = [0, 0, 1, 1]
s.knotvector_v = [0, 0, 1, 1]
s.sample_size = 6
t = freeform.Freeform()
t.evaluate(points=[[0.31, 0.33], [0.72, 0.29], [0.68, 0.74], [0.27, 0.66], [0.31, 0.33]])
s.trims = [t]
s.tessellator = tessellate.TrimTessellate()
s.tessellate()
ids = [f.id for f in s.faces]
dup = sorted(set(i for i in ids if ids.count(i) > 1))
if dup or ids != list(range(len(ids))):
    f1, f2 = [f for f in s.faces if f.id == dup[0]][:2] if dup else (None, None)
    print("DEFECT: %d faces, ids not 0..n-1: duplicated %r, missing %r%s" % (
        len(ids), dup, sorted(set(range(len(ids))) - set(ids)),
        "; faces %r and %r compare equal: %r" % (f1.data, f2.data, f1 == f2) if dup else ""))
    sys.exit(1)
# the container numbers its faces by adding the face count of the previous surfaces: must be unique as well
c = multi.SurfaceContainer([s, s])
c.tessellate(delta=False)
cids = [f.id for f in c.faces]
if cids != list(range(len(cids))):
    print("DEFECT: container face ids are not 0..n-1")
    sys.exit(1)
print("ok")
