""" evalpts of a curve / surface whose (not normalised) knot vector spans a short range near zero are not the points
of the evenly spaced sample grid: linalg.linspace rounds the interior sample parameters to `precision` (18) ABSOLUTE
decimal places, which is a relative error of 5e-19 / (length of the domain) in the parameter.

The same control polygon on the knot vector scaled to [0, 1] gives the exact grid, and evaluate_single() at the evenly
spaced parameters gives the exact points, too - only the sampled grid is off.
"""
import sys
from fractions import Fraction as F
from geomdl import BSpline


def basis(i, p, U, u, uend):
    if p == 0:
        if u == uend:
            return F(1) if U[i] < u == U[i + 1] else F(0)
        return F(1) if U[i] <= u < U[i + 1] else F(0)
    r = F(0)
    if U[i + p] != U[i]:
        r += (u - U[i]) / (U[i + p] - U[i]) * basis(i, p - 1, U, u, uend)
    if U[i + p + 1] != U[i + 1]:
        r += (U[i + p + 1] - u) / (U[i + p + 1] - U[i + 1]) * basis(i + 1, p - 1, U, u, uend)
    return r


def point(p, kv, P, u):
    U = [F(k) for k in kv]
    n = len(P)
    return [float(sum(basis(i, p, U, F(u), U[n]) * F(P[i][c]) for i in range(n))) for c in range(len(P[0]))]


P = [[0.0, 0.0], [1.0, 2.0], [3.0, 1.0], [4.0, 4.0]]
worst = {}
for w in (1.0, 1e-12):
    crv = BSpline.Curve(normalize_kv=False)
    crv.degree = 2
    crv.ctrlpts = P
    kv = [0.0, 0.0, 0.0, 0.5 * w, w, w, w]
    crv.knotvector = kv
    crv.sample_size = 8
    pts = crv.evalpts
    err = 0.0
    for i in range(8):
        u = F(w) * F(i, 7)  # the evenly spaced parameters of the documented sample grid
        ref = point(2, kv, P, u)
        err = max(err, max(abs(a - b) for a, b in zip(pts[i], ref)))
    worst[w] = err

# the curve on [0, 1e-12] is the curve on [0, 1] re-parametrised: its sample grid is the same set of points
if worst[1e-12] > 1e-9 * 4.0:
    print("DEFECT: evalpts of a curve on the domain [0, 1e-12] is off the evenly spaced grid by %.3g "
          "(the same curve on [0, 1]: %.3g)" % (worst[1e-12], worst[1.0]))
    sys.exit(1)
print("ok")
sys.exit(0)
