""" SplineGeometry.range ("Domain range") is not the length of the domain: it indexes the knot vector with
-(degree) + 1 instead of -(degree + 1). A clamped degree-1 curve on [2, 4] reports the range 0, an unclamped
degree-2 curve with the domain [2, 4] reports 4. """
import sys
from geomdl import BSpline

msgs = []
c = BSpline.Curve(normalize_kv=False)
c.degree = 1
c.ctrlpts = [[0, 0], [1, 1], [2, 0]]
c.knotvector = [2, 2, 3, 4, 4]
if c.range != c.domain[1] - c.domain[0]:
    msgs.append("degree 1, domain %s: range %s" % (c.domain, c.range))
c = BSpline.Curve(normalize_kv=False)
c.degree = 2
c.ctrlpts = [[0, 0], [1, 1], [2, 0], [3, 1]]
c.knotvector = [0, 1, 2, 3, 4, 5, 6]
if c.range != c.domain[1] - c.domain[0]:
    msgs.append("degree 2 unclamped, domain %s: range %s" % (c.domain, c.range))
s = BSpline.Surface()
s.degree = [1, 1]
s.set_ctrlpts([[0, 0, 0], [0, 1, 0], [1, 0, 0], [1, 1, 1]], 2, 2)
s.knotvector = [[0, 0, 1, 1], [0, 0, 1, 1]]
if list(s.range) != [1.0, 1.0]:
    msgs.append("bilinear surface on the unit square: range %s" % (s.range,))
if msgs:
    print("DEFECT: SplineGeometry.range is not the length of the domain - " + "; ".join(msgs))
    sys.exit(1)
print("ok")
