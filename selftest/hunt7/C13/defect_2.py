"""construct_surface('u', bspline_curve, nurbs_curve) silently drops the weights of the rational section (the result is a
non-rational surface whose section u=1 is not the NURBS curve), while the same two curves in the other order are refused
("Expecting a rational curve"). Exit 1 while present; exit 0 once refused or once the result contains both sections."""
import sys
from geomdl import construct, BSpline, NURBS

b = BSpline.Curve(); b.degree = 2; b.ctrlpts = [[0, 0, 0], [1, 1, 0], [2, 0, 0]]; b.knotvector = [0, 0, 0, 1, 1, 1]
n = NURBS.Curve(); n.degree = 2; n.ctrlpts = [[0, 0, 1], [1, 1, 1], [2, 0, 1]]; n.weights = [1, 5, 1]
n.knotvector = [0, 0, 0, 1, 1, 1]
try:
    srf = construct.construct_surface('u', b, n, degree=1)
except Exception:
    sys.exit(0)
p, q = srf.evaluate_single((1.0, 0.5)), n.evaluate_single(0.5)
err = max(abs(a - c) for a, c in zip(p, q))
if err > 1e-9:
    print("DEFECT: construct_surface('u', bspline, nurbs): section u=1 is %s, the NURBS curve gives %s "
          "(weights dropped without an error; the reversed order is refused)" % (p, q))
    sys.exit(1)
sys.exit(0)
