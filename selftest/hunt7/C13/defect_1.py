"""construct_surface / construct_volume accept section curves / surfaces defined on DIFFERENT knot vectors and silently
give all of them the knot vector of the first one: the boundary section of the result is not the input section.
(Degrees and control point counts which differ are refused; knot vectors which differ are not.)
Exit 1 while present; exit 0 once the request is refused (or the sections are made compatible)."""
import sys
from geomdl import construct, BSpline

def curve(z, kv):
    c = BSpline.Curve()
    c.degree = 2
    c.ctrlpts = [[0.0, 0.0, z], [1.0, 1.0, z], [2.0, 0.0, z], [3.0, 1.0, z]]
    c.knotvector = kv
    return c

c0 = curve(0.0, [0, 0, 0, 0.8, 1, 1, 1])
c1 = curve(1.0, [0, 0, 0, 0.2, 1, 1, 1])
try:
    srf = construct.construct_surface('u', c0, c1, degree=1)
except Exception:
    sys.exit(0)  # refused: fine
worst = 0.0
for i in range(11):
    t = i / 10.0
    p, q = srf.evaluate_single((1.0, t)), c1.evaluate_single(t)
    worst = max(worst, max(abs(a - b) for a, b in zip(p, q)))
if worst > 1e-9:
    print("DEFECT: construct_surface('u', c0, c1): the section u=1 of the result differs from c1 by %.3g "
          "(c1 has another knot vector than c0, which was neither refused nor taken into account)" % worst)
    sys.exit(1)
sys.exit(0)
