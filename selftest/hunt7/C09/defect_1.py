# C09: convert.nurbs_to_bspline drops weights which differ from 1 by up to 1e-7 (default tol = 10e-8): the returned
# non-rational shape does not evaluate identically to the rational input (deviation ~1e-7, far above round-off).
import sys
from geomdl import NURBS, convert, knotvector

c = NURBS.Curve()
c.degree = 2
c.ctrlpts = [[0.0, 0.0], [1.0, 2.0], [3.0, 1.0], [4.0, 0.0]]
c.knotvector = knotvector.generate(2, 4)
c.weights = [1 - 9e-8, 1 + 9e-8, 1 - 9e-8, 1 + 9e-8]   # a genuinely rational curve

b = convert.nurbs_to_bspline(c)
dev = 0.0
scale = 4.0
for i in range(0, 41):
    u = i / 40.0
    p, q = c.evaluate_single(u), b.evaluate_single(u)
    dev = max(dev, max(abs(x - y) for x, y in zip(p, q)))
if dev > 1e-9 * scale:
    print("DEFECT: nurbs_to_bspline returned a %s shape which deviates from the input by %.3g (relative %.3g)"
          % ("rational" if b.rational else "non-rational", dev, dev / scale))
    sys.exit(1)
print("ok: conversion refused or exact (deviation %.3g)" % dev)
sys.exit(0)
