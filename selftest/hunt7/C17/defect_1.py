"""C17: evalpts / tessellation of a shape whose knot vector is kept in its original (small) range differ from the
normalised configuration far beyond rounding: linalg.linspace rounds the sample parameters to 18 ABSOLUTE decimals."""
import sys
from fractions import Fraction as F
from geomdl import BSpline

P = [[0.0, 0.0], [1.0, 3.0], [2.0, -1.0], [4.0, 2.0], [5.0, 0.0]]
kv = [0, 0, 0, 0, 0.5, 1, 1, 1, 1]
scale = 1e-12                      # affine map of the knot range: [0, 1] -> [0, 1e-12]
n = 8                              # samples at i/7 of the domain

res = {}
for norm in (True, False):
    c = BSpline.Curve(normalize_kv=norm)
    c.degree = 3
    c.ctrlpts = P
    c.knotvector = [scale * k for k in kv]
    c.sample_size = n
    res[norm] = c.evalpts

# exact reference (de Boor in rational arithmetic on the normalised knots)
def ref(t):
    U = [F(k) for k in kv]; p = 3; t = F(t)
    k = max(i for i in range(p, len(P)) if U[i] <= t) if t < 1 else len(P) - 1
    d = [[F(x) for x in P[j + k - p]] for j in range(p + 1)]
    for r in range(1, p + 1):
        for j in range(p, r - 1, -1):
            a = (t - U[j + k - p]) / (U[j + 1 + k - r] - U[j + k - p])
            d[j] = [(1 - a) * x + a * y for x, y in zip(d[j - 1], d[j])]
    return [float(x) for x in d[p]]

exact = [ref(F(i, n - 1)) for i in range(n)]
err_norm = max(abs(x - y) for p, q in zip(res[True], exact) for x, y in zip(p, q))
err_orig = max(abs(x - y) for p, q in zip(res[False], exact) for x, y in zip(p, q))
size = 5.0
if err_orig / size > 1e-9 or err_norm / size > 1e-9:
    print("DEFECT: evalpts on knot range [0, %g]: error %.3g with normalize_kv=False vs %.3g with normalize_kv=True "
          "(curve size %g)" % (scale, err_orig, err_norm, size))
    sys.exit(1)
print("ok")
