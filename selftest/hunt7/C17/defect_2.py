"""C17: Surface.derivatives(u, v, order) answers SKL[k][l] for all 0 <= k, l <= order with the default evaluator, but the
alternative evaluator (evaluators.SurfaceEvaluator2) leaves the entries with k + l > order at zero: the same query gives
another answer when the evaluator variant is selected."""
import sys
from fractions import Fraction as F
from geomdl import BSpline, evaluators

def make(alt):
    s = BSpline.Surface()
    s.degree_u, s.degree_v = 2, 2
    s.set_ctrlpts([[i, j, (i * i * j) % 5 + 0.5 * i * j] for i in range(4) for j in range(3)], 4, 3)
    s.knotvector_u = [0, 0, 0, 0.5, 1, 1, 1]
    s.knotvector_v = [0, 0, 0, 1, 1, 1]
    if alt:
        s.evaluator = evaluators.SurfaceEvaluator2()
    return s

u, v = 0.3, 0.6
d_def = make(False).derivatives(u, v, 1)
d_alt = make(True).derivatives(u, v, 1)
# reference for the mixed derivative S_uv: from an order-2 request, where both variants compute it
ref_def = make(False).derivatives(u, v, 2)[1][1]
ref_alt = make(True).derivatives(u, v, 2)[1][1]
assert max(abs(a - b) for a, b in zip(ref_def, ref_alt)) < 1e-12
bad = max(abs(a - b) for a, b in zip(d_def[1][1], d_alt[1][1]))
if bad > 1e-9:
    print("DEFECT: derivatives(u, v, order=1)[1][1] = %s (default evaluator) vs %s (SurfaceEvaluator2); S_uv = %s"
          % (d_def[1][1], d_alt[1][1], ref_def))
    sys.exit(1)
print("ok")
