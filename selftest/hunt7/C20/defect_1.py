# voxelize: a planar surface of size >= ~1.1e9 (a unit model scaled uniformly) gets NO filled voxel with the default padding:
# the absolute default padding 10e-8 is below half an ulp of the plane coordinate, so the voxels of zero thickness stay empty.
import sys
from geomdl import BSpline, voxelize
def plane(L):
    s = BSpline.Surface(); s.degree_u = 1; s.degree_v = 1
    s.set_ctrlpts([[0, 0, L], [0, L, L], [L, 0, L], [L, L, L]], 2, 2)
    s.knotvector_u = [0, 0, 1, 1]; s.knotvector_v = [0, 0, 1, 1]; s.delta = 0.1
    return s
ref = sum(voxelize.voxelize(plane(1.0), grid_size=(4, 4, 4))[1])      # 16 voxels, all filled
for L in (1e9, 4e9, 1e12):
    grid, filled = voxelize.voxelize(plane(L), grid_size=(4, 4, 4))
    if sum(filled) != ref:
        print("DEFECT: planar surface of size %g: %d of %d voxels filled (unit-size copy: %d)" % (L, sum(filled), len(grid), ref))
        sys.exit(1)
sys.exit(0)
