# ray.intersect squares |d1 x d2| (fourth power of the coordinates): coordinates of 1.2e77 .. 1e80 raise OverflowError,
# coordinates of 1e-80 give parameters wrong by 1e-5 (the squared magnitude is a subnormal number).
import sys
from geomdl import ray
msgs = []
for s in (1e78, 1e-80):
    for dim in (2, 3):
        if dim == 3:
            r1 = ray.Ray([0, 0, 0], [3 * s, 1 * s, 2 * s]); r2 = ray.Ray([3 * s, 0, 1 * s], [0, 1 * s, 1 * s])
        else:
            r1 = ray.Ray([0, 0], [3 * s, 1 * s]); r2 = ray.Ray([3 * s, 0], [0, 1 * s])
        try:
            t1, t2, st = ray.intersect(r1, r2)      # the rays cross at t1 = t2 = 0.5
        except OverflowError as e:
            msgs.append("scale %g %d-D: OverflowError" % (s, dim)); continue
        if st != ray.RayIntersection.INTERSECT or abs(t1 - 0.5) > 1e-9 or abs(t2 - 0.5) > 1e-9:
            msgs.append("scale %g %d-D: t1=%r t2=%r status=%r (expected 0.5, 0.5, INTERSECT)" % (s, dim, t1, t2, st))
if msgs:
    print("DEFECT: " + "; ".join(msgs)); sys.exit(1)
sys.exit(0)
