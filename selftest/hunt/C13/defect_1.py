"""Defect 1: operations.transpose / Surface.transpose() leave the trim curves untouched.

Trim curves live in the (u, v) parameter space of the surface (x == u, y == v).  Transposing swaps the roles
of u and v for degrees, knot vectors and the control net, but the trims keep their old (u, v) coordinates, so
the trimmed surface is a different shape after transposition.
"""
import sys
from geomdl import BSpline, NURBS, operations, trimming


def build(rational):
    s = (NURBS.Surface if rational else BSpline.Surface)()
    s.degree_u, s.degree_v = 2, 1
    pts = [[float(u), float(v), float(u * u - 0.5 * v + 0.3 * u * v)] for u in range(4) for v in range(3)]  # 4 x 3 net
    if rational:
        s.ctrlpts_size_u, s.ctrlpts_size_v = 4, 3
        s.ctrlpts = pts
        s.weights = [1.0 + 0.1 * i for i in range(12)]
    else:
        s.set_ctrlpts(pts, 4, 3)
    s.knotvector_u = [0, 0, 0, 0.4, 1, 1, 1]
    s.knotvector_v = [0, 0, 0.7, 1, 1]
    # a small rectangular hole, deliberately placed off the u == v diagonal
    t = BSpline.Curve()
    t.degree = 1
    t.ctrlpts = [[0.1, 0.6], [0.3, 0.6], [0.3, 0.9], [0.1, 0.9], [0.1, 0.6]]
    t.knotvector = [0, 0, 0.25, 0.5, 0.75, 1, 1]
    t.sample_size = 9
    s.trims = [t]
    return s


def image(surf):
    return [tuple(p) for p in trimming.map_trim_to_geometry(surf)[0].evalpts]


bad = []
for rational in (False, True):
    s = build(rational)
    before = image(s)                      # 3-D image of the hole boundary on the original surface
    st = operations.transpose(s)
    # the transposed surface is the same point set: S_t(v, u) == S(u, v)
    assert all(abs(a - b) < 1e-12 for a, b in zip(st.evaluate_single((0.8, 0.2)), s.evaluate_single((0.2, 0.8))))
    after = image(st)                      # 3-D image of the hole boundary on the transposed surface
    err = max(max(abs(a - b) for a, b in zip(p, q)) for p, q in zip(before, after))
    if err > 1e-9:
        bad.append("rational=%s: trim boundary moved by up to %.4g after transpose; first point %s -> %s; "
                   "transposed trim ctrlpts still %s" % (rational, err, before[0], after[0], st.trims[0].ctrlpts[:2]))

if bad:
    print("DEFECT PRESENT: transpose does not swap the (u, v) coordinates of the trim curves")
    for b in bad:
        print("  " + b)
    sys.exit(1)
print("ok")
