"""Defect 3: Surface/Volume managers do not validate the per-direction index ranges, so an out-of-range
(u, v[, w]) silently addresses a *different* control point instead of being rejected."""
import sys
from geomdl import control_points
from geomdl.exceptions import GeomdlException

bad = []
ms = control_points.SurfaceManager(3, 2)          # size_u = 3, size_v = 2
for u in range(3):
    for v in range(2):
        ms.set_ctrlpt([float(u), float(v), 0.0], u, v)
got = ms.get_ctrlpt(0, 2)                          # v == size_v is out of range -> documented result: None
if got is not None:
    bad.append("SurfaceManager(3,2).get_ctrlpt(0, 2) returned %s (the point of (u,v)=(1,0)) instead of None" % (got,))
try:
    ms.set_ctrlpt([9.0, 9.0, 9.0], 0, 2)           # must raise 'Index is out of range'
    bad.append("SurfaceManager(3,2).set_ctrlpt(pt, 0, 2) silently overwrote (u,v)=(1,0): now %s" % (ms.get_ctrlpt(1, 0),))
except GeomdlException:
    pass

mv = control_points.VolumeManager(2, 3, 4)         # size_u = 2, size_v = 3, size_w = 4
for u in range(2):
    for v in range(3):
        for w in range(4):
            mv.set_ctrlpt([float(u), float(v), float(w)], u, v, w)
got = mv.get_ctrlpt(5, 0, 0)                       # u == 5 >= size_u
if got is not None:
    bad.append("VolumeManager(2,3,4).get_ctrlpt(5, 0, 0) returned %s instead of None" % (got,))
got = mv.get_ctrlpt(0, 3, 0)                       # v == size_v
if got is not None:
    bad.append("VolumeManager(2,3,4).get_ctrlpt(0, 3, 0) returned %s (the point of (1,0,0)) instead of None" % (got,))
if bad:
    print("DEFECT PRESENT:")
    for b in bad:
        print("  " + b)
    sys.exit(1)
print("ok")
