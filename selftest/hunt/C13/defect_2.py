"""Defect 2: control point managers cannot be copied / deep-copied (AttributeError: _iter_index)."""
import sys
import copy
from geomdl import control_points

bad = []
for cls, sizes in ((control_points.CurveManager, (4,)), (control_points.SurfaceManager, (3, 2)),
                   (control_points.VolumeManager, (2, 3, 4))):
    m = cls(*sizes, temperature=1)
    import itertools
    for idx in itertools.product(*[range(s) for s in sizes]):
        m.set_ctrlpt([float(i) for i in idx] + [0.0] * (3 - len(idx)), *idx)
        m.set_ptdata(dict(temperature=sum(idx)), *idx)
    for name, fn in (("copy.copy", copy.copy), ("copy.deepcopy", copy.deepcopy)):
        try:
            c = fn(m)
        except Exception as e:
            bad.append("%s(%s%s) raised %r" % (name, cls.__name__, sizes, e))
            continue
        for idx in itertools.product(*[range(s) for s in sizes]):
            if c.get_ctrlpt(*idx) != m.get_ctrlpt(*idx) or c.get_ptdata('temperature', *idx) != m.get_ptdata('temperature', *idx):
                bad.append("%s(%s): copy addresses a different point for %s" % (name, cls.__name__, idx))
                break
if bad:
    print("DEFECT PRESENT:")
    for b in bad:
        print("  " + b)
    sys.exit(1)
print("ok")
