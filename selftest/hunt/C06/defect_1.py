"""C06 defect 1: with the default settings (normalize_kv=True, precision=18) a knot inserted at a small
parameter (e.g. u = 1/300) cannot be removed again: remove_knot(u) deletes the wrong knot / corrupts the
control points, and a second, separate insert_knot(u) changes the shape."""
import sys
from geomdl import BSpline, operations

def make():
    c = BSpline.Curve()                      # default keyword arguments
    c.degree = 3
    c.ctrlpts = [[0, 0], [1, 3], [2, -1], [4, 2], [5, 5], [7, 0]]
    c.knotvector = [0, 0, 0, 0, 0.3, 0.6, 1, 1, 1, 1]
    return c

u = 1.0 / 300.0                              # 3.3e-3 away from the nearest knot, inside the domain
samples = [0.0, 0.001, 0.0033, 0.01, 0.1, 0.3, 0.45, 0.6, 0.9, 1.0]
problems = []

# (a) insert once, remove once
c = make()
kv0 = list(c.knotvector); P0 = [list(p) for p in c.ctrlpts]; E0 = [c.evaluate_single(t) for t in samples]
operations.insert_knot(c, [u], [1])
try:
    operations.remove_knot(c, [u], [1])
    if list(c.knotvector) != kv0:
        problems.append("(a) knot vector after insert+remove: %r (expected %r)" % (c.knotvector, kv0))
    dP = max(abs(a - b) for p, q in zip(P0, c.ctrlpts) for a, b in zip(p, q))
    if dP > 1e-9:
        problems.append("(a) control points not restored, max abs difference %g" % dP)
    dE = max(abs(a - b) for t, e in zip(samples, E0) for a, b in zip(c.evaluate_single(t), e))
    if dE > 1e-9:
        problems.append("(a) evaluated points changed by %g" % dE)
except Exception as ex:
    problems.append("(a) remove_knot raised %r" % (ex,))

# (b) insert twice in two separate calls: the shape must not change
c = make()
operations.insert_knot(c, [u], [1])
operations.insert_knot(c, [u], [1])
dE = max(abs(a - b) for t, e in zip(samples, E0) for a, b in zip(c.evaluate_single(t), e))
if dE > 1e-9:
    problems.append("(b) two separate insertions of u changed the evaluated points by %g" % dE)

if problems:
    print("DEFECT PRESENT (u = %r):" % u)
    for p in problems:
        print("  " + p)
    sys.exit(1)
print("ok")
