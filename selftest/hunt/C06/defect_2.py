"""C06 defect 2: helpers.knot_removal decides "removable" with a fixed absolute tolerance (1e-3) and, when that
test fails, still drops the control point but skips the control-point update.  For a removable knot on a shape
with large (but uniformly scaled, e.g. UTM / millimetre) coordinates the round-off of the test exceeds 1e-3, so
insert + remove silently returns a different shape."""
import sys
from geomdl import BSpline, operations, helpers

p = 6
P = [[500000.0 + 1000.0 * i, 4649776.0 + ((-1) ** i) * 2500.0 * i] for i in range(p + 1)]   # UTM-like metres
c = BSpline.Curve()
c.degree = p
c.ctrlpts = P
c.knotvector = [0.0] * (p + 1) + [1.0] * (p + 1)
P0 = [list(q) for q in c.ctrlpts]
samples = [i / 20.0 for i in range(21)]
E0 = [c.evaluate_single(t) for t in samples]
scale = max(abs(x) for q in P0 for x in q)

u, r = 0.995, 2
operations.insert_knot(c, [u], [r])
# the same removal with the removability test disabled is accurate -> the input is well conditioned
ref = helpers.knot_removal(p, c.knotvector, c.ctrlpts, u, num=r, tol=float('inf'))
operations.remove_knot(c, [u], [r])

d_ref = max(abs(a - b) for x, y in zip(P0, ref) for a, b in zip(x, y)) / scale
d_lib = max(abs(a - b) for x, y in zip(P0, c.ctrlpts) for a, b in zip(x, y)) / scale
d_ev = max(abs(a - b) for t, e in zip(samples, E0) for a, b in zip(c.evaluate_single(t), e)) / scale
print("relative ctrlpts error, removal with tol=inf : %.3g" % d_ref)
print("relative ctrlpts error, operations.remove_knot: %.3g" % d_lib)
print("relative error of evaluated points            : %.3g  (absolute %.6g)" % (d_ev, d_ev * scale))
if d_lib > 1e-9 or d_ev > 1e-9:
    print("DEFECT PRESENT: insert %d x + remove %d x of u=%r does not restore the curve" % (r, r, u))
    sys.exit(1)
print("ok")
