"""C06 defect 3: a removable knot cannot be removed when the knot vector was supplied as a tuple
(normalize_kv=False keeps the tuple): helpers.knot_removal_kv assigns into a deepcopy of the tuple."""
import sys
from geomdl import BSpline, operations

def curve(kv, pts):
    c = BSpline.Curve(normalize_kv=False)
    c.degree = 2
    c.ctrlpts = pts
    c.knotvector = kv
    return c

# a curve with a removable knot at 0.25 (obtained by inserting 0.25 into a 4-point quadratic)
base = curve([0, 0, 0, 0.5, 1, 1, 1], [[0, 0], [1, 2], [3, 1], [4, 4]])
P0 = [list(p) for p in base.ctrlpts]
operations.insert_knot(base, [0.25], [1])

c = curve(tuple(base.knotvector), [list(p) for p in base.ctrlpts])      # same shape, knot vector given as a tuple
try:
    operations.remove_knot(c, [0.25], [1])
except Exception as ex:
    print("DEFECT PRESENT: remove_knot raised %r for a tuple knot vector" % (ex,))
    sys.exit(1)
d = max(abs(a - b) for p, q in zip(P0, c.ctrlpts) for a, b in zip(p, q))
if d > 1e-12 or list(c.knotvector) != [0, 0, 0, 0.5, 1, 1, 1]:
    print("DEFECT PRESENT: wrong result", c.knotvector, c.ctrlpts)
    sys.exit(1)
print("ok")
