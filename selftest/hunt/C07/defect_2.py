"""C07 defect 2: split_curve / split_surface_u / split_surface_v give garbage (or raise) when the split parameter is
less than 1e-7 BELOW an interior knot -- including the case where the caller passes his own knot value and the default
knot-vector normalisation has moved the stored knot up by one ulp."""
import sys
from geomdl import BSpline, operations

msgs = []


# (a) the caller splits at the knot value he put into the knot vector himself
k = 0.0070153992004529896
c = BSpline.Curve()
c.degree = 2
c.ctrlpts = [[0, 0], [1, 3], [2, -1], [4, 2], [5, 0]]
c.knotvector = [0, 0, 0, k, 0.5, 1, 1, 1]       # stored (normalised) knot is 0.00701539920045299 = k + 1 ulp
try:
    a, b = operations.split_curve(c, k)
    for piece, (lo, hi) in ((a, (0.0, k)), (b, (k, 1.0))):
        for t in (0.0, 0.25, 0.5, 0.75, 1.0):
            want = c.evaluate_single(lo + t * (hi - lo))
            got = piece.evaluate_single(t)
            if max(abs(x - y) for x, y in zip(want, got)) > 1e-6:
                msgs.append("(a) piece differs from original at t=%s: want %r got %r" % (t, want, got))
                break
except Exception as e:
    msgs.append("(a) split_curve(c, %r) at the caller's own interior knot raised %r" % (k, e))

# (b) silently wrong pieces: parameter 1e-9 below an interior knot, polyline (degree 1)
c = BSpline.Curve()
c.degree = 1
c.ctrlpts = [[0, 0], [1, 0], [2, 5], [3, 0], [4, 0], [5, 5]]
c.knotvector = [0, 0, 0.2, 0.4, 0.6, 0.8, 1, 1]
u = 0.4 - 1e-9
try:
    a, b = operations.split_curve(c, u)
    for piece, (lo, hi) in ((a, (0.0, u)), (b, (u, 1.0))):
        for t in (0.0, 0.25, 0.5, 0.75, 1.0):
            want = c.evaluate_single(lo + t * (hi - lo))
            got = piece.evaluate_single(t)
            if max(abs(x - y) for x, y in zip(want, got)) > 1e-6:
                msgs.append("(b) split at %r: piece on [%r, %r] at t=%s: want %r got %r" % (u, lo, hi, t, want, got))
                break
except Exception as e:
    msgs.append("(b) split_curve(c, %r) raised %r" % (u, e))

# (c) surface, v-direction
s = BSpline.Surface()
s.degree_u = 1
s.degree_v = 2
s.set_ctrlpts([[i, j, (i * j * j) % 4] for i in range(2) for j in range(6)], 2, 6)
s.knotvector_u = [0, 0, 1, 1]
s.knotvector_v = [0, 0, 0, 0.25, 0.5, 0.75, 1, 1, 1]
v = 0.5 - 1e-9
try:
    a, b = operations.split_surface_v(s, v)
    for piece, (lo, hi) in ((a, (0.0, v)), (b, (v, 1.0))):
        for t in (0.0, 0.5, 1.0):
            want = s.evaluate_single((0.5, lo + t * (hi - lo)))
            got = piece.evaluate_single((0.5, t))
            if max(abs(x - y) for x, y in zip(want, got)) > 1e-6:
                msgs.append("(c) split_surface_v at %r: piece v in [%r, %r] at t=%s: want %r got %r" % (v, lo, hi, t, want, got))
                break
except Exception as e:
    msgs.append("(c) split_surface_v(s, %r) raised %r" % (v, e))

if msgs:
    print("DEFECT PRESENT:")
    for m in msgs:
        print("  -", m)
    sys.exit(1)
print("ok")
