"""C07 defect 1: decompose_curve / decompose_surface fail when an interior knot has multiplicity degree+1
(a clamped knot vector describing a curve with a jump); split_* at such a knot returns a second piece that is
not clamped-minimal (degree+2 equal start knots, one dead control point), which is what breaks decomposition."""
import sys
from geomdl import BSpline, operations

msgs = []

# --- curve: degree 2, two Bezier arcs joined by a knot of multiplicity 3 (= degree + 1)
c = BSpline.Curve()
c.degree = 2
c.ctrlpts = [[0, 0], [1, 2], [2, 0], [5, 5], [6, 7], [7, 5]]
c.knotvector = [0, 0, 0, 0.5, 0.5, 0.5, 1, 1, 1]
expected = [[[0.0, 0.0], [1.0, 2.0], [2.0, 0.0]], [[5.0, 5.0], [6.0, 7.0], [7.0, 5.0]]]
try:
    segs = operations.decompose_curve(c)
    got = [s.ctrlpts for s in segs]
    if got != expected:
        msgs.append("decompose_curve: expected 2 Bezier pieces %r, got %r" % (expected, got))
except Exception as e:
    msgs.append("decompose_curve raised %r (expected 2 Bezier pieces)" % (e,))

a, b = operations.split_curve(c, 0.5)
if b.ctrlpts_size != 3 or list(b.knotvector) != [0.0, 0.0, 0.0, 1.0, 1.0, 1.0]:
    msgs.append("split_curve(c, 0.5)[1]: expected 3 control points / knots [0,0,0,1,1,1], got %d control points, "
                "knots %r" % (b.ctrlpts_size, list(b.knotvector)))

# --- surface: the same in the u-direction (degree_u = 1, interior knot of multiplicity 2)
s = BSpline.Surface()
s.degree_u = 1
s.degree_v = 1
s.set_ctrlpts([[0, 0, 0], [0, 1, 0], [1, 0, 0], [1, 1, 0], [1, 0, 5], [1, 1, 5], [2, 0, 5], [2, 1, 5]], 4, 2)
s.knotvector_u = [0, 0, 0.5, 0.5, 1, 1]
s.knotvector_v = [0, 0, 1, 1]
for d in ("u", "uv"):
    try:
        n = len(operations.decompose_surface(s, decompose_dir=d))
        if n != 2:
            msgs.append("decompose_surface(dir=%s): expected 2 patches, got %d" % (d, n))
    except Exception as e:
        msgs.append("decompose_surface(dir=%s) raised %r (expected 2 patches)" % (d, e))

if msgs:
    print("DEFECT PRESENT:")
    for m in msgs:
        print("  -", m)
    sys.exit(1)
print("ok")
