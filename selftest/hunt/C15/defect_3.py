"""C15 defect 3: SurfaceContainer sample size n tessellates every contained surface with n-1
samples per direction (n = 2 raises), so container.vertices/faces is not the mesh that
export_obj/off/stl of the same container write."""
import sys
from geomdl import BSpline, multi, exchange

def make(dz):
    s = BSpline.Surface()
    s.degree_u = 2; s.degree_v = 2
    s.set_ctrlpts([[i, j, dz + 0.3 * i * j] for i in range(3) for j in range(3)], 3, 3)
    s.knotvector_u = [0, 0, 0, 1, 1, 1]
    s.knotvector_v = [0, 0, 0, 1, 1, 1]
    return s

msgs = []
for n in (2, 3, 5, 10, 40):
    a, b = make(0.0), make(5.0)
    mc = multi.SurfaceContainer(a, b)
    mc.sample_size = n
    assert mc.sample_size == [n, n]
    try:
        mc.tessellate()
        nv, nf = len(mc.vertices), len(mc.faces)
    except Exception as e:
        msgs.append("sample_size=%d: container.tessellate() raised %s: %s" % (n, type(e).__name__, e))
        continue
    exp_v, exp_f = 2 * n * n, 2 * 2 * (n - 1) * (n - 1)
    if (nv, nf) != (exp_v, exp_f):
        msgs.append("sample_size=%d: container mesh has %d vertices / %d triangles, expected %d / %d "
                    "(contained surfaces were sampled %s)" % (n, nv, nf, exp_v, exp_f, a.sample_size))
    off = exchange.export_off_str(mc).split("\n")
    ov, of_ = [int(x) for x in off[1].split()[:2]]
    if (ov, of_) != (nv, nf):
        msgs.append("sample_size=%d: OFF export of the container has %d vertices / %d faces but "
                    "container.vertices/faces has %d / %d" % (n, ov, of_, nv, nf))
if msgs:
    print("DEFECT PRESENT:")
    for m in msgs:
        print("  -", m)
    sys.exit(1)
print("ok")
