"""C15 defect 4: adding a trim curve to an already tessellated surface does not invalidate the
tessellation: vertices/faces (and every export with update_delta=False) still cover the
trimmed region. Also, the 'trims' setter appends instead of replacing."""
import sys, math
from geomdl import BSpline, tessellate, exchange

s = BSpline.Surface()
s.degree_u = 2; s.degree_v = 2
s.set_ctrlpts([[i, j, 0.3 * i * j] for i in range(3) for j in range(3)], 3, 3)
s.knotvector_u = [0, 0, 0, 1, 1, 1]
s.knotvector_v = [0, 0, 0, 1, 1, 1]
s.sample_size = 11
s.tessellator = tessellate.TrimTessellate()

def square(a, b):
    c = BSpline.Curve()
    c.degree = 1
    c.ctrlpts = [[a, a], [b, a], [b, b], [a, b], [a, a]]
    c.knotvector = [0, 0, 0.25, 0.5, 0.75, 1, 1]
    c.sample_size = 41
    return c

def covered(surf, p):
    for t in surf.faces:
        (x0, y0), (x1, y1), (x2, y2) = [v.uv for v in t.vertices]
        d1 = (x1 - x0) * (p[1] - y0) - (y1 - y0) * (p[0] - x0)
        d2 = (x2 - x1) * (p[1] - y1) - (y2 - y1) * (p[0] - x1)
        d3 = (x0 - x2) * (p[1] - y2) - (y0 - y2) * (p[0] - x2)
        if (d1 >= 0 and d2 >= 0 and d3 >= 0) or (d1 <= 0 and d2 <= 0 and d3 <= 0):
            return True
    return False

msgs = []
n0 = len(s.faces)                      # tessellated, no trims: 200 triangles
assert n0 == 200 and covered(s, (0.53, 0.52))
s.add_trim(square(0.25, 0.75))         # hole of 5 x 5 cells in the middle
n1 = len(s.faces)
if covered(s, (0.53, 0.52)):
    msgs.append("after add_trim() the mesh (%d triangles, before: %d) still covers (0.53, 0.52), which is "
                "0.22 (> 2 cells) inside the trimmed square [0.25,0.75]^2" % (n1, n0))
off = exchange.export_off_str(s, update_delta=False).split("\n")[1]
s.tessellate(force=True)
n2 = len(s.faces)
if n2 != n1:
    msgs.append("forced re-tessellation gives %d triangles, the cached mesh had %d; OFF export "
                "(update_delta=False) before forcing said: '%s'" % (n2, n1, off))
if covered(s, (0.53, 0.52)):
    msgs.append("even the forced re-tessellation covers the trimmed region")

# trims setter appends
s2 = BSpline.Surface()
s2.degree_u = 1; s2.degree_v = 1
s2.set_ctrlpts([[0, 0, 0], [0, 1, 0], [1, 0, 0], [1, 1, 0]], 2, 2)
s2.knotvector_u = [0, 0, 1, 1]; s2.knotvector_v = [0, 0, 1, 1]
s2.trims = [square(0.1, 0.3)]
s2.trims = [square(0.6, 0.9)]
if len(s2.trims) != 1:   # related observation, does not influence the exit status
    print("NOTE: surf.trims = [t1]; surf.trims = [t2] leaves %d trims (the setter appends)" % len(s2.trims))

if msgs:
    print("DEFECT PRESENT:")
    for m in msgs:
        print("  -", m)
    sys.exit(1)
print("ok")
