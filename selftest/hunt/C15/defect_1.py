"""C15 defect 1: the quadrilateral tessellator cannot be used as a surface tessellator
(TypeError), and the quad mesh carries no parameters (every vertex has uv == (0, 0))."""
import sys
from geomdl import BSpline, tessellate

s = BSpline.Surface()
s.degree_u = 2; s.degree_v = 1
s.set_ctrlpts([[i, j, (i - 1) ** 2 + 0.5 * j] for i in range(3) for j in range(2)], 3, 2)
s.knotvector_u = [0, 0, 0, 1, 1, 1]
s.knotvector_v = [0, 0, 1, 1]
s.sample_size_u = 4
s.sample_size_v = 3

msgs = []

# (a) direct use of the quad tessellator: vertex parameters are never stored
q = tessellate.QuadTessellate()
q.tessellate(s.evalpts, size_u=4, size_v=3)
uvs = set(v.uv for v in q.vertices)
if len(uvs) != len(q.vertices):
    msgs.append("direct QuadTessellate: %d vertices but only %d distinct stored (u,v): %s"
                % (len(q.vertices), len(uvs), sorted(uvs)[:3]))

# (b) as the tessellation component of a surface
s.tessellator = tessellate.QuadTessellate()
try:
    s.tessellate()
    verts, quads = s.vertices, s.faces
    if len(verts) != 12 or len(quads) != 6:
        msgs.append("surface quad mesh has %d vertices / %d quads, expected 12 / 6" % (len(verts), len(quads)))
    if [v.id for v in verts] != list(range(len(verts))):
        msgs.append("vertex ids not consecutive")
    for v in verts:
        p = s.evaluate_single(list(v.uv))
        if max(abs(a - b) for a, b in zip(p, v.data)) > 1e-9:
            msgs.append("vertex %d at %s is not S(uv=%s)=%s" % (v.id, v.data, v.uv, p))
            break
    if len(set(v.uv for v in verts)) != len(verts):
        msgs.append("surface quad mesh: stored (u,v) are not distinct")
except Exception as e:
    msgs.append("Surface.tessellate() with QuadTessellate raised %s: %s" % (type(e).__name__, e))

if msgs:
    print("DEFECT PRESENT:")
    for m in msgs:
        print("  -", m)
    sys.exit(1)
print("ok")
