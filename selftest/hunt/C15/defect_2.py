"""C15 defect 2: surfaces with 2-dimensional points (valid geomdl surfaces, evaluate fine)
cannot be tessellated or exported: Vertex only stores 3 components."""
import sys
from geomdl import BSpline, NURBS, tessellate, exchange

def make(rational):
    s = (NURBS if rational else BSpline).Surface()
    s.degree_u = 2; s.degree_v = 1
    pts = [[i + 0.1 * j, j + 0.2 * i * i] for i in range(3) for j in range(2)]
    if rational:
        pts = [[x * (1 + k % 2), y * (1 + k % 2), 1.0 + k % 2] for k, (x, y) in enumerate(pts)]
    s.set_ctrlpts(pts, 3, 2)
    s.knotvector_u = [0, 0, 0, 1, 1, 1]
    s.knotvector_v = [0, 0, 1, 1]
    s.sample_size_u = 4; s.sample_size_v = 3
    return s

msgs = []
for rational in (False, True):
    s = make(rational)
    assert len(s.evalpts) == 12 and len(s.evalpts[0]) == 2   # evaluation itself is fine
    for name, fn in (("tessellate", lambda: s.tessellate(force=True)),
                     ("export_obj_str", lambda: exchange.export_obj_str(s)),
                     ("export_off_str", lambda: exchange.export_off_str(s)),
                     ("export_stl_str", lambda: exchange.export_stl_str(s))):
        try:
            fn()
        except Exception as e:
            msgs.append("%s 2-D surface: %s raised %s: %s" % ("NURBS" if rational else "BSpline", name, type(e).__name__, e))
            continue
    try:
        q = tessellate.QuadTessellate(); q.tessellate(s.evalpts, size_u=4, size_v=3)
    except Exception as e:
        msgs.append("QuadTessellate on 2-D points raised %s: %s" % (type(e).__name__, e))
    if s.tessellator.is_tessellated():
        if len(s.vertices) != 12 or len(s.faces) != 12:
            msgs.append("wrong counts %d/%d" % (len(s.vertices), len(s.faces)))
        for v in s.vertices:
            p = s.evaluate_single(list(v.uv))
            if max(abs(a - b) for a, b in zip(p, v.data[:2])) > 1e-9:
                msgs.append("vertex %d not on the surface" % v.id); break
if msgs:
    print("DEFECT PRESENT:")
    for m in msgs:
        print("  -", m)
    sys.exit(1)
print("ok")
