"""knotvector.generate silently returns malformed knot vectors when num_ctrlpts <= degree (clamped)."""
import sys
from geomdl import knotvector

problems = []
for degree in range(1, 8):
    for count in range(1, degree + 1):
        try:
            kv = knotvector.generate(degree, count)
        except ValueError:
            continue  # rejecting the pair is fine
        ok_len = len(kv) == degree + count + 1
        ok_chk = ok_len and knotvector.check(degree, kv, count)
        mults = (kv.count(kv[0]), kv.count(kv[-1]))
        if not ok_chk or mults != (degree + 1, degree + 1):
            problems.append("generate(%d, %d) -> %r (len %d, expected %d; check=%s; end multiplicities %r)"
                            % (degree, count, kv, len(kv), degree + count + 1, ok_chk, mults))
if problems:
    print("DEFECT: generate() neither rejects count <= degree nor returns a valid knot vector")
    print("\n".join(problems[:8]))
    print("... %d (degree, count) pairs in total" % len(problems))
    sys.exit(1)
print("ok")
