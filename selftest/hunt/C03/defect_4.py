"""basis_function_one: the hard-coded end-point special case returns 1.0 for the wrong function when the first/last
interior knot coincides with the domain start/end (knot vector still non-decreasing and accepted by check())."""
import sys
from fractions import Fraction as F
from geomdl import helpers, knotvector

def N(i, p, U, u, active):
    # exact Cox-de Boor; 'active' is the (unique non-empty) span that contains u
    if p == 0:
        return F(1) if i == active else F(0)
    a = (u - U[i]) / (U[i + p] - U[i]) * N(i, p - 1, U, u, active) if U[i + p] != U[i] else F(0)
    b = (U[i + p + 1] - u) / (U[i + p + 1] - U[i + 1]) * N(i + 1, p - 1, U, u, active) if U[i + p + 1] != U[i + 1] else F(0)
    return a + b

problems = []
cases = [
    (2, [0.0, 0.0, 0.0, 0.5, 1.0, 1.0, 1.0, 1.0], 1.0),   # last interior knot == domain end
    (2, [0.0, 0.0, 0.0, 0.0, 0.5, 1.0, 1.0, 1.0], 0.0),   # first interior knot == domain start
    (1, [0.0, 1.0, 2.0, 2.0, 3.0], 2.0),                  # unclamped, domain [1,2] ends on a double knot (degree 1)
]
for p, kv, u in cases:
    n = len(kv) - p - 1
    assert knotvector.check(p, kv, n)
    span = helpers.find_span_linear(p, kv, n, u)
    assert span == helpers.find_span_binsearch(p, kv, n, u)
    vec = helpers.basis_function(p, kv, span, u)
    U = [F(k) for k in kv]
    for i in range(n):
        exact = float(N(i, p, U, F(u), span))
        from_vec = vec[i - (span - p)] if span - p <= i <= span else 0.0
        assert abs(exact - from_vec) < 1e-12          # basis_function agrees with Cox-de Boor
        one = helpers.basis_function_one(p, kv, i, u)
        if abs(one - exact) > 1e-9:
            problems.append("p=%d kv=%r u=%r: basis_function_one(N_%d)=%r, basis_function/Cox-de Boor=%r" % (p, kv, u, i, one, exact))
if problems:
    print("DEFECT: basis_function_one disagrees with basis_function at the domain ends")
    print("\n".join(problems))
    sys.exit(1)
print("ok")
