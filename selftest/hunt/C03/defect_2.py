"""basis_function_ders_one raises IndexError when order > degree and the parameter is inside the support
(outside the support it returns order+1 zeros, so the intended result shape is order+1 entries)."""
import sys
from geomdl import helpers

degree, kv = 2, [0.0, 0.0, 0.0, 0.5, 1.0, 1.0, 1.0]
u = 0.3
problems = []
# outside the support: already works and fixes the expected shape
assert helpers.basis_function_ders_one(degree, kv, 3, u, 3) == [0.0, 0.0, 0.0, 0.0]
for i in (0, 1, 2):
    ref = helpers.basis_function_ders_one(degree, kv, i, u, degree)  # orders 0..degree work
    for order in (3, 4):
        try:
            d = helpers.basis_function_ders_one(degree, kv, i, u, order)
        except Exception as e:
            problems.append("i=%d order=%d: %r" % (i, order, e))
            continue
        exp = ref + [0.0] * (order - degree)
        if len(d) != len(exp) or any(abs(a - b) > 1e-9 for a, b in zip(d, exp)):
            problems.append("i=%d order=%d: got %r expected %r" % (i, order, d, exp))
if problems:
    print("DEFECT: basis_function_ders_one fails for order > degree")
    print("\n".join(problems))
    sys.exit(1)
print("ok")
