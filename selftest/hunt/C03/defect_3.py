"""basis_function_ders_one returns all zeros at the end of the domain (clamped knot vector), so the values do not
sum to one and disagree with basis_function_one / basis_function_ders."""
import sys
from geomdl import helpers

degree, kv, n = 2, [0.0, 0.0, 0.0, 0.5, 1.0, 1.0, 1.0], 4
u = 1.0
span = helpers.find_span_linear(degree, kv, n, u)                 # 3
ders = helpers.basis_function_ders(degree, kv, span, u, degree)   # [[0,0,1],[0,-4,4],[8,-24,16]] for N1,N2,N3
problems = []
total = [0.0] * (degree + 1)
for i in range(n):
    d = helpers.basis_function_ders_one(degree, kv, i, u, degree)
    one = helpers.basis_function_one(degree, kv, i, u)
    exp = [ders[k][i - (span - degree)] if span - degree <= i <= span else 0.0 for k in range(degree + 1)]
    if abs(d[0] - one) > 1e-9:
        problems.append("N_%d(1.0): ders_one[0]=%r but basis_function_one=%r" % (i, d[0], one))
    if any(abs(a - b) > 1e-9 for a, b in zip(d, exp)):
        problems.append("N_%d derivatives at 1.0: ders_one=%r but basis_function_ders=%r" % (i, d, exp))
    total = [t + x for t, x in zip(total, d)]
if abs(total[0] - 1.0) > 1e-9:
    problems.append("sum_i ders_one(i)[0] = %r, expected 1.0" % total[0])
if problems:
    print("DEFECT: basis_function_ders_one is wrong at the domain end")
    print("\n".join(problems))
    sys.exit(1)
print("ok")
