"""basis_function_ders raises IndexError when the derivative order exceeds the degree."""
import sys
from geomdl import helpers

degree, kv, n = 2, [0.0, 0.0, 0.0, 0.5, 1.0, 1.0, 1.0], 4
problems = []
for u in (0.0, 0.3, 0.5, 1.0):
    span = helpers.find_span_linear(degree, kv, n, u)
    for order in (3, 4):
        try:
            ders = helpers.basis_function_ders(degree, kv, span, u, order)
        except Exception as e:
            problems.append("u=%s order=%d: %r" % (u, order, e))
            continue
        # derivatives of order > degree are identically zero; every derivative row must sum to zero
        for k, row in enumerate(ders):
            if k >= 1 and abs(sum(row)) > 1e-9:
                problems.append("u=%s order=%d: row %d sums to %r" % (u, order, k, sum(row)))
            if k > degree and any(abs(x) > 1e-12 for x in row):
                problems.append("u=%s order=%d: row %d is not zero: %r" % (u, order, k, row))
if problems:
    print("DEFECT: basis_function_ders fails for order > degree")
    print("\n".join(problems))
    sys.exit(1)
print("ok")
