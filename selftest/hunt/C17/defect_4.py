"""C17 defect 4: operations.split_surface_u / split_surface_v (and therefore decompose_surface) create the pieces with
temp_obj.__class__(), dropping normalize_kv=False.  The knot vector of the direction that is NOT split is re-normalised
too, so a piece of an un-normalised surface can no longer be evaluated at the original parameter of that direction."""
import sys
from geomdl import BSpline, operations

P = [[i, j, (i * i + 2 * j) % 5] for i in range(4) for j in range(4)]
bu = [0.0, 0.0, 0.0, 0.5, 1.0, 1.0, 1.0]
bv = [0.0, 0.0, 0.0, 0.25, 1.0, 1.0, 1.0]
au, bu_ = 2.0, 5.0     # u range
av, bv_ = 0.5, 1.0     # v range (inside [0,1]: wrong answers are silent)


def make(norm):
    s = BSpline.Surface(normalize_kv=norm)
    s.degree_u = 2
    s.degree_v = 2
    s.set_ctrlpts(P, 4, 4)
    s.knotvector_u = [au + (bu_ - au) * k for k in bu]
    s.knotvector_v = [av + (bv_ - av) * k for k in bv]
    return s


tu, tv = 0.3, 0.6                       # normalised parameters; split at tu_split in u only
tsplit = 0.7
sn, sr = make(True), make(False)
pn = operations.split_surface_u(sn, tsplit)
pr = operations.split_surface_u(sr, au + (bu_ - au) * tsplit)
print("un-normalised surface domain", sr.domain, "-> piece domains", [p.domain for p in pr])
# the first piece contains u=tu.  v was not touched by the split.
exp = sn.evaluate_single((tu, tv))
chk = pn[0].evaluate_single((tu / tsplit, tv))           # normalised: same v is still valid
assert all(abs(x - y) < 1e-9 for x, y in zip(exp, chk))
v_orig = av + (bv_ - av) * tv
u_piece = pr[0].domain[0][0] + (pr[0].domain[0][1] - pr[0].domain[0][0]) * (tu / tsplit)
try:
    got = pr[0].evaluate_single((u_piece, v_orig))
except Exception as e:
    got = "raised %s: %s" % (type(e).__name__, e)
print("expected", exp, "got", got)
if not (isinstance(got, list) and all(abs(x - y) < 1e-9 for x, y in zip(exp, got))):
    print("DEFECT: piece of an un-normalised surface split in u cannot be evaluated at the original v parameter "
          "(v knot vector %r was re-normalised to %r)" % (sr.knotvector_v, pr[0].knotvector_v))
    sys.exit(1)
print("OK")
