"""C17 defect 5: convert.bspline_to_nurbs / nurbs_to_bspline and construct.extract_curves / extract_surfaces create their
results with default options, dropping normalize_kv=False: the result lives on [0,1] instead of the original knot range,
so the same query at the affinely mapped parameter raises (or is silently wrong when the range lies inside [0,1])."""
import sys
from geomdl import BSpline, convert, construct

P = [[0.0, 0.0, 0.0], [1.0, 2.0, 1.0], [3.0, 3.0, 0.0], [4.0, 0.0, 2.0], [6.0, 1.0, 1.0]]
base = [0.0, 0.0, 0.0, 0.25, 0.75, 1.0, 1.0, 1.0]
bad = []
for (a, b) in [(0.5, 1.0), (2.0, 5.0)]:
    c = BSpline.Curve(normalize_kv=False)
    c.degree = 2
    c.ctrlpts = P
    c.knotvector = [a + (b - a) * k for k in base]
    n = convert.bspline_to_nurbs(c)
    u = a + (b - a) * 0.4
    exp = c.evaluate_single(u)
    try:
        got = n.evaluate_single(u)
    except Exception as e:
        got = "raised %s: %s" % (type(e).__name__, e)
    print("range", (a, b), "converted domain", n.domain, "C(u)=", exp, "converted(u)=", got)
    if not (isinstance(got, list) and all(abs(x - y) < 1e-9 for x, y in zip(exp, got))):
        bad.append(('convert', (a, b), exp, got))

s = BSpline.Surface(normalize_kv=False)
s.degree_u = 2
s.degree_v = 1
s.set_ctrlpts([[i, j, (i * j) % 3] for i in range(3) for j in range(2)], 3, 2)
s.knotvector_u = [0.5, 0.5, 0.5, 1.0, 1.0, 1.0]
s.knotvector_v = [3.0, 3.0, 4.0, 4.0]
iso = construct.extract_curves(s)['u'][0]          # boundary curve v = 3.0
exp = s.evaluate_single((0.7, 3.0))
try:
    got = iso.evaluate_single(0.7)
except Exception as e:
    got = "raised %s: %s" % (type(e).__name__, e)
print("extracted boundary curve domain", iso.domain, "S(0.7,3)=", exp, "curve(0.7)=", got)
if not (isinstance(got, list) and all(abs(x - y) < 1e-9 for x, y in zip(exp, got))):
    bad.append(('extract_curves', exp, got))
if bad:
    print("DEFECT:", bad[0])
    sys.exit(1)
print("OK")
