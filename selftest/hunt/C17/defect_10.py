"""C17 defect 10: with normalize_kv=False the knot-vector setters store the caller's object verbatim (no copy, no
conversion to a list of floats).  (a) A knot vector given as a tuple -- accepted and documented ("list, tuple") -- makes
remove_knot() raise TypeError, while the very same call works with normalize_kv=True.  (b) The stored knot vector is
aliased with the caller's list, so later changes of that list silently change the curve (and leave evalpts stale),
which cannot happen with normalize_kv=True."""
import sys
from geomdl import BSpline

P = [[0, 0], [1, 2], [2, -1], [3, 3], [4, 0], [5, 1]]
KV = (0, 0, 0, 1, 2, 2, 3, 3, 3)
bad = []
res = {}
for norm in (True, False):
    c = BSpline.Curve(normalize_kv=norm)
    c.degree = 2
    c.ctrlpts = P
    c.knotvector = KV                                   # tuple
    u = 1.0 / 3.0 if norm else 1.0                      # the simple interior knot
    try:
        c.remove_knot(u)
        res[norm] = "ok, %d control points" % len(c.ctrlpts)
    except Exception as e:
        res[norm] = "raised %s: %s" % (type(e).__name__, e)
    print("normalize_kv=%-5s remove_knot -> %s" % (norm, res[norm]))
if res[True].startswith("ok") and not res[False].startswith("ok"):
    bad.append("remove_knot fails only with normalize_kv=False when the knot vector is a tuple")

vals = {}
for norm in (True, False):
    kv = [0.0, 0.0, 0.0, 1.0, 2.0, 2.0, 3.0, 3.0, 3.0]
    c = BSpline.Curve(normalize_kv=norm)
    c.degree = 2
    c.ctrlpts = P
    c.knotvector = kv
    u = 0.5 if norm else 1.5
    before = c.evaluate_single(u)
    kv[3] = 1.4                                         # the caller re-uses / edits his own list
    after = c.evaluate_single(u)
    vals[norm] = (before, after)
    print("normalize_kv=%-5s C(u) before %s after editing the caller's list %s" % (norm, before, after))
if vals[True][0] == vals[True][1] and vals[False][0] != vals[False][1]:
    bad.append("knot vector aliased with the caller's list only with normalize_kv=False")
if bad:
    print("DEFECT:", "; ".join(bad))
    sys.exit(1)
print("OK")
