"""C17 defect 12 (scope-dependent): the evaluator setter accepts the alternative evaluators (CurveEvaluator2 /
SurfaceEvaluator2) on rational shapes although no rational variant exists.  Selecting the alternative evaluator on a
NURBS curve/surface silently switches evaluate()/derivatives() to homogeneous coordinates (no division by the weight)."""
import sys
from geomdl import NURBS, evaluators


def curve(alt):
    c = NURBS.Curve()
    c.degree = 2
    c.ctrlptsw = [[0.0, 0.0, 1.0], [1.0, 1.0, 0.5], [2.0, 0.0, 2.0]]     # (x*w, y*w, w)
    c.knotvector = [0, 0, 0, 1, 1, 1]
    if alt:
        c.evaluator = evaluators.CurveEvaluator2()
    return c


a = curve(False).evaluate_single(0.5)
b = curve(True).evaluate_single(0.5)
da = curve(False).derivatives(0.5, 1)
db = curve(True).derivatives(0.5, 1)
print("default evaluator    :", a, da)
print("alternative evaluator:", b, db)
if len(a) != len(b) or any(abs(x - y) > 1e-9 for x, y in zip(a, b)) or len(da[1]) != len(db[1]):
    print("DEFECT: rational curve evaluated with the alternative evaluator gives a different (homogeneous) answer")
    sys.exit(1)
print("OK")
