"""C17 defect 2: Curve.reverse() with normalize_kv=False does not keep the knot range: the domain [a, b] becomes
[0, b - a], so the same query (reverse, then evaluate at the affinely mapped parameter) gives a different answer /
leaves the domain."""
import sys
from geomdl import BSpline

P = [[0.0, 0.0], [1.0, 2.0], [3.0, 3.0], [4.0, 0.0], [6.0, 1.0]]
base = [0.0, 0.0, 0.0, 0.25, 0.75, 1.0, 1.0, 1.0]
a, b = 2.0, 5.0


def make(norm):
    c = BSpline.Curve(normalize_kv=norm)
    c.degree = 2
    c.ctrlpts = P
    c.knotvector = [a + (b - a) * k for k in base]
    return c


cn = make(True)
cr = make(False)
orig = make(False)
cn.reverse()
cr.reverse()
print("normalised   : domain after reverse", cn.domain)
print("un-normalised: domain before", orig.domain, "after reverse", cr.domain)
bad = []
if tuple(cr.domain) != tuple(orig.domain):
    bad.append("domain changed from %r to %r" % (orig.domain, cr.domain))
for t in (0.0, 0.2, 0.5, 0.9, 1.0):
    u = a + (b - a) * t                       # affinely mapped parameter
    exp = cn.evaluate_single(t)               # == original curve at 1 - t
    exp2 = orig.evaluate_single(a + b - u)    # definition of the reversed curve on [a, b]
    assert all(abs(x - y) < 1e-9 for x, y in zip(exp, exp2))
    try:
        got = cr.evaluate_single(u)
    except Exception as e:
        got = "raised %s" % type(e).__name__
    ok = isinstance(got, list) and all(abs(x - y) < 1e-9 for x, y in zip(exp, got))
    print("t=%.2f u=%.2f expected %s got %s" % (t, u, exp, got))
    if not ok:
        bad.append((u, exp, got))
if bad:
    print("DEFECT: reversed un-normalised curve does not live on the original knot range:", bad[0])
    sys.exit(1)
print("OK")
