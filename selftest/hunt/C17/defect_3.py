"""C17 defect 3: operations.derivative_curve / derivative_surface build their results with obj.__class__() and so drop
normalize_kv=False (and find_span_func): the hodograph of an un-normalised shape silently gets a [0,1] domain, so
evaluating it at the shape's own parameters raises or returns a wrong vector."""
import sys
from geomdl import BSpline, operations

P = [[0.0, 0.0], [1.0, 2.0], [3.0, 3.0], [4.0, 0.0], [6.0, 1.0]]
base = [0.0, 0.0, 0.0, 0.25, 0.75, 1.0, 1.0, 1.0]
bad = []
for (a, b) in [(0.5, 1.0), (2.0, 5.0)]:
    c = BSpline.Curve(normalize_kv=False)
    c.degree = 2
    c.ctrlpts = P
    c.knotvector = [a + (b - a) * k for k in base]
    d = operations.derivative_curve(c)
    print("curve domain", c.domain, "-> derivative curve domain", d.domain)
    for t in (0.1, 0.5, 0.8):
        u = a + (b - a) * t
        exp = c.derivatives(u, 1)[1]          # C'(u) from the evaluator
        try:
            got = d.evaluate_single(u)
        except Exception as e:
            got = "raised %s: %s" % (type(e).__name__, e)
        ok = isinstance(got, list) and all(abs(x - y) < 1e-9 * max(1, abs(x)) for x, y in zip(exp, got))
        print("   u=%.3f C'(u)=%s hodograph(u)=%s" % (u, exp, got))
        if not ok:
            bad.append(('curve', (a, b), u, exp, got))

# surface: u- and v-derivative surfaces keep the range (deepcopy) but the uv one does not
s = BSpline.Surface(normalize_kv=False)
s.degree_u = 2
s.degree_v = 2
s.set_ctrlpts([[i, j, (i * j) % 3 + 0.5 * i] for i in range(4) for j in range(3)], 4, 3)
s.knotvector_u = [2.0, 2.0, 2.0, 3.0, 5.0, 5.0, 5.0]
s.knotvector_v = [-1.0, -1.0, -1.0, 1.0, 1.0, 1.0]
su, sv, suv = operations.derivative_surface(s)
print("surface domain", s.domain, "du", su.domain, "dv", sv.domain, "duv", suv.domain)
exp = s.derivatives(2.5, 0.25, 2)[1][1]
try:
    got = suv.evaluate_single((2.5, 0.25))
except Exception as e:
    got = "raised %s: %s" % (type(e).__name__, e)
print("   S_uv(2.5,0.25)=%s  duv-surface(2.5,0.25)=%s" % (exp, got))
if not (isinstance(got, list) and all(abs(x - y) < 1e-9 * max(1, abs(x)) for x, y in zip(exp, got))):
    bad.append(('surface-uv', exp, got))
if bad:
    print("DEFECT: derivative shapes of un-normalised geometry are not defined on the original knot range:", bad[0])
    sys.exit(1)
print("OK")
