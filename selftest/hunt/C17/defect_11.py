"""C17 defect 11 (low severity): linalg.matrix_identity is lru_cache'd but returns its mutable list-of-lists itself.
A caller that modifies the returned matrix poisons the cache, and whether the next matrix_identity(n) call is poisoned
depends on GEOMDL_CACHE_SIZE (eviction), i.e. the same call sequence gives different answers for different cache sizes."""
import os
import subprocess
import sys

CHILD = r'''
from geomdl import linalg
m = linalg.matrix_identity(2)
m[0][0] = 5.0                      # e.g. building a scaling matrix in place
linalg.matrix_identity(3)          # unrelated call (evicts the entry when the cache holds a single item)
print(linalg.matrix_identity(2))
'''

if __name__ == '__main__':
    out = {}
    for cs in (None, '1', '16', '1024'):
        env = dict(os.environ)
        env.pop('GEOMDL_CACHE_SIZE', None)
        if cs is not None:
            env['GEOMDL_CACHE_SIZE'] = cs
        out[cs] = subprocess.check_output([sys.executable, '-c', CHILD], env=env).decode().strip()
        print("GEOMDL_CACHE_SIZE=%-5s matrix_identity(2) -> %s" % (cs, out[cs]))
    expected = '[[1.0, 0.0], [0.0, 1.0]]'
    if len(set(out.values())) > 1 or any(v != expected for v in out.values()):
        print("DEFECT: result of matrix_identity(2) depends on the cache size / is not the identity")
        sys.exit(1)
    print("OK")
