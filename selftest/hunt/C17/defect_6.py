"""C17 defect 6: helpers.find_span_binsearch treats every parameter within an ABSOLUTE 1e-5 of the domain end as the
domain end.  For an un-normalised knot vector with a small (but perfectly conditioned) range such as [0, 1e-4] it returns
the last span for parameters that lie before the last interior knot, so the binary-search configuration evaluates a
different (wrong) point than the linear-search configuration."""
import sys
from fractions import Fraction as F
from geomdl import BSpline, helpers

base = [0.0, 0.0, 0.0, 0.25, 0.5, 0.75, 0.95, 1.0, 1.0, 1.0]
P = [[0.0, 0.0], [1.0, 2.0], [2.0, -1.0], [3.0, 3.0], [4.0, 0.0], [5.0, 2.0], [6.0, -2.0]]
a, b = 0.0, 1e-4
kv = [a + (b - a) * k for k in base]
t = 0.92                     # between the knots 0.75 and 0.95, i.e. 5% of the range away from the nearest knot
u = a + (b - a) * t


def N(i, p, U, x):           # exact Cox-de Boor
    if p == 0:
        return F(1) if U[i] <= x < U[i + 1] else F(0)
    r = F(0)
    if U[i + p] != U[i]:
        r += (x - U[i]) / (U[i + p] - U[i]) * N(i, p - 1, U, x)
    if U[i + p + 1] != U[i + 1]:
        r += (U[i + p + 1] - x) / (U[i + p + 1] - U[i + 1]) * N(i + 1, p - 1, U, x)
    return r


U = [F(k) for k in kv]
exact = [float(sum(N(i, 2, U, F(u)) * F(P[i][d]) for i in range(len(P)))) for d in range(2)]
res = {}
for fn in (helpers.find_span_linear, helpers.find_span_binsearch):
    c = BSpline.Curve(normalize_kv=False, find_span_func=fn)
    c.degree = 2
    c.ctrlpts = P
    c.knotvector = kv
    res[fn.__name__] = c.evaluate_single(u)
    print("%-22s span=%d point=%s" % (fn.__name__, fn(2, kv, len(P), u), res[fn.__name__]))
print("exact (fractions)       point=%s" % exact)
bad = [k for k, v in res.items() if any(abs(x - y) > 1e-9 for x, y in zip(v, exact))]
if bad:
    print("DEFECT: wrong point for knot range [%g, %g] with %s" % (a, b, bad))
    sys.exit(1)
print("OK")
