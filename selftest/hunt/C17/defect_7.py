"""C17 defect 7: trimmed tessellation depends on the knot range.  ray.intersect() decides INTERSECT vs SKEW with an
ABSOLUTE tolerance of 2**8 * eps (5.7e-14) on the distance between the two computed intersection points; with an
un-normalised surface whose parameters are of magnitude ~1e3 that distance is pure rounding noise above the tolerance,
real intersections of the trim curve with the tessellation grid are discarded and triangles along the trim boundary
go missing.  The same surface/trim with normalised knot vectors (or a range like [-3, 5]) gives the full mesh."""
import sys
from geomdl import BSpline, tessellate


def build(norm, a, b, ss=6):
    s = BSpline.Surface(normalize_kv=norm)
    s.degree_u = s.degree_v = 1
    s.set_ctrlpts([[0, 0, 0], [0, 1, 0], [1, 0, 0], [1, 1, 1]], 2, 2)
    s.knotvector_u = [a, a, b, b]
    s.knotvector_v = [a, a, b, b]
    s.sample_size = ss
    m = (lambda t: t) if norm else (lambda t: a + (b - a) * t)
    tp = [[0.23, 0.31], [0.67, 0.29], [0.71, 0.73], [0.27, 0.69], [0.23, 0.31]]   # generic quadrilateral hole
    tc = BSpline.Curve()
    tc.degree = 1
    tc.ctrlpts = [[m(x), m(y)] for x, y in tp]
    tc.knotvector = [0, 0, 0.25, 0.5, 0.75, 1, 1]
    tc.sample_size = 9
    s.tessellator = tessellate.TrimTessellate()
    s.trims = [tc]
    s.tessellate()
    return s


def area(s):
    tot = 0.0
    for f in s.faces:
        (x0, y0, _), (x1, y1, _), (x2, y2, _) = [v.data for v in f.vertices]
        tot += abs((x1 - x0) * (y2 - y0) - (x2 - x0) * (y1 - y0)) / 2.0
    return tot          # projected (x, y) area == area in normalised parameter space for this surface


ref = build(True, 0.0, 1.0)
print("normalised              : %d vertices %d triangles, covered area %.6f" % (len(ref.vertices), len(ref.faces), area(ref)))
bad = []
for (a, b) in [(-3.0, 5.0), (10.0, 1034.0), (0.0, 1000.0)]:
    s = build(False, a, b)
    print("un-normalised [%g, %g]: %d vertices %d triangles, covered area %.6f" % (a, b, len(s.vertices), len(s.faces), area(s)))
    if len(s.faces) != len(ref.faces) or abs(area(s) - area(ref)) > 1e-6:
        bad.append((a, b, len(s.faces), area(s)))
if bad:
    print("DEFECT: trimmed tessellation of the same surface differs for knot ranges", bad)
    sys.exit(1)
print("OK")
