"""C17 defect 8: SurfaceContainer.render(num_procs > 1) numbers the surfaces by the order in which the worker processes
happen to start on them (shared counter in multi.process_elements_surface) instead of by their position in the
container.  Names, plot indices and -- worse -- the user supplied per-surface colours (cpcolor / evalcolor lists) are
therefore attached to the wrong surfaces, depending on the number of processes and on scheduling."""
import sys
import copy
from geomdl import BSpline, multi, vis


class Cfg(vis.VisConfigAbstract):
    pass


class Recorder(vis.VisAbstract):
    """ minimal visualization component that just records what it is asked to plot """
    def __init__(self, config=Cfg(), **kw):
        super(Recorder, self).__init__(config, **kw)
        self.out = None

    def render(self, **kwargs):
        self.out = copy.deepcopy(self._plots)


def surf(shift, n=2):
    s = BSpline.Surface()
    s.degree_u = s.degree_v = 1
    s.set_ctrlpts([[shift + i, j, 0.0] for i in range(n) for j in range(n)], n, n)
    s.knotvector_u = [0.0] + [i / (n - 1.0) for i in range(n)] + [1.0]
    s.knotvector_v = [0.0] + [i / (n - 1.0) for i in range(n)] + [1.0]
    return s


def run(nprocs, mode):
    n = 6
    # surface 0 has a large control net (slow to ship to a worker), the others are tiny
    surfs = [surf(0.0, 120)] + [surf(1000.0 * i) for i in range(1, n)]
    mc = multi.SurfaceContainer(surfs)
    mc.sample_size = 3
    rec = Recorder()
    rec.mconf = ['evalpts', mode]
    mc.vis = rec
    cols = ['colour-%d' % i for i in range(n)]
    mc.render(num_procs=nprocs, evalcolor=cols, cpcolor=cols, plot=False)
    res = []
    for p in rec.out:
        if p['type'] == 'evalpts':
            x = p['ptsarr'][0][0].data[0] if mode == 'triangles' else p['ptsarr'][0][0]
            res.append((int(round(x / 1000.0)), p['color'], p['idx'], p['name']))   # (true surface number, colour, idx, name)
    return res


if __name__ == '__main__':
    bad = None
    for mode in ('triangles', 'points'):
        base = run(1, mode)
        assert all(k == int(c.split('-')[1]) == i for k, c, i, _ in base), base
        for nprocs in (2, 4, 8):
            for attempt in range(4):
                r = run(nprocs, mode)
                if r != base:
                    bad = (mode, nprocs, base, r)
                    break
            if bad:
                break
        if bad:
            break
    if bad:
        print("num_procs=1 :", bad[2])
        print("num_procs=%d :" % bad[1], bad[3])
        print("DEFECT: with evalpts=%r the colours / indices / names given to the surfaces depend on num_procs" % bad[0])
        sys.exit(1)
    print("OK")
