"""C17 defect 1: SurfaceEvaluator2 (alternative evaluator) returns zeros for SKL[k][l] with k+l > order,
while the default SurfaceEvaluator returns the real mixed derivatives for the same query."""
import sys
from geomdl import BSpline, evaluators


def make(alt):
    s = BSpline.Surface()
    s.degree_u = 2
    s.degree_v = 2
    s.set_ctrlpts([[0, 0, 0], [0, 1, 1], [0, 2, 0],
                   [1, 0, 2], [1, 1, 5], [1, 2, 1],
                   [2, 0, 0], [2, 1, 3], [2, 2, 4]], 3, 3)
    s.knotvector_u = [0, 0, 0, 1, 1, 1]
    s.knotvector_v = [0, 0, 0, 1, 1, 1]
    if alt:
        s.evaluator = evaluators.SurfaceEvaluator2()
    return s


u, v, order = 0.3, 0.6, 1
d_def = make(False).derivatives(u, v, order)
d_alt = make(True).derivatives(u, v, order)

# independent value of S_uv by central finite differences of the (exactly evaluated) surface
s = make(False)
h = 1e-4
fd = [(a - b - c + d) / (4 * h * h) for a, b, c, d in zip(s.evaluate_single((u + h, v + h)), s.evaluate_single((u + h, v - h)),
                                                         s.evaluate_single((u - h, v + h)), s.evaluate_single((u - h, v - h)))]
print("default     SKL[1][1] =", d_def[1][1])
print("alternative SKL[1][1] =", d_alt[1][1])
print("finite-diff S_uv      =", fd)
bad = []
for k in range(order + 1):
    for l in range(order + 1):
        if any(abs(a - b) > 1e-9 * max(1.0, abs(a)) for a, b in zip(d_def[k][l], d_alt[k][l])):
            bad.append((k, l, d_def[k][l], d_alt[k][l]))
if bad:
    print("DEFECT: default and alternative surface evaluators disagree for the same derivatives() query:", bad)
    sys.exit(1)
print("OK")
