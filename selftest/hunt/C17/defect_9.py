"""C17 defect 9: SurfaceContainer.tessellate(num_procs > 1) replaces the contained surfaces by the pickled copies that
come back from the worker processes.  With num_procs=1 the user's surface objects are tessellated in place and stay
in the container; with num_procs>1 the user's objects are left untouched and are silently detached from the container,
so (a) surf.tessellator.vertices / surf.delta differ, and (b) a later edit of the surface followed by
tessellate(force=True) is ignored -- the container returns the stale mesh."""
import sys
from geomdl import BSpline, multi, operations


def surf():
    s = BSpline.Surface()
    s.degree_u = s.degree_v = 1
    s.set_ctrlpts([[0, 0, 0], [0, 1, 0], [1, 0, 0], [1, 1, 1]], 2, 2)
    s.knotvector_u = [0, 0, 1, 1]
    s.knotvector_v = [0, 0, 1, 1]
    return s


def scenario(nprocs):
    s = surf()
    mc = multi.SurfaceContainer(s)
    mc.sample_size = 3
    mc.tessellate(num_procs=nprocs)
    held_verts = len(s.tessellator.vertices)          # what the user's own object knows about
    same_obj = mc[0] is s
    # edit the surface the user put into the container, then force a re-tessellation
    operations.translate(s, (0.0, 0.0, 10.0), inplace=True)
    mc.tessellate(num_procs=nprocs, force=True)
    zmin = min(v.data[2] for v in mc.vertices)
    return dict(held_vertices=held_verts, element_is_users_object=same_obj, zmin_after_edit=zmin,
                user_sample_size=s.sample_size)


if __name__ == '__main__':
    base = scenario(1)
    print("num_procs=1:", base)
    bad = []
    for n in (2, 4, 8):
        r = scenario(n)
        print("num_procs=%d:" % n, r)
        if any(r[k] != base[k] for k in ('held_vertices', 'zmin_after_edit', 'user_sample_size')):
            bad.append(n)
    if bad:
        print("DEFECT: state / results after SurfaceContainer.tessellate differ for num_procs in", bad,
              "(edited surface ignored: zmin should be 10.0)")
        sys.exit(1)
    print("OK")
