"""convert.bspline_to_nurbs / nurbs_to_bspline do not give an identically evaluating shape
when the source was created with normalize_kv=False (knot range != [0,1]); delta is dropped too."""
import sys
from geomdl import BSpline, NURBS, convert

msgs = []

def same(a, b, tol=1e-9):
    return len(a) == len(b) and all(abs(x - y) <= tol * max(1.0, abs(x)) for x, y in zip(a, b))

# --- non-rational -> rational
crv = BSpline.Curve(normalize_kv=False)
crv.degree = 2
crv.ctrlpts = [[0.0, 0.0], [1.0, 3.0], [3.0, 3.0], [4.0, 0.0]]
crv.knotvector = [0.0, 0.0, 0.0, 1.0, 2.0, 2.0, 2.0]     # domain [0, 2]
crv.delta = 0.25

rat = convert.bspline_to_nurbs(crv)
if list(rat.knotvector) != list(crv.knotvector):
    msgs.append("bspline_to_nurbs: knot vector %s became %s" % (list(crv.knotvector), list(rat.knotvector)))
for u in (0.5, 1.0, 1.5, 2.0):
    exp = crv.evaluate_single(u)
    try:
        got = rat.evaluate_single(u)
    except Exception as e:
        msgs.append("bspline_to_nurbs: C(%g) expected %s, converted shape raised %s: %s" % (u, exp, type(e).__name__, e))
        continue
    if not same(exp, got):
        msgs.append("bspline_to_nurbs: C(%g) expected %s, converted shape gives %s" % (u, exp, got))
if len(rat.evalpts) != len(crv.evalpts):
    msgs.append("bspline_to_nurbs: evalpts has %d points, original %d (delta dropped)" % (len(rat.evalpts), len(crv.evalpts)))

# --- rational (unit weights) -> non-rational
nrb = NURBS.Curve(normalize_kv=False)
nrb.degree = 2
nrb.ctrlpts = [[0.0, 0.0], [1.0, 3.0], [3.0, 3.0], [4.0, 0.0]]     # unit weights
nrb.knotvector = [0.0, 0.0, 0.0, 1.0, 2.0, 2.0, 2.0]
bsp = convert.nurbs_to_bspline(nrb)
for u in (0.5, 1.0):
    exp = nrb.evaluate_single(u)
    try:
        got = bsp.evaluate_single(u)
    except Exception as e:
        msgs.append("nurbs_to_bspline: C(%g) expected %s, converted shape raised %s" % (u, exp, type(e).__name__))
        continue
    if not same(exp, got):
        msgs.append("nurbs_to_bspline: C(%g) expected %s, converted shape gives %s" % (u, exp, got))

if msgs:
    print("DEFECT PRESENT: conversion does not give an identically evaluating shape")
    for m in msgs:
        print("  -", m)
    sys.exit(1)
print("OK")
