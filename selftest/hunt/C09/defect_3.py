"""ctrlpts / weights setters of rational shapes zip() the new values with the old ones: assigning a different
number of control points silently drops points (or leaves a surface whose point count contradicts its size)."""
import sys
from geomdl import NURBS
from geomdl.exceptions import GeomdlException

msgs = []

# --- curve: 4 points -> 6 points
c = NURBS.Curve()
c.degree = 2
c.ctrlpts = [[0, 0], [1, 1], [2, 0], [3, 1]]
c.weights = [1, 2, 3, 4]
new_pts = [[0.0, 0.0], [1.0, 1.0], [2.0, 0.0], [3.0, 1.0], [4.0, 0.0], [5.0, 1.0]]
try:
    c.ctrlpts = new_pts
    got = [list(p) for p in c.ctrlpts]
    if got != new_pts:
        msgs.append("curve.ctrlpts = <6 points> reads back %d points: %s" % (len(got), got))
    if not (len(c.ctrlpts) == len(c.weights) == len(c.ctrlptsw)):
        msgs.append("curve views have different lengths")
except (ValueError, GeomdlException):
    pass    # an explicit rejection would be an acceptable fix

# --- curve: fewer weights than points
c = NURBS.Curve()
c.degree = 2
c.ctrlpts = [[0, 0], [1, 1], [2, 0], [3, 1]]
try:
    c.weights = [1, 2, 3]
    if len(c.ctrlpts) != 4:
        msgs.append("curve.weights = <3 weights> silently reduced the curve to %d control points" % len(c.ctrlpts))
except (ValueError, GeomdlException):
    pass

# --- surface: 2x2 -> 3x2
s = NURBS.Surface()
s.degree_u = 1; s.degree_v = 1
s.set_ctrlpts([[0, 0, 0, 1], [0, 2, 0, 2], [3, 0, 0, 3], [4, 4, 0, 4]], 2, 2)
s.ctrlpts_size_u = 3
try:
    s.ctrlpts = [[0, 0, 0], [0, 1, 0], [1, 0, 0], [1, 1, 0], [2, 0, 0], [2, 1, 0]]
    if len(s.ctrlpts) != s.ctrlpts_size_u * s.ctrlpts_size_v:
        msgs.append("surface of size %dx%d holds %d control points after surface.ctrlpts = <6 points>"
                    % (s.ctrlpts_size_u, s.ctrlpts_size_v, len(s.ctrlpts)))
except (ValueError, GeomdlException):
    pass
except IndexError as e:
    msgs.append("surface.ctrlpts = <6 points> on a surface resized to 3x2 raised IndexError (%s); the surface is left "
                "with %d control points for size %dx%d (the same sequence works on BSpline.Surface)"
                % (e, len(s._control_points), s.ctrlpts_size_u, s.ctrlpts_size_v))

if msgs:
    print("DEFECT PRESENT: rational ctrlpts/weights setters silently truncate")
    for m in msgs:
        print("  -", m)
    sys.exit(1)
print("OK")
