"""copy.copy() of a rational shape shares the ctrlpts/weights cache dict with the original; after the copy gets
new control points the ORIGINAL reports the copy's unweighted points / weights (inconsistent with its own ctrlptsw)."""
import sys
import copy
from geomdl import NURBS

c = NURBS.Curve()
c.degree = 2
c.ctrlpts = [[0, 0], [1, 1], [2, 0], [3, 1]]
c.weights = [1, 2, 3, 4]
c.knotvector = [0, 0, 0, 0.5, 1, 1, 1]

c2 = copy.copy(c)
c2.ctrlptsw = [[0, 0, 1], [1, 1, 1], [2, 0, 1], [9, 9, 1]]
_ = c2.ctrlpts                      # fills the (shared) cache with the copy's data

msgs = []
for p, w, pw in zip(c.ctrlpts, c.weights, c.ctrlptsw):
    exp = [x * w for x in p] + [w]
    if any(abs(a - b) > 1e-12 for a, b in zip(exp, pw)):
        msgs.append("original: ctrlpts %s * weight %s != ctrlptsw %s" % (p, w, pw))
if msgs:
    print("DEFECT PRESENT: shallow copy shares the ctrlpts/weights cache")
    for m in msgs:
        print("  -", m)
    sys.exit(1)
print("OK")
