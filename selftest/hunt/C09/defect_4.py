"""CPGen.GridWeighted.grid is cached and is not invalidated by bumps(): after the grid has been read once,
the weighted grid no longer equals (grid point * its weight, weight)."""
import sys
import random
from geomdl import CPGen

random.seed(0)
g = CPGen.GridWeighted(4.0, 4.0)
g.generate(4, 4)
g.weight = [0.5 + 0.1 * i for i in range(len(g))]
_ = g.grid                                   # first read fills the cache
g.bumps(1, bump_height=3.0, base_extent=1)   # changes the z-value of the grid points

plain = CPGen.Grid.grid.fget(g)              # the unweighted grid points held by the generator
W = g.weight
msgs = []
for i, row in enumerate(g.grid):
    for j, ptw in enumerate(row):
        w = W[j + i * len(row)]
        exp = [c * w for c in plain[i][j]] + [w]
        if any(abs(a - b) > 1e-12 for a, b in zip(ptw, exp)):
            msgs.append("grid[%d][%d] = %s, expected %s (point %s, weight %s)" % (i, j, ptw, exp, plain[i][j], w))
if not any(p[2] != 0.0 for r in plain for p in r):
    print("test inconclusive: no bump generated"); sys.exit(2)
if msgs:
    print("DEFECT PRESENT: GridWeighted.grid is stale after bumps()")
    for m in msgs[:5]:
        print("  -", m)
    sys.exit(1)
print("OK")
