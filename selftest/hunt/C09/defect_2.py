"""NURBS.Curve empties, in place, the list object previously returned by the `weights` getter whenever
control points are (re)assigned, so saved weights cannot be set back (read weights -> set ctrlptsw -> set weights)."""
import sys
from geomdl import NURBS

msgs = []

def make():
    c = NURBS.Curve()
    c.degree = 2
    c.ctrlpts = [[0, 0], [1, 1], [2, 0], [3, 1]]
    c.weights = [1, 2, 3, 4]
    c.knotvector = [0, 0, 0, 0.5, 1, 1, 1]
    return c

# (a) the value read from the getter is destroyed by a later, unrelated set
c = make()
saved = c.weights                      # read one view
c.ctrlpts = [[0, 0], [1, 2], [2, 0], [3, 2]]   # set another view
if list(saved) != [1.0, 2.0, 3.0, 4.0]:
    msgs.append("list read from curve.weights became %s after curve.ctrlpts = ..." % (saved,))

# (b) read weights, replace the homogeneous points, put the saved weights back
c = make()
saved = c.weights
c.ctrlptsw = [[0, 0, 1], [1, 1, 1], [2, 0, 1], [3, 1, 1]]
try:
    c.weights = saved
    if list(c.weights) != [1.0, 2.0, 3.0, 4.0]:
        msgs.append("restored weights read back as %s" % (c.weights,))
    elif [list(p) for p in c.ctrlptsw] != [[0, 0, 1], [2, 2, 2], [6, 0, 3], [12, 4, 4]]:
        msgs.append("ctrlptsw after restoring weights: %s" % (c.ctrlptsw,))
except Exception as e:
    msgs.append("curve.weights = <weights read earlier> raised %s: %s" % (type(e).__name__, e))

# surfaces do not have the problem (reference behaviour)
s = NURBS.Surface(); s.degree_u = 1; s.degree_v = 1
s.set_ctrlpts([[0, 0, 0, 1], [0, 2, 0, 2], [3, 0, 0, 3], [4, 4, 0, 4]], 2, 2)
sw = s.weights
s.ctrlpts = [[0, 0, 1], [0, 1, 1], [1, 0, 1], [1, 1, 1]]
assert list(sw) == [1.0, 2.0, 3.0, 4.0]

if msgs:
    print("DEFECT PRESENT: NURBS.Curve clears the returned weights list in place")
    for m in msgs:
        print("  -", m)
    sys.exit(1)
print("OK")
