"""C19 / symmetry: `a == b` and `b == a` disagree when the two shapes were created with
different ``precision=`` keyword values, because SplineGeometry.__eq__ uses only the
left operand's tolerance (10 ** -self._precision)."""
import sys
from geomdl import BSpline, NURBS


def curve(cls, pts, **kw):
    c = cls(**kw)
    c.degree = 2
    c.ctrlpts = pts
    c.knotvector = [0, 0, 0, 0.5, 1, 1, 1]      # exactly representable: no rounding involved
    return c


def surface(cls, pts, **kw):
    s = cls(**kw)
    s.degree_u = 1
    s.degree_v = 1
    s.ctrlpts_size_u = 2
    s.ctrlpts_size_v = 2
    s.ctrlpts = pts
    s.knotvector_u = [0, 0, 1, 1]
    s.knotvector_v = [0, 0, 1, 1]
    return s


problems = []
P = [[0.0, 0.0], [1.0, 2.0], [3.0, 1.0], [4.0, 0.0]]
Q = [list(p) for p in P]
Q[1][0] += 1e-7                                  # one coordinate differs by 1e-7

for cls in (BSpline.Curve, NURBS.Curve):
    a = curve(cls, P, precision=6)               # tolerance 1e-6
    b = curve(cls, Q)                            # default precision 18 -> tolerance 1e-18
    if (a == b) != (b == a):
        problems.append("%s.%s control point: a == b is %s but b == a is %s"
                        % (cls.__module__, cls.__name__, a == b, b == a))
    if (a != b) != (b != a):
        problems.append("%s.%s control point: a != b is %s but b != a is %s"
                        % (cls.__module__, cls.__name__, a != b, b != a))

# same thing through a knot (normalize_kv=False so that the stored knots are the given ones)
a = curve(BSpline.Curve, P, precision=6, normalize_kv=False)
b = curve(BSpline.Curve, P, normalize_kv=False)
b.knotvector = [0, 0, 0, 0.5 + 1e-7, 1, 1, 1]
if (a == b) != (b == a):
    problems.append("knot: a == b is %s but b == a is %s" % (a == b, b == a))

# and for a surface
S = [[0.0, 0.0, 0.0], [0.0, 1.0, 0.0], [1.0, 0.0, 0.0], [1.0, 1.0, 1.0]]
T = [list(p) for p in S]
T[3][2] += 1e-7
a = surface(BSpline.Surface, S, precision=6)
b = surface(BSpline.Surface, T)
if (a == b) != (b == a):
    problems.append("surface: a == b is %s but b == a is %s" % (a == b, b == a))

if problems:
    print("DEFECT PRESENT: shape equality is not symmetric for shapes of different precision")
    for p in problems:
        print("  -", p)
    sys.exit(1)
print("OK: == is symmetric for shapes of different precision")
sys.exit(0)
