"""Defect 1: derivative_curve / derivative_surface re-normalise the trimmed knot vector.

For a shape whose knot vector is not clamped (first knot != second knot or last != last-but-one),
the hodograph knot vector U[1:-1] no longer spans [0, 1]; assigning it through the ``knotvector``
setter (normalize_kv=True, the default) rescales it, so the hodograph is re-parametrised and
hodograph(u) != C'(u).
"""
import sys
from geomdl import BSpline, operations

fail = []

# --- curve: uniform, unclamped quadratic ---------------------------------------------------------
c = BSpline.Curve()
c.degree = 2
c.ctrlpts = [[0.0, 0.0], [1.0, 2.0], [3.0, 1.0], [4.0, 4.0], [6.0, 0.0]]
c.knotvector = [0, 1, 2, 3, 4, 5, 6, 7]          # normalised by the library to k/7; domain [2/7, 5/7]
h = operations.derivative_curve(c)
# hand-computed: at the domain start u = U[2] = 2/7, C'(u) = 2 (P1 - P0) / (U[3] - U[1]) = (7, 14)
assert max(abs(a - b) for a, b in zip(c.derivatives(2.0 / 7, 1)[1], (7.0, 14.0))) < 1e-9
for u in (2.0 / 7, 0.4, 0.5, 0.6):
    exact = c.derivatives(u, 1)[1]               # verified against exact Cox-de Boor
    got = h.evaluate_single(u)
    if max(abs(a - b) for a, b in zip(exact, got)) > 1e-9 * max(1.0, max(abs(x) for x in exact)):
        fail.append("curve u=%r: C'(u)=%r but derivative_curve(C)(u)=%r" % (u, exact, got))
if list(h.knotvector) != list(c.knotvector)[1:-1]:
    fail.append("curve hodograph knot vector %r != U[1:-1] = %r" % (list(h.knotvector), list(c.knotvector)[1:-1]))

# --- surface -----------------------------------------------------------------------------------
s = BSpline.Surface()
s.degree_u = 2
s.degree_v = 2
s.set_ctrlpts([[float(i), float(j), float((i * i + 2 * j * i + j) % 5)] for i in range(4) for j in range(4)], 4, 4)
s.knotvector_u = [0, 1, 2, 3, 4, 5, 6]
s.knotvector_v = [0, 1, 2, 3, 4, 5, 6]
su, sv, suv = operations.derivative_surface(s)
for (u, v) in ((0.4, 0.45), (0.5, 0.6)):
    skl = s.derivatives(u, v, 2)
    for name, hs, exact in (("u", su, skl[1][0]), ("v", sv, skl[0][1]), ("uv", suv, skl[1][1])):
        try:
            got = hs.evaluate_single((u, v))
        except Exception as e:
            fail.append("surface d%s (u,v)=%r raised %s: %s" % (name, (u, v), type(e).__name__, e))
            continue
        if max(abs(a - b) for a, b in zip(exact, got)) > 1e-9 * max(1.0, max(abs(x) for x in exact)):
            fail.append("surface d%s (u,v)=%r: exact %r, hodograph surface gives %r" % (name, (u, v), exact, got))

if fail:
    print("DEFECT 1 PRESENT (hodograph of an unclamped shape is re-parametrised):")
    for f in fail:
        print("  " + f)
    sys.exit(1)
print("defect 1 not present")
