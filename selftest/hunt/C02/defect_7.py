"""Defect 7: helpers.basis_function_ders (A2.3) and helpers.basis_function_ders_one (A2.5) raise IndexError when the
requested order exceeds the degree instead of returning zeros for the orders above the degree."""
import sys
from geomdl import helpers

p = 2
U = [0.0, 0.0, 0.0, 0.5, 1.0, 1.0, 1.0]
n = 4
u = 0.3
span = helpers.find_span_linear(p, U, n, u)
fail = []
try:
    d = helpers.basis_function_ders(p, U, span, u, p + 1)
    ok = all(abs(x) < 1e-12 for row in d[p + 1:] for x in row)
    if not ok:
        fail.append("basis_function_ders: orders above degree are not zero: %r" % (d,))
except Exception as e:
    fail.append("basis_function_ders(order=degree+1) raised %s: %s" % (type(e).__name__, e))
try:
    d = helpers.basis_function_ders_one(p, U, 1, u, p + 1)
    if len(d) != p + 2 or abs(d[p + 1]) > 1e-12:
        fail.append("basis_function_ders_one: %r" % (d,))
except Exception as e:
    fail.append("basis_function_ders_one(order=degree+1) raised %s: %s" % (type(e).__name__, e))
if fail:
    print("DEFECT 7 PRESENT:")
    for f in fail:
        print("  " + f)
    sys.exit(1)
print("defect 7 not present")
