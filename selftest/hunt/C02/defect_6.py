"""Defect 6: helpers.basis_function_ders_one (A2.5) returns all zeros at the end of the parametric domain,
including ders[0] = 0 for the last basis function whose value there is 1 (basis_function_one and
basis_function_ders both give the correct values)."""
import sys
from geomdl import helpers

p = 2
U = [0.0, 0.0, 0.0, 0.5, 1.0, 1.0, 1.0]
n = 4
u = 1.0
span = helpers.find_span_linear(p, U, n, u)          # 3
full = helpers.basis_function_ders(p, U, span, u, 2)  # rows: N, N', N'' for N_1, N_2, N_3
# exact (left limit at u=1):  N_3 = 1, N_3' = 2/(1-0.5) = 4, N_3'' = 2*1/((1-.5)(1-.5)) = 8
assert [round(full[k][2], 9) for k in range(3)] == [1.0, 4.0, 8.0]
fail = []
for j in range(p + 1):
    i = span - p + j
    one = helpers.basis_function_ders_one(p, U, i, u, 2)
    exp = [full[k][j] for k in range(3)]
    if max(abs(a - b) for a, b in zip(one, exp)) > 1e-9:
        fail.append("N_%d at u=1: basis_function_ders_one %r, exact %r" % (i, one, exp))
v = helpers.basis_function_one(p, U, n - 1, u)
if abs(v - helpers.basis_function_ders_one(p, U, n - 1, u, 0)[0]) > 1e-12:
    fail.append("basis_function_one(N_3, 1.0) = %r but basis_function_ders_one(..., order=0)[0] = %r"
                % (v, helpers.basis_function_ders_one(p, U, n - 1, u, 0)[0]))
if fail:
    print("DEFECT 6 PRESENT:")
    for f in fail:
        print("  " + f)
    sys.exit(1)
print("defect 6 not present")
