"""Defect 4: SurfaceEvaluator2 (A3.7/A3.8) returns zero vectors for the mixed derivatives with k+l > order,
whereas SurfaceEvaluator (A3.6) and SurfaceEvaluatorRational (A4.4) return the exact values in the same
entries of the (order+1) x (order+1) table ``SKL``.  The two shipped evaluator families disagree.
"""
import sys
from geomdl import BSpline, evaluators

def make(ev=None):
    s = BSpline.Surface()
    s.degree_u = 2
    s.degree_v = 2
    # S(u,v) with z = bilinear-ish part so that S_uv != 0
    s.set_ctrlpts([[float(i), float(j), float(i * j)] for i in range(3) for j in range(3)], 3, 3)
    s.knotvector_u = [0, 0, 0, 1, 1, 1]
    s.knotvector_v = [0, 0, 0, 1, 1, 1]
    if ev is not None:
        s.evaluator = ev
    return s

# control net is the degree-elevated bilinear patch (x,y,z) = (2u, 2v, 4uv): S_uv = (0, 0, 4) everywhere
exact_uv = [0.0, 0.0, 4.0]
a = make().derivatives(0.3, 0.6, 1)
b = make(evaluators.SurfaceEvaluator2()).derivatives(0.3, 0.6, 1)
fail = []
if max(abs(x - y) for x, y in zip(a[1][1], exact_uv)) > 1e-9:
    fail.append("SurfaceEvaluator  SKL[1][1] (order=1) = %r, exact %r" % (a[1][1], exact_uv))
if max(abs(x - y) for x, y in zip(b[1][1], exact_uv)) > 1e-9:
    fail.append("SurfaceEvaluator2 SKL[1][1] (order=1) = %r, exact %r (SurfaceEvaluator gives %r)" % (b[1][1], exact_uv, a[1][1]))
a = make().derivatives(0.3, 0.6, 2)
b = make(evaluators.SurfaceEvaluator2()).derivatives(0.3, 0.6, 2)
for k in range(3):
    for l in range(3):
        if max(abs(x - y) for x, y in zip(a[k][l], b[k][l])) > 1e-9:
            fail.append("order=2: SKL[%d][%d]: SurfaceEvaluator %r vs SurfaceEvaluator2 %r" % (k, l, a[k][l], b[k][l]))
if fail:
    print("DEFECT 4 PRESENT:")
    for f in fail:
        print("  " + f)
    sys.exit(1)
print("defect 4 not present")
