"""Defect 2: derivative_curve and the uv-surface of derivative_surface drop normalize_kv=False.

The hodograph is built with ``obj.__class__()`` so the new shape has the default
normalize_kv=True: its knot vector is rescaled to [0, 1] although its control points were
computed with the original (un-normalised) knot differences.  The hodograph therefore lives
on another parametric domain than the shape it was derived from.
"""
import sys
from geomdl import BSpline, operations

fail = []

c = BSpline.Curve(normalize_kv=False)
c.degree = 2
c.ctrlpts = [[0.0, 0.0], [1.0, 2.0], [3.0, 1.0], [4.0, 4.0]]
c.knotvector = [0, 0, 0, 1, 2, 2, 2]            # clamped, domain [0, 2]
h = operations.derivative_curve(c)
# hand computed: C'(0) = 2 (P1-P0)/(U[3]-U[1]) = (2, 4);  C'(2) = 2 (P3-P2)/(U[5]-U[3]) = (2, 6)
for u, exact in ((0.0, [2.0, 4.0]), (2.0, [2.0, 6.0]), (0.5, c.derivatives(0.5, 1)[1]), (1.5, c.derivatives(1.5, 1)[1])):
    try:
        got = h.evaluate_single(u)
    except Exception as e:
        fail.append("curve u=%r: derivative_curve(C).evaluate_single raised %s: %s" % (u, type(e).__name__, e))
        continue
    if max(abs(a - b) for a, b in zip(exact, got)) > 1e-9:
        fail.append("curve u=%r: C'(u)=%r but derivative_curve(C)(u)=%r" % (u, exact, got))
if list(h.knotvector) != [0, 0, 1, 2, 2]:
    fail.append("curve hodograph knot vector is %r, expected [0, 0, 1, 2, 2]" % (list(h.knotvector),))

s = BSpline.Surface(normalize_kv=False)
s.degree_u = 2
s.degree_v = 2
s.set_ctrlpts([[float(i), float(j), float((i * i + 2 * j * i + j) % 5)] for i in range(3) for j in range(4)], 3, 4)
s.knotvector_u = [0, 0, 0, 3, 3, 3]
s.knotvector_v = [1, 1, 1, 2, 4, 4, 4]
su, sv, suv = operations.derivative_surface(s)
for (u, v) in ((0.5, 1.5), (2.0, 3.0)):
    skl = s.derivatives(u, v, 2)
    for name, hs, exact in (("u", su, skl[1][0]), ("v", sv, skl[0][1]), ("uv", suv, skl[1][1])):
        try:
            got = hs.evaluate_single((u, v))
        except Exception as e:
            fail.append("surface d%s (u,v)=%r raised %s: %s" % (name, (u, v), type(e).__name__, e))
            continue
        if max(abs(a - b) for a, b in zip(exact, got)) > 1e-9 * max(1.0, max(abs(x) for x in exact)):
            fail.append("surface d%s (u,v)=%r: exact %r, hodograph surface gives %r" % (name, (u, v), exact, got))

if fail:
    print("DEFECT 2 PRESENT (hodograph of a normalize_kv=False shape is moved to [0,1]):")
    for f in fail:
        print("  " + f)
    sys.exit(1)
print("defect 2 not present")
