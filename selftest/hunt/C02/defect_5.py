"""Defect 5: operations.tangent / operations.normal fail on surfaces when the first parameter is a Python int
(e.g. the domain corners (0, 0), (0, 1), (1, 0.5)), although derivatives()/evaluate_single() accept them."""
import sys
from geomdl import BSpline, operations

s = BSpline.Surface()
s.degree_u = 2
s.degree_v = 2
s.set_ctrlpts([[float(i), float(j), float(i * j)] for i in range(3) for j in range(3)], 3, 3)
s.knotvector_u = [0, 0, 0, 1, 1, 1]
s.knotvector_v = [0, 0, 0, 1, 1, 1]
fail = []
for prm in ((0, 1), (1, 0.5), [0, 0]):
    ref_t = operations.tangent(s, (float(prm[0]), float(prm[1])))
    ref_n = operations.normal(s, (float(prm[0]), float(prm[1])))
    assert s.derivatives(prm[0], prm[1], 1)[0][0] == list(ref_t[0])      # derivatives() accepts the ints
    for f, ref in ((operations.tangent, ref_t), (operations.normal, ref_n)):
        try:
            got = f(s, prm)
            if got != ref:
                fail.append("%s(surf, %r) = %r, expected %r" % (f.__name__, prm, got, ref))
        except Exception as e:
            fail.append("%s(surf, %r) raised %s: %s" % (f.__name__, prm, type(e).__name__, e))
if fail:
    print("DEFECT 5 PRESENT:")
    for f in fail:
        print("  " + f)
    sys.exit(1)
print("defect 5 not present")
