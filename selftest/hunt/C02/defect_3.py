"""Defect 3: derivative_curve / derivative_surface fail for degree-1 shapes (any direction of degree 1).

The hodograph of a degree-1 shape has degree 0 (piecewise constant).  The library refuses
degree 0 (``degree`` setters / ``set_ctrlpts``), so the constructors raise instead of returning
the derivative shape.
"""
import sys
from geomdl import BSpline, operations

fail = []
c = BSpline.Curve()
c.degree = 1
c.ctrlpts = [[0.0, 0.0], [1.0, 2.0], [3.0, 1.0]]
c.knotvector = [0, 0, 0.5, 1, 1]
# exact: C'(u) = (P1-P0)/0.5 = (2, 4) on [0, .5),  (P2-P1)/0.5 = (4, -2) on [.5, 1]
assert c.derivatives(0.25, 1)[1] == [2.0, 4.0] and c.derivatives(0.75, 1)[1] == [4.0, -2.0]
try:
    h = operations.derivative_curve(c)
    for u, e in ((0.25, [2.0, 4.0]), (0.75, [4.0, -2.0])):
        g = h.evaluate_single(u)
        if max(abs(a - b) for a, b in zip(g, e)) > 1e-9:
            fail.append("curve: hodograph(%r) = %r, expected %r" % (u, g, e))
except Exception as e:
    fail.append("derivative_curve(degree-1 curve) raised %s: %s" % (type(e).__name__, e))

s = BSpline.Surface()
s.degree_u = 1
s.degree_v = 2
s.set_ctrlpts([[float(i), float(j), float(i * j)] for i in range(2) for j in range(3)], 2, 3)
s.knotvector_u = [0, 0, 1, 1]
s.knotvector_v = [0, 0, 0, 1, 1, 1]
try:
    su, sv, suv = operations.derivative_surface(s)
    skl = s.derivatives(0.3, 0.6, 1)
    for name, hs, e in (("u", su, skl[1][0]), ("v", sv, skl[0][1]), ("uv", suv, skl[1][1])):
        g = hs.evaluate_single((0.3, 0.6))
        if max(abs(a - b) for a, b in zip(g, e)) > 1e-9:
            fail.append("surface d%s: %r, expected %r" % (name, g, e))
except Exception as e:
    fail.append("derivative_surface(degree (1,2) surface) raised %s: %s" % (type(e).__name__, e))

if fail:
    print("DEFECT 3 PRESENT:")
    for f in fail:
        print("  " + f)
    sys.exit(1)
print("defect 3 not present")
