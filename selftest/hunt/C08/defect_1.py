"""C08 defect 1: operations.degree_operations accepts a single-span curve that is NOT in Bezier form
(unclamped knot vector, no "interior" knots) and silently changes its shape and its domain instead of
rejecting it (or elevating it correctly)."""
import sys
from geomdl import BSpline, operations
from geomdl.exceptions import GeomdlException

c = BSpline.Curve(normalize_kv=False)
c.degree = 2
c.ctrlpts = [[0.0, 0.0], [1.0, 2.0], [3.0, 0.0]]
c.knotvector = [0, 1, 2, 3, 4, 5]          # uniform, unclamped: one polynomial span on [2, 3], not a Bezier polygon
dom = tuple(c.domain)
ts = [2.0, 2.25, 2.5, 2.75, 3.0]
before = [c.evaluate_single(t) for t in ts]
try:
    operations.degree_operations(c, [1])
except GeomdlException:
    sys.exit(0)                             # rejected: acceptable behaviour per the property
after = [c.evaluate_single(t) for t in ts]
err = max(abs(x - y) for u, v in zip(before, after) for x, y in zip(u, v))
if err > 1e-9 or tuple(c.domain) != dom:
    print("DEFECT: non-Bezier (unclamped) curve accepted and changed: max deviation %g, domain %s -> %s, kv=%s"
          % (err, dom, tuple(c.domain), list(c.knotvector)))
    sys.exit(1)
sys.exit(0)
