"""C08 defect 2 (borderline, related to the known 'rows of points' gap): operations.degree_operations on a
Bezier surface silently does nothing -- neither elevates/reduces nor raises."""
import sys
from geomdl import BSpline, operations
from geomdl.exceptions import GeomdlException

s = BSpline.Surface()
s.degree_u = 2
s.degree_v = 1
s.set_ctrlpts([[0, 0, 0], [0, 1, 0], [1, 0, 1], [1, 1, 1], [2, 0, 0], [2, 1, 0]], 3, 2)
s.knotvector_u = [0, 0, 0, 1, 1, 1]
s.knotvector_v = [0, 0, 1, 1]
try:
    operations.degree_operations(s, [1, 2])
except GeomdlException:
    sys.exit(0)                             # explicit "not available" would be acceptable (as done for volumes)
if (s.degree_u, s.degree_v) != (3, 3) or (s.ctrlpts_size_u, s.ctrlpts_size_v) != (4, 4):
    print("DEFECT: degree_operations(surface, [1, 2]) returned silently with degrees (%d, %d), sizes (%d, %d); "
          "expected (3, 3)/(4, 4) or an exception" % (s.degree_u, s.degree_v, s.ctrlpts_size_u, s.ctrlpts_size_v))
    sys.exit(1)
sys.exit(0)
