"""Defect 1: copy.copy() of a shape shares mutable state with the original.
Editing the shallow copy silently corrupts the ORIGINAL:
 (a) BSpline/NURBS surface: the original's control point sizes become [0, 0] and its evaluated points are wrong
     (outside the convex hull of the active control points);
 (b) NURBS curve/surface/volume: the original reports the copy's control points / weights / bounding box, so the
     original's evaluated points lie outside its reported bounding box.
Run: PYTHONPATH=<tree> /venv/bin/python defect_1.py
"""
import copy
import sys
from geomdl import BSpline, NURBS, operations

msgs = []

# ---- (a) non-rational surface -------------------------------------------------------------------------------------
s = BSpline.Surface()
s.degree_u = 2
s.degree_v = 1
s.set_ctrlpts([[float(i), float(j), float(i * j)] for i in range(4) for j in range(3)], 4, 3)
s.knotvector_u = [0, 0, 0, 0.5, 1, 1, 1]
s.knotvector_v = [0, 0, 0.5, 1, 1]
before = s.evaluate_single((0.7, 0.3))          # [1.98, 0.6, 1.188]

s2 = copy.copy(s)
operations.translate(s2, [10.0, 0.0, 0.0], inplace=True)   # edit the COPY only

after = s.evaluate_single((0.7, 0.3))
if s.cpsize != [4, 3]:
    msgs.append("(a) original surface cpsize changed from [4, 3] to %s after editing its shallow copy" % (s.cpsize,))
if any(abs(a - b) > 1e-12 for a, b in zip(before, after)):
    # active control points at (0.7, 0.3): u-index 1..3, v-index 0..1 -> x in [1, 3]; x = 0 is outside their hull
    msgs.append("(a) original surface point at (0.7, 0.3) changed from %s to %s (x must stay in [1, 3])" % (before, after))

# ---- (b) rational curve ----------------------------------------------------------------------------------------------
c = NURBS.Curve()
c.degree = 2
c.ctrlptsw = [[0, 0, 1], [1, 2, 1], [6, 4, 2], [4, 0, 1]]
c.knotvector = [0, 0, 0, 0.5, 1, 1, 1]
c2 = copy.copy(c)
operations.translate(c2, [100.0, 100.0], inplace=True)      # edit the COPY only
_ = c2.ctrlpts
pt = c.evaluate_single(0.5)                                  # [2.333.., 2.0] - unchanged, correct
bb = c.bbox
if any(x < lo - 1e-9 or x > hi + 1e-9 for x, lo, hi in zip(pt, bb[0], bb[1])):
    msgs.append("(b) original NURBS curve: point %s lies outside its reported bbox %s; c.ctrlpts=%s" % (pt, bb, c.ctrlpts))

if msgs:
    print("DEFECT PRESENT:")
    for m in msgs:
        print("  " + m)
    sys.exit(1)
print("ok")
