"""Defect 5 (container): a container accepts sample_size = 2 but can then not be evaluated at all (ValueError), and
for any other n the contained shapes are evaluated with n - 1 samples, because the container converts
sample_size <-> delta with another convention than the shapes it contains.
Run: PYTHONPATH=<tree> /venv/bin/python defect_5.py
"""
import sys
from geomdl import BSpline, multi

c = BSpline.Curve()
c.degree = 1
c.ctrlpts = [[0.0, 0.0], [1.0, 1.0], [2.0, 0.0]]
c.knotvector = [0, 0, 0.5, 1, 1]

msgs = []
cc = multi.CurveContainer(c)
cc.sample_size = 2                       # accepted
try:
    pts = cc.evalpts                     # expected: the two end points [[0, 0], [2, 0]]
    if pts != [[0.0, 0.0], [2.0, 0.0]]:
        msgs.append("sample_size=2: evalpts=%s" % (pts,))
except Exception as e:
    msgs.append("sample_size=2: container.evalpts raises %r" % (e,))

cc = multi.CurveContainer(c)
cc.sample_size = 5
n = len(cc.evalpts)
if n != 5:
    msgs.append("sample_size=5: the container evaluated %d points" % n)

if msgs:
    print("DEFECT PRESENT:")
    for m in msgs:
        print("  " + m)
    sys.exit(1)
print("ok")
