"""Defect 3: an accepted evaluation delta in (2/3, 1) makes sample_size == 1: the shape is "evaluated" at a single
point (the start of the domain). A clamped curve then does not end at its last control point and
operations.length_curve() returns 0.0, less than the end-to-end chord. Same for surfaces and volumes per direction.
Run: PYTHONPATH=<tree> /venv/bin/python defect_3.py
"""
import math
import sys
from geomdl import BSpline, operations

c = BSpline.Curve()
c.degree = 2
c.ctrlpts = [[0.0, 0.0], [1.0, 2.0], [3.0, 2.0], [4.0, 0.0]]
c.knotvector = [0, 0, 0, 0.5, 1, 1, 1]
c.delta = 0.7            # accepted: 0 < delta < 1

msgs = []
pts = c.evalpts
chord = math.sqrt(sum((a - b) ** 2 for a, b in zip(c.ctrlpts[0], c.ctrlpts[-1])))
length = operations.length_curve(c)
if c.sample_size < 2:
    msgs.append("delta=0.7 gives sample_size=%d, evalpts=%s" % (c.sample_size, pts))
if pts[-1] != c.ctrlpts[-1]:
    msgs.append("clamped curve: last evaluated point %s != last control point %s" % (pts[-1], c.ctrlpts[-1]))
if length < chord - 1e-9:
    msgs.append("length_curve=%s is less than the chord %s" % (length, chord))

s = BSpline.Surface()
s.degree_u = 1
s.degree_v = 1
s.set_ctrlpts([[0, 0, 0], [0, 1, 0], [1, 0, 0], [1, 1, 1]], 2, 2)
s.knotvector_u = [0, 0, 1, 1]
s.knotvector_v = [0, 0, 1, 1]
s.delta = 0.9
if s.evalpts[-1] != s.ctrlpts[-1]:
    msgs.append("clamped surface with delta=0.9: evalpts=%s never reaches the last control point %s" % (s.evalpts, s.ctrlpts[-1]))

if msgs:
    print("DEFECT PRESENT:")
    for m in msgs:
        print("  " + m)
    sys.exit(1)
print("ok")
