"""Defect 4: operations.length_curve() silently measures whatever happens to be cached in curve.evalpts. After the
documented partial evaluation curve.evaluate(start=..., stop=...) it returns the length of that piece only, which
can be (much) smaller than the end-to-end chord of the curve.
Run: PYTHONPATH=<tree> /venv/bin/python defect_4.py
"""
import math
import sys
from geomdl import BSpline, operations

c = BSpline.Curve()
c.degree = 2
c.ctrlpts = [[0.0, 0.0], [1.0, 2.0], [3.0, 2.0], [4.0, 0.0]]
c.knotvector = [0, 0, 0, 0.5, 1, 1, 1]
c.sample_size = 50

full = operations.length_curve(c)                  # 5.90...
c.evaluate(start=0.4, stop=0.6)                    # documented way to look at a segment
partial = operations.length_curve(c)               # 0.82... : length of the segment, reported as the curve length
chord = math.sqrt(sum((a - b) ** 2 for a, b in zip(c.evaluate_single(0.0), c.evaluate_single(1.0))))   # 4.0

if partial < chord - 1e-9 or abs(partial - full) > 1e-9:
    print("DEFECT PRESENT: length_curve after evaluate(start=0.4, stop=0.6) = %s; chord = %s; full length = %s"
          % (partial, chord, full))
    sys.exit(1)
print("ok")
