"""Defect 2: operations.find_ctrlpts() on a rational surface returns the WEIGHTED homogeneous control points
(x*w, y*w, z*w, w) instead of the control points; the evaluated surface point is not in their convex hull
(they are not even of the same dimension). For rational curves the same function returns the unweighted points.
Run: PYTHONPATH=<tree> /venv/bin/python defect_2.py
"""
import sys
from geomdl import NURBS, operations

P = [[0.0, 0.0, 0.0], [0.0, 1.0, 1.0], [1.0, 0.0, 1.0], [1.0, 1.0, 0.0]]
W = [1.0, 4.0, 0.5, 2.0]
s = NURBS.Surface()
s.degree_u = 1
s.degree_v = 1
s.set_ctrlpts([[x * w for x in p] + [w] for p, w in zip(P, W)], 2, 2)
s.knotvector_u = [0, 0, 1, 1]
s.knotvector_v = [0, 0, 1, 1]

u, v = 0.3, 0.6
pt = s.evaluate_single((u, v))
act = [q for row in operations.find_ctrlpts(s, u, v) for q in row]

msgs = []
if any(len(q) != len(pt) for q in act):
    msgs.append("active control points have %d coordinates, the surface point has %d: %s" % (len(act[0]), len(pt), act))
else:
    for d in range(len(pt)):
        lo = min(q[d] for q in act)
        hi = max(q[d] for q in act)
        if not lo - 1e-9 <= pt[d] <= hi + 1e-9:
            msgs.append("coordinate %d of %s is outside [%s, %s] spanned by the active control points" % (d, pt, lo, hi))
exp = sorted(P)
got = sorted([list(q[:3]) for q in act])
if got != exp:
    msgs.append("expected the control points %s, got %s" % (exp, got))

# for comparison: the curve variant returns unweighted points
c = NURBS.Curve()
c.degree = 1
c.ctrlptsw = [[0.0, 0.0, 1.0], [4.0, 4.0, 4.0]]
c.knotvector = [0, 0, 1, 1]
assert operations.find_ctrlpts(c, 0.5) == [[0.0, 0.0], [1.0, 1.0]]

if msgs:
    print("DEFECT PRESENT:")
    for m in msgs:
        print("  " + m)
    sys.exit(1)
print("ok")
