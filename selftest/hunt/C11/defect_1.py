"""C11 defect 1: approximate_curve does not return the least-squares minimiser when the number of
control points is close to the number of data points (this includes the DEFAULT ctrlpts_size = len(points)-1).

Reference: exact rational arithmetic (fractions).  For the curve returned by the library (its own knot vector,
its own end control points) the interior control points that minimise  sum_k |Q_k - C(u_k)|^2  at the
chord-length parameters u_k are obtained by solving the normal equations EXACTLY; the exact objective of the
library's control points is compared with the exact minimum.
"""
import math, sys
from fractions import Fraction as F
from geomdl import fitting


def chord_params(pts):
    d = [math.dist(pts[i], pts[i - 1]) for i in range(1, len(pts))]
    tot = sum(d)
    u, s = [0.0], 0.0
    for x in d:
        s += x
        u.append(s / tot)
    u[-1] = 1.0
    return u


def all_basis(p, U, u):
    """ exact Cox-de Boor: values of all N_{i,p}(u), i = 0..len(U)-p-2 (u strictly inside the domain) """
    m = len(U) - 1
    N = [F(1) if U[i] <= u < U[i + 1] else F(0) for i in range(m)]
    for k in range(1, p + 1):
        M = []
        for i in range(m - k):
            a = (u - U[i]) / (U[i + k] - U[i]) * N[i] if U[i + k] > U[i] else F(0)
            b = (U[i + k + 1] - u) / (U[i + k + 1] - U[i + 1]) * N[i + 1] if U[i + k + 1] > U[i + 1] else F(0)
            M.append(a + b)
        N = M
    return N


def solve_exact(M, B):
    """ Gauss-Jordan with fractions; M square (list of rows), B list of rows (several right-hand sides) """
    n = len(M)
    A = [list(M[i]) + list(B[i]) for i in range(n)]
    for c in range(n):
        piv = next(r for r in range(c, n) if A[r][c] != 0)
        A[c], A[piv] = A[piv], A[c]
        pv = A[c][c]
        A[c] = [x / pv for x in A[c]]
        for r in range(n):
            if r != c and A[r][c] != 0:
                f = A[r][c]
                A[r] = [x - f * y for x, y in zip(A[r], A[c])]
    return [row[n:] for row in A]


def check(pts, degree, **kw):
    crv = fitting.approximate_curve(pts, degree, **kw)
    p, ncp, n = crv.degree, len(crv.ctrlpts), len(pts)
    dim = len(pts[0])
    U = [F(x) for x in crv.knotvector]
    uk = [F(x) for x in chord_params(pts)]
    Q = [[F(c) for c in q] for q in pts]
    P = [[F(c) for c in q] for q in crv.ctrlpts]
    assert P[0] == Q[0] and P[-1] == Q[-1], "end points are not interpolated"
    N = [all_basis(p, U, uk[k]) for k in range(1, n - 1)]          # interior data rows
    R = [[Q[k + 1][d] - N[k][0] * Q[0][d] - N[k][-1] * Q[-1][d] for d in range(dim)] for k in range(n - 2)]
    A = [row[1:-1] for row in N]
    nu = ncp - 2

    def objective(X):
        s = F(0)
        for k in range(n - 2):
            for d in range(dim):
                s += (sum(A[k][j] * X[j][d] for j in range(nu)) - R[k][d]) ** 2
        return s

    AtA = [[sum(A[k][i] * A[k][j] for k in range(n - 2)) for j in range(nu)] for i in range(nu)]
    AtR = [[sum(A[k][i] * R[k][d] for k in range(n - 2)) for d in range(dim)] for i in range(nu)]
    X = solve_exact(AtA, AtR)                                       # exact minimiser
    f_min, f_lib = objective(X), objective(P[1:-1])
    gap = min(float(U[i + 1] - U[i]) for i in range(p, ncp))
    return float(f_lib), float(f_min), max(abs(c) for q in crv.ctrlpts for c in q), gap


cases = []
# (a) 36 points on a gentle 3-D curve, cubic, DEFAULT number of control points (35)
cases.append(("36 pts, degree 3, default ctrlpts_size",
              [[float(i), math.sin(1.9 * i), math.cos(2.47 * i)] for i in range(36)], 3, {}))
# (b) 31 points, degree 4, default (30)
cases.append(("31 pts, degree 4, default ctrlpts_size",
              [[float(i), math.sin(0.7 * i), math.cos(0.91 * i)] for i in range(31)], 4, {}))
# (c) 29 points, degree 5, ctrlpts_size=28
cases.append(("29 pts, degree 5, ctrlpts_size=28",
              [[float(i), math.sin(2.5 * i), math.cos(3.25 * i)] for i in range(29)], 5, {'ctrlpts_size': 28}))

failed = False
for name, pts, deg, kw in cases:
    f_lib, f_min, maxp, gap = check(pts, deg, **kw)
    ratio = f_lib / f_min
    print("%-42s objective(library)=%.6g  exact minimum=%.6g  ratio=%.4g  max|ctrlpt|=%.3g  min knot gap=%.3g"
          % (name, f_lib, f_min, ratio, maxp, gap))
    if ratio > 1.0 + 1e-6:
        failed = True

if failed:
    print("DEFECT PRESENT: interior control points returned by approximate_curve do not minimise the summed "
          "squared distance to the data (objective is a multiple of the exact minimum)")
    sys.exit(1)
print("OK")
sys.exit(0)
