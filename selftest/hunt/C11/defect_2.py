"""C11 defect 2 (same root cause as defect 1, different symptom): approximate_curve / approximate_surface raise
ZeroDivisionError for well-spread data when the number of control points is the default (number of data - 1)."""
import math, sys, traceback
from geomdl import fitting

bad = 0
pts = [[float(i), math.sin(1.9 * i), math.cos(1.3 * 1.9 * i)] for i in range(40)]     # 40 distinct 3-D points
try:
    crv = fitting.approximate_curve(pts, 8)       # degree 8, default ctrlpts_size = 39 (admissible: 10..39)
    assert list(crv.ctrlpts[0]) == pts[0] and list(crv.ctrlpts[-1]) == pts[-1]
except ZeroDivisionError:
    traceback.print_exc()
    print("DEFECT PRESENT: approximate_curve(40 points, degree 8) raised ZeroDivisionError")
    bad += 1

# surface: the same 40 points extruded along a straight direction into a 40 x 6 grid (u-major ordering)
grid = [[p[0] + 0.5 * j, p[1] + 2.0 * j, p[2]] for p in pts for j in range(6)]
try:
    srf = fitting.approximate_surface(grid, 40, 6, 8, 2)      # default ctrlpts_size_u = 39, ctrlpts_size_v = 5
    for uv, q in (((0.0, 0.0), grid[0]), ((0.0, 1.0), grid[5]), ((1.0, 0.0), grid[-6]), ((1.0, 1.0), grid[-1])):
        assert max(abs(a - b) for a, b in zip(srf.evaluate_single(uv), q)) < 1e-9
except ZeroDivisionError:
    traceback.print_exc()
    print("DEFECT PRESENT: approximate_surface(40 x 6 points, degrees 8 x 2) raised ZeroDivisionError")
    bad += 1

if bad:
    sys.exit(1)
print("OK")
sys.exit(0)
