"""C12 (scope-borderline) defect 3: adding a trim curve to a surface does not invalidate the cached tessellation;
SurfaceContainer.tessellator = ... does not invalidate the container's cached vertices / faces either."""
import copy
import sys
from geomdl import BSpline, multi, tessellate


def surface():
    s = BSpline.Surface()
    s.degree_u = 1
    s.degree_v = 1
    s.set_ctrlpts([[0, 0, 0], [0, 1, 0], [1, 0, 0], [1, 1, 1]], 2, 2)
    s.knotvector_u = [0, 0, 1, 1]
    s.knotvector_v = [0, 0, 1, 1]
    s.delta = 0.1
    return s


def trim():
    t = BSpline.Curve()
    t.degree = 1
    t.ctrlpts = [[0.3, 0.3], [0.7, 0.3], [0.7, 0.7], [0.3, 0.7], [0.3, 0.3]]
    t.knotvector = [0, 0, 0.25, 0.5, 0.75, 1, 1]
    t.delta = 0.05
    return t


problems = []

# (a) single surface
s = surface()
s.tessellator = tessellate.TrimTessellate()
before = (len(s.vertices), len(s.faces))          # reader: caches the untrimmed mesh
s.add_trim(trim())                                # public edit
after = (len(s.vertices), len(s.faces))
f = surface()
f.tessellator = tessellate.TrimTessellate()
f.add_trim(trim())
expect = (len(f.vertices), len(f.faces))
if after != expect:
    problems.append("Surface.add_trim: (vertices, faces) = %r (before the edit %r), fresh surface with the same "
                    "trim reports %r" % (after, before, expect))

# (b) container: switching the tessellator
c = multi.SurfaceContainer()
st = surface()
st.add_trim(trim())
c.add(st)
c.delta = 0.1
before = (len(c.vertices), len(c.faces))          # default TriangularTessellate ignores trims
c.tessellator = tessellate.TrimTessellate()       # public edit
after = (len(c.vertices), len(c.faces))
c2 = multi.SurfaceContainer()
c2.add(copy.deepcopy(st))
c2.delta = 0.1
c2.tessellator = tessellate.TrimTessellate()
expect = (len(c2.vertices), len(c2.faces))
if after != expect:
    problems.append("SurfaceContainer.tessellator setter: (vertices, faces) = %r (before %r), fresh container "
                    "reports %r" % (after, before, expect))

if problems:
    print("DEFECT PRESENT: cached tessellation is stale")
    for p in problems:
        print("  " + p)
    sys.exit(1)
print("OK")
sys.exit(0)
