"""C12 defect 2: the NURBS ``ctrlpts`` setters (Curve / Surface / Volume) pair the new control points with the
weights cached from the PREVIOUS control net; when the new net is larger, zip() silently drops the extra points."""
import sys
import traceback
from geomdl import NURBS

problems = []

# ---- curve -----------------------------------------------------------------------------------------------------
new_pts = [[0.0, 0.0], [1.0, 2.0], [2.0, 2.0], [3.0, 0.0], [4.0, 1.0]]
new_kv = [0, 0, 0, 0.3, 0.6, 1, 1, 1]

crv = NURBS.Curve()
crv.degree = 2
crv.ctrlpts = [[0, 0], [1, 1], [2, 0]]
crv.knotvector = [0, 0, 0, 1, 1, 1]
crv.evalpts                                 # any reader
crv.ctrlpts = new_pts                       # public edit: replace the control polygon by a longer one
if crv.ctrlpts != new_pts:
    problems.append("Curve: assigned %d control points, curve.ctrlpts reports %d: %r"
                    % (len(new_pts), len(crv.ctrlpts), crv.ctrlpts))
try:
    crv.knotvector = new_kv                 # works on a freshly built curve with the same 5 points
except Exception as e:
    problems.append("Curve: knot vector for the 5 new points rejected: %r" % (e,))

ref = NURBS.Curve()
ref.degree = 2
ref.ctrlpts = new_pts
ref.knotvector = new_kv
assert ref.ctrlpts == new_pts and ref.ctrlpts_size == 5

# ---- surface ---------------------------------------------------------------------------------------------------
srf = NURBS.Surface()
srf.degree_u = 2
srf.degree_v = 2
srf.ctrlpts_size_u = 3
srf.ctrlpts_size_v = 3
srf.ctrlpts = [[i, j, 0] for i in range(3) for j in range(3)]
srf.knotvector_u = [0, 0, 0, 1, 1, 1]
srf.knotvector_v = [0, 0, 0, 1, 1, 1]
grid = [[float(i), float(j), 1.0] for i in range(4) for j in range(3)]
srf.ctrlpts_size_u = 4                      # documented way of announcing the new net size
try:
    srf.ctrlpts = grid
    if srf.ctrlpts != grid:
        problems.append("Surface: assigned 12 control points, got %d" % len(srf.ctrlpts))
except Exception as e:
    problems.append("Surface: assigning a 4x3 net after a 3x3 net raised %r; surface left with %d weighted points "
                    "for size %r" % (e, len(srf.ctrlptsw), srf.cpsize))

# ---- volume ----------------------------------------------------------------------------------------------------
vol = NURBS.Volume()
vol.degree_u = vol.degree_v = vol.degree_w = 1
vol.set_ctrlpts([[i, j, k, 1.0] for k in range(2) for i in range(2) for j in range(2)], 2, 2, 2)
vol.knotvector_u = vol.knotvector_v = vol.knotvector_w = [0, 0, 1, 1]
vol.weights                                 # reader
vgrid = [[float(i), float(j), float(k)] for k in range(2) for i in range(3) for j in range(2)]
vol.ctrlpts_size_u = 3
try:
    vol.ctrlpts = vgrid
    if vol.ctrlpts != vgrid:
        problems.append("Volume: assigned %d control points, volume.ctrlpts reports %d (size %r)"
                        % (len(vgrid), len(vol.ctrlpts), vol.cpsize))
except Exception as e:
    problems.append("Volume: assigning a 3x2x2 net after a 2x2x2 net raised %r" % (e,))

if problems:
    print("DEFECT PRESENT: NURBS ctrlpts setter truncates the new control points to the length of the stale weights")
    for p in problems:
        print("  " + p)
    sys.exit(1)
print("OK")
sys.exit(0)
