"""C12 defect 1: per-direction sampling setters of SurfaceContainer / VolumeContainer
(delta_u/_v/_w, sample_size_u/_v/_w) do not invalidate the cached container aggregates."""
import copy
import sys
from geomdl import BSpline, multi


def surface():
    s = BSpline.Surface()
    s.degree_u = 1
    s.degree_v = 1
    s.set_ctrlpts([[0, 0, 0], [0, 1, 0], [1, 0, 0], [1, 1, 1]], 2, 2)
    s.knotvector_u = [0, 0, 1, 1]
    s.knotvector_v = [0, 0, 1, 1]
    return s


def volume():
    v = BSpline.Volume()
    v.degree_u = v.degree_v = v.degree_w = 1
    v.set_ctrlpts([[i, j, k] for k in range(2) for i in range(2) for j in range(2)], 2, 2, 2)
    v.knotvector_u = v.knotvector_v = v.knotvector_w = [0, 0, 1, 1]
    return v


def fresh(cont):
    f = cont.__class__()
    for e in cont:
        f.add(copy.deepcopy(e))
    f.delta = list(cont.delta)
    return f


problems = []
for name, cls, mk, attrs in (
        ("SurfaceContainer", multi.SurfaceContainer, surface, ("evalpts", "vertices", "faces")),
        ("VolumeContainer", multi.VolumeContainer, volume, ("evalpts",))):
    for setter, value in (("delta_u", 0.5), ("delta_v", 0.5), ("sample_size_u", 3), ("sample_size_v", 3)) + \
            ((("delta_w", 0.5), ("sample_size_w", 3)) if cls is multi.VolumeContainer else ()):
        c = cls()
        c.add(mk())
        c.delta = 0.25                       # 4 samples per direction
        before = {a: len(getattr(c, a)) for a in attrs}   # readers populate the caches
        setattr(c, setter, value)            # public container-level sampling edit
        after = {a: len(getattr(c, a)) for a in attrs}
        expect = {a: len(getattr(fresh(c), a)) for a in attrs}
        if after != expect:
            problems.append("%s.%s = %r: delta now %r, cached %s (was %s) but a fresh container reports %s"
                            % (name, setter, value, c.delta, after, before, expect))

if problems:
    print("DEFECT PRESENT: container aggregates are stale after a per-direction sampling edit")
    for p in problems:
        print("  " + p)
    sys.exit(1)
print("OK: per-direction sampling edits invalidate the container aggregates")
sys.exit(0)
