"""C04 defect 1: inserting the SAME parameter value twice (two separate admissible calls) on a
default-constructed (normalize_kv=True, precision=18) curve changes the shape.

Run: PYTHONPATH=<tree> /venv/bin/python defect_1.py
"""
import sys
from geomdl import BSpline, operations

u = 0.0030370991487195646          # 3e-3 away from the domain start, 0.497 away from the next knot

c = BSpline.Curve()                # defaults: normalize_kv=True, precision=18
c.degree = 3
c.ctrlpts = [[0, 0], [1, 2], [3, -1], [4, 4], [6, 0]]
c.knotvector = [0, 0, 0, 0, 0.5, 1, 1, 1, 1]

params = [i / 50.0 for i in range(51)]
before = [c.evaluate_single(t) for t in params]

operations.insert_knot(c, [u], [1])     # admissible: s = 0, degree 3
stored = c.knotvector[4]
mid = [c.evaluate_single(t) for t in params]
operations.insert_knot(c, [u], [1])     # admissible: s = 1, degree 3 -> 2 more copies allowed
after = [c.evaluate_single(t) for t in params]

def maxerr(a, b):
    return max(abs(x - y) for p, q in zip(a, b) for x, y in zip(p, q))

e1, e2 = maxerr(before, mid), maxerr(before, after)
print("inserted u          :", repr(u))
print("knot stored by lib  :", repr(stored), "(differs from u: %s)" % (stored != u))
print("knot vector now     :", c.knotvector)
print("max deviation after 1st insertion: %.3e" % e1)
print("max deviation after 2nd insertion: %.3e" % e2)
if e1 > 1e-9 or e2 > 1e-9:
    print("DEFECT PRESENT: knot insertion changed the curve (expected deviation < 1e-9)")
    sys.exit(1)
print("OK")
sys.exit(0)
