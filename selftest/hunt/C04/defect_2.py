"""C04 defect 2: insert_knot crashes (TypeError) when a control point coordinate is a Python int,
although the very same object evaluates fine.  helpers.knot_insertion decides between
"row of coordinates" and "row of points" with isinstance(temp[i][0], float).

Run: PYTHONPATH=<tree> /venv/bin/python defect_2.py
"""
import sys
from geomdl import BSpline, operations

c = BSpline.Curve()
c.degree = 2
c.ctrlpts = [[0, 0], [1, 2], [3, -1], [4, 4]]
c.knotvector = [0, 0, 0, 0.5, 1, 1, 1]
c.ctrlpts[1][0] = 1                  # read-modify-write of one coordinate with an int (same value)

params = [i / 20.0 for i in range(21)]
before = [c.evaluate_single(t) for t in params]     # evaluation works
try:
    operations.insert_knot(c, [0.3], [1])           # admissible: s = 0, degree 2
except TypeError as e:
    print("DEFECT PRESENT: admissible knot insertion failed with TypeError:", e)
    sys.exit(1)
after = [c.evaluate_single(t) for t in params]
err = max(abs(x - y) for p, q in zip(before, after) for x, y in zip(p, q))
if err > 1e-9 or len(c.knotvector) != 8 or c.ctrlpts_size != 5:
    print("DEFECT PRESENT: shape/knot vector wrong after insertion, err=%g" % err)
    sys.exit(1)
print("OK")
sys.exit(0)
