"""helpers.knot_refinement: with control "points" that are rows of points (the layout that
operations.refine_knotvector uses for volumes) the caller's input net is modified in place,
so the original (unrefined) shape no longer evaluates to the same points afterwards."""
import sys, copy
from geomdl import helpers, BSpline

degree = 2
kv = [0.0, 0.0, 0.0, 0.5, 1.0, 1.0, 1.0]
# 4 rows (refinement direction) x 2 points per row
net = [[[0.0, 0.0, 0.0], [0.0, 1.0, 0.0]],
       [[1.0, 0.0, 2.0], [1.0, 1.0, 3.0]],
       [[2.0, 0.0, -1.0], [2.0, 1.0, 1.0]],
       [[3.0, 0.0, 0.0], [3.0, 1.0, 0.0]]]
net_before = copy.deepcopy(net)

def column_curve(rows, col, k):
    c = BSpline.Curve(); c.degree = degree; c.ctrlpts = [r[col] for r in rows]; c.knotvector = k
    return c

p_before = column_curve(net, 0, kv).evaluate_single(0.3)
new_net, new_kv = helpers.knot_refinement(degree, kv, net, density=1)
p_new = column_curve(new_net, 0, new_kv).evaluate_single(0.3)
p_after = column_curve(net, 0, kv).evaluate_single(0.3)   # the ORIGINAL net, evaluated again

msgs = []
if any(abs(a - b) > 1e-9 for a, b in zip(p_before, p_new)):
    msgs.append("refined net evaluates differently: %r vs %r" % (p_before, p_new))
if net != net_before:
    changed = [i for i in range(len(net)) if net[i] != net_before[i]]
    msgs.append("input rows %r were modified in place" % changed)
    msgs.append("original net at u=0.3: before call %r, after call %r" % (p_before, p_after))
if msgs:
    print("DEFECT PRESENT:\n  " + "\n  ".join(msgs))
    sys.exit(1)
print("ok")
