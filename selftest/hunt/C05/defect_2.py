"""helpers.knot_refinement: an explicit knot list with a single distinct knot raises UnboundLocalError
instead of raising the multiplicity of that knot to the degree (shape unchanged)."""
import sys
from geomdl import helpers, BSpline

degree = 3
kv = [0.0, 0.0, 0.0, 0.0, 0.5, 1.0, 1.0, 1.0, 1.0]
cpts = [[0.0, 0.0], [1.0, 2.0], [2.0, -1.0], [3.0, 1.0], [4.0, 0.0]]

def curve(cp, k):
    c = BSpline.Curve(); c.degree = degree; c.ctrlpts = cp; c.knotvector = k
    return c

msgs = []
for kw in (dict(knot_list=[0.5]), dict(knot_list=[], add_knot_list=[0.25]), dict(knot_list=[0.5, 0.5])):
    label = repr(kw)
    try:
        ncp, nkv = helpers.knot_refinement(degree, list(kv), cpts, **kw)
    except Exception as e:   # UnboundLocalError (NameError subclass)
        msgs.append("%s -> %s: %s" % (label, type(e).__name__, e))
        continue
    c0, c1 = curve(cpts, kv), curve(ncp, nkv)
    for u in (0.0, 0.2, 0.5, 0.7, 1.0):
        if any(abs(a - b) > 1e-9 for a, b in zip(c0.evaluate_single(u), c1.evaluate_single(u))):
            msgs.append("%s -> shape changed at u=%s" % (label, u))
if msgs:
    print("DEFECT PRESENT:\n  " + "\n  ".join(msgs))
    sys.exit(1)
print("ok")
