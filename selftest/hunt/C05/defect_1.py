"""helpers.knot_refinement: a tuple knot vector (documented as accepted) or a tuple knot_list
combined with add_knot_list raises TypeError; a list knot_list is silently extended in place."""
import sys
from geomdl import helpers

degree = 2
kv = (0.0, 0.0, 0.0, 0.5, 1.0, 1.0, 1.0)          # ":type knotvector: list, tuple"
cpts = [[0.0, 0.0], [1.0, 2.0], [2.0, -1.0], [3.0, 0.0]]
msgs = []

try:
    helpers.knot_refinement(degree, kv, cpts, add_knot_list=[0.3])
except TypeError as e:
    msgs.append("tuple knotvector + add_knot_list: TypeError: %s" % e)

try:
    helpers.knot_refinement(degree, list(kv), cpts, knot_list=(0.0, 0.5, 1.0), add_knot_list=[0.3])
except TypeError as e:
    msgs.append("tuple knot_list + add_knot_list: TypeError: %s" % e)

kl = [0.0, 0.5, 1.0]
helpers.knot_refinement(degree, list(kv), cpts, knot_list=kl, add_knot_list=[0.3])
if kl != [0.0, 0.5, 1.0]:
    msgs.append("caller's knot_list was modified in place: %r" % kl)

if msgs:
    print("DEFECT PRESENT:\n  " + "\n  ".join(msgs))
    sys.exit(1)
print("ok")
