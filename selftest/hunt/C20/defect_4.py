"""voxelize(..., use_cubes=True) never returns for a shape whose bounding box has zero extent along an axis
(e.g. any planar, axis-aligned surface)."""
import sys, signal
from geomdl import BSpline, voxelize

s = BSpline.Surface()
s.degree_u = 1; s.degree_v = 1
s.set_ctrlpts([[0, 0, 0], [0, 1, 0], [1, 0, 0], [1, 1, 0]], 2, 2)   # unit square in the plane z = 0
s.knotvector_u = [0, 0, 1, 1]; s.knotvector_v = [0, 0, 1, 1]
s.delta = 0.25

g, f = voxelize.voxelize(s, grid_size=(3, 3, 3))                     # default cuboids: fine
print("use_cubes=False ->", len(g), "voxels,", sum(f), "filled")

def on_alarm(*_):
    print("DEFECT: voxelize(use_cubes=True) still running after 10 s (infinite loop in linalg.frange with step 0)")
    sys.exit(1)
signal.signal(signal.SIGALRM, on_alarm); signal.alarm(10)
g, f = voxelize.voxelize(s, grid_size=(3, 3, 3), use_cubes=True)
signal.alarm(0)
bb = s.bbox
ok = all(min(v[0][k] for v in g) <= bb[0][k] and max(v[1][k] for v in g) >= bb[1][k] for k in range(3)) and sum(f) > 0
print("use_cubes=True ->", len(g), "voxels,", sum(f), "filled")
sys.exit(0 if ok else 1)
