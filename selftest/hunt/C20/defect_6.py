"""voxelize documents the keyword ``padding`` but silently ignores it (the helper reads ``tol`` instead)."""
import sys
from geomdl import BSpline, voxelize

s = BSpline.Surface()
s.degree_u = 1; s.degree_v = 1
s.set_ctrlpts([[0, 0, 0], [0, 1, 0], [1, 0, 0], [1, 1, 1]], 2, 2)
s.knotvector_u = [0, 0, 1, 1]; s.knotvector_v = [0, 0, 1, 1]
s.delta = 0.25
pts = s.evalpts
def brute(grid, pad):
    return [int(any(all(v[0][k] - pad <= p[k] < v[1][k] + pad for k in range(3)) for p in pts)) for v in grid]
grid, f_default = voxelize.voxelize(s, grid_size=(4, 4, 4))
_, f_pad = voxelize.voxelize(s, grid_size=(4, 4, 4), padding=0.2)
_, f_tol = voxelize.voxelize(s, grid_size=(4, 4, 4), tol=0.2)
print("filled: default", sum(f_default), " padding=0.2", sum(f_pad), " tol=0.2 (undocumented)", sum(f_tol),
      " brute force with padding 0.2:", sum(brute(grid, 0.2)), " brute force with 1e-7:", sum(brute(grid, 10e-8)))
if f_pad != brute(grid, 0.2):
    print("DEFECT: documented keyword 'padding' has no effect on the in/out test")
    sys.exit(1)
print("ok")
