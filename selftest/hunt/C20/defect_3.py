"""COLINEAR parameters violate the documented contract (ray1.eval(t1) == ray2.p, ray2.eval(t2) == ray1.p)
for coincident rays whose direction has a zero x-component."""
import sys
from geomdl import ray
from geomdl.ray import Ray, RayIntersection
bad = 0
for r1, r2 in [(Ray([0, 0], [0, 1]), Ray([0, 5], [0, 7])),               # coincident, vertical, 2-D
               (Ray([1, 1, 1], [1, 2, 3]), Ray([1, 3, 5], [1, 4, 7])),   # coincident, x = const, 3-D
               (Ray([0, 0], [1, 1]), Ray([5, 5], [7, 7]))]:              # control: non-zero x-component (works)
    t1, t2, st = ray.intersect(r1, r2)
    e1, e2 = r1.eval(t1), r2.eval(t2)
    ok = st == RayIntersection.COLINEAR and all(abs(a - b) < 1e-12 for a, b in zip(e1, r2.p)) \
        and all(abs(a - b) < 1e-12 for a, b in zip(e2, r1.p))
    print(r1.points, r2.points, "status", st, "t1", t1, "t2", t2, "ray1.eval(t1)", e1, "ray2.p", r2.p,
          "ray2.eval(t2)", e2, "ray1.p", r1.p, "OK" if ok else "WRONG")
    bad += not ok
if bad:
    print("DEFECT: colinear parameters are 0.0 instead of the documented values for %d pair(s)" % bad)
    sys.exit(1)
print("ok")
