"""voxelize returns more voxels than grid_size[0]*grid_size[1]*grid_size[2]: a spurious, duplicated layer of voxels
appears along an axis whenever min + (n-1)*step rounds to just below max."""
import sys
from geomdl import BSpline, voxelize

s = BSpline.Surface()
s.degree_u = 1; s.degree_v = 1
# bounding box [0, 0.9] x [0, 1] x [0, 1]
s.set_ctrlpts([[0, 0, 0], [0, 1, 0], [0.9, 0, 0], [0.9, 1, 1]], 2, 2)
s.knotvector_u = [0, 0, 1, 1]; s.knotvector_v = [0, 0, 1, 1]
s.delta = 0.25
bad = 0
for gs in [(4, 2, 2), (4, 4, 4), (7, 3, 5)]:
    grid, filled = voxelize.voxelize(s, grid_size=gs)
    xs = sorted(set(v[0][0] for v in grid))
    exp = gs[0] * gs[1] * gs[2]
    print("grid_size", gs, "-> voxels", len(grid), "expected", exp, "x-layers start at", xs)
    if len(grid) != exp or len(filled) != exp:
        bad += 1
if bad:
    print("DEFECT: voxel count does not match the requested grid size (duplicate layer at x=0.8999999999999999 and x=0.9)")
    sys.exit(1)
print("ok")
