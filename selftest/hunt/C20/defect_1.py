"""ray.intersect reports SKEW for plainly crossing rays (even in 2-D, where skew is impossible)."""
import sys
from fractions import Fraction as F
from geomdl import ray
from geomdl.ray import Ray, RayIntersection

cases = [
    # two segments that cross in their interiors, integer coordinates < 300
    ([243, 200], [56, 152], [222, 77], [45, 256]),
    # integer coordinates <= 7
    ([-5, -1], [5, -4], [5, 4], [-6, 7]),
    # 3-D, coplanar by construction (ray2 passes through ray1.eval(-3))
    ([-69, -93, -89], [85, -25, 26], [-76, 89, 96], [-531, -297, -434]),
]
bad = []
for a, b, c, d in cases:
    t1, t2, st = ray.intersect(Ray(a, b), Ray(c, d))
    # exact reference
    dim = len(a)
    A, B, C, D = [[F(x) for x in p] + [F(0)] * (3 - dim) for p in (a, b, c, d)]
    d1 = [y - x for x, y in zip(A, B)]; d2 = [y - x for x, y in zip(C, D)]
    cr = lambda u, v: [u[1]*v[2]-u[2]*v[1], u[2]*v[0]-u[0]*v[2], u[0]*v[1]-u[1]*v[0]]
    dot = lambda u, v: sum(x*y for x, y in zip(u, v))
    n = cr(d1, d2); pd = [y - x for x, y in zip(A, C)]
    assert any(n) and dot(pd, n) == 0          # exact: not parallel, coplanar -> INTERSECT
    e1 = dot(cr(pd, d2), n) / dot(n, n); e2 = dot(cr(pd, d1), n) / dot(n, n)
    print("rays", a, b, c, d, "-> status", st, "t1,t2 =", t1, t2, " exact:", float(e1), float(e2))
    if st != RayIntersection.INTERSECT:
        bad.append((a, b, c, d, st))
if bad:
    print("DEFECT: %d crossing ray pair(s) not reported as INTERSECT (status 3 = SKEW)" % len(bad))
    sys.exit(1)
print("ok")
