"""ray.intersect reports COLINEAR for two perpendicular crossing rays when the direction vectors are short."""
import sys
from geomdl import ray
from geomdl.ray import Ray, RayIntersection
h = 1e-7
r1 = Ray([0.0, 0.0], [h, 0.0])          # along +x
r2 = Ray([h / 2, -h / 2], [h / 2, h / 2])  # along +y, crosses r1 at t1 = t2 = 0.5
t1, t2, st = ray.intersect(r1, r2)
print("status", st, "t1", t1, "t2", t2, "(expected status 1, t1 = t2 = 0.5)")
r3 = Ray([0.0, 0.0, 0.0], [h, 0.0, 0.0]); r4 = Ray([h / 2, -h / 2, 0.0], [h / 2, h / 2, 0.0])
u1, u2, st3 = ray.intersect(r3, r4)
print("3-D: status", st3, "t1", u1, "t2", u2)
if st != RayIntersection.INTERSECT or st3 != RayIntersection.INTERSECT or abs(t1 - .5) > 1e-9 or abs(t2 - .5) > 1e-9:
    print("DEFECT: perpendicular crossing rays classified as COLINEAR (2)")
    sys.exit(1)
print("ok")
