"""operations.find_ctrlpts on a NURBS surface returns weighted homogeneous rows (x*w, y*w, z*w, w), which are not
control points of the surface; on a NURBS curve the same function returns the Cartesian control points."""
import sys
from geomdl import NURBS, operations

c = NURBS.Curve(); c.degree = 1
c.ctrlpts = [[1.0, 2.0, 3.0], [4.0, 5.0, 6.0]]; c.weights = [2.0, 4.0]; c.knotvector = [0, 0, 1, 1]
rc = [list(p) for p in operations.find_ctrlpts(c, 0.5)]
print("curve  :", rc, " ctrlpts:", [list(p) for p in c.ctrlpts])

s = NURBS.Surface(); s.degree_u = 1; s.degree_v = 1
P = [[1.0, 2.0, 3.0], [4.0, 5.0, 6.0], [7.0, 8.0, 9.0], [10.0, 11.0, 12.0]]; W = [2.0, 4.0, 1.0, 3.0]
s.set_ctrlpts([[x * w for x in p] + [w] for p, w in zip(P, W)], 2, 2)
s.knotvector_u = [0, 0, 1, 1]; s.knotvector_v = [0, 0, 1, 1]
rs = [list(p) for row in operations.find_ctrlpts(s, 0.5, 0.5) for p in row]
print("surface:", rs, " ctrlpts:", [list(p) for p in s.ctrlpts])
ok_c = rc == [list(p) for p in c.ctrlpts]
ok_s = rs == [list(p) for p in s.ctrlpts]
if not (ok_c and ok_s):
    print("DEFECT: find_ctrlpts(surface) does not return the surface's control points (curve ok=%s, surface ok=%s)" % (ok_c, ok_s))
    sys.exit(1)
print("ok")
