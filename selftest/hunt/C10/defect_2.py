"""rotate(axis=0) / rotate(axis=1) flatten every coordinate beyond the third of an n-D curve (n > 3),
while rotate(axis=2), translate and scale keep them."""
import sys, math
from geomdl import BSpline, operations

c = BSpline.Curve(); c.degree = 2
c.ctrlpts = [[1.0, 2.0, 3.0, 10.0], [2.0, 0.0, 1.0, 20.0], [4.0, 1.0, 0.0, 30.0]]
c.knotvector = [0, 0, 0, 1, 1, 1]
u = 0.5
before = c.evaluate_single(u)
bad = []
for axis in (0, 1, 2):
    r = operations.rotate(c, 30, axis=axis)
    after = r.evaluate_single(u)
    print("axis", axis, "before", before, "after", after)
    # a rotation in a coordinate plane of the first three coordinates leaves the 4th coordinate alone
    if abs(after[3] - before[3]) > 1e-9:
        bad.append(axis)
if bad:
    sys.exit("DEFECT: 4th coordinate of the evaluated point changed (collapsed to the start point's value) for axis in %s" % bad)
print("OK")
