"""rotate(axis=1) turns in the opposite sense to rotate(axis=0) and rotate(axis=2).

axis=0 and axis=2 apply the right-handed (counter-clockwise, looking down the axis towards the origin)
rotation matrices Rx(a), Rz(a); axis=1 applies Ry(-a).
"""
import sys, math
from geomdl import BSpline, operations

def line(p0, p1):
    c = BSpline.Curve(); c.degree = 1
    c.ctrlpts = [p0, p1]; c.knotvector = [0, 0, 1, 1]
    return c

def end_after(axis, p1):
    # start point is the origin, so the rotation axis is the coordinate axis itself
    r = operations.rotate(line([0.0, 0.0, 0.0], p1), 90, axis=axis)
    return [round(x, 12) + 0.0 for x in r.evaluate_single(1.0)]

# right-handed quarter turns:  about x: y->z ; about y: z->x ; about z: x->y
got_x = end_after(0, [0.0, 1.0, 0.0]); exp_x = [0.0, 0.0, 1.0]
got_y = end_after(1, [0.0, 0.0, 1.0]); exp_y = [1.0, 0.0, 0.0]
got_z = end_after(2, [1.0, 0.0, 0.0]); exp_z = [0.0, 1.0, 0.0]
print("axis=0: (0,1,0) ->", got_x, "expected", exp_x)
print("axis=1: (0,0,1) ->", got_y, "expected", exp_y)
print("axis=2: (1,0,0) ->", got_z, "expected", exp_z)
ok = [got_x == exp_x, got_y == exp_y, got_z == exp_z]
if not all(ok):
    sys.exit("DEFECT: the three axes do not use the same sense of rotation (right-handed: %s)" % ok)
print("OK")
