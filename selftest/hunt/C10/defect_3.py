"""In-place translate/rotate/scale of a NURBS.Curve empties the list that curve.weights returned before the call
(NURBS.Surface and NURBS.Volume do not do that)."""
import sys
from geomdl import NURBS, operations

c = NURBS.Curve(); c.degree = 2
c.ctrlptsw = [[0.0, 0.0, 1.0], [2.0, 2.0, 2.0], [2.0, 0.0, 1.0]]
c.knotvector = [0, 0, 0, 1, 1, 1]
w_before = c.weights                 # read ...
expected = list(w_before)
res = operations.translate(c, [1.0, 1.0], inplace=True)   # ... modify ...
print("weights read before the call, looked at after the call:", w_before, "expected", expected)
print("curve.weights after the call:", c.weights)
if res is not c:
    sys.exit("in-place call returned a different object")
if list(w_before) != expected:       # ... read
    sys.exit("DEFECT: the weights list obtained from the curve was emptied by the in-place transformation")
print("OK")
