"""translate/rotate/scale raise ZeroDivisionError for a rational shape that has a zero weight
(an 'infinite control point', Piegl & Tiller sec. 4.2/7.3), although the shape evaluates fine."""
import sys
from geomdl import NURBS, operations

c = NURBS.Curve(); c.degree = 2
c.ctrlptsw = [[0.0, 0.0, 1.0], [1.0, 1.0, 0.0], [2.0, 0.0, 1.0]]   # middle point has w = 0
c.knotvector = [0, 0, 0, 1, 1, 1]
p = c.evaluate_single(0.5)
print("C(0.5) =", p)
try:
    t = operations.translate(c, [1.0, 1.0])
except ZeroDivisionError as e:
    sys.exit("DEFECT: translate raised ZeroDivisionError: %s" % e)
q = t.evaluate_single(0.5)
if max(abs(q[0] - p[0] - 1.0), abs(q[1] - p[1] - 1.0)) > 1e-12:
    sys.exit("DEFECT: wrong point %s" % q)
print("OK")
