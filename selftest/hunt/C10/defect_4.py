"""A container that holds the same shape object twice transforms it twice."""
import sys
from geomdl import BSpline, multi, operations

c = BSpline.Curve(); c.degree = 1
c.ctrlpts = [[0.0, 0.0, 0.0], [1.0, 0.0, 0.0]]; c.knotvector = [0, 0, 1, 1]
cont = multi.CurveContainer(); cont.add(c); cont.add(c)
before = [e.evaluate_single(0.5) for e in cont]
res = operations.translate(cont, [1.0, 0.0, 0.0])
after = [e.evaluate_single(0.5) for e in res]
print("before", before, "after", after)
exp = [[p[0] + 1.0, p[1], p[2]] for p in before]
if after != exp:
    sys.exit("DEFECT: expected %s, got %s (element translated once per occurrence)" % (exp, after))
print("OK")
