"""C14 defect 2: import_smesh / import_vmesh re-normalise the knot vectors written by export_smesh /
export_vmesh, so a surface/volume with an un-normalised knot range is not reproduced."""
import os, sys, tempfile
from geomdl import BSpline, NURBS, exchange

tmp = tempfile.mkdtemp()
problems = []

srf = NURBS.Surface(normalize_kv=False)
srf.degree_u, srf.degree_v = 2, 1
srf.set_ctrlpts([[float(i) * w, float(j) * w, float(i * j) * w, w]
                 for i in range(4) for j in range(3) for w in [1.0 + 0.5 * ((i + j) % 2)]], 4, 3)
srf.knotvector_u = [-1.5, -1.5, -1.5, 0.5, 2.5, 2.5, 2.5]
srf.knotvector_v = [2, 2, 3, 6, 6]
fn = os.path.join(tmp, "s.smesh.txt")
exchange.export_smesh(srf, fn)
back = exchange.import_smesh(fn)[0]
for d, (k0, k1) in enumerate(zip(srf.knotvector, back.knotvector)):
    if [float(k) for k in k0] != list(k1):
        problems.append("smesh: knot vector %d written %s, read back %s" % (d, list(k0), list(k1)))
try:
    p0, p1 = srf.evaluate_single((0.5, 3.0)), back.evaluate_single((0.5, 3.0))
    if max(abs(a - b) for a, b in zip(p0, p1)) > 1e-9:
        problems.append("smesh: S(0.5, 3.0) = %s before, %s after" % (p0, p1))
except Exception as e:
    problems.append("smesh: S(0.5, 3.0) = %s before; afterwards evaluate_single raises %r"
                    % (srf.evaluate_single((0.5, 3.0)), e))

vol = BSpline.Volume(normalize_kv=False)
vol.degree_u, vol.degree_v, vol.degree_w = 1, 1, 1
vol.set_ctrlpts([[float(i), float(j), float(k)] for k in range(4) for i in range(2) for j in range(3)], 2, 3, 4)
vol.knotvector_u = [10, 10, 110, 110]
vol.knotvector_v = [0, 0, 2, 4, 4]
vol.knotvector_w = [-3, -3, -2.5, -2, -1, -1]
fn = os.path.join(tmp, "v.vmesh.txt")
exchange.export_vmesh(vol, fn)
back = exchange.import_vmesh(fn)[0]
for d, (k0, k1) in enumerate(zip(vol.knotvector, back.knotvector)):
    if [float(k) for k in k0] != list(k1):
        problems.append("vmesh: knot vector %d written %s, read back %s" % (d, list(k0), list(k1)))

if problems:
    print("DEFECT PRESENT (mesh round trip does not reproduce un-normalised knot vectors):")
    for p in problems:
        print(" -", p)
    sys.exit(1)
print("ok")
