"""C14 defect 1: JSON import re-normalises knot vectors, so shapes with un-normalised knot ranges
(created with normalize_kv=False) do not come back with the same knot vectors / parametrisation, and a
trimmed surface comes back with its trim curves lying in the wrong parametric region."""
import math, os, sys, tempfile
from geomdl import BSpline, NURBS, exchange, freeform, tessellate

tmp = tempfile.mkdtemp()
problems = []

# (a) plain curve on the knot range [2, 5]
crv = BSpline.Curve(normalize_kv=False)
crv.degree = 2
crv.ctrlpts = [[0, 0, 0], [1, 2, 0], [3, 2, 1], [4, 0, 2], [6, 1, 3]]
crv.knotvector = [2, 2, 2, 3, 4.5, 5, 5, 5]
fn = os.path.join(tmp, "crv.json")
exchange.export_json(crv, fn)
back = exchange.import_json(fn)[0]
if list(back.knotvector) != list(crv.knotvector):
    problems.append("curve: knot vector written %s, read back %s" % (list(crv.knotvector), list(back.knotvector)))
try:
    p0, p1 = crv.evaluate_single(3.0), back.evaluate_single(3.0)
    if max(abs(a - b) for a, b in zip(p0, p1)) > 1e-9:
        problems.append("curve: C(3.0) = %s before, %s after the round trip" % (p0, p1))
except Exception as e:
    problems.append("curve: C(3.0) = %s before; after the round trip evaluate_single(3.0) raises %r"
                    % (crv.evaluate_single(3.0), e))

# (b) volume with ranges containing 0 / negative values
vol = NURBS.Volume(normalize_kv=False)
vol.degree_u, vol.degree_v, vol.degree_w = 1, 1, 1
pts = [[float(i), float(j), float(k), 1.0] for k in range(4) for i in range(2) for j in range(3)]
vol.set_ctrlpts(pts, 2, 3, 4)
vol.knotvector_u = [-1, -1, 1, 1]
vol.knotvector_v = [0, 0, 2, 4, 4]
vol.knotvector_w = [-3, -3, -2.5, -2, -1, -1]
fn = os.path.join(tmp, "vol.json")
exchange.export_json(vol, fn)
back = exchange.import_json(fn)[0]
for d, (k0, k1) in enumerate(zip(vol.knotvector, back.knotvector)):
    if list(k0) != list(k1):
        problems.append("volume: knot vector %d written %s, read back %s" % (d, list(k0), list(k1)))

# (c) trimmed surface on the domain [0,2]x[0,3]; the trim curve is a small loop around (1.0, 1.5)
srf = BSpline.Surface(normalize_kv=False)
srf.degree_u, srf.degree_v = 1, 2
srf.set_ctrlpts([[float(i), float(j), float(i * j)] for i in range(2) for j in range(3)], 2, 3)
srf.knotvector_u = [0, 0, 2, 2]
srf.knotvector_v = [0, 0, 0, 3, 3, 3]
loop = freeform.Freeform()
loop.evaluate(points=[[1.0 + 0.4 * math.cos(2 * math.pi * t / 16), 1.5 + 0.4 * math.sin(2 * math.pi * t / 16)]
                      for t in range(17)])
loop.opt = ['reversed', 0]
srf.trims = [loop]
fn = os.path.join(tmp, "srf.json")
exchange.export_json(srf, fn)
back = exchange.import_json(fn)[0]
dom0, dom1 = srf.domain, back.domain
tpts = back.trims[0].evalpts
outside = [p for p in tpts if not (dom1[0][0] <= p[0] <= dom1[0][1] and dom1[1][0] <= p[1] <= dom1[1][1])]
if outside:
    problems.append("trimmed surface: domain %s before, %s after, but the trim loop is still around (1.0, 1.5): "
                    "%d of its %d points are outside the imported surface's domain" % (dom0, dom1, len(outside), len(tpts)))
# effect on the trimmed tessellation
n = []
for s in (srf, back):
    s.sample_size = 20
    s.tessellator = tessellate.TrimTessellate()
    s.tessellate()
    n.append(len(s.tessellator.faces))
if n[0] != n[1]:
    problems.append("trimmed surface: trimmed tessellation has %d triangles before and %d after the round trip" % tuple(n))

if problems:
    print("DEFECT PRESENT (JSON round trip does not reproduce un-normalised knot vectors):")
    for p in problems:
        print(" -", p)
    sys.exit(1)
print("ok")
