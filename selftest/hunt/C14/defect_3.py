"""C14 defect 3: export_smesh writes a surface with 2-D control points without complaint, but
import_smesh refuses to read the file back."""
import os, sys, tempfile
from geomdl import BSpline, exchange

tmp = tempfile.mkdtemp()
srf = BSpline.Surface()
srf.degree_u, srf.degree_v = 1, 2
srf.set_ctrlpts([[float(i), float(j) + 0.25 * i] for i in range(2) for j in range(3)], 2, 3)   # planar, 2-D points
srf.knotvector_u = [0, 0, 1, 1]
srf.knotvector_v = [0, 0, 0, 1, 1, 1]
fn = os.path.join(tmp, "flat.smesh.txt")
exchange.export_smesh(srf, fn)          # succeeds, first line of the file is "2"
try:
    back = exchange.import_smesh(fn)[0]
except Exception as e:
    print("DEFECT PRESENT: export_smesh wrote %r (first line %r) but import_smesh raises %r"
          % (fn, open(fn).readline().strip(), e))
    sys.exit(1)
ok = (back.degree == srf.degree and back.ctrlpts_size_u == 2 and back.ctrlpts_size_v == 3
      and [list(p) for p in back.ctrlpts] == [list(p) for p in srf.ctrlpts]
      and list(back.knotvector_u) == list(srf.knotvector_u) and list(back.knotvector_v) == list(srf.knotvector_v))
if not ok:
    print("DEFECT PRESENT: 2-D surface not reproduced by the smesh round trip")
    sys.exit(1)
print("ok")
