"""matrix_identity hands out the memoised list object itself; editing an identity matrix
obtained from it (e.g. to build a transformation matrix) silently changes the result of every
later matrix_pivot / matrix_inverse / lu_factor / matrix_determinant call of that size."""
import sys
from geomdl import linalg

A = [[2, 0, 0], [0, 2, 0], [0, 0, 2]]
before = linalg.matrix_inverse(A)
T = linalg.matrix_identity(3)
T[0][2] = 5.0              # user builds a shear/translation matrix from the identity
after_id = linalg.matrix_identity(3)
mp, p = linalg.matrix_pivot(A)
after = linalg.matrix_inverse(A)
bad = []
if after_id != [[1.0, 0.0, 0.0], [0.0, 1.0, 0.0], [0.0, 0.0, 1.0]]:
    bad.append("matrix_identity(3) now returns %r" % after_id)
if p != [[1.0, 0.0, 0.0], [0.0, 1.0, 0.0], [0.0, 0.0, 1.0]]:
    bad.append("matrix_pivot returns P = %r (not a permutation matrix)" % p)
if after != before:
    bad.append("matrix_inverse changed from %r to %r" % (before, after))
if bad:
    print("DEFECT:\n  " + "\n  ".join(bad))
    sys.exit(1)
print("OK")
sys.exit(0)
