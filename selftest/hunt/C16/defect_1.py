"""lu_solve silently returns a wrong solution (instead of failing) for a non-singular
integer matrix that needs a row swap, because the exactly-zero pivot evaluates to a
rounding residue (1.1e-16) and is used as a divisor."""
import sys
from fractions import Fraction as F
from geomdl import linalg

A = [[49, 49, 0],
     [1, 1, 1],
     [0, 1, 0]]          # det = -49, row 3 says x1 = b2
b = [[1], [2], [3]]
exact = [F(-146, 49), F(3), F(97, 49)]

try:
    x = linalg.lu_solve(A, b)
except Exception:
    print("OK: lu_solve refuses the matrix (no result returned)")
    sys.exit(0)

res = [sum(F(A[i][k]) * F(x[k][0]) for k in range(3)) - b[i][0] for i in range(3)]
err = max(abs(float(r)) for r in res)
if err > 1e-9:
    print("DEFECT: lu_solve returned x = %r\n        exact solution   = %r\n        residual A x - b = %r"
          % ([v[0] for v in x], [float(e) for e in exact], [float(r) for r in res]))
    sys.exit(1)
print("OK: A x = b holds")
sys.exit(0)
