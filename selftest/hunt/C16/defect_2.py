"""matrix_pivot / matrix_determinant / matrix_inverse / lu_factor raise TypeError for a
matrix given as a tuple of tuples (a documented input type) as soon as a row swap is needed."""
import sys
from geomdl import linalg

A = ((0, 1), (1, 0))       # non-singular, needs one row swap
fails = []
for name, call in (("matrix_pivot", lambda: linalg.matrix_pivot(A)),
                   ("matrix_determinant", lambda: linalg.matrix_determinant(A)),
                   ("matrix_inverse", lambda: linalg.matrix_inverse(A)),
                   ("lu_factor", lambda: linalg.lu_factor(A, ((1,), (2,))))):
    try:
        call()
    except TypeError as e:
        fails.append("%s: TypeError(%s)" % (name, e))
# same matrix without the need of a swap works with tuples:
linalg.matrix_pivot(((1, 0), (0, 1)))
if fails:
    print("DEFECT: tuple-of-tuples matrix that needs a row swap is rejected:\n  " + "\n  ".join(fails))
    sys.exit(1)
print("OK")
sys.exit(0)
