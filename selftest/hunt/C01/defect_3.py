"""Defect 3: an accepted evaluation delta in (2/3, 1) collapses the sample grid to ONE point.

sample_size = floor(1/delta + 0.5) is 1 for every delta > 2/3, and linalg.linspace(start, stop, 1) returns
[start] only.  The delta setters accept the whole open interval (0, 1) and document the grid as
[u_start, u_start + delta, ..., u_end]; the grid that comes out neither ends on the domain corner nor is it
a grid (for surfaces the default tessellation then divides by zero).  sample_size = 1 itself is refused
by the sample_size setter ("delta should be between 0.0 and 1.0"), so the state is only reachable via delta.
"""
import sys
from geomdl import BSpline

errors = []

c = BSpline.Curve()
c.degree = 2
c.ctrlpts = [[0, 0], [1, 1], [2, 0], [3, 3]]
c.knotvector = [0, 0, 0, 0.5, 1, 1, 1]
for d in (0.7, 0.9):
    try:
        c.delta = d                  # accepted today: 0 < delta < 1
    except ValueError:
        continue                     # rejecting such a delta would be an acceptable fix
    pts = c.evalpts
    if len(pts) < 2 or pts[-1] != [3.0, 3.0]:
        errors.append("Curve.delta = %s -> sample_size %d, evalpts = %r (grid does not reach the end of the domain, "
                      "expected last point [3.0, 3.0])" % (d, c.sample_size, pts))

s = BSpline.Surface()
s.degree_u = 1
s.degree_v = 1
s.set_ctrlpts([[0, 0, 0], [0, 1, 0], [1, 0, 0], [1, 1, 1]], 2, 2)
s.knotvector_u = [0, 0, 1, 1]
s.knotvector_v = [0, 0, 1, 1]
try:
    s.delta = (0.7, 0.25)
    accepted = True
except ValueError:
    accepted = False                 # rejecting such a delta would be an acceptable fix
if accepted:
    pts = s.evalpts
    if [1.0, 1.0, 1.0] not in pts:
        errors.append("Surface.delta = (0.7, 0.25) -> sample_size %s, %d points, corner S(1,1) = [1,1,1] missing"
                      % (str(s.sample_size), len(pts)))
    try:
        s.tessellate()
    except ZeroDivisionError as e:
        errors.append("Surface.delta = (0.7, 0.25): tessellate() raises ZeroDivisionError (%s)" % e)

if errors:
    print("DEFECT 3 PRESENT:")
    for e in errors:
        print("  " + e)
    sys.exit(1)
print("defect 3 not present")
