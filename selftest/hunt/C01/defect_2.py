"""Defect 2: evaluating the sample grid never returns (infinite loop) with find_span_func=find_span_binsearch
when an un-normalised knot vector starts at a small-magnitude value such as 0.1**3.

linalg.linspace() rounds every sample through "{:.18f}".format(...).  For |x| < ~0.0078 that is fewer
significant digits than a double carries, so the FIRST sample can come out one ulp BELOW the domain start
(0.1**3 = 0.0010000000000000002 -> 0.001).  helpers.find_span_binsearch has no lower guard and spins
forever for knot < knot_vector[degree]; with the default linear search the first grid point is merely
evaluated slightly outside the domain.
"""
import signal
import sys
from geomdl import BSpline, helpers, linalg

a = 0.1 ** 3                       # 0.0010000000000000002, a perfectly ordinary float
kv = [a, a, a, 2.5, 5.0, 5.0, 5.0]  # clamped, degree 2, knots far apart
P = [[0.0, 0.0], [1.0, 2.0], [3.0, 1.0], [4.0, 4.0]]

errors = []

grid = linalg.linspace(a, 5.0, 5)
if grid[0] != a:
    errors.append("linspace(%r, 5.0, 5)[0] = %r: the sampled grid does not start on the domain corner" % (a, grid[0]))


class Hang(Exception):
    pass


def on_alarm(signum, frame):
    raise Hang()


crv = BSpline.Curve(normalize_kv=False, find_span_func=helpers.find_span_binsearch)
crv.degree = 2
crv.ctrlpts = P
crv.knotvector = kv
crv.sample_size = 5

signal.signal(signal.SIGALRM, on_alarm)
signal.alarm(10)
try:
    pts = crv.evalpts
    signal.alarm(0)
    if len(pts) != 5 or pts[0] != P[0] or pts[-1] != P[-1]:
        errors.append("grid wrong: %r" % (pts,))
except Hang:
    errors.append("BSpline.Curve(normalize_kv=False, find_span_func=find_span_binsearch).evalpts did not "
                  "return within 10 s (infinite loop in helpers.find_span_binsearch) for knot vector %r" % (kv,))

if errors:
    print("DEFECT 2 PRESENT:")
    for e in errors:
        print("  " + e)
    sys.exit(1)
print("defect 2 not present")
