"""Defect 4: the per-direction delta / sample-size setters of SurfaceContainer and VolumeContainer do not
invalidate the cached evaluated points, so container.evalpts keeps returning the OLD grid.

AbstractContainer.delta / .sample_size call self.reset(); delta_u, delta_v, delta_w, sample_size_u,
sample_size_v, sample_size_w only call _delta_setter_common / _sample_size_setter_common.
(This is a different trigger from the already known "contained element edited" staleness: here only the
container's own documented properties are used.)
"""
import sys
from geomdl import BSpline, multi


def surface():
    s = BSpline.Surface()
    s.degree_u = 1
    s.degree_v = 1
    s.set_ctrlpts([[0, 0, 0], [0, 1, 0], [1, 0, 0], [1, 1, 1]], 2, 2)
    s.knotvector_u = [0, 0, 1, 1]
    s.knotvector_v = [0, 0, 1, 1]
    return s


def volume():
    v = BSpline.Volume()
    v.degree_u = v.degree_v = v.degree_w = 1
    v.set_ctrlpts([[i, j, k] for k in range(2) for i in range(2) for j in range(2)], 2, 2, 2)
    v.knotvector_u = v.knotvector_v = v.knotvector_w = [0, 0, 1, 1]
    return v


errors = []

ms = multi.SurfaceContainer(surface())
ms.delta = 0.25
n0 = len(ms.evalpts)                       # 4 x 4
ms.delta_u = 0.125                         # u-direction: 8 samples now
fresh = multi.SurfaceContainer(surface())
fresh.delta = (0.125, 0.25)
n_expected = len(fresh.evalpts)
n1 = len(ms.evalpts)
if n1 != n_expected:
    errors.append("SurfaceContainer: after delta_u = 0.125 evalpts still has %d points (was %d), "
                  "a fresh container with the same deltas gives %d" % (n1, n0, n_expected))

ms.sample_size_v = 6
fresh = multi.SurfaceContainer(surface())
fresh.delta = tuple(ms.delta)
if len(ms.evalpts) != len(fresh.evalpts):
    errors.append("SurfaceContainer: after sample_size_v = 6 evalpts has %d points, fresh container gives %d"
                  % (len(ms.evalpts), len(fresh.evalpts)))

mv = multi.VolumeContainer(volume())
mv.delta = 0.5
n0 = len(mv.evalpts)
mv.delta_w = 0.25
fresh = multi.VolumeContainer(volume())
fresh.delta = (0.5, 0.5, 0.25)
if len(mv.evalpts) != len(fresh.evalpts):
    errors.append("VolumeContainer: after delta_w = 0.25 evalpts still has %d points, fresh container gives %d"
                  % (len(mv.evalpts), len(fresh.evalpts)))

if errors:
    print("DEFECT 4 PRESENT:")
    for e in errors:
        print("  " + e)
    sys.exit(1)
print("defect 4 not present")
