"""Defect 1: container.sample_size = n yields n-1 samples per contained shape (and the getter can report n-1).

multi.AbstractContainer stores delta = 1/(n-1) and reports int(1/delta)+1, while the contained
Curve/Surface/Volume objects use n = floor(1/delta + 0.5).  The grid produced through the container
therefore never has the size that was asked for / that the container reports.
"""
import sys
from geomdl import BSpline, multi


def curve():
    c = BSpline.Curve()
    c.degree = 2
    c.ctrlpts = [[0, 0], [1, 1], [2, 0], [3, 1]]
    c.knotvector = [0, 0, 0, 0.5, 1, 1, 1]
    return c


def surface():
    s = BSpline.Surface()
    s.degree_u = 1
    s.degree_v = 1
    s.set_ctrlpts([[0, 0, 0], [0, 1, 0], [1, 0, 0], [1, 1, 1]], 2, 2)
    s.knotvector_u = [0, 0, 1, 1]
    s.knotvector_v = [0, 0, 1, 1]
    return s


errors = []

mc = multi.CurveContainer(curve())
for n in (5, 10, 100):
    mc.sample_size = n
    got = len(mc.evalpts)
    if got != n:
        errors.append("CurveContainer.sample_size = %d -> %d evaluated points (element.sample_size = %d)"
                      % (n, got, mc[0].sample_size))
    if mc.sample_size != n:
        errors.append("CurveContainer.sample_size set to %d reads back as %d" % (n, mc.sample_size))

ms = multi.SurfaceContainer(surface())
ms.sample_size = 5
got = len(ms.evalpts)
if got != 25:
    errors.append("SurfaceContainer.sample_size = 5 -> %d evaluated points, expected 5*5 = 25 (element grid %s)"
                  % (got, str(ms[0].sample_size)))

# delta route: container and element disagree about the size of the very same grid
mc.delta = 0.1
if mc.sample_size != len(mc.evalpts):
    errors.append("CurveContainer.delta = 0.1: container reports sample_size %d but evalpts has %d points"
                  % (mc.sample_size, len(mc.evalpts)))

if errors:
    print("DEFECT 1 PRESENT:")
    for e in errors:
        print("  " + e)
    sys.exit(1)
print("defect 1 not present")
