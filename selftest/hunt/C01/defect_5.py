"""Defect 5 (helper level): helpers.basis_function_ders_one returns 0 for the value (zeroth derivative) of the
LAST basis function at the right end of a clamped knot vector, where N_{n,p}(u_end) = 1.

helpers.basis_function / basis_function_ders / basis_function_one (which special-cases the end) all return 1.
Summing ctrlpts[i] * basis_function_ders_one(...)[0] over i therefore gives the zero vector at u_end instead
of the last control point.
"""
import sys
from geomdl import helpers

p = 2
kv = [0.0, 0.0, 0.0, 0.5, 1.0, 1.0, 1.0]
n = len(kv) - p - 1            # 4 basis functions
u = 1.0                        # right end of the domain

vals = [helpers.basis_function_ders_one(p, kv, i, u, 0)[0] for i in range(n)]
ref = [helpers.basis_function_one(p, kv, i, u) for i in range(n)]
span = helpers.find_span_linear(p, kv, n, u)
ref2 = helpers.basis_function_ders(p, kv, span, u, 0)[0]   # non-vanishing ones: N_1, N_2, N_3

if abs(sum(vals) - 1.0) > 1e-12 or abs(vals[-1] - 1.0) > 1e-12:
    print("DEFECT 5 PRESENT:")
    print("  basis_function_ders_one(.., order=0)[0] at u = 1.0 :", vals, " (sum = %s, expected partition of unity)" % sum(vals))
    print("  basis_function_one at u = 1.0                      :", ref)
    print("  basis_function_ders at span %d                       :" % span, ref2)
    sys.exit(1)
print("defect 5 not present")
