"""Defect 6 (control-net plumbing of rational shapes): assigning MORE control points to an already populated
NURBS shape through the documented ``ctrlpts`` setter silently drops the extra points.

NURBS.Curve.ctrlpts (setter) re-uses the cached weights of the previous net and
compatibility.combine_ctrlpts_weights() zips points with weights, so the new net is truncated to the old
length.  The curve that is evaluated afterwards is not the one defined by the control net that was given
(and a knot vector that is valid for the new net is rejected).
"""
import sys
from geomdl import NURBS

crv = NURBS.Curve()
crv.degree = 2
crv.ctrlpts = [[0, 0], [1, 1], [2, 0]]
crv.knotvector = [0, 0, 0, 1, 1, 1]
_ = crv.evalpts

new_net = [[0, 0], [1, 1], [2, 0], [3, 1], [4, 0]]
crv.ctrlpts = new_net                      # re-populate the same object with a 5-point net

errors = []
if len(crv.ctrlpts) != len(new_net):
    errors.append("after crv.ctrlpts = <5 points> the curve has %d control points: %r" % (len(crv.ctrlpts), crv.ctrlpts))
try:
    crv.knotvector = [0, 0, 0, 0.3, 0.6, 1, 1, 1]   # valid for degree 2 and 5 control points
    end = crv.evaluate_single(1.0)
    if end != [4.0, 0.0]:
        errors.append("C(1) = %r, expected the last control point [4.0, 0.0]" % (end,))
except ValueError as e:
    errors.append("valid knot vector for the 5-point net rejected: %s" % e)

if errors:
    print("DEFECT 6 PRESENT:")
    for e in errors:
        print("  " + e)
    sys.exit(1)
print("defect 6 not present")
