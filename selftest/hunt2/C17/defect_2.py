"""SurfaceContainer.tessellate(num_procs > 1) replaces the components of the contained surfaces by copies.

With one process the surfaces of the container are tessellated in place.  With several processes the worker copies are
merged back with ``elem.__dict__.update(copy.__dict__)``, which swaps every sub-object of the surface (trim curves,
tessellation component, control point lists, evaluator) for the pickled copy.  Objects the caller created and attached
to the surface are silently detached:

* the tessellation component the caller assigned stays empty,
* a later edit of the caller's trim curve is ignored even by a forced re-tessellation.

Both work with num_procs=1, so the result depends on the number of worker processes."""
import sys
from geomdl import BSpline, multi, tessellate, operations


def build():
    surf = BSpline.Surface()
    surf.degree_u = 2
    surf.degree_v = 2
    surf.set_ctrlpts([[i, j, 0.0] for i in range(4) for j in range(4)], 4, 4)
    surf.knotvector_u = [0, 0, 0, 0.5, 1, 1, 1]
    surf.knotvector_v = [0, 0, 0, 0.5, 1, 1, 1]
    trim = BSpline.Curve()
    trim.degree = 1
    trim.ctrlpts = [[0.13, 0.13], [0.37, 0.13], [0.37, 0.37], [0.13, 0.37], [0.13, 0.13]]
    trim.knotvector = [0, 0, 0.25, 0.5, 0.75, 1, 1]
    trim.delta = 0.05
    surf.trims = [trim]
    tsl = tessellate.TrimTessellate()
    surf.tessellator = tsl
    cont = multi.SurfaceContainer(surf)
    cont.sample_size = 9
    return cont, surf, trim, tsl


def centroid(faces):
    xs = [v.data[0] for f in faces for v in f.vertices]
    ys = [v.data[1] for f in faces for v in f.vertices]
    return sum(xs) / len(xs), sum(ys) / len(ys)


def scenario(num_procs):
    cont, surf, trim, tsl = build()
    cont.tessellate(num_procs=num_procs)
    first = centroid(cont.faces)
    held = len(tsl.faces)  # the component created by the caller
    # Move the hole from the lower-left to the upper-right corner by editing the caller's trim curve
    operations.translate(trim, (0.5, 0.5), inplace=True)
    surf.reset(evalpts=True)
    cont.reset()
    cont.tessellate(num_procs=num_procs, force=True)
    second = centroid(cont.faces)
    return held, first, second, surf.trims[0] is trim, surf.tessellator is tsl


one = scenario(1)
two = scenario(2)
problems = []
if one[0] != two[0]:
    problems.append("caller's tessellator holds %d faces with 1 process, %d with 2" % (one[0], two[0]))
if max(abs(a - b) for a, b in zip(one[2], two[2])) > 1e-9:
    problems.append("after moving the caller's trim curve the centroid of the faces is %s with 1 process, %s with 2"
                    % (tuple(round(x, 4) for x in one[2]), tuple(round(x, 4) for x in two[2])))
if one[3:] != two[3:]:
    problems.append("surface keeps caller's trim/tessellator objects: %s with 1 process, %s with 2" % (one[3:], two[3:]))
if problems:
    print("DEFECT: " + "; ".join(problems))
    sys.exit(1)
sys.exit(0)
