"""find_span_binsearch never returns for a parameter outside the domain, even by one ulp.

A curve with an unclamped knot vector [0, 1, 50, 100, 141] (degree 1, domain [1, 100]) is normalised by the library.
The caller maps the start of the domain with the same affine map, u = (1 - 0) / (141 - 0).  The knot stored by the
library went through the "{:.18f}" rounding of knotvector.normalize and is one ulp larger, so the caller's parameter is
one ulp below the domain.  With the default find_span_linear the call returns the first control point; with
find_span_func=helpers.find_span_binsearch the same call spins forever (so does any parameter of [0, 1] which lies outside
the domain of an unclamped shape, and any out-of-domain parameter of a shape with normalize_kv=False)."""
import signal
import sys
from geomdl import BSpline, helpers


class Hang(Exception):
    pass


def on_alarm(*_):
    raise Hang()


def build(span_func):
    crv = BSpline.Curve(find_span_func=span_func)
    crv.degree = 1
    crv.ctrlpts = [[0.0, 0.0], [1.0, 2.0], [3.0, 1.0]]
    crv.knotvector = [0, 1, 50, 100, 141]
    return crv


u = (1 - 0) / (141 - 0)  # start of the domain mapped to the normalised range by the caller
expected = build(helpers.find_span_linear).evaluate_single(u)
assert max(abs(a - b) for a, b in zip(expected, [0.0, 0.0])) < 1e-12

signal.signal(signal.SIGALRM, on_alarm)
signal.alarm(5)
try:
    got = build(helpers.find_span_binsearch).evaluate_single(u)
except Hang:
    print("DEFECT: evaluate_single(%r) returns %r with find_span_linear but never returns with find_span_binsearch"
          % (u, expected))
    sys.exit(1)
finally:
    signal.alarm(0)
if max(abs(a - b) for a, b in zip(expected, got)) > 1e-9:
    print("DEFECT: span search functions disagree: %r vs %r" % (expected, got))
    sys.exit(1)
sys.exit(0)
