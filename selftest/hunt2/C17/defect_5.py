"""normalize_kv=True (the default) makes the evaluation at the start of the domain fail for an unclamped knot vector whose
first domain knot is repeated.

knotvector.normalize() pushes every knot through "{:.18f}".format(), which keeps fewer than 17 significant digits for
values below 0.1, so the stored knots are not the affine images (k - U[0]) / (U[-1] - U[0]) of the input knots.  For
U = [0, 1, 1, 50, 100, 141] (degree 1, domain [1, 100]) the stored start of the domain is one ulp above 1/141.  The caller
who maps the parameter u = 1 with the same affine map lands one ulp below the stored knot, both span searches return the
empty span [U[1], U[2]) and the basis functions divide by zero.  The same curve with normalize_kv=False evaluates u = 1."""
import sys
from geomdl import BSpline, helpers

KV = [0, 1, 1, 50, 100, 141]
CP = [[0, 0], [1, 2], [3, 1], [4, 4]]


def build(**kwargs):
    crv = BSpline.Curve(**kwargs)
    crv.degree = 1
    crv.ctrlpts = CP
    crv.knotvector = KV
    return crv


ref = build(normalize_kv=False).evaluate_single(1)
u = (1 - KV[0]) / (KV[-1] - KV[0])
try:
    got = build(normalize_kv=True).evaluate_single(u)
except ZeroDivisionError as e:
    print("DEFECT: C(1) = %r with normalize_kv=False, but the normalised curve raises %r at the mapped parameter %r "
          "(stored start of the domain: %r)" % (ref, e, u, build().domain[0]))
    sys.exit(1)
if max(abs(a - b) for a, b in zip(ref, got)) > 1e-9:
    print("DEFECT: C(1) = %r with normalize_kv=False, %r with normalize_kv=True" % (ref, got))
    sys.exit(1)
sys.exit(0)
