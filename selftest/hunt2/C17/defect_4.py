"""Absolute tolerances of 1e-7 on parameter values break shapes whose knot vectors are kept on a short range.

The same curve is built with normalize_kv=True and with normalize_kv=False on the knot range [0, 1e-6] (parameters are
mapped affinely, u -> 1e-6 * u).  For the curve kept on its original range

  * split_curve / insert_knot at u = 0.6e-6 act at the existing knot 0.5e-6 instead (helpers.find_multiplicity and
    _operations.snap_params_to_knots treat every knot closer than 1e-7 as "the same knot"), so the pieces are different
    curves,
  * evaluate(start=0.2e-6, stop=0.25e-6) returns a single point instead of sample_size points (linalg.linspace treats start
    and stop closer than 1e-7 as equal).

The normalised curve does the right thing in both cases."""
import io
import sys
import contextlib
from geomdl import BSpline, operations

SCALE = 1e-6
KV01 = [0, 0, 0, 0.25, 0.5, 0.75, 1, 1, 1]
CP = [[0, 0], [1, 2], [2, -1], [3, 3], [4, 0], [5, 1]]


def build(normalize):
    crv = BSpline.Curve(normalize_kv=normalize)
    crv.degree = 2
    crv.ctrlpts = CP
    crv.knotvector = [SCALE * k for k in KV01]
    crv.sample_size = 11
    return crv


def prm(normalize, u):
    return u if normalize else SCALE * u


problems = []

# 1. splitting at u = 0.6: the first piece must end at C(0.6)
ends = []
for normalize in (True, False):
    crv = build(normalize)
    target = crv.evaluate_single(prm(normalize, 0.6))
    with contextlib.redirect_stdout(io.StringIO()):
        left, right = operations.split_curve(crv, prm(normalize, 0.6))
    ends.append((target, left.ctrlpts[-1]))
for (target, end), name in zip(ends, ("normalised", "kept on [0, 1e-6]")):
    if max(abs(a - b) for a, b in zip(target, end)) > 1e-9:
        problems.append("split_curve at 0.6 (%s): first piece ends at %r instead of C(0.6) = %r" % (name, end, target))

# 2. knot insertion at u = 0.6
kvs = []
for normalize in (True, False):
    crv = build(normalize)
    with contextlib.redirect_stdout(io.StringIO()):
        operations.insert_knot(crv, [prm(normalize, 0.6)], [1])
    kvs.append([round(k / (1.0 if normalize else SCALE), 9) for k in crv.knotvector])
if kvs[0] != kvs[1]:
    problems.append("insert_knot at 0.6: knots %r when normalised, %r (mapped back) when kept on [0, 1e-6]" % (kvs[0], kvs[1]))

# 3. evaluation of a sub-range
cnt = []
for normalize in (True, False):
    crv = build(normalize)
    crv.evaluate(start=prm(normalize, 0.2), stop=prm(normalize, 0.25))
    cnt.append(len(crv.evalpts))
if cnt[0] != cnt[1]:
    problems.append("evaluate(start=0.2, stop=0.25): %d points when normalised, %d when kept on [0, 1e-6]" % tuple(cnt))

if problems:
    print("DEFECT: " + "; ".join(problems))
    sys.exit(1)
sys.exit(0)
