"""find_span_binsearch assigns every parameter within 1e-5 * (knot range) of the end of the domain to the last knot span,
also when that parameter belongs to the previous span (last span shorter than the tolerance).  The curve is then evaluated
with the polynomial piece of the wrong span, find_span_linear is not affected.

Degree-1 curve, knot vector [0, 0, 0.5, 0.999995, 1, 1]: u = 0.999992 lies in [0.5, 0.999995)."""
import sys
from fractions import Fraction as F
from geomdl import BSpline, helpers

KV = [0, 0, 0.5, 0.999995, 1, 1]
CP = [[0.0, 0.0], [1.0, 0.0], [1.0, 1.0], [5.0, 1.0]]
U = 0.999992


def build(span_func):
    crv = BSpline.Curve(find_span_func=span_func)
    crv.degree = 1
    crv.ctrlpts = CP
    crv.knotvector = KV
    return crv


# exact reference: linear interpolation between CP[1] and CP[2] on [0.5, 0.999995)
t = (F(U) - F(KV[2])) / (F(KV[3]) - F(KV[2]))
exact = [float(F(a) + t * (F(b) - F(a))) for a, b in zip(CP[1], CP[2])]

lin = build(helpers.find_span_linear).evaluate_single(U)
bs = build(helpers.find_span_binsearch).evaluate_single(U)
err_lin = max(abs(a - b) for a, b in zip(lin, exact))
err_bs = max(abs(a - b) for a, b in zip(bs, exact))
if err_lin > 1e-9:
    print("unexpected: linear span search is off by %g" % err_lin)
    sys.exit(1)
if err_bs > 1e-9:
    print("DEFECT: C(%r) = %r with find_span_linear (exact %r) but %r with find_span_binsearch (spans %d vs %d)"
          % (U, lin, exact, bs, helpers.find_span_linear(1, KV, 4, U), helpers.find_span_binsearch(1, KV, 4, U)))
    sys.exit(1)
sys.exit(0)
