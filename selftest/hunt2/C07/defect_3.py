"""split_curve / split_surface_* / decompose_* treat two DISTINCT knots which are closer than 1e-7 (the absolute
tolerance of helpers.find_multiplicity) as one knot of higher multiplicity, whereas the span search and the evaluators
compare knots exactly. The pieces are then sliced with the wrong number of knot insertions: they deviate O(1) from the
curve, or an exception is raised."""
import sys
from geomdl import BSpline, operations


def dist(a, b):
    return max(abs(x - y) for x, y in zip(a, b))


def deviation(crv, piece, lo, hi):
    a, b = piece.domain
    return max(dist(piece.evaluate_single(a + (b - a) * t), crv.evaluate_single(lo + (hi - lo) * t))
               for t in (0.0, 0.2, 0.5, 0.8, 1.0))


msgs = []

# (a) a knot written once as 0.3 and once as 0.1 + 0.2 = 0.30000000000000004: two simple knots, one ulp apart
crv = BSpline.Curve()
crv.degree = 3
crv.ctrlpts = [[0, 0], [1, 3], [2, -1], [4, 4], [5, 0], [7, 2], [8, -3]]
crv.knotvector = [0, 0, 0, 0, 0.1, 0.3, 0.1 + 0.2, 1, 1, 1, 1]
before = (list(crv.knotvector), [list(p) for p in crv.ctrlpts])
try:
    c1, c2 = operations.split_curve(crv, 0.3)
    d = max(deviation(crv, c1, 0.0, 0.3), deviation(crv, c2, 0.3, 1.0))
    if d > 1e-6:
        msgs.append("split_curve(0.3): pieces deviate %.3g from the curve" % d)
except Exception as e:
    msgs.append("split_curve(0.3) raised %s" % e)
try:
    pieces = operations.decompose_curve(crv)
    if len(pieces) not in (3, 4):
        msgs.append("decompose_curve: %d pieces" % len(pieces))
except Exception as e:
    msgs.append("decompose_curve raised %s" % e)

# (b) knots 5e-8 apart on [0, 1] (a short but perfectly representable span)
crv = BSpline.Curve()
crv.degree = 2
crv.ctrlpts = [[0, 0], [1, 3], [2, -1], [4, 4], [5, 0], [7, 2]]
crv.knotvector = [0, 0, 0, 0.25, 0.5, 0.50000005, 1, 1, 1]
try:
    c1, c2 = operations.split_curve(crv, 0.5)
    d = max(deviation(crv, c1, 0.0, 0.5), deviation(crv, c2, 0.5, 1.0))
    if d > 1e-5:
        msgs.append("split_curve(0.5) with a knot at 0.50000005: pieces deviate %.3g" % d)
except Exception as e:
    msgs.append("split_curve(0.5) with a knot at 0.50000005 raised %s" % e)

# (c) history: the library itself produces such knot vectors. Arc-length style parametrisation on [0, 1000]
crv = BSpline.Curve(normalize_kv=False)
crv.degree = 2
crv.ctrlpts = [[0, 0], [1, 3], [2, -1], [4, 4], [5, 0], [7, 2]]
crv.knotvector = [0, 0, 0, 250, 500, 750, 1000, 1000, 1000]
first, _ = operations.split_curve(crv, 500.00001)      # 1e-5 behind the knot 500: first piece has knots 1e-8 apart
kv = list(first.knotvector)
breaks = sorted(set(kv[first.degree:len(kv) - first.degree]))
spans = list(zip(breaks[:-1], breaks[1:]))     # the non-empty knot spans of the piece (3, the last one 2e-8 long)
try:
    pieces = operations.decompose_curve(first)
    if len(pieces) != len(spans):
        msgs.append("split + decompose: %d pieces for %d knot spans" % (len(pieces), len(spans)))
    else:
        d = max(deviation(first, pc, lo, hi) for pc, (lo, hi) in zip(pieces, spans))
        if d > 1e-6:
            msgs.append("split + decompose: pieces deviate %.3g" % d)
except Exception as e:
    msgs.append("decompose_curve(split_curve(crv, 500.00001)[0]) raised %s" % e)

if msgs:
    print("DEFECT: " + "; ".join(msgs))
    sys.exit(1)
sys.exit(0)
