"""Splitting a shape created with the documented ``precision=`` option: the knot is inserted into a deep copy whose
knot vector setter rounds the new knot to ``precision`` decimals AFTER the control points were computed for the
unrounded parameter. The pieces get the rounded knot but the unrounded control points: they do not reproduce the curve
(error ~ |C'| * 10**-precision, larger than 10**-precision), and a parameter that rounds onto an existing knot / the
domain end gives a malformed piece or a ZeroDivisionError."""
import sys
from geomdl import BSpline, operations
from geomdl.exceptions import GeomdlException


def dist(a, b):
    return max(abs(x - y) for x, y in zip(a, b))


def make(prec):
    c = BSpline.Curve(precision=prec)
    c.degree = 2
    c.ctrlpts = [[0, 0], [1, 3], [2, -1], [4, 4], [5, 0], [7, 2]]
    c.knotvector = [0, 0, 0, 0.25, 0.5, 0.75, 1, 1, 1]
    return c


msgs = []
for prec in (3, 6):
    crv = make(prec)
    u = 1.0 / 3.0
    c1, c2 = operations.split_curve(crv, u)
    # the parameter at which the pieces were cut, read back from the first piece: its interior knot is 0.25 / s
    s = 0.25 / c1.knotvector[3]
    if abs(s - u) > 0.5000001 * 10 ** -prec:
        msgs.append("precision=%d: split at %.9f instead of %.9f" % (prec, s, u))
    d = 0.0
    for t in (0.0, 0.25, 0.5, 0.75, 1.0):
        d = max(d, dist(c1.evaluate_single(t), crv.evaluate_single(s * t)),
                dist(c2.evaluate_single(t), crv.evaluate_single(s + (1.0 - s) * t)))
    if d > 1e-9:
        msgs.append("precision=%d: pieces cut at %.9f deviate %.3g from the curve" % (prec, s, d))

crv = make(3)
try:
    operations.split_curve(crv, 0.9996)       # interior; 0.9996 is 1.000 with 3 decimals
except GeomdlException:
    pass                                      # a clean rejection would be acceptable
except ZeroDivisionError as e:
    msgs.append("precision=3: split_curve(0.9996) raised ZeroDivisionError")

if msgs:
    print("DEFECT: " + "; ".join(msgs))
    sys.exit(1)
sys.exit(0)
