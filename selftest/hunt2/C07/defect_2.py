"""decompose_curve / decompose_surface raise 'Cannot split from the domain edge' for a valid unclamped knot vector in
which the knot value of a domain end is repeated inside U[p+1:-(p+1)] (e.g. a double knot at the start of the domain)."""
import sys
from geomdl import BSpline, operations


def dist(a, b):
    return max(abs(x - y) for x, y in zip(a, b))


msgs = []

# degree 2, double knots at both ends of the domain [1, 4]; the curve evaluates fine on [1, 4]: 3 non-empty spans
crv = BSpline.Curve(normalize_kv=False)
crv.degree = 2
crv.ctrlpts = [[0, 0], [1, 2], [3, 3], [5, 1], [6, -2], [4, -4], [2, -5]]
crv.knotvector = [0, 0, 1, 1, 2, 3, 4, 4, 5, 5]
assert tuple(crv.domain) == (1, 4)
spans = [(1, 2), (2, 3), (3, 4)]
try:
    pieces = operations.decompose_curve(crv)
except Exception as e:
    msgs.append("decompose_curve raised %s: %s" % (type(e).__name__, e))
else:
    if len(pieces) != len(spans):
        msgs.append("curve: %d pieces for %d knot spans" % (len(pieces), len(spans)))
    else:
        for idx, (pc, (lo, hi)) in enumerate(zip(pieces, spans)):
            a, b = pc.domain
            for t in (0.0, 0.3, 0.7, 1.0):
                if dist(pc.evaluate_single(a + (b - a) * t), crv.evaluate_single(lo + (hi - lo) * t)) > 1e-9:
                    msgs.append("curve piece %d deviates from the curve on %s" % (idx, (lo, hi)))
                    break

srf = BSpline.Surface(normalize_kv=False)
srf.degree_u, srf.degree_v = 1, 2
srf.set_ctrlpts([[float(i), float(j), float((i + j * j) % 3)] for i in range(2) for j in range(7)], 2, 7)
srf.knotvector_u = [0, 0, 1, 1]
srf.knotvector_v = [0, 0, 1, 1, 2, 3, 4, 4, 5, 5]
try:
    spieces = operations.decompose_surface(srf)
except Exception as e:
    msgs.append("decompose_surface raised %s: %s" % (type(e).__name__, e))
else:
    if len(spieces) != 3:
        msgs.append("surface: %d pieces for 3 knot spans" % len(spieces))

if msgs:
    print("DEFECT: " + "; ".join(msgs[:3]))
    sys.exit(1)
sys.exit(0)
