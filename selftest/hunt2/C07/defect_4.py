"""The tolerance with which split_curve / split_surface_* snap the split parameter to an existing knot (and reject it
as a domain end) is the ABSOLUTE 1e-7 of helpers.find_multiplicity. On a shape kept on a short knot range
(normalize_kv=False) an interior parameter far from any knot (5 % of the domain) is moved to the neighbouring knot, so
the pieces do not meet at the requested parameter, or the split is rejected as 'domain edge'."""
import sys
from geomdl import BSpline, operations


def dist(a, b):
    return max(abs(x - y) for x, y in zip(a, b))


msgs = []
crv = BSpline.Curve(normalize_kv=False)
crv.degree = 2
crv.ctrlpts = [[0, 0], [1, 3], [2, -1], [4, 4], [5, 0], [7, 2]]
crv.knotvector = [0, 0, 0, 2.5e-7, 5e-7, 7.5e-7, 1e-6, 1e-6, 1e-6]     # e.g. seconds, on a microsecond

u = 3e-7    # interior, 20 % of a knot span (5 % of the domain) away from the closest knot
c1, c2 = operations.split_curve(crv, u)
target = crv.evaluate_single(u)
d = max(dist(c1.evaluate_single(c1.domain[1]), target), dist(c2.evaluate_single(c2.domain[0]), target))
if d > 1e-9:
    msgs.append("split_curve(%g): the pieces meet %.3g away from C(%g) (they meet at C(2.5e-7))" % (u, d, u))

u = 6e-8    # interior: 6 % of the domain away from its start
try:
    c1, c2 = operations.split_curve(crv, u)
    target = crv.evaluate_single(u)
    d = max(dist(c1.evaluate_single(c1.domain[1]), target), dist(c2.evaluate_single(c2.domain[0]), target))
    if d > 1e-9:
        msgs.append("split_curve(%g): junction %.3g away" % (u, d))
except Exception as e:
    msgs.append("split_curve(%g) on the domain [0, 1e-6] raised: %s" % (u, e))

# the same curve on [0, 1] behaves
ref = BSpline.Curve()
ref.degree = 2
ref.ctrlpts = crv.ctrlpts
ref.knotvector = [0, 0, 0, 0.25, 0.5, 0.75, 1, 1, 1]
r1, r2 = operations.split_curve(ref, 0.3)
assert dist(r1.evaluate_single(1.0), ref.evaluate_single(0.3)) < 1e-12

# surface, v direction
srf = BSpline.Surface(normalize_kv=False)
srf.degree_u, srf.degree_v = 1, 2
srf.set_ctrlpts([[float(i), float(j), float((i + j * j) % 3)] for i in range(2) for j in range(6)], 2, 6)
srf.knotvector_u = [0, 0, 1, 1]
srf.knotvector_v = [0, 0, 0, 2.5e-7, 5e-7, 7.5e-7, 1e-6, 1e-6, 1e-6]
s1, s2 = operations.split_surface_v(srf, 3e-7)
target = srf.evaluate_single((0.5, 3e-7))
d = dist(s1.evaluate_single((0.5, s1.domain[1][1])), target)
if d > 1e-9:
    msgs.append("split_surface_v(3e-7): the pieces meet %.3g away from S(0.5, 3e-7)" % d)

if msgs:
    print("DEFECT: " + "; ".join(msgs))
    sys.exit(1)
sys.exit(0)
