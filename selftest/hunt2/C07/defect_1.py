"""decompose_curve / decompose_surface on an unclamped (e.g. uniform, periodic-style) knot vector return first and last
pieces which are not Bezier pieces: they keep the unclamped end knots, so their control points are not the Bezier
control points of the segment (the piece does not even interpolate its own end control points)."""
import sys
from math import comb
from geomdl import BSpline, operations


def bezier_point(ctrlpts, t):
    p = len(ctrlpts) - 1
    return [sum(comb(p, i) * (1 - t) ** (p - i) * t ** i * cp[d] for i, cp in enumerate(ctrlpts))
            for d in range(len(ctrlpts[0]))]


def dist(a, b):
    return max(abs(x - y) for x, y in zip(a, b))


msgs = []

# uniform quadratic B-spline curve, the usual way of writing a periodic curve; domain [2, 6] of [0, 8] -> 4 spans
crv = BSpline.Curve(normalize_kv=False)
crv.degree = 2
crv.ctrlpts = [[0, 0], [1, 2], [3, 3], [5, 1], [6, -2], [4, -4]]
crv.knotvector = [0, 1, 2, 3, 4, 5, 6, 7, 8]
spans = [(2, 3), (3, 4), (4, 5), (5, 6)]
pieces = operations.decompose_curve(crv)
if len(pieces) != len(spans):
    msgs.append("curve: %d pieces for %d knot spans" % (len(pieces), len(spans)))
else:
    for idx, (pc, (lo, hi)) in enumerate(zip(pieces, spans)):
        p = pc.degree
        kv = list(pc.knotvector)
        if len(pc.ctrlpts) != p + 1 or len(set(kv[:p + 1])) != 1 or len(set(kv[p + 1:])) != 1:
            msgs.append("curve piece %d is not a Bezier curve: knot vector %s" % (idx, kv))
        for t in (0.0, 0.25, 0.5, 1.0):
            if dist(bezier_point(pc.ctrlpts, t), crv.evaluate_single(lo + (hi - lo) * t)) > 1e-9:
                msgs.append("curve piece %d: its control points are not the Bezier points of span %s" % (idx, (lo, hi)))
                break

# the same for a surface (uniform in u, clamped in v)
srf = BSpline.Surface(normalize_kv=False)
srf.degree_u, srf.degree_v = 2, 1
srf.set_ctrlpts([[float(i), float(j), float((i * i + 3 * j) % 4)] for i in range(5) for j in range(2)], 5, 2)
srf.knotvector_u = [0, 1, 2, 3, 4, 5, 6, 7]
srf.knotvector_v = [0, 0, 1, 1]
spieces = operations.decompose_surface(srf)
if len(spieces) != 3:
    msgs.append("surface: %d pieces for 3 knot spans" % len(spieces))
else:
    for idx, sp in enumerate(spieces):
        kv = list(sp.knotvector_u)
        if sp.ctrlpts_size_u != 3 or len(set(kv[:3])) != 1 or len(set(kv[3:])) != 1:
            msgs.append("surface piece %d is not a Bezier patch: knot vector u %s" % (idx, kv))
        # a Bezier patch interpolates its corner control points
        if dist(sp.ctrlpts[0], srf.evaluate_single((2.0 + idx, 0.0))) > 1e-9:
            msgs.append("surface piece %d: first control point is not the corner of the patch" % idx)

if msgs:
    print("DEFECT: " + "; ".join(msgs[:3]) + (" (+%d more)" % (len(msgs) - 3) if len(msgs) > 3 else ""))
    sys.exit(1)
sys.exit(0)
