"""C01 / linalg.linspace collapses every interval shorter than 1e-7 (absolute) to one sample:
the sampled grid of a shape whose (un-normalised) domain is that short has 1 point instead of sample_size points
and never reaches the end of the domain; evaluate(start=a, stop=b) ignores b when b - a <= 1e-7."""
import sys
from geomdl import BSpline, NURBS, linalg

msgs = []

# (a) curve on the domain [0, 5e-8] (e.g. a time parameter in seconds, 50 ns long), normalize_kv=False
c = BSpline.Curve(normalize_kv=False)
c.degree = 2
c.ctrlpts = [[0.0, 0.0], [1.0, 1.0], [2.0, 0.0]]
c.knotvector = [0.0, 0.0, 0.0, 5e-8, 5e-8, 5e-8]
c.sample_size = 5
pts = c.evalpts
if len(pts) != c.sample_size:
    msgs.append("curve on [0, 5e-8]: %d evaluated points for sample_size %d" % (len(pts), c.sample_size))
elif pts[-1] != c.evaluate_single(5e-8):
    msgs.append("curve on [0, 5e-8]: last evaluated point is not the end of the domain")

# (b) rational surface whose u-domain is [2.0, 2.0 + 8e-8]
s = NURBS.Surface(normalize_kv=False)
s.degree_u, s.degree_v = 1, 1
s.set_ctrlpts([[0, 0, 0, 1], [0, 1, 0, 1], [1, 0, 1, 1], [1, 1, 1, 1]], 2, 2)
s.knotvector_u = [2.0, 2.0, 2.0 + 8e-8, 2.0 + 8e-8]
s.knotvector_v = [0.0, 0.0, 1.0, 1.0]
s.sample_size_u, s.sample_size_v = 3, 4
pts = s.evalpts
if len(pts) != 12:
    msgs.append("surface with u in [2, 2+8e-8]: %d evaluated points instead of 3 x 4" % len(pts))

# (c) segment evaluation of a normalised curve
c2 = BSpline.Curve()
c2.degree = 2
c2.ctrlpts = [[0.0, 0.0], [1.0e9, 1.0e9], [2.0e9, 0.0]]
c2.knotvector = [0, 0, 0, 1, 1, 1]
c2.sample_size = 3
c2.evaluate(start=0.5, stop=0.50000005)
if len(c2.evalpts) != 3 or c2.evalpts[-1] != c2.evaluate_single(0.50000005):
    msgs.append("evaluate(start=0.5, stop=0.50000005) returned %d point(s), the stop parameter is not evaluated"
                % len(c2.evalpts))

# (d) the helper itself
if len(linalg.linspace(0.0, 1e-8, 5)) != 5:
    msgs.append("linspace(0.0, 1e-8, 5) returns %d value(s)" % len(linalg.linspace(0.0, 1e-8, 5)))

if msgs:
    print("DEFECT 1 present: " + "; ".join(msgs))
    sys.exit(1)
sys.exit(0)
