"""C01 / helpers.find_span_binsearch returns the last knot span for every parameter closer than 1e-5 * (U[-1] - U[0]) to
the end of the domain, also when the parameter lies in an earlier span. Shapes created with
find_span_func=helpers.find_span_binsearch then evaluate to points which are not on the curve."""
import sys
from fractions import Fraction as F
from geomdl import BSpline, helpers


def cox_de_boor(i, p, U, u):
    if p == 0:
        return F(1) if U[i] <= u < U[i + 1] else F(0)
    a = F(0) if U[i + p] == U[i] else (u - U[i]) / (U[i + p] - U[i]) * cox_de_boor(i, p - 1, U, u)
    b = F(0) if U[i + p + 1] == U[i + 1] else (U[i + p + 1] - u) / (U[i + p + 1] - U[i + 1]) * cox_de_boor(i + 1, p - 1, U, u)
    return a + b


def reference(crv, u):
    U = [F(k) for k in crv.knotvector]
    N = [cox_de_boor(i, crv.degree, U, F(u)) for i in range(len(crv.ctrlpts))]
    return [float(sum(n * F(pt[d]) for n, pt in zip(N, crv.ctrlpts))) for d in range(crv.dimension)]


def build(kv, cpts, **kw):
    crv = BSpline.Curve(find_span_func=helpers.find_span_binsearch, **kw)
    crv.degree = 2
    crv.ctrlpts = cpts
    crv.knotvector = kv
    return crv


msgs = []
# (a) unclamped knot vector, outer knots far away; the last span [0.99, 1] is 1% of the domain [0, 1]
crv = build([-1000, -500, 0, 0.5, 0.99, 1, 500, 1000], [[0, 0], [1, 1], [2, 0], [3, 1], [4, 0]], normalize_kv=False)
u = 0.985
got, exp = crv.evaluate_single(u), reference(crv, u)
if max(abs(g - e) for g, e in zip(got, exp)) > 1e-9:
    msgs.append("unclamped curve at u=%r: %r instead of %r" % (u, got, exp))
got = crv.derivatives(u, 0)[0]
if max(abs(g - e) for g, e in zip(got, exp)) > 1e-9:
    msgs.append("unclamped curve, derivatives(u, 0)[0] at u=%r: %r instead of %r" % (u, got, exp))

# (b) clamped, normalised knot vector with a short last span
crv = build([0, 0, 0, 0.999995, 1, 1, 1], [[0, 0], [1, 1], [2, 0], [3, 1]])
u = 0.999992
got, exp = crv.evaluate_single(u), reference(crv, u)
if max(abs(g - e) for g, e in zip(got, exp)) > 1e-9:
    msgs.append("clamped curve at u=%r: %r instead of %r" % (u, got, exp))

# (c) the span itself
sp = helpers.find_span_binsearch(2, [0, 0, 0, 0.999995, 1, 1, 1], 4, 0.999992)
if sp != 2:
    msgs.append("find_span_binsearch gives span %d for u=0.999992 in [U[2], U[3]) = [0, 0.999995)" % sp)

if msgs:
    print("DEFECT 2 present: " + "; ".join(msgs))
    sys.exit(1)
sys.exit(0)
