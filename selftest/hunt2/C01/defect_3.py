"""C01 (object histories / kept lists): the list returned by container.evalpts is the container's cache itself and
AbstractContainer.reset() empties it in place; changing delta / sample_size or adding an element afterwards wipes (and
later refills with other points) the list the caller still holds. Single shapes hand out a list which stays intact."""
import sys
from geomdl import BSpline, multi


def curve(z):
    c = BSpline.Curve()
    c.degree = 2
    c.ctrlpts = [[0.0, 0.0, z], [1.0, 1.0, z], [2.0, 0.0, z]]
    c.knotvector = [0, 0, 0, 1, 1, 1]
    return c


msgs = []
c1 = curve(0.0)
c1.sample_size = 3
kept = c1.evalpts
snapshot = [list(p) for p in kept]
c1.sample_size = 5
if kept != snapshot:
    msgs.append("curve: kept evalpts changed")  # reference behaviour: this does not happen

cont = multi.CurveContainer(curve(0.0), curve(1.0))
cont.sample_size = 3
kept = cont.evalpts
snapshot = [list(p) for p in kept]
assert len(snapshot) == 6
cont.sample_size = 4
if kept != snapshot:
    msgs.append("container.sample_size = 4 turned the previously returned evalpts list (6 points) into %d points"
                % len(kept))
_ = cont.evalpts
if kept != snapshot:
    msgs.append("after re-reading container.evalpts the kept list holds %d points of the new sampling" % len(kept))

if msgs:
    print("DEFECT 3 present: " + "; ".join(msgs))
    sys.exit(1)
sys.exit(0)
