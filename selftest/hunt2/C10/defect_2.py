"""C10 (borderline): an empty container cannot be translated or rotated.

scale() of an empty container returns a (new / the same) empty container, but translate()
rejects every vector ("must have 0 components", and [] is rejected as "not a list") and
rotate() raises IndexError.  Exits 1 while present, 0 once the three maps are no-ops.
"""
import sys
from geomdl import multi, operations

msgs = []
for cls in (multi.CurveContainer, multi.SurfaceContainer, multi.VolumeContainer):
    for name, arg in (("translate", [1.0, 0.0, 0.0]), ("rotate", 30.0), ("scale", 2.0)):
        for inplace in (False, True):
            cont = cls()
            try:
                res = getattr(operations, name)(cont, arg, inplace=inplace)
                if (res is cont) != inplace or len(res) != 0:
                    msgs.append("%s(%s): wrong result object" % (name, cls.__name__))
            except Exception as e:
                msgs.append("%s(%s()) raises %s" % (name, cls.__name__, type(e).__name__))
if msgs:
    print("DEFECT empty container: " + "; ".join(sorted(set(msgs))[:3]))
    sys.exit(1)
print("ok")
sys.exit(0)
