"""C10: a container that holds the same shape object twice is transformed twice.

translate / rotate / scale loop over the container entries and re-apply the map to the
same underlying object for every entry, so every evaluated point of that shape moves by
2*vec (resp. 2*angle, multiplier**2) instead of vec (angle, multiplier).
Exits 1 while the defect is present, 0 once fixed.
"""
import sys
from geomdl import BSpline, multi, operations, knotvector


def curve():
    c = BSpline.Curve()
    c.degree = 2
    c.ctrlpts = [[1.0, 0.0, 0.0], [2.0, 1.0, 0.0], [3.0, 0.0, 1.0], [4.0, 2.0, 0.0]]
    c.knotvector = knotvector.generate(2, 4)
    return c


def close(a, b):
    return all(abs(x - y) <= 1e-12 for x, y in zip(a, b))


msgs = []
t = 0.4
for inplace in (False, True):
    # translate
    c = curve(); p = c.evaluate_single(t)
    cont = multi.CurveContainer(c, c)          # same object listed twice
    r = operations.translate(cont, [1.0, 0.0, 0.0], inplace=inplace)
    for e in r:
        if not close(e.evaluate_single(t), [p[0] + 1.0, p[1], p[2]]):
            msgs.append("translate(inplace=%s): %r moved to %r" % (inplace, p, e.evaluate_single(t)))
            break
    # scale
    c = curve(); p = c.evaluate_single(t)
    cont = multi.CurveContainer(c, c)
    r = operations.scale(cont, 2.0, inplace=inplace)
    for e in r:
        if not close(e.evaluate_single(t), [2.0 * x for x in p]):
            msgs.append("scale(inplace=%s): %r moved to %r" % (inplace, p, e.evaluate_single(t)))
            break
    # rotate by 90 degrees about z through the start point (1, 0, 0)
    c = curve(); p = c.evaluate_single(t); o = c.evaluate_single(0.0)
    cont = multi.CurveContainer(c, c)
    r = operations.rotate(cont, 90, axis=2, inplace=inplace)
    exp = [o[0] - (p[1] - o[1]), o[1] + (p[0] - o[0]), p[2]]
    for e in r:
        if not close(e.evaluate_single(t), exp):
            msgs.append("rotate(inplace=%s): expected %r got %r" % (inplace, exp, e.evaluate_single(t)))
            break

if msgs:
    print("DEFECT container with a repeated element is transformed once per entry: " + "; ".join(msgs[:2]))
    sys.exit(1)
print("ok")
sys.exit(0)
