"""C04: inserting the end-of-domain knot of an unclamped curve/surface changes the shape.

Unclamped (e.g. uniform / periodic-style) knot vector, degree 2, 4 control points: domain is [U[2], U[4]] = [2, 4].
U[4] = 4 has multiplicity 1, hence it can be inserted up to 2 times (this is how such a curve gets clamped).
"""
import sys
from geomdl import BSpline, operations

def build():
    c = BSpline.Curve(normalize_kv=False)
    c.degree = 2
    c.ctrlpts = [[0.0, 0.0], [1.0, 2.0], [3.0, 2.0], [4.0, 0.0]]
    c.knotvector = [0.0, 1.0, 2.0, 3.0, 4.0, 5.0, 6.0]
    return c

ts = [2.0, 2.5, 3.0, 3.5, 4.0]
worst = 0.0
for u, label in ((2.0, "domain start"), (4.0, "domain end")):
    c = build()
    before = [c.evaluate_single(t) for t in ts]
    operations.insert_knot(c, [u], [1])
    after = [c.evaluate_single(t) for t in ts]
    dev = max(abs(a - b) for p, q in zip(before, after) for a, b in zip(p, q))
    if label == "domain end":
        worst = dev
    kv_ok = c.knotvector == sorted([0.0, 1.0, 2.0, 3.0, 4.0, 5.0, 6.0] + [u])

# surface, v-direction
s = BSpline.Surface(normalize_kv=False)
s.degree_u = 1
s.degree_v = 2
s.set_ctrlpts([[0, 0, 0], [0, 1, 1], [0, 2, 1], [0, 3, 0], [1, 0, 0], [1, 1, 2], [1, 2, 2], [1, 3, 0]], 2, 4)
s.knotvector_u = [0, 0, 1, 1]
s.knotvector_v = [0, 1, 2, 3, 4, 5, 6]
prm = [(a, b) for a in (0.0, 0.5, 1.0) for b in ts]
before = [s.evaluate_single(p) for p in prm]
operations.insert_knot(s, [None, 4.0], [0, 1])
after = [s.evaluate_single(p) for p in prm]
dev_s = max(abs(a - b) for p, q in zip(before, after) for a, b in zip(p, q))

if worst > 1e-9 or dev_s > 1e-9:
    print("DEFECT: inserting the end-of-domain knot of an unclamped knot vector moves the shape: "
          "curve deviation %.3g, surface deviation %.3g" % (worst, dev_s))
    sys.exit(1)
sys.exit(0)
