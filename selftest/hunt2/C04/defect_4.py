"""C04 (helper route): helpers.knot_insertion fails for control points with integer coordinates or given as tuples.

helpers.knot_insertion decides between "flat points" and "rows of points" (surface / volume form) with
isinstance(temp[i][0], float): a point with integer coordinates is taken for a row of points, and the points are
updated by slice assignment which a tuple does not support. The shape classes hide it (they store lists of floats).
"""
import sys
from geomdl import helpers

kv = [0, 0, 0, 1, 1, 1]
expected = [[0.0, 0.0], [0.5, 0.5], [1.5, 0.5], [2.0, 0.0]]
msgs = []
for label, pts in (("integer coordinates", [[0, 0], [1, 1], [2, 0]]),
                   ("tuple points", [(0.0, 0.0), (1.0, 1.0), (2.0, 0.0)]),
                   ("rows of integer points", [[[0, 0], [0, 4]], [[1, 1], [1, 5]], [[2, 0], [2, 4]]])):
    try:
        res = helpers.knot_insertion(2, kv, pts, 0.5)
    except TypeError as e:
        msgs.append("%s: TypeError(%s)" % (label, e))
        continue
    if label != "rows of integer points":
        if [list(map(float, p)) for p in res] != expected:
            msgs.append("%s: wrong result %s" % (label, res))
if msgs:
    print("DEFECT: helpers.knot_insertion - " + "; ".join(msgs))
    sys.exit(1)
sys.exit(0)
