"""C04: the knot multiplicity tolerance of knot insertion is absolute (1e-7), whatever the range of the knot vector.

On a curve whose (not normalised) knot vector spans a small range, distinct knots / parameters are taken for the same
knot:
 (a) range 3e-7: a legitimate insertion (multiplicity 0 or 1, degree 2) is rejected,
 (b) range 1e-6: the requested parameter 4.2e-7 is silently replaced by the existing knot 5e-7,
 (c) range 1e-6: the multiplicity of the knot 4e-7 is counted as 2 because of the neighbouring knot 4.5e-7 and the
     shape changes.
The same curves scaled to [0, 1] (or built with normalize_kv=True) behave correctly.
"""
import sys
from geomdl import BSpline, operations
from geomdl.exceptions import GeomdlException

def curve(p, kv, sc):
    c = BSpline.Curve(normalize_kv=False)
    c.degree = p
    n = len(kv) - p - 1
    c.ctrlpts = [[float(i), float((i * i * 7) % 5)] for i in range(n)]
    c.knotvector = [sc * k for k in kv]
    return c

msgs = []
# (a)
sc = 1e-7
for u in (1.5 * sc, 1.0 * sc):
    c = curve(2, [0, 0, 0, 1, 2, 3, 3, 3], sc)
    try:
        operations.insert_knot(c, [u], [1])
    except GeomdlException:
        msgs.append("insertion of %g into a knot vector on [0, 3e-7] rejected" % u)
        break
# (b)
sc = 1e-6
c = curve(3, [0, 0, 0, 0, 0.25, 0.5, 0.75, 1, 1, 1, 1], sc)
operations.insert_knot(c, [0.42 * sc], [1])
if 0.42 * sc not in c.knotvector:
    msgs.append("requested knot 4.2e-07 not in the new knot vector %s" % c.knotvector[3:9])
# (c)
c = curve(3, [0, 0, 0, 0, 0.4, 0.45, 1, 1, 1, 1], sc)
ts = [sc * i / 40.0 for i in range(41)]
before = [c.evaluate_single(t) for t in ts]
try:
    operations.insert_knot(c, [0.4 * sc], [1])
    after = [c.evaluate_single(t) for t in ts]
    dev = max(abs(a - b) for p, q in zip(before, after) for a, b in zip(p, q))
    if dev > 1e-9:
        msgs.append("shape moved by %.3g" % dev)
except GeomdlException:
    msgs.append("insertion of 4e-07 (multiplicity 1, degree 3) rejected")

if msgs:
    print("DEFECT: " + "; ".join(msgs))
    sys.exit(1)
sys.exit(0)
