"""C04: with the documented precision= option the inserted knot is rounded in the knot vector only.

The knot vector setters round the (normalised) knots to `precision` decimals, but operations.insert_knot computes the
multiplicity, the span and the new control points with the un-rounded parameter. Hence
 (a) the control points belong to u = 0.123456789 while the stored knot is 0.123457: the shape moves, and
 (b) the caller's own 1/3 is not recognised as the stored knot 0.333333 (multiplicity = degree), the insertion is
     accepted and the knot ends up with multiplicity degree + 1 (and more on every further call).
"""
import sys
from geomdl import BSpline, operations
from geomdl.exceptions import GeomdlException

msgs = []

# (a) shape
c = BSpline.Curve(precision=6)
c.degree = 3
c.ctrlpts = [[0, 0], [100, 300], [200, -100], [300, 400], [500, 0], [600, 200]]
c.knotvector = [0, 0, 0, 0, 1, 2, 3, 3, 3, 3]
ts = [i / 50.0 for i in range(51)]
before = [c.evaluate_single(t) for t in ts]
operations.insert_knot(c, [0.123456789], [2])
after = [c.evaluate_single(t) for t in ts]
dev = max(abs(a - b) for p, q in zip(before, after) for a, b in zip(p, q))
if dev > 1e-9 * 600:
    msgs.append("shape moved by %.3g after insert_knot(0.123456789) on a precision=6 curve" % dev)

# (b) multiplicity
c = BSpline.Curve(precision=6)
c.degree = 3
c.ctrlpts = [[0, 0], [1, 3], [2, -1], [3, 4], [5, 0], [6, 2], [7, 7], [8, 1], [9, 3], [10, 0]]
c.knotvector = [0, 0, 0, 0, 1, 1, 1, 2, 2, 2, 3, 3, 3, 3]   # stored: 0.333333 x3, 0.666667 x3
accepted = True
try:
    operations.insert_knot(c, [1.0 / 3.0], [1])
except GeomdlException:
    accepted = False
mult = max(c.knotvector.count(k) for k in c.knotvector[4:-4])
if accepted and mult > c.degree:
    msgs.append("insert_knot(1/3) accepted on a knot of multiplicity = degree; interior multiplicity is now %d" % mult)

if msgs:
    print("DEFECT: " + "; ".join(msgs))
    sys.exit(1)
sys.exit(0)
