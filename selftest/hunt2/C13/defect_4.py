"""set_ctrlpts ("checks if the data is consistent") accepts a control point list whose length is not
size_u * size_v (* size_w): 12 points given as a 2 x 3 net are silently re-addressed (point (u=1, v=0) becomes the
4th input point) and the views disagree on the number of control points."""
import sys
from geomdl import BSpline, operations

pts = [[float(i), float(j), 0.0] for i in range(3) for j in range(4)]  # a 3 x 4 net
s = BSpline.Surface()
s.degree_u, s.degree_v = 1, 1
try:
    s.set_ctrlpts(pts, 2, 3)  # wrong sizes: 2 * 3 != 12
except Exception:
    sys.exit(0)
n2d = sum(len(row) for row in s.ctrlpts2d)
v = BSpline.Volume()
v.degree = (1, 1, 1)
vol_ok = False
try:
    v.set_ctrlpts(pts + pts, 2, 2, 2)  # 24 points for a 2 x 2 x 2 net
except Exception:
    vol_ok = True
print("DEFECT: set_ctrlpts accepted %d points for a 2 x 3 net (ctrlpts has %d points, ctrlpts2d has %d); "
      "Volume.set_ctrlpts rejected 24 points for a 2 x 2 x 2 net: %s" % (len(pts), len(s.ctrlpts), n2d, vol_ok))
sys.exit(1)
