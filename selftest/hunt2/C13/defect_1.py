"""sweep_vector silently drops the vector components beyond the dimension of the shape: a 2-D curve swept along
[0, 0, 5] gives a collapsed surface whose two boundary sections are both the input curve (no translate at all),
whereas operations.translate rejects such a vector."""
import sys
from geomdl import BSpline, sweeping
from geomdl.exceptions import GeomdlException

c = BSpline.Curve()
c.degree = 2
c.ctrlpts = [[0.0, 0.0], [1.0, 2.0], [3.0, 1.0], [4.0, 0.0]]
c.knotvector = [0, 0, 0, 0.5, 1, 1, 1]
vec = [0.0, 0.0, 5.0]
try:
    s = sweeping.sweep_vector(c, vec)
except (GeomdlException, ValueError):
    sys.exit(0)  # rejecting the vector is a sound repair
for t in (0.0, 0.3, 1.0):
    p = c.evaluate_single(t)
    exp = [a + b for a, b in zip(list(p) + [0.0] * (len(vec) - len(p)), vec)]
    far = s.evaluate_single((1.0, t))
    if len(far) != len(exp) or any(abs(a - b) > 1e-12 for a, b in zip(far, exp)):
        print("DEFECT: sweep_vector(2-D curve, [0, 0, 5]) returns a collapsed surface: at t=%s the far section is %s, "
              "the translate of the curve point is %s" % (t, far, exp))
        sys.exit(1)
sys.exit(0)
