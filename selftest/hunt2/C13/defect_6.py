"""exchange.export_txt(volume, two_dimensional=True) writes only the first w-layer of the control points (the flag is
silently ignored for curves, but for volumes the u-v layer with w = 0 is written and the others are dropped)."""
import sys, os, tempfile
from geomdl import BSpline, exchange, knotvector

v = BSpline.Volume()
v.degree = (1, 1, 1)
v.set_ctrlpts([[float(i), float(j), float(k)] for k in range(2) for i in range(2) for j in range(3)], 2, 3, 2)
v.knotvector = [knotvector.generate(1, 2), knotvector.generate(1, 3), knotvector.generate(1, 2)]
fn = os.path.join(tempfile.mkdtemp(), "vol.txt")
try:
    exchange.export_txt(v, fn, two_dimensional=True)
except Exception:
    sys.exit(0)  # rejecting is fine
n = 0
with open(fn) as fp:
    for line in fp:
        line = line.strip()
        if line:
            n += len(line.split(";"))
if n != len(v.ctrlpts):
    print("DEFECT: export_txt(volume, two_dimensional=True) wrote %d of %d control points" % (n, len(v.ctrlpts)))
    sys.exit(1)
sys.exit(0)
