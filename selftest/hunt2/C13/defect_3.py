"""The 2-D grid view (ctrlpts2d) is a second list of rows built once by set_ctrlpts; replacing a control point in the
flat list (surf.ctrlpts[k] = pt) leaves the view stale, so evaluation / curve extraction (flat list) and
transposition / find_ctrlpts (2-D view) address different points for the same (u, v)."""
import sys
from geomdl import BSpline, operations, construct

s = BSpline.Surface()
s.degree_u, s.degree_v = 1, 2
s.set_ctrlpts([[float(i), float(j), 0.0] for i in range(2) for j in range(3)], 2, 3)
s.knotvector_u = [0, 0, 1, 1]
s.knotvector_v = [0, 0, 0, 1, 1, 1]
_ = s.ctrlpts2d                     # read the view
s.ctrlpts[2 + 3 * 1] = [1.0, 2.0, 7.0]   # edit the point (u=1, v=2) in the flat list

flat = s.evaluate_single((1.0, 1.0))                            # corner = control point (1, 2)
view = list(s.ctrlpts2d[1][2])
extr = list(construct.extract_curves(s)['u'][2].ctrlpts[1])
tran = operations.transpose(s).evaluate_single((1.0, 1.0))      # same corner of the transposed surface
fcp = list(operations.find_ctrlpts(s, 1.0, 1.0)[-1][-1])
vals = [flat, view, extr, tran, fcp]
if any(v != vals[0] for v in vals):
    print("DEFECT: after surf.ctrlpts[5] = pt the modules disagree on point (u=1, v=2): evaluate %s, ctrlpts2d %s, "
          "extract_curves %s, transpose %s, find_ctrlpts %s" % tuple(vals))
    sys.exit(1)
sys.exit(0)
