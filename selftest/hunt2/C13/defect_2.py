"""transpose mirrors the trim curves (swaps their coordinates), which flips their orientation; trimming.fix_trim_curves
derives the trim sense ('reversed') from that orientation, so the transposed surface keeps the complement of the region
that the original surface keeps."""
import sys, copy
from geomdl import BSpline, operations, trimming, tessellate, knotvector

def surface():
    s = BSpline.Surface()
    s.degree_u, s.degree_v = 1, 1
    s.set_ctrlpts([[0, 0, 0], [0, 2, 0], [3, 0, 0], [3, 2, 0]], 2, 2)
    s.knotvector_u = [0, 0, 1, 1]
    s.knotvector_v = [0, 0, 1, 1]
    s.sample_size = 21
    s.tessellator = tessellate.TrimTessellate()
    c = BSpline.Curve()
    c.degree = 1
    c.ctrlpts = [[0.2, 0.3], [0.6, 0.3], [0.6, 0.5], [0.2, 0.5], [0.2, 0.3]]  # closed loop in the (u, v) plane
    c.knotvector = knotvector.generate(1, 5)
    c.delta = 0.01
    s.trims = [c]
    return s

def inside_kept(s, swap):
    s.tessellate(force=True)
    for f in s.faces:
        u = sum(v.uv[0] for v in f.vertices) / 3.0
        v = sum(v.uv[1] for v in f.vertices) / 3.0
        if swap:
            u, v = v, u
        if 0.25 < u < 0.55 and 0.35 < v < 0.45:
            return True
    return False

a = surface()
trimming.fix_trim_curves(a)
kept_a = inside_kept(a, False)

b = operations.transpose(surface())
b.tessellator = tessellate.TrimTessellate()
trimming.fix_trim_curves(b)
kept_b = inside_kept(b, True)

if kept_a != kept_b:
    print("DEFECT: region enclosed by the trim loop is %s on the surface but %s on its transpose"
          % ("kept" if kept_a else "removed", "kept" if kept_b else "removed"))
    sys.exit(1)
sys.exit(0)
