"""construct.extract_curves / extract_surfaces / extract_isosurface admit containers of one element by their own
check (len(obj) != 1 -> "Can only operate on single spline ...") but then index the container's `data` tuple like a
dict and raise TypeError."""
import sys
from geomdl import BSpline, multi, construct, knotvector

s = BSpline.Surface()
s.degree_u, s.degree_v = 1, 2
s.set_ctrlpts([[float(i), float(j), float(i * j)] for i in range(2) for j in range(3)], 2, 3)
s.knotvector_u = knotvector.generate(1, 2)
s.knotvector_v = knotvector.generate(2, 3)
v = BSpline.Volume()
v.degree = (1, 1, 1)
v.set_ctrlpts([[float(i), float(j), float(k)] for k in range(2) for i in range(2) for j in range(2)], 2, 2, 2)
v.knotvector = [knotvector.generate(1, 2)] * 3
msgs = []
try:
    cr = construct.extract_curves(multi.SurfaceContainer(s))
    ref = construct.extract_curves(s)
    if [c.ctrlpts for c in cr['u']] != [c.ctrlpts for c in ref['u']]:
        msgs.append("extract_curves differs")
except TypeError as e:
    msgs.append("extract_curves(SurfaceContainer of one): TypeError %s" % e)
try:
    construct.extract_surfaces(multi.VolumeContainer(v))
except TypeError as e:
    msgs.append("extract_surfaces(VolumeContainer of one): TypeError %s" % e)
if msgs:
    print("DEFECT: " + "; ".join(msgs))
    sys.exit(1)
sys.exit(0)
