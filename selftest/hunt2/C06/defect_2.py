"""C06: removing all p + 1 copies of a removable interior knot of multiplicity p + 1.

Two Bezier pieces of one and the same parabola stored as a single degree-2 curve: knot 0.5 has multiplicity 3 and the
junction control point is stored twice.  The curve is a single polynomial, so 0.5 can be removed 3 times without
changing the shape (result: the 3-point Bezier parabola).  Removing it 1 or 2 times works; 3 times raises IndexError.
"""
import sys
from geomdl import BSpline, operations

# parabola with control points A, B, C split at 0.5 (de Casteljau)
A, B, C = [0.0, 0.0], [2.0, 4.0], [4.0, 0.0]
L = [A, [1.0, 2.0], [2.0, 2.0]]
R = [[2.0, 2.0], [3.0, 2.0], C]


def make():
    c = BSpline.Curve()
    c.degree = 2
    c.ctrlpts = [list(p) for p in L + R]
    c.knotvector = [0.0, 0.0, 0.0, 0.5, 0.5, 0.5, 1.0, 1.0, 1.0]
    return c


expected = {
    1: ([0.0, 0.0, 0.0, 0.5, 0.5, 1.0, 1.0, 1.0], [A, [1.0, 2.0], [2.0, 2.0], [3.0, 2.0], C]),
    2: ([0.0, 0.0, 0.0, 0.5, 1.0, 1.0, 1.0], [A, [1.0, 2.0], [3.0, 2.0], C]),
    3: ([0.0, 0.0, 0.0, 1.0, 1.0, 1.0], [A, B, C]),
}
for num in (1, 2, 3):
    c = make()
    try:
        operations.remove_knot(c, [0.5], [num])
    except Exception as e:
        print("DEFECT: remove_knot(0.5, %d) on a multiplicity-3 knot of a degree-2 curve raised %r" % (num, e))
        sys.exit(1)
    kv, cp = expected[num]
    if list(c.knotvector) != kv or len(c.ctrlpts) != len(cp) or \
            max(abs(a - b) for p, q in zip(c.ctrlpts, cp) for a, b in zip(p, q)) > 1e-12:
        print("DEFECT: remove_knot(0.5, %d): kv=%s ctrlpts=%s, expected %s %s" % (num, c.knotvector, c.ctrlpts, kv, cp))
        sys.exit(1)
print("ok")
sys.exit(0)
