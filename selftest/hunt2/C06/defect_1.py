"""C06: removing the (removable) knot at the END of the domain of an unclamped knot vector.

A degree-2 curve on the uniform unclamped knot vector [0..6] (domain [2, 4]) is refined with
operations.refine_knotvector (shape preserving: 2, 3, 4 become double knots and 2.5, 3.5 are added twice).
Removing the added knots again must restore the original curve.  Removing the added copy of the domain-end
knot 4.0 drops the knot 3.5 from the knot vector instead and corrupts the control points.
"""
import sys
from geomdl import BSpline, operations

c = BSpline.Curve(normalize_kv=False)
c.degree = 2
c.ctrlpts = [[0.0, 0.0], [1.0, 2.0], [3.0, 3.0], [5.0, 0.0]]
c.knotvector = [0.0, 1.0, 2.0, 3.0, 4.0, 5.0, 6.0]
P0 = [list(p) for p in c.ctrlpts]
U0 = list(c.knotvector)
ts = [2.0, 2.5, 3.0, 3.25, 3.9, 4.0]
ev0 = [c.evaluate_single(t) for t in ts]

operations.refine_knotvector(c, [1])
U1 = list(c.knotvector)
assert U1 == [0.0, 1.0, 2.0, 2.0, 2.5, 2.5, 3.0, 3.0, 3.5, 3.5, 4.0, 4.0, 5.0, 6.0], U1
ev1 = [c.evaluate_single(t) for t in ts]
assert max(abs(a - b) for p, q in zip(ev0, ev1) for a, b in zip(p, q)) < 1e-12   # refinement is exact

try:
    operations.remove_knot(c, [4.0], [1])     # the added copy of the knot at the end of the domain
    kv_first = list(c.knotvector)
    ev_first = [c.evaluate_single(t) for t in ts]
    dev1 = max(abs(a - b) for p, q in zip(ev0, ev_first) for a, b in zip(p, q))
    if kv_first != U1[:11] + U1[12:] or dev1 > 1e-9:
        print("DEFECT: remove_knot(domain-end knot 4.0, 1) gave kv %s (expected %s), curve deviates by %g"
              % (kv_first, U1[:11] + U1[12:], dev1))
        sys.exit(1)
    for knot, num in ((3.5, 2), (3.0, 1), (2.5, 2), (2.0, 1)):
        operations.remove_knot(c, [knot], [num])
    ev2 = [c.evaluate_single(t) for t in ts]
except Exception as e:
    print("DEFECT: removing the knots added by refine_knotvector raised %r" % (e,))
    sys.exit(1)

exp_first = [0.0, 1.0, 2.0, 2.0, 2.5, 2.5, 3.0, 3.0, 3.5, 3.5, 4.0, 5.0, 6.0]
dev1 = max(abs(a - b) for p, q in zip(ev0, ev_first) for a, b in zip(p, q))
dev2 = max(abs(a - b) for p, q in zip(ev0, ev2) for a, b in zip(p, q))
if kv_first != exp_first or dev1 > 1e-9 or list(c.knotvector) != U0 or dev2 > 1e-9 or \
        max(abs(a - b) for p, q in zip(P0, c.ctrlpts) for a, b in zip(p, q)) > 1e-9:
    print("DEFECT: remove_knot(domain-end knot 4.0, 1) gave kv %s (expected %s), curve deviation %g; after removing "
          "all refined knots kv=%s ctrlpts=%s deviation %g" % (kv_first, exp_first, dev1, list(c.knotvector),
                                                            c.ctrlpts, dev2))
    sys.exit(1)
print("ok")
sys.exit(0)
